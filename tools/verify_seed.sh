#!/bin/bash
# tools/verify_seed.sh <seed-dir>   (dir with patch.diff + demo_test.go or demo/main.go)
# Confirms, in a scratch worktree of /repo: the patch applies and builds, gorm's own
# suites still pass with it, the demonstration FAILS with it and PASSES without it.
# Prints one line per step and a final VERDICT line; removes the worktree.
d="$(readlink -f "$1")"; w="/tmp/vseed-$$"; t="/tmp/vseed-tmp-$$"
export GOFLAGS=-mod=mod GOPROXY=off GOSUMDB=off GOTOOLCHAIN=local TMPDIR="$t"
mkdir -p "$t"
git -C /repo worktree add -q --detach "$w" HEAD || exit 2
cleanup() { git -C /repo worktree remove --force "$w" >/dev/null 2>&1; rm -rf "$t"; }
trap cleanup EXIT
cd "$w"
git apply --whitespace=nowarn "$d/patch.diff" || { echo "VERDICT patch-does-not-apply"; exit 2; }
go build ./... || { echo "VERDICT does-not-build"; exit 2; }
suite_ok=1
go test -vet=off -count=1 ./... > "$t/root.out" 2>&1 || { suite_ok=0; echo "root suite FAILS with the change:"; grep -- "^--- FAIL\|^FAIL" "$t/root.out" | head -5; }
ok=0
for i in 1 2 3; do
  (cd tests && go test -vet=off -count=1 ./... > "$t/tests.out" 2>&1) && { ok=1; break; }
  # only the two timing-sensitive tests may fail
  if grep -- "^--- FAIL" "$t/tests.out" | grep -qv "TestPreparedStmtConcurrentClose\|TestPreparedStmtConcurrentReset"; then break; fi
done
[ $ok = 1 ] || { suite_ok=0; echo "tests suite FAILS with the change:"; grep -- "^--- FAIL\|^panic" "$t/tests.out" | head -5; }
echo "suite_passes_with_change=$suite_ok"
if [ -f "$d/demo_test.go" ]; then
  cp "$d/demo_test.go" tests/zz_seed_demo_test.go
  names="$(grep -o '^func Test[A-Za-z0-9_]*' tests/zz_seed_demo_test.go | sed 's/func //' | paste -sd'|')"
  (cd tests && go test -vet=off -count=1 -run "^($names)\$" . > "$t/demo_with.out" 2>&1); with=$?
  git checkout -q -- $(git diff --name-only)
  (cd tests && go test -vet=off -count=1 -run "^($names)\$" . > "$t/demo_without.out" 2>&1); without=$?
else
  mkdir -p zz_seed_demo && cp "$d"/demo/*.go zz_seed_demo/
  go run ./zz_seed_demo > "$t/demo_with.out" 2>&1; with=$?
  git checkout -q -- $(git diff --name-only)
  go run ./zz_seed_demo > "$t/demo_without.out" 2>&1; without=$?
fi
echo "demo_exit_with_change=$with demo_exit_without_change=$without"
[ $with -ne 0 ] || tail -3 "$t/demo_with.out"
[ $without -eq 0 ] || tail -8 "$t/demo_without.out"
if [ $suite_ok = 1 ] && [ $with -ne 0 ] && [ $without -eq 0 ]; then echo "VERDICT confirmed"; else echo "VERDICT rejected"; fi
