#!/bin/bash
# tools/run_all_mutants.sh [ID…]  — runs every mutants/<ID>/*.diff and seeded/<ID>-k/patch.diff
# against the quick tier of its property's check; appends to mutants/RESULTS.txt
cd "$(dirname "$0")/.."
ids="${@:-$(ls mutants)}"
for id in $ids; do
  for m in mutants/$id/*.diff; do
    [ -f "$m" ] || continue
    r="$(tools/run_mutant.sh "$id" "$m" quick 2>&1 | grep '^MUTANT' | tail -1)"
    echo "$(date +%H:%M) $id $(basename "$m"): ${r#MUTANT $id $(basename "$m") }" | tee -a mutants/RESULTS.txt
  done
  for d in seeded/$id-*; do
    [ -f "$d/patch.diff" ] || continue
    r="$(tools/run_mutant.sh "$id" "$d/patch.diff" quick 2>&1 | grep '^MUTANT' | tail -1)"
    echo "$(date +%H:%M) $id seeded/$(basename "$d"): ${r#MUTANT $id patch.diff }" | tee -a mutants/RESULTS.txt
  done
done
