#!/usr/bin/env python3
"""Generates /verif/MANIFEST.json from the table below (single source of truth)."""
import json, os
ROOT = os.path.dirname(os.path.dirname(os.path.abspath(__file__)))
ALL = ["C%02d" % i for i in range(1, 21)]

TECH_ENUM = "bounded-exhaustive enumeration of programs/inputs executed on the real code against a reference model (explicit enumeration, no sampling)"
TECH_BFS = "explicit-state breadth-first search over operation sequences on the real implementation with canonical-state deduplication, reference model stepped in lock-step"
TECH_FAULT = "exhaustive fault-point enumeration (E1 choice-tree DFS, deviation-bounded) on the real write path over a recording/fault-injecting driver"
TECH_SCHED = "stateless model checking of the implementation under a controlled scheduler: all interleavings up to a preemption bound (iterative context bounding) plus environment fault choices"

CHECKS = {
 "C01": dict(cat="exploration", engine="E3-enumeration", tech=TECH_ENUM,
   text="programs of <=2 (thorough <=3) clause calls from a 55-call alphabet x 27 finishers x 2 models x both placeholder dialects ('?' and '$n'), with each of 31 hostile value classes at every argument position (<=1-2 deviating slots), are built in DryRun; a SQL lexer that skips quoted text checks: placeholder count/sequence equals the bound values, no argument marker appears in the SQL text, every placeholder is governed by the column carrying the marker of the value bound to it (alignment), every argument is rendered; every <=1-call program is additionally executed on SQLite and checked at the recording driver",
   note="templates are well-formed; identifiers are not argument values; LIMIT/OFFSET binding checked only under the harness dialectors; internal deadline => exhaustive:false when the machine is loaded"),
 "C02": dict(cat="exploration", engine="E3-enumeration", tech=TECH_ENUM,
   text="a 27-row table with all combinations of NULL/values; 143 condition units (12 atoms x renderings: raw string, placeholder, two-argument, map, struct, clause expression, named argument; AND/OR units in 8 keyword spellings incl. lower case, tab, newline, ')OR('; redundant parentheses; grouped sub-builders; NOT; depth-3 units; primary-key forms; empty map / zero struct); every chain of 1-2 Where/Or/Not calls over all units, 3 calls over 13 (quick) / 41 (thorough) class representatives, plus inline conditions and model keys x Find/Count/Update/Delete; oracle: a reference evaluator with SQL three-valued logic over an in-memory copy of the table, compared as id sets (no SQL text inspected)",
   note="SQLite; writes run in a transaction that is rolled back and verified; Not over an all-raw AND group follows gorm's pinned reading NOT (x AND y); 2 open known findings"),
 "C03": dict(cat="exploration", engine="E3-enumeration", tech=TECH_ENUM,
   text="model types built with reflect.StructOf from a grammar: 4 key configurations (auto-increment ID, string key, composite, primaryKey on a non-ID field) x 64 field kinds (all int/uint/float widths, bool, string, []byte, time, pointers, sql.Null*, custom Scanner/Valuer types, serializer json/gob/unixtime, embedded with/without prefix and pointer, column rename, literal and DB-side defaults, autoCreateTime/autoUpdateTime variants) with 2-6 boundary values each; <=1 field under test (quick, 520 type x dialector combinations) or all kind pairs (thorough); create shapes: pointer, &[]T, []*T, &[]*T with every zero/explicit key pattern, CreateInBatches(1,2), map, &map, []map, &[]map; read shapes: First/Take/Find into struct, slices, map, []map; with and without RETURNING; oracle: value equality after kind-specific normalisation, every in-memory key equals the key of the row that stores that record (found by a unique marker), DB-side defaults present",
   note="SQLite; values representable in the column type; key back-fill not required for maps; 6 open known findings"),
 "C04": dict(cat="fault_enumeration", engine="E1-choice-tree", tech=TECH_FAULT,
   text="1417 canonical programs = all trees of nested Transaction blocks (<=4 blocks, depth <=4; write, children with reads between, write, outcome nil/error/panic; parent propagates or swallows/recovers) x 8 configurations {PrepareStmt, DisableNestedTransaction, SkipDefaultTransaction} x 2 dialectors (shipped SQLite, strict-savepoint wrapper): fault-free plus every single driver fault at BEGIN/COMMIT/SAVEPOINT/statement (quick), every pair (thorough); manual API: explicit-state BFS over sequences <=5/6 of write/SavePoint/RollbackTo/nested Transaction/Commit/Rollback with canonical state = table + save-point stack, every transition also with faults; oracle: snapshot-stack reference model, errors.Is / identical panic value, no leaked transaction/connection, follow-up write succeeds",
   note="SQLite; faults on ROLLBACK / ROLLBACK TO never injected; 1 open known finding (shipped SQLite dialector swallows SAVEPOINT errors), 1 fixed"),
 "C05": dict(cat="fault_enumeration", engine="E1-choice-tree", tech=TECH_FAULT,
   text="52 write operations (Create/CreateInBatches/Save/Update(s)/Delete over nested graphs: belongs-to, has-one, has-many, many-to-many, polymorphic; FullSaveAssociations; Select-ed association deletes) x dialectors (RETURNING, LastInsertId; thorough adds PrepareStmt): the fault-free run fixes the driver calls and hook invocations, then every single fault (quick) / every set of up to 3 faults (thorough) at every driver call and hook invocation is enumerated; oracle: full dump of 9 tables equals the pre-state whenever a fault fired, the injected error is returned, no open transaction or checked-out connection",
   note="SQLite dialect; faults on ROLLBACK are never injected; a failed COMMIT rolls back; 2 open known findings (Save fallback spans two implicit transactions)"),
 "C06": dict(cat="model_checking", engine="E3-enumeration", tech="explicit-state search over histories of interleaved derivations on a tree of reusable handles, every transition executed on the implementation; self-differential oracle (the same call list replayed alone on a fresh gorm.Open)",
   text="histories = base chain of <=3 calls (59 chain calls in 18 clause kinds, argument variants chosen to leave spare slice capacity) -> handle maker (Session, WithContext, Debug, Begin, or the Open handle) -> two forks of <=2 calls, in every schedule of building/executing the forks and optionally executing the base handle in between; finishers DryRun Find/First/Count/Update/Delete/Create, fork-becomes-handle, and real Find/Count/First/Count-then-Find on SQLite; after every transition SQL+Vars+error of every finished chain and of probes on every live handle must equal those of the same call list replayed alone on a fresh gorm.Open; 1.85 M histories / 9.4 M transitions quick, 19.9 M / 100 M thorough",
   note="intermediate chain objects are used linearly (forks only at reusable handles); Count-then-Find with pending Scopes is skipped (reuse of a finished chain); 3 defects fixed in /repo, 1 open known finding"),
 "C07": dict(cat="model_checking", engine="E2-scheduler", tech=TECH_SCHED + "; the same schedules are re-run in a -race build whose hand-offs are invisible to ThreadSanitizer, so every explored schedule is also judged by the Go race detector",
   text="2-4 goroutines share one *gorm.DB (cold or warm schema cache, with/without PrepareStmt, DryRun and real SQLite) and run programs over a cyclic model family (belongs-to/has-many cycle, many-to-many, polymorphic has-one/has-many, embedded, serializer field, unrelated models): joins, preloads, nested preload, create with nested graph, update, delete, association mode, struct conditions, first-use Session{PrepareStmt}; every interleaving up to the preemption bound is executed on the instrumented schema.go/relationship.go/gorm.go/prepare_stmt.go; oracle per schedule: no deadlock/panic, every thread's observations (SQL+vars or rows, errors) equal the serial run, final rows and the canonical dump of all cached schemas equal the serial run; race pass: no data race between two gorm statements outside known_findings.json (28 pairs of 3 root causes recorded)",
   note="database/sql, SQLite and reflection are atomic steps; <=4 goroutines; races judged by Go's happens-before on the explored schedules; concurrent Transaction blocks on the same SQLite tables are outside the alphabet"),
 "C08": dict(cat="exploration", engine="E3-enumeration", tech=TECH_ENUM,
   text="soft-delete table with 27 live rows and 27 soft-deleted twins with identical values, a plain twin table and an all-rows twin table; every chain of 0-1 condition calls (incl. leading Or) over 143 units, 2 calls over class representatives, 3 calls x 4 core finishers x 22 finishers (Find/First/Take/Last/Count/Pluck/FindInBatches/Rows+ScanRows/Scan/Update/Updates/UpdateColumn/Delete/Delete twice/Joins/Preload/Association Find+Count), scoped vs plain twin and Unscoped vs all-rows twin, PropagateUnscoped on/off; after each scoped write every soft-deleted row is compared cell by cell; histories: BFS to closure (27 states, 324 transitions) + all histories of depth 3/4 over create/soft-delete/unscoped-delete/Save on 3 keys",
   note="SQLite; 5 open known findings (raw AND/OR detection, NamedExpr, lone leading Or, Joins ON with Or, leading-Or semantics)"),
 "C09": dict(cat="exploration", engine="E3-enumeration", tech=TECH_ENUM,
   text="every chain of condition-free calls up to length 2-4 x every update/delete finisher x plain/soft-delete model x AllowGlobalUpdate modes is executed on SQLite behind a recording driver; oracle = error identity + empty driver log + cell-level table diff; the positive half inserts each of 16 real conditions at every position",
   note="SQLite dialect; alphabets of DESIGN.md §3 C09; recording driver wraps mattn/go-sqlite3"),
 "C10": dict(cat="exploration", engine="E3-enumeration", tech=TECH_ENUM,
   text="reflect.StructOf model family (4 data fields, each with one of 9 permission tags, auto-time pairs in int64/time.Time variants; 36 models quick, 484 thorough incl. all two-tag pairs) x 21 write programs (Create struct/map/batches/[]map, upserts UpdateAll/DoUpdates/DoNothing, Save existing/absent/new/slice, Updates struct/map, Update, UpdateColumn(s)) x Select/Omit sets (names by field/column spelling, '*', '*'+Omit) x value patterns (absent/zero/non-zero/Expr) x targets (key, condition, both): cell-by-cell diff of a 3-row table against a reference write set; hard core asserted for every case (denied fields never written, rows outside the target unchanged, UpdateColumn(s) never touch auto-time, hook-running updates refresh autoUpdateTime unless omitted) plus the documented positive rules",
   note="SQLite dialect; cells the documentation leaves open are classed free and listed in the evidence assumptions; 1 open known finding"),
 "C11": dict(cat="exploration", engine="E3-enumeration", tech=TECH_ENUM,
   text="9 model families (has-one, has-many by value/pointer, belongs-to, many-to-many incl. composite left key, polymorphic, self-referential, composite (string,string)/(string,int) keys, nested path) x all data graphs within <=2-3 parents x <=2-3 children over a key alphabet built to collide ('a_b','b_c','_','nil','', 0, NULL) incl. one soft-deleted child x 386 loader/shape checks (Preload single/nested/Associations/with condition/with scope, association Joins, Association().Find; struct, []T, []*T, duplicated parents): loaded children per parent equal a reference join computed over the inserted rows",
   note="rows inserted by raw SQL; all-zero key tuples are 'no key' records and not compared; 3 open known findings with one root cause (utils.ToStringKey not injective)"),
 "C12": dict(cat="model_checking", engine="E3-enumeration", tech=TECH_BFS,
   text="12 configurations {has-one, has-many, belongs-to pointer FK, belongs-to value FK, many-to-many, polymorphic has-many} x {single parent, slice of 2 parents}; explicit-state BFS (depth <=4 quick, <=8 or closure thorough) over Append/Replace/Replace()/Delete/Clear/Count/Find and their Unscoped variants on new, saved, linked, unstored-keyed and duplicate targets; state = shortest call path replayed on gorm over SQLite, canonical form = 3 tables + normalised in-memory parents; a link-set reference model is stepped in lock-step: stored links, Count, Find ids, in-memory relation field, survival of target rows unless Unscoped, frame condition on the other relations",
   note="level caps and a deadline stop large configurations early (exhaustive:false then); ambiguous shapes are guarded out and counted; 6 open known findings (association.go Unscoped belongs-to, many2many slice Replace, DO NOTHING batch scan)"),
 "C13": dict(cat="fault_enumeration", engine="E1-choice-tree", tech=TECH_FAULT,
   text="2661 programs (9 operations x 6 argument shapes of length 0-3 x child configurations by value/pointer x hooks/SkipHooks/UpdateColumn x own/caller transaction) are executed on SQLite with every hook invocation a choice point; every single hook failure (quick) and every pair (thorough) is enumerated; oracle: per-record hook multiset and order relative to the statement in the driver log, hooks run inside the operation's transaction (driver-level BEGIN window), failing hook => error returned, no later phase, all tables incl. the hooks' own marker writes equal the pre-state, SetColumn values are the values stored",
   note="SQLite dialect; hook logging through a Logger wrapper; assumptions listed in evidence; Save of a non-zero non-existing key, CreateInBatches and SkipDefaultTransaction are outside the alphabet"),
 "C15": dict(cat="exploration", engine="E3-enumeration", tech=TECH_ENUM,
   text="table sizes 0..N (N=7 quick, 12 thorough) x conditions x orderings x every single Limit/Offset (absent, 0..N+1, -1), every override/cancel pair in 4 call layouts x 42 read paths (Find into []T/[]*T/arrays/maps/struct/pointer, Rows+ScanRows, Scan, Pluck per column into typed slices, primitives, Count, First/Take/Last with inline conditions, FindInBatches with every batch size 1..N+1): pairwise agreement and agreement with a reference window over the sorted in-memory table; ErrRecordNotFound iff empty; RowsAffected; FindInBatches = Find+Order(pk) exactly, once each, ascending, batches <= size, numbered 1,2,3…",
   note="SQLite rowid scan order assumed for chains without ORDER BY; zero as the later value of an override pair excluded; 1 open known finding (Pluck of NULL into []*int), 1 fixed (FindInBatches Limit(0))"),
 "C16": dict(cat="model_checking", engine="E3-enumeration", tech=TECH_BFS,
   text="explicit-state BFS over sequences (<=3 quick, <=4 thorough) of Save / Create+OnConflict{DoNothing,UpdateAll,DoUpdates(all column subsets)} / FirstOrInit / FirstOrCreate (struct+map conditions, Attrs/Assign in struct, map, key-value form) / soft-delete on key space {1,2,3}, plain and soft-delete model, state = table dump (timestamps masked), every transition executed on gorm over SQLite with a reference map stepped in lock-step; 880 chain shapes with Session(&Session{})/WithContext inserted at every position are compared with the unwrapped chain; FirstOrInit must send no write, FirstOrCreate at most one",
   note="SQLite dialect; successor = re-seed state + one operation, each expanded state also reached by replaying its real history; attrs overlapping condition columns and empty DoUpdates outside the alphabet"),
 "C17": dict(cat="model_checking", engine="E3-enumeration", tech=TECH_BFS,
   text="explicit-state search over all registration sequences (Register/Before/After/Before+After/Replace/Remove over built-ins, new names, unknown name, '*') up to length 3 (+ length 4 over a reduced name set in thorough) for each of the 6 pipelines from the pristine and the all-replaced initial state; every transition runs on the real sorter in a worker sub-process (a fatal stack overflow becomes a violation with the journalled sequence); observation: compiled fns by function identity and the firing log of a DryRun operation; oracle: error returned, or every live callback fires once on the requested side of the callback it names, built-ins keep their order, Replace keeps position",
   note="4 open known findings (sortCallbacks); cyclic inputs are executed only until 40/400 worker deaths per pipeline => exhaustive:false while that finding is open; duplicate registration without Replace outside the alphabet"),
 "C18": dict(cat="exploration", engine="E3-enumeration", tech=TECH_ENUM,
   text="100 operations (writes with nested associations, preload/join reads, FindInBatches, CreateInBatches, Save fallback, association mode, Select-ed deletes) x handle bindings (WithContext, Session{Context}, …) x transaction wrappers (depth 0-2, Begin/Commit, savepoints, Connection) x PrepareStmt off/config/session x live/cancelled context: every driver call recorded (begin, prepare, exec, query, prepared exec/query) must carry the caller's context marker; with a cancelled context no prepare/exec/query reaches the driver",
   note="SQLite dialect; contexts are identified by a value marker; database/sql itself refuses cancelled contexts once gorm hands them over"),
 "C19": dict(cat="exploration", engine="E3-enumeration", tech=TECH_ENUM,
   text="every program of the C01 grammar (<=1-2 calls quick, <=3 thorough; reads, writes, upserts, soft deletes, raw SQL) is run four ways from identical handles and data: Session{DryRun}, Config.DryRun, ToSQL, and for real behind the recording driver; DryRun runs must leave no prepare/exec/query in the driver log (ToSQL no driver call at all), all three expose the same SQL+values, and the real run's main statement text and converted arguments equal them",
   note="counter clock reset before every run; Save and FirstOrCreate (several main statements) outside the alphabet"),
 "C20": dict(cat="exploration", engine="E3-enumeration", tech=TECH_ENUM,
   text="histories migrate(v1) -> insert rows -> migrate(v1) -> migrate(v2) -> read old rows through v2, insert and read v2 records -> migrate(v2) again, with v1 = key x field kind x tag variant {none,index,uniqueIndex,unique,check,not null,size…} and v2 = v1 + {tag added to a field, added field of every kind x tag}; oracle: the driver log of a re-migration holds no statement starting with CREATE/ALTER/DROP, typed dumps of the common columns are equal before/after, added indexes/unique constraints exist (PRAGMA index_list), added checks are enforced, v2 records round-trip (C03 field oracle)",
   note="SQLite dialect only; tag combinations whose spurious ALTER is caused by the SQLite driver's column parsing (parenthesised DB-side defaults) or refused by SQLite itself are removed from the alphabet and listed in the evidence; 1 open known finding"),
 "C14": dict(cat="model_checking", engine="E2-scheduler", tech=TECH_SCHED,
   text="the real prepare_stmt.go/gorm.go (instrumented at build time by overlay: sync -> scheduling shim, go/channel statements hooked) is explored under a cooperative scheduler: every interleaving of 2 threads (<=2-3 preemptions quick, <=3-4 thorough), 3 threads (<=2) and 4 threads (<=1, thorough) of Exec/Query/Transaction/Reset/Close/first-use-Session programs, with Prepare failures and ErrBadConn as environment choices; oracle per schedule: no deadlock/panic, results equal the sequential run, <=1 cache-level prepare per text and generation, no leaked driver statement after the final Close",
   note="database/sql and the fake driver are atomic steps; statement.go's per-statement sync.Map is not a scheduling point; data races are not decided by this check (see C07)"),
}


# Extensions made after the independently seeded changes (DESIGN.md §8); appended to the level text.
ADDED = {
 "C01": "Extended: shortest template spellings ('?', '(?)') in every template-taking call (Table, Select, Where/Not/Or, Having, Joins, Clauses, Order), schema-less finishers (Table(t).Find(&[]map)/Count/Pluck/Take(&map)/Rows) with every named-argument form; alphabet now 73 clause calls x 41 finishers x 35 value classes; quick is a closed pairwise slice (every call x call and call x finisher pair, every value class at every slot), thorough the full product.",
 "C02": "Extended: nested negation units, single-call groups around every raw spelling, raw strings whose text steers gorm's classification ('@' / '?' inside quoted literals with positional resp. named arguments), Scopes on a reused Session handle carrying 0-9 scopes with 2-3 derived chains in both execution orders.",
 "C03": "Extended: 6 key configurations incl. composite (int,string) and (int,string,int64) keys with neighbour rows sharing every proper subset of the key, 76 field kinds (custom serializer kinds, pointer-to-zero values, anonymously embedded struct shadowed by an outer field), reads keyed by the destination's key / Where(pk) / First(&t,id) compared with the marker read, end-of-case aliasing check over all loaded records.",
 "C04": "Extended: handle derivations inside blocks, block bodies that put an error on their own handle, calls on a handle whose Begin failed, nested blocks opened from an ancestor's handle still in scope, SavePoint/RollbackTo issued through different handles of one transaction, Row() reads inside blocks, and the check that every statement between BEGIN and COMMIT/ROLLBACK uses the transaction's connection; a panic the program did not throw is a violation.",
 "C05": "Extended: 'harmless' derivations on the shared handle before the operation, a second fault kind (caller's context cancelled at hook/driver point k), result-set row faults (Recorder.RowFault at every row of every RETURNING result set), operations that fail by themselves while their rows are stepped (CHECK / partial UNIQUE violated by the 2nd row, 2nd child, 2nd batch), RETURNING variants of update/delete.",
 "C06": "Extended: finishers executed directly on handles, a second model with the same Go field names on other columns, Select/Omit by field name, repeated-kind blocks for every pointer- or map-typed piece of statement state, association-selecting handles (Select/Omit of relations and nested paths) with Delete/Save/Create/Updates forks on SQLite, handles passed as the sole group condition of another chain, handles built from clause.Or/And, and a passive probe of the handle's exported statement state before every execution.",
 "C07": "Extended: second owner of a shared schema (lock around the back-reference write), soft-delete model with a relation of its own joined at cold start (logical loss of the deleted_at filter, schedule-keyed finding), self-serializer field type (pooled scan values), sync.Pool Get/Put as scheduling points, frames of model callbacks transparent for race attribution.",
 "C08": "Extended: soft-delete field shapes (pointer, embedded, prefixed, renamed), nested relation joins through soft-delete models, single-call groups around raw spellings, classification-steering raw strings, non-fresh destinations re-read after a soft delete (Preload/Joins/First into structs and slices primed by an earlier or Unscoped load), key in the Model() value of Delete/Update.",
 "C09": "Extended: zero-key slice/array models, reuse of a handle that already ran a finisher, Returning/Locking clause calls, finishers whose only condition is the key of the Model() value (Model(&T{ID:1}).Delete(&T{}) / Updates(map) / UpdateColumns(map)).",
 "C10": "Extended: supplied update-time values asserted, key-spelling differential, embedded/overriding/patch-struct model shapes, multi-batch CreateInBatches under Select/Omit, composite-primary-key family (2 and 3 key columns, full cross product of key values) over 16 targeting forms incl. slice models, Save/upsert of an absent key.",
 "C11": "Extended: duplicate parents, prefilled destinations, reusable Session handle that already carries a Preload, cursor faults (one injected failure at every row of every query of the loading operation: the call reports an error or attaches complete children), relations whose referenced key is a non-primary column declared through tags (has-one/has-many/belongs-to references:Code, polymorphic foreignKey:Code, many2many with join references) with codes that collide textually with ids; zero-key records are compared (must be empty) unless the reference join owns rows for them.",
 "C12": "Extended: foreign polymorphic owner with the same id, new/stored/new value lists, several target arguments with overlapping slices.",
 "C13": "Extended: belongs-to records shared by several parents of one slice, handle-derivation preludes, 18 models implementing exactly one hook / all but one hook, AfterFind failures at every batch and record of FindInBatches (error returned, no later batch read, batch function not called for the failing batch).",
 "C14": "Extended: finalisation phase (Close of every cache under the scheduler), sticky ErrBadConn and Prepare-failure environment choices, pool-level prepare counts, leak detection of driver statements; a -race pass over the same schedules.",
 "C15": "Extended: reads on reusable handles, read pairs and chained reads, cursor faults (one injected failure at every (query,row) point each read path consults: error reported or result identical to the fault-free one), Or-chains (Where(a).Or(b), Or(a), Where(a).Or(b).Where(c), Not(a).Or(b), grouped) for every read path with a hard cap on FindInBatches batches, self-serializing map and pointer fields compared across struct/map/Pluck paths.",
 "C16": "Extended: pointer-to-struct forms of conditions/Attrs/Assign, Session/WithContext at every position, Or/Not/grouped conditions on FirstOrInit/FirstOrCreate on both models, every writing FirstOrCreate repeated identically (must find its own row), Save on a model with a non-idempotent BeforeSave hook (stored value is hook(value)).",
 "C17": "Extended: unstable-sort and remove-marker shapes, isolation (after every step the pipelines of a DB opened with its own Config and of one opened with the first DB's *Config are unchanged; Session/WithContext/Debug handles share the manager), every Register-family call re-run in all spellings (Before(x).After(y), After(y).Before(x), with Match) with identical outcome.",
 "C18": "Extended: handle derivation histories, the RETURNING/scan executor branch of every write finisher (Create/Update/Updates/UpdateColumn(s)/Delete with clause.Returning) on both dialectors, with SkipDefaultTransaction, under every context configuration.",
 "C19": "Extended: explicit Returning clauses, batching/transaction finishers, logger dimension, pre-filled destinations, write-step comparison, a model with integer tracked-time / serializer / default / pointer fields whose bound values are compared with their Go type, receivers of ToSQL / Session{DryRun} that already carry a chain prefix; quick is a closed pairwise slice.",
 "C20": "Extended: config flags DisableForeignKeyConstraintWhenMigrating / IgnoreRelationshipsWhenMigrating as a history dimension, a model with a relation, every constraint and index the model declares (read independently from the tag text: blanks, case, index:name,unique/where/sort/collate/priority, composite names) must exist with its options (PRAGMA index_list/index_xinfo, sqlite_master) and be enforced (duplicate probe, two-sided partial-index probe) after each migration.",
}

def finding_counts():
    d = json.load(open(os.path.join(ROOT, "known_findings.json")))
    out = {}
    for f in d["findings"]:
        o = out.setdefault(f["property"], [0, 0])
        o[0 if f.get("status") == "open" else 1] += 1
    return out

def clean_note(note):
    # static finding counts in the notes are replaced by counts computed from known_findings.json
    segs = [x.strip() for x in note.split(";")]
    segs = [x for x in segs if "known finding" not in x and "fixed in /repo" not in x]
    return "; ".join(segs)

def main():
    fc = finding_counts()
    checks = []
    for pid in ALL:
        c = CHECKS.get(pid)
        if not c or not os.path.isdir(os.path.join(ROOT, "engine", pid.lower())):
            continue
        checks.append({
            "property_id": pid,
            "quick_cmd": "./check %s quick" % pid,
            "thorough_cmd": "./check %s thorough" % pid,
            "evidence_file": "/verif/evidence/%s.json" % pid,
            "replay_cmd_template": "./check %s --replay {path}" % pid,
            "engine": c["engine"],
            "level_claimed": {"category": c["cat"], "text": c["text"] + (" " + ADDED[pid] if pid in ADDED else "") + " (Counts in this text are indicative; every run writes the actual numbers to the evidence file.)", "design_ref": "DESIGN.md §3 " + pid + ", §8"},
            "level_note": clean_note(c["note"]) + "; known findings of the unchanged tree for this property: %d open, %d repaired by fix: commits in /repo (known_findings.json)" % tuple(fc.get(pid, [0, 0])),
            "technique": c["tech"],
        })
    claimed = {c["property_id"] for c in checks}
    na = [{"property_id": p, "reason": NA.get(p, "harness under construction in this session; not yet registered (no claim made)")} for p in ALL if p not in claimed]
    m = {
        "version": 1,
        "setup_cmd": "./setup.sh",
        "hooks": {
            "guard": "verifsched",
            "enable": "no source hooks in /repo: scheduled checks (C07, C14) generate an instrumented copy of the sync-using gorm files on every run (engine/instr) and build with `go build -overlay … -tags verifsched`; all other checks build /repo's working tree unmodified",
            "baseline_off_cmd": "cd /repo && GOFLAGS=-mod=mod go test -vet=off -count=1 ./... && cd tests && GOFLAGS=-mod=mod go test -vet=off -count=1 ./...",
            "source_commits": [],
            "add_only": True,
        },
        "engines": [
            {"name": "E1-choice-tree", "path": "engine/mc/explore.go", "serves_properties": sorted(p for p in claimed if CHECKS[p]["engine"] in ("E1-choice-tree", "E2-scheduler")), "kind_free_text": "deviation-bounded exhaustive DFS over replayable choice sequences (faults, schedules), levels completed in ascending bound"},
            {"name": "E2-scheduler", "path": "engine/sched + engine/instr", "serves_properties": sorted(p for p in claimed if CHECKS[p]["engine"] == "E2-scheduler"), "kind_free_text": "cooperative controlled scheduler over gorm instrumented by go build -overlay; preemption-bounded stateless model checking"},
            {"name": "E3-enumeration", "path": "engine/cNN", "serves_properties": sorted(p for p in claimed if CHECKS[p]["engine"] == "E3-enumeration"), "kind_free_text": "bounded-exhaustive enumeration / explicit-state BFS on the real implementation against reference models"},
        ],
        "checks": checks,
        "not_applicable": na,
        "notes": "see DESIGN.md; known_findings.json lists recorded and fixed defects",
    }
    json.dump(m, open(os.path.join(ROOT, "MANIFEST.json"), "w"), indent=1)
    print("claimed:", sorted(claimed))

NA = {}
if __name__ == "__main__":
    main()
