#!/bin/bash
# tools/intake_seed.sh <ID> <src-dir> <k> "<change>" "<needs>" [check-ids...]
# Copies a seeded change delivered by an independent sub-agent into seeded/<ID>-<k>/,
# confirms it (tools/verify_seed.sh), runs the owning check (and optional neighbours)
# against it at quick tier and writes meta.json.
id="$1"; src="$2"; k="$3"; change="$4"; needs="$5"; shift 5
cd "$(dirname "$0")/.."
d="seeded/$id-$k"; mkdir -p "$d"
cp "$src/patch.diff" "$d/"; [ -f "$src/README.md" ] && cp "$src/README.md" "$d/"
if [ -f "$src/demo_test.go" ]; then cp "$src/demo_test.go" "$d/"; else mkdir -p "$d/demo"; cp "$src"/demo/*.go "$d/demo/" 2>/dev/null || cp "$src"/*.go "$d/demo/"; fi
v="$(tools/verify_seed.sh "$d" 2>&1 | tail -4)"
echo "$v"
verdict="$(echo "$v" | grep -o 'VERDICT .*')"
det=""
for c in "$id" "$@"; do
  r="$(tools/run_mutant.sh "$c" "$d/patch.diff" quick 2>&1 | tail -1)"
  echo "$c: $r" | cut -c1-260
  case "$r" in *CAUGHT*) det="$det $c";; esac
done
python3 - "$id" "$d" "$change" "$needs" "$verdict" "$det" <<'PY'
import json,sys,subprocess
id,d,change,needs,verdict,det=sys.argv[1:7]
commit=subprocess.check_output(['git','-C','/repo','rev-parse','--short','HEAD']).decode().strip()
m={"property":id,"change":change,"needs_to_manifest":needs,
 "origin":"independent sub-agent (round 7: fresh sample, no list of earlier attempts) given only the property text and a scratch worktree of /repo",
 "confirmed_by":"tools/verify_seed.sh: "+verdict+" (patch applies and builds; gorm's root and tests/ suites pass with it, private TMPDIR; the demonstration fails with the change and passes without it)",
 "repo_commit":commit,
 "detected_by":("quick tier of"+det) if det.strip() else "MISSED at intake"}
json.dump(m,open(d+'/meta.json','w'),indent=1)
print(d, verdict, '| detected by:', det or 'NONE')
PY
