#!/bin/bash
# tools/run_mutant.sh <ID> <patch.diff> [quick|thorough]
# Applies a patch to a scratch copy of /repo, runs the check for <ID> against it
# (VERIF_REPO), prints the verdict line, removes the copy. /repo is not touched.
id="$1"; patch="$(readlink -f "$2")"; tier="${3:-quick}"
d="/tmp/mut-$id-$$"
rm -rf "$d"; cp -r /repo "$d"
if ! (cd "$d" && grep -v '^# ' "$patch" | git apply --whitespace=nowarn -); then echo "MUTANT $id $(basename $patch): PATCH-FAILED"; rm -rf "$d"; exit 2; fi
# private VERIF_ROOT: evidence/ and replays/ of the real tree are not overwritten by mutant runs
r="/tmp/mutroot-$id-$$"; mkdir -p "$r"; cp /verif/known_findings.json "$r/"
out="$(cd /verif && VERIF_REPO="$d" VERIF_ROOT="$r" ./check "$id" "$tier" 2>&1)"; rc=$?
rm -rf "$r"
tag="$(echo "$d" | md5sum | cut -c1-10)"; rm -rf "$d" "/verif/.work/mod-$tag" /verif/.work/bin/*-"$tag" /verif/.work/bin/*-"$tag"-race 2>/dev/null
kinds="$(echo "$out" | grep '^violation kinds' | cut -c1-300)"
if [ $rc -eq 1 ]; then echo "MUTANT $id $(basename $patch) [$tier]: CAUGHT $kinds"; 
elif [ $rc -eq 0 ]; then echo "MUTANT $id $(basename $patch) [$tier]: MISSED"; 
else echo "MUTANT $id $(basename $patch) [$tier]: HARNESS-ERROR rc=$rc"; echo "$out" | tail -5; fi
exit $rc
