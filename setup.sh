#!/bin/bash
# Run once after a fresh restore (offline): warm the Go build cache for every
# harness registered in MANIFEST.json (normal builds and the overlay builds).
cd "$(dirname "$0")"
export GOFLAGS=-mod=mod GOPROXY=off GOSUMDB=off GOTOOLCHAIN=local
rc=0
(cd engine && go build ./mc ./h ./drivers/... ./sched ./instr) || rc=1
for id in $(jq -r '.checks[].property_id' MANIFEST.json); do
  lower=$(echo "$id" | tr 'A-Z' 'a-z')
  if [ -f "engine/$lower/SCHEDULED" ]; then
    ov=".work/setup-ov-$lower"; mkdir -p "$ov"
    (cd engine && go run ./instr -repo /repo -out "../$ov" && go build -overlay "../$ov/overlay.json" -tags verifsched -o ../.work/bin/$lower ./$lower) || rc=1
    if [ -f "engine/$lower/RACE" ]; then
      (cd engine && go build -race -overlay "../$ov/overlay.json" -tags verifsched -o ../.work/bin/$lower-race ./$lower) || rc=1
    fi
    rm -rf "$ov"
  else
    mkdir -p .work/bin
    (cd engine && go build -o ../.work/bin/$lower ./$lower) || rc=1
  fi
done
exit $rc
