// Command instr generates a `go build -overlay` description that instruments
// the current working tree of gorm for the controlled scheduler (E2):
//   - import "sync"           -> import sync "gorm.io/gorm/verifshim"
//   - go f(a…)                -> { t := a…; verifshim.Go(func(){ f(t…) }) }
//   - <-c, v,ok := <-c, c<-v, close(c) -> verifshim.Recv/RecvOk/Send/Close
//
// All edits stay on their original source line, so positions in stack traces
// and race reports still point at the right line of the /repo file.
// /repo itself is never touched: rewritten files go to -out.
package main

import (
	_ "embed"
	"encoding/json"
	"flag"
	"fmt"
	"go/ast"
	"go/parser"
	"go/token"
	"os"
	"path/filepath"
	"sort"
	"strings"
)

//go:embed shim/shim.go.txt
var shimSrc string

// files whose "sync" import stays real (per-call objects only)
var keepRealSync = map[string]bool{"statement.go": true}

type edit struct {
	pos, end int // byte offsets; insert when pos == end
	text     string
	prio     int
}

type fileResult struct {
	Path       string `json:"path"`
	SyncImport bool   `json:"sync_import_rewritten"`
	Go         int    `json:"go_statements"`
	Recv       int    `json:"receives"`
	Send       int    `json:"sends"`
	Close      int    `json:"closes"`
	Select     int    `json:"selects_uninstrumented"`
	Range      int    `json:"map_ranges_determinised"`
}

func main() {
	repo := flag.String("repo", "/repo", "gorm working tree")
	out := flag.String("out", "", "output directory")
	flag.Parse()
	if *out == "" {
		fmt.Fprintln(os.Stderr, "instr: -out required")
		os.Exit(2)
	}
	os.MkdirAll(*out, 0o755)
	replace := map[string]string{}
	var report []fileResult

	err := filepath.Walk(*repo, func(path string, info os.FileInfo, err error) error {
		if err != nil {
			return err
		}
		rel, _ := filepath.Rel(*repo, path)
		if info.IsDir() {
			if rel == "tests" || rel == ".git" || strings.HasPrefix(info.Name(), ".") && rel != "." || rel == "verifshim" {
				return filepath.SkipDir
			}
			return nil
		}
		if !strings.HasSuffix(path, ".go") || strings.HasSuffix(path, "_test.go") {
			return nil
		}
		src, err := os.ReadFile(path)
		if err != nil {
			return err
		}
		res, newSrc, err := instrument(path, rel, src)
		if err != nil {
			return fmt.Errorf("%s: %w", path, err)
		}
		if newSrc != nil {
			outPath := filepath.Join(*out, strings.ReplaceAll(rel, string(filepath.Separator), "__"))
			if err := os.WriteFile(outPath, newSrc, 0o644); err != nil {
				return err
			}
			replace[path] = outPath
			report = append(report, res)
		}
		return nil
	})
	if err != nil {
		fmt.Fprintln(os.Stderr, "instr:", err)
		os.Exit(1)
	}
	shimPath := filepath.Join(*out, "verifshim.go")
	if err := os.WriteFile(shimPath, []byte(shimSrc), 0o644); err != nil {
		fmt.Fprintln(os.Stderr, "instr:", err)
		os.Exit(1)
	}
	replace[filepath.Join(*repo, "verifshim", "shim.go")] = shimPath
	// extra overlay entries (mutation runs): VERIF_EXTRA_OVERLAY=orig=repl,orig=repl
	b, _ := json.MarshalIndent(map[string]interface{}{"Replace": replace}, "", " ")
	if err := os.WriteFile(filepath.Join(*out, "overlay.json"), b, 0o644); err != nil {
		fmt.Fprintln(os.Stderr, "instr:", err)
		os.Exit(1)
	}
	sort.Slice(report, func(i, j int) bool { return report[i].Path < report[j].Path })
	rb, _ := json.MarshalIndent(report, "", " ")
	os.WriteFile(filepath.Join(*out, "report.json"), rb, 0o644)
}

func instrument(path, rel string, src []byte) (fileResult, []byte, error) {
	res := fileResult{Path: rel}
	fset := token.NewFileSet()
	f, err := parser.ParseFile(fset, path, src, parser.ParseComments)
	if err != nil {
		return res, nil, err
	}
	off := func(p token.Pos) int { return fset.Position(p).Offset }
	var edits []edit
	text := func(n ast.Node) string { return string(src[off(n.Pos()):off(n.End())]) }

	// import "sync"
	if !keepRealSync[filepath.Base(rel)] || filepath.Dir(rel) != "." {
		for _, imp := range f.Imports {
			if imp.Path.Value == `"sync"` {
				if imp.Name != nil {
					edits = append(edits, edit{off(imp.Path.Pos()), off(imp.Path.End()), `"gorm.io/gorm/verifshim"`, 0})
				} else {
					edits = append(edits, edit{off(imp.Path.Pos()), off(imp.Path.End()), `sync "gorm.io/gorm/verifshim"`, 0})
				}
				res.SyncImport = true
			}
		}
	}

	tmp := 0
	handledRecv := map[ast.Node]bool{}
	ast.Inspect(f, func(n ast.Node) bool {
		switch v := n.(type) {
		case *ast.SelectStmt:
			res.Select++
			// leave the whole select untouched (comm clauses must stay channel ops)
			for _, c := range v.Body.List {
				cc := c.(*ast.CommClause)
				if cc.Comm != nil {
					ast.Inspect(cc.Comm, func(m ast.Node) bool {
						if u, ok := m.(*ast.UnaryExpr); ok && u.Op == token.ARROW {
							handledRecv[u] = true
						}
						if s, ok := m.(*ast.SendStmt); ok {
							handledRecv[s] = true
						}
						return true
					})
				}
			}
		case *ast.RangeStmt:
			// A range over a map whose body spawns goroutines makes the thread
			// numbering depend on Go's randomised map iteration order: iterate
			// in sorted key order instead (semantically one of the allowed orders).
			spawns := false
			ast.Inspect(v.Body, func(m ast.Node) bool {
				if _, ok := m.(*ast.GoStmt); ok {
					spawns = true
				}
				return true
			})
			if spawns {
				res.Range++
				kv := fmt.Sprintf("_vk%d", tmp)
				tmp++
				xs := text(v.X)
				tok := ":="
				if v.Tok == token.ASSIGN {
					tok = "="
				}
				bind := ""
				if id, ok := v.Key.(*ast.Ident); ok && id.Name != "_" {
					bind += fmt.Sprintf("%s %s %s; ", id.Name, tok, kv)
				}
				if v.Value != nil {
					if id, ok := v.Value.(*ast.Ident); ok && id.Name != "_" {
						bind += fmt.Sprintf("%s %s (%s)[%s]; ", id.Name, tok, xs, kv)
					}
				}
				hdr := fmt.Sprintf("for _, %s := range verifshim.SortedKeys(%s) { %s", kv, xs, bind)
				edits = append(edits, edit{off(v.For), off(v.Body.Lbrace) + 1, hdr, 0})
			}
		case *ast.GoStmt:
			res.Go++
			call := v.Call
			var names, vals []string
			for _, a := range call.Args {
				name := fmt.Sprintf("_vg%d", tmp)
				tmp++
				names = append(names, name)
				vals = append(vals, text(a))
				edits = append(edits, edit{off(a.Pos()), off(a.End()), name, 1})
			}
			pre := "{ "
			if len(names) > 0 {
				pre += strings.Join(names, ", ") + " := " + strings.Join(vals, ", ") + "; "
			}
			pre += "verifshim.Go(func() { "
			// replace the `go` keyword (2 bytes) — keep everything else in place
			edits = append(edits, edit{off(v.Go), off(v.Go) + 2, pre, 0})
			edits = append(edits, edit{off(v.End()), off(v.End()), " }) }", 5})
		case *ast.AssignStmt:
			if len(v.Lhs) == 2 && len(v.Rhs) == 1 {
				if u, ok := v.Rhs[0].(*ast.UnaryExpr); ok && u.Op == token.ARROW && !handledRecv[u] {
					handledRecv[u] = true
					res.Recv++
					edits = append(edits, edit{off(u.OpPos), off(u.OpPos) + 2, "verifshim.RecvOk(", 0})
					edits = append(edits, edit{off(u.End()), off(u.End()), ")", 4})
				}
			}
		case *ast.UnaryExpr:
			if v.Op == token.ARROW && !handledRecv[v] {
				handledRecv[v] = true
				res.Recv++
				edits = append(edits, edit{off(v.OpPos), off(v.OpPos) + 2, "verifshim.Recv(", 0})
				edits = append(edits, edit{off(v.End()), off(v.End()), ")", 4})
			}
		case *ast.SendStmt:
			if !handledRecv[v] {
				res.Send++
				edits = append(edits, edit{off(v.Pos()), off(v.Pos()), "verifshim.Send(", 0})
				edits = append(edits, edit{off(v.Arrow), off(v.Arrow) + 2, ",", 0})
				edits = append(edits, edit{off(v.End()), off(v.End()), ")", 4})
			}
		case *ast.CallExpr:
			if id, ok := v.Fun.(*ast.Ident); ok && id.Name == "close" && len(v.Args) == 1 && id.Obj == nil {
				res.Close++
				edits = append(edits, edit{off(id.Pos()), off(id.End()), "verifshim.Close", 0})
			}
		}
		return true
	})

	injected := res.Go + res.Recv + res.Send + res.Close + res.Range
	if injected == 0 && !res.SyncImport {
		return res, nil, nil
	}
	if injected > 0 {
		// add the import on the package line so that no line shifts
		p := off(f.Name.End())
		edits = append(edits, edit{p, p, `; import verifshim "gorm.io/gorm/verifshim"`, 0})
	}
	// apply edits back to front; nested edits (args inside go statements) do not overlap
	sort.SliceStable(edits, func(i, j int) bool {
		if edits[i].pos != edits[j].pos {
			return edits[i].pos > edits[j].pos
		}
		return edits[i].prio > edits[j].prio
	})
	out := append([]byte(nil), src...)
	for i := 0; i+1 < len(edits); i++ {
		if edits[i+1].end > edits[i].pos {
			return res, nil, fmt.Errorf("overlapping instrumentation edits at offset %d (nested channel operation inside a go statement argument?)", edits[i].pos)
		}
	}
	for _, e := range edits {
		out = append(out[:e.pos], append([]byte(e.text), out[e.end:]...)...)
	}
	// sanity: result must parse
	if _, err := parser.ParseFile(token.NewFileSet(), path, out, 0); err != nil {
		return res, nil, fmt.Errorf("instrumented file does not parse: %w", err)
	}
	return res, out, nil
}
