// C19 — DryRun and ToSQL send nothing and show exactly what a real run sends.
//
// Bounded-exhaustive enumeration (E3) of the programs of C01 (package
// proggram). Every program is run four times from identical handles and data
// on SQLite behind the recording driver: Session{DryRun:true}, Config.DryRun,
// ToSQL, and for real (counter clock reset before each run, tables re-seeded
// after every write). Oracle: the DryRun runs put no prepare/exec/query into
// the driver log (an empty BEGIN/COMMIT is allowed for writes, nothing at all
// for ToSQL), the three DryRun modes expose the same text and values, and the
// first statement the real run sends has exactly that text and — after
// database/sql's parameter conversion — exactly those values.
package main

import (
	"database/sql/driver"
	"errors"
	"fmt"
	"hash/fnv"
	"io"
	"log"
	"os"
	"reflect"
	"regexp"
	"strings"
	"sync"
	"sync/atomic"
	"time"

	"gorm.io/gorm"
	"gorm.io/gorm/logger"

	"verif/h"
	"verif/mc"
	pg "verif/proggram"
)

type worker struct {
	// pairs[configuration]: {normal handle, Config.DryRun handle}
	pairs  map[int][2]*h.Env
	a, b   *h.Env // the pair in use: a normal handle (session DryRun, ToSQL, real); b: Config.DryRun
	texts  map[uint64]struct{}
	outcms map[string]struct{}
}

func open(cfg *gorm.Config) *h.Env {
	e := h.Open(cfg)
	for _, s := range pg.SchemaSQL() {
		e.MustExec(s)
	}
	for _, s := range pg.SeedSQL() {
		e.MustExec(s)
	}
	return e
}

// loggerFor returns the Config.Logger of a handle configuration (nil = logger.Discard,
// which is also the base of the db.Debug() configuration).
func loggerFor(cfg int) logger.Interface {
	w := log.New(io.Discard, "", 0)
	switch cfg {
	case 1:
		return logger.New(w, logger.Config{LogLevel: logger.Info, ParameterizedQueries: true})
	case 2:
		return logger.New(w, logger.Config{LogLevel: logger.Silent})
	}
	return nil
}

func pairKey(c pg.Case) int {
	k := c.Logger
	if k == 3 {
		k = 0 // db.Debug() is derived from the Discard handle
	}
	if c.Strict {
		k += 4
	}
	if c.QueryFields == 1 {
		k += 8
	}
	return k
}

func openPair(c pg.Case) [2]*h.Env {
	qf := c.QueryFields == 1
	return [2]*h.Env{
		open(&gorm.Config{AllowGlobalUpdate: !c.Strict, QueryFields: qf, Logger: loggerFor(c.Logger % 3)}),
		open(&gorm.Config{AllowGlobalUpdate: !c.Strict, QueryFields: qf, DryRun: true, Logger: loggerFor(c.Logger % 3)}),
	}
}

func newWorker() *worker {
	return &worker{texts: map[uint64]struct{}{}, outcms: map[string]struct{}{}, pairs: map[int][2]*h.Env{}}
}

// use selects (opening it on first use) the pair of handles of a configuration.
func (w *worker) use(c pg.Case) {
	k := pairKey(c)
	pr, ok := w.pairs[k]
	if !ok {
		pr = openPair(c)
		w.pairs[k] = pr
	}
	w.a, w.b = pr[0], pr[1]
}

// renew replaces the pair in use (after a panic inside gorm left a transaction open).
func (w *worker) renew(c pg.Case) {
	w.a.Close()
	w.b.Close()
	delete(w.pairs, pairKey(c))
	w.use(c)
}

type runResult struct {
	text     string
	vars     []interface{}
	err      error
	events   []string
	stmts    []stmtEvent
	txEvents int
	leak     string
	panicMsg string
	toSQL    string
}

type stmtEvent struct {
	kind string
	text string
	args []driver.NamedValue
}

const (
	modeSession = iota
	modeConfig
	modeToSQL
	modeReal
)

var modeName = []string{"Session{DryRun:true}", "Config.DryRun", "ToSQL", "real"}

func (w *worker) run(p *pg.Prog, mode int) (res runResult) {
	env := w.a
	if mode == modeConfig {
		env = w.b
	}
	atomic.StoreInt64(env.Clock, 0)
	env.Rec.Reset()
	func() {
		defer func() {
			if r := recover(); r != nil {
				res.panicMsg = fmt.Sprint(r)
			}
		}()
		var tx *gorm.DB
		agu := p.Case.SessionAGU
		root := env.DB
		if p.Case.Logger == 3 {
			root = root.Debug()
		}
		if p.Case.QueryFields == 2 {
			// an earlier Session switches QueryFields on; the DryRun session / ToSQL must inherit it
			root = root.Session(&gorm.Session{QueryFields: true})
		}
		k := p.Case.Prefix
		withAGU := func(d *gorm.DB) *gorm.DB {
			if agu {
				return d.Session(&gorm.Session{AllowGlobalUpdate: true})
			}
			return d
		}
		switch mode {
		case modeSession:
			tx, _ = p.RunSplit(root, k, func(h *gorm.DB, body func(*gorm.DB) *gorm.DB) {
				body(h.Session(&gorm.Session{DryRun: true, AllowGlobalUpdate: agu}))
			})
		case modeConfig, modeReal:
			tx, _ = p.RunSplit(root, k, func(h *gorm.DB, body func(*gorm.DB) *gorm.DB) { body(withAGU(h)) })
		case modeToSQL:
			tx, _ = p.RunSplit(root, k, func(h *gorm.DB, body func(*gorm.DB) *gorm.DB) {
				res.toSQL = h.ToSQL(func(d *gorm.DB) *gorm.DB { return body(withAGU(d)) })
			})
		}
		if tx != nil {
			res.err = tx.Error
			res.text = tx.Statement.SQL.String()
			res.vars = append([]interface{}(nil), tx.Statement.Vars...)
		}
	}()
	for _, ev := range env.Rec.Events() {
		res.events = append(res.events, ev.String())
		if ev.IsStatement() {
			res.stmts = append(res.stmts, stmtEvent{ev.Kind, ev.SQL, ev.Args})
		} else if ev.Kind != "stmt_close" {
			res.txEvents++
		}
	}
	res.leak = env.Leaks()
	return
}

func (w *worker) reseed() {
	for _, s := range pg.SeedSQL() {
		w.a.MustExec(s)
	}
}

func convert(vars []interface{}) ([]interface{}, error) {
	out := make([]interface{}, len(vars))
	for i, v := range vars {
		cv, err := driver.DefaultParameterConverter.ConvertValue(v)
		if err != nil {
			return nil, fmt.Errorf("value %d (%T): %v", i+1, v, err)
		}
		out[i] = cv
	}
	return out, nil
}

func show(v interface{}) string {
	s := fmt.Sprintf("%v", v)
	if b, ok := v.([]byte); ok {
		s = string(b)
	}
	if rv := reflect.ValueOf(v); rv.IsValid() && rv.Kind() == reflect.Ptr && !rv.IsNil() {
		s = fmt.Sprintf("&%v", rv.Elem().Interface())
	}
	if len(s) > 50 {
		s = s[:50] + "…"
	}
	return fmt.Sprintf("%T(%s)", v, s)
}

func showList(vs []interface{}) string {
	var out []string
	for _, v := range vs {
		out = append(out, show(v))
	}
	return "[" + strings.Join(out, ", ") + "]"
}

var addrRe = regexp.MustCompile(`0x[0-9a-f]+`)

// errKey renders an error for comparison between runs (pointer values masked).
func errKey(err error) string {
	if err == nil {
		return "<nil>"
	}
	return addrRe.ReplaceAllString(err.Error(), "0xADDR")
}

func sameVars(a, b []interface{}) bool {
	if len(a) != len(b) {
		return false
	}
	for i := range a {
		if reflect.DeepEqual(a[i], b[i]) {
			continue
		}
		// two Valuers of the same type (e.g. gorm's serializer wrapper, which
		// holds per-run pointers) are the same bound value iff they convert alike
		va, oka := a[i].(driver.Valuer)
		vb, okb := b[i].(driver.Valuer)
		if oka && okb && reflect.TypeOf(a[i]) == reflect.TypeOf(b[i]) {
			ca, ea := driver.DefaultParameterConverter.ConvertValue(va)
			cb, eb := driver.DefaultParameterConverter.ConvertValue(vb)
			if ea == nil && eb == nil && reflect.DeepEqual(ca, cb) {
				continue
			}
		}
		return false
	}
	return true
}

type stats struct {
	programs, compared, bothNothing, unconvertible, dryWriteTx, realErr, dryErr, sampled                                                                                       int64
	reads, writes, multi, multiRealStmts, classifiedPanics, bothError, bothMissingWhere, strict, writeNotReached, writeCompared, loggerCompared, prefixed, modelU, queryFields int64
}

func tags(p *pg.Prog) []string {
	var out []string
	for _, o := range p.Ops {
		out = append(out, "op:"+o.Label)
	}
	out = append(out, "fin:"+p.Fin.Label, "kind:"+p.Fin.Kind)
	if p.Case.Logger > 0 {
		out = append(out, fmt.Sprintf("logger:%d", p.Case.Logger))
	}
	if p.Case.Prefix > 0 {
		out = append(out, "receiver-prefix")
	}
	if p.Case.QueryFields > 0 {
		out = append(out, fmt.Sprintf("query-fields:%d", p.Case.QueryFields))
	}
	out = append(out, "model:"+pg.ModelName[p.Case.Model])
	if p.Case.Strict {
		if p.Case.SessionAGU {
			out = append(out, "allow-global-update:session")
		} else {
			out = append(out, "allow-global-update:off")
		}
	}
	for _, s := range p.Slots {
		if s.Class != s.Spec.Classes[0] {
			owner := "fin:" + p.Fin.Label
			if s.OpIdx >= 0 {
				owner = "op:" + p.Ops[s.OpIdx].Label
			}
			out = append(out, "class:"+pg.ClassName[s.Class], owner+"|class:"+pg.ClassName[s.Class])
		}
	}
	return out
}

func check(run *mc.Run, w *worker, p *pg.Prog, st *stats, samples *mc.Samples, outcomes *mc.Set, verbose bool) {
	p.SQLite = true
	w.use(p.Case)
	atomic.AddInt64(&st.programs, 1)
	if p.Case.Strict {
		atomic.AddInt64(&st.strict, 1)
	}
	if p.Case.Model == pg.ModelU {
		atomic.AddInt64(&st.modelU, 1)
	}
	if p.Fin.Write {
		atomic.AddInt64(&st.writes, 1)
	} else {
		atomic.AddInt64(&st.reads, 1)
	}
	if os.Getenv("VERIF_C19_TRACE") != "" {
		fmt.Fprintln(os.Stderr, "TRACE", p.String())
	}
	var rs [4]runResult
	for m := modeSession; m <= modeReal; m++ {
		rs[m] = w.run(p, m)
	}
	if rs[modeReal].panicMsg != "" || rs[modeReal].leak != "" || rs[modeSession].leak != "" || rs[modeConfig].leak != "" {
		// a panic inside gorm leaves a transaction / connection behind: continue on fresh handles
		w.renew(p.Case)
	} else if p.Fin.Write {
		w.reseed()
	}
	if verbose {
		fmt.Println("program:", p.String())
		for m := range rs {
			fmt.Printf("--- %s\nSQL:  %s\nVars: %s\nerr=%v\n", modeName[m], rs[m].text, showList(rs[m].vars), rs[m].err)
			if m == modeToSQL {
				fmt.Println("ToSQL string:", rs[m].toSQL)
			}
			for _, e := range rs[m].events {
				fmt.Println("  event:", e)
			}
		}
	}
	var problems []string
	add := func(f string, a ...interface{}) { problems = append(problems, fmt.Sprintf(f, a...)) }

	// (a) DryRun runs send nothing
	for m := modeSession; m <= modeToSQL; m++ {
		r := rs[m]
		if r.panicMsg != "" {
			add("panic: %s: %s", modeName[m], r.panicMsg)
		}
		if r.leak != "" {
			add("leak: %s: %s", modeName[m], r.leak)
		}
		if len(r.stmts) > 0 {
			add("dryrun-sent-statement: %s put %d statement(s) into the driver log, first: %s %q", modeName[m], len(r.stmts), r.stmts[0].kind, r.stmts[0].text)
		}
		if r.txEvents > 0 && !p.Fin.ExplicitTx && (m == modeToSQL || !p.Fin.Write) {
			add("dryrun-driver-call: %s made %d transaction call(s) to the driver (%s)", modeName[m], r.txEvents, strings.Join(r.events, "; "))
		}
	}
	if rs[modeReal].panicMsg != "" && p.ReturningIntoNoScanDest() {
		// classified: gorm cannot scan RETURNING rows into this destination and
		// panics after the statement was sent (and leaves its transaction open)
		atomic.AddInt64(&st.classifiedPanics, 1)
	} else {
		if rs[modeReal].panicMsg != "" {
			add("panic: real run: %s", rs[modeReal].panicMsg)
		}
		if rs[modeReal].leak != "" {
			add("leak: real run: %s", rs[modeReal].leak)
		}
	}
	if p.Fin.Write && rs[modeSession].txEvents > 0 {
		atomic.AddInt64(&st.dryWriteTx, 1)
	}

	ref := rs[modeSession]
	real := rs[modeReal]
	if p.Fin.WriteStep != "" {
		// compare the main WRITE statement instead of the first statement
		var ws []stmtEvent
		for _, e := range real.stmts {
			if strings.HasPrefix(strings.ToUpper(strings.TrimSpace(e.text)), p.Fin.WriteStep) {
				ws = append(ws, e)
			}
		}
		real.stmts = ws
	}
	if p.Fin.Multi && p.Fin.WriteStep == "" {
		// several main statements / nothing exposed on the returned handle:
		// only the "sends nothing" half applies
		atomic.AddInt64(&st.multi, 1)
		if len(real.stmts) > 0 {
			atomic.AddInt64(&st.multiRealStmts, 1)
		}
		if len(problems) > 0 {
			report(run, p, problems, ref, real)
			return
		}
		outcome := "multi stmts=" + fmt.Sprint(len(real.stmts))
		if _, dup := w.outcms[outcome]; !dup {
			w.outcms[outcome] = struct{}{}
			outcomes.Add(outcome)
		}
		return
	}

	// (b) the three DryRun modes expose the same statement
	for m := modeConfig; m <= modeToSQL; m++ {
		if rs[m].text != ref.text {
			add("dryrun-modes-differ: %s exposes %q, %s exposes %q", modeName[modeSession], ref.text, modeName[m], rs[m].text)
		} else if !sameVars(rs[m].vars, ref.vars) {
			add("dryrun-modes-differ: values of %s %s, of %s %s", modeName[modeSession], showList(ref.vars), modeName[m], showList(rs[m].vars))
		} else if errKey(rs[m].err) != errKey(ref.err) {
			add("dryrun-modes-differ: error of %s: %v, of %s: %v", modeName[modeSession], ref.err, modeName[m], rs[m].err)
		}
	}
	if ref.text != "" && rs[modeToSQL].toSQL == "" {
		add("tosql-empty: ToSQL returned an empty string although a statement was built")
	}

	// (c) the real run sends exactly the exposed statement
	dryErr := ref.err
	if errors.Is(dryErr, gorm.ErrDryRunModeUnsupported) {
		dryErr = nil // Rows()/Scan() cannot return rows in DryRun mode; the statement is still exposed
	}
	outcome := ""
	switch {
	case p.Fin.WriteStep != "" && len(real.stmts) == 0:
		// the real lookup found a row or failed: the write step was not reached
		atomic.AddInt64(&st.writeNotReached, 1)
		outcome = "write-step-not-reached"
	case ref.text == "":
		// nothing was built: the real run must not succeed in sending something
		atomic.AddInt64(&st.dryErr, 1)
		outcome = "nothing-built"
		if len(real.stmts) > 0 && real.err == nil {
			add("real-sent-unexposed: the DryRun run exposed nothing (err=%v), the real run succeeded and sent %q", ref.err, real.stmts[0].text)
		}
	default:
		want, cerr := convert(ref.vars)
		if cerr != nil {
			// database/sql refuses the value before the driver is called
			atomic.AddInt64(&st.unconvertible, 1)
			outcome = "unconvertible"
			if len(real.stmts) > 0 {
				add("real-differs: DryRun exposes a value database/sql cannot convert (%v) but the real run sent %q", cerr, real.stmts[0].text)
			}
			break
		}
		if len(real.stmts) == 0 && real.err != nil {
			// the real run refuses the operation before anything is sent: DryRun
			// shows "exactly what a real run sends" only if it reports the same error
			if errKey(dryErr) != errKey(real.err) {
				add("real-refused-dryrun-not: the real run sent nothing and returned %q; DryRun returned err=%v and exposes %q", real.err, ref.err, ref.text)
				break
			}
			atomic.AddInt64(&st.bothError, 1)
			if errors.Is(real.err, gorm.ErrMissingWhereClause) {
				atomic.AddInt64(&st.bothMissingWhere, 1)
			}
			outcome = "both-error"
			break
		}
		if len(real.stmts) == 0 {
			add("real-sent-nothing: DryRun exposes %q, the real run sent no statement (err=%v)", ref.text, real.err)
			break
		}
		main := real.stmts[0]
		var got []interface{}
		named := false
		for i, a := range main.args {
			got = append(got, a.Value)
			if a.Name != "" || a.Ordinal != i+1 {
				named = true
			}
		}
		if main.text != ref.text {
			add("real-differs: text\n  dry:  %s\n  real: %s", ref.text, main.text)
		} else if named || !sameVars(want, got) {
			add("real-differs: values\n  dry (converted): %s\n  real:            %s", showList(want), showList(got))
		} else {
			atomic.AddInt64(&st.compared, 1)
			if p.Fin.WriteStep != "" {
				atomic.AddInt64(&st.writeCompared, 1)
			}
			if p.Case.Logger > 0 {
				atomic.AddInt64(&st.loggerCompared, 1)
			}
			outcome = "equal vars=" + fmt.Sprint(len(got)) + " kind=" + main.kind
			if real.err != nil {
				atomic.AddInt64(&st.realErr, 1)
				outcome += " real-err"
			}
			hsh := fnv.New64a()
			hsh.Write([]byte(main.text))
			w.texts[hsh.Sum64()] = struct{}{}
		}
	}

	if len(problems) > 0 {
		report(run, p, problems, ref, real)
		return
	}
	if _, dup := w.outcms[outcome]; !dup {
		w.outcms[outcome] = struct{}{}
		outcomes.Add(outcome)
	}
	if len(p.Ops) > 0 && len(ref.vars) >= 2 && atomic.LoadInt64(&st.sampled) < 8 {
		atomic.AddInt64(&st.sampled, 1)
		samples.Add(map[string]string{"program": p.String(), "sql": ref.text, "real_first_statement": fmt.Sprint(real.events)})
	}
}

func report(run *mc.Run, p *pg.Prog, problems []string, ref, real runResult) {
	kind := problems[0]
	if i := strings.IndexByte(kind, ':'); i > 0 {
		kind = kind[:i]
	}
	msg := kind + "\n" + p.String() + "\n" + strings.Join(problems, "\n") +
		fmt.Sprintf("\ndry SQL:  %s\ndry Vars: %s\ndry err=%v real err=%v\nreal events:\n  %s", ref.text, showList(ref.vars), ref.err, real.err, strings.Join(real.events, "\n  "))
	if os.Getenv("VERIF_C19_LIST") != "" {
		var ops []string
		for _, o := range p.Ops {
			ops = append(ops, o.Label)
		}
		fmt.Fprintf(os.Stderr, "LIST %s | %s | %s | %s\n", kind, strings.Join(ops, " . "), p.Fin.Label, strings.SplitN(problems[0], "\n", 2)[0])
	}
	run.Violation(tags(p), msg, p.FullCase())
}

func main() {
	args := mc.ParseArgs()
	run := mc.NewRun("C19", args.Tier, "exploration")
	if args.Replay != "" {
		var c pg.Case
		if err := mc.LoadReplay(args.Replay, &c); err != nil {
			fmt.Fprintln(os.Stderr, err)
			os.Exit(3)
		}
		p, err := pg.Resolve(c)
		if err != nil {
			fmt.Fprintln(os.Stderr, err)
			os.Exit(3)
		}
		check(run, newWorker(), p, &stats{}, &mc.Samples{N: 1}, &mc.Set{}, true)
		if run.NumViolations() > 0 {
			os.Exit(1)
		}
		fmt.Println("no violation")
		return
	}

	thorough := args.Tier == "thorough"
	budget := 88 * time.Second
	if thorough {
		budget = 9 * time.Minute
	}
	if b := os.Getenv("VERIF_C19_BUDGET"); b != "" {
		budget, _ = time.ParseDuration(b)
	}
	deadline := time.Now().Add(budget)

	type item struct {
		shape  pg.Shape
		dev    int
		r1     []pg.Class
		strict int // 0: AllowGlobalUpdate by config; 1: off; 2: off in the config, on by Session
		logger int // 0 Discard, 1 Info+ParameterizedQueries, 2 Silent, 3 db.Debug()
		prefix int // number of leading calls applied to the receiver before DryRun/ToSQL is entered
		qf     int // QueryFields: 0 off, 1 by Config, 2 by an earlier Session
	}
	var items []item
	addItems := func(shapes []pg.Shape, dev int, r1 []pg.Class, strict int) {
		n := len(shapes)
		stride := 7919
		for n > 0 && n%stride == 0 {
			stride++
		}
		for i := 0; i < n; i++ {
			items = append(items, item{shapes[(i*stride)%n], dev, r1, strict % 10, (strict / 10) % 10, (strict / 100) % 10, strict / 1000})
		}
	}
	both := []int{pg.ModelT, pg.ModelS}
	all3 := []int{pg.ModelT, pg.ModelS, pg.ModelU}
	all, core := pg.OpsFor(false, false), pg.OpsFor(true, false)
	all2 := pg.OpsWith(false, false, false) // 2-call programs: without the shortest-spelling template calls (C01 matter)
	var plan string
	// update / delete finishers, for the handles without AllowGlobalUpdate
	guarded := func(fins []*pg.Fin) []*pg.Fin {
		var out []*pg.Fin
		for _, f := range fins {
			if f.Kind == "update" || f.Kind == "delete" {
				out = append(out, f)
			}
		}
		return out
	}
	// the quick plan: a closed slice that touches every dimension (handle
	// configurations, models, receiver prefix, finisher kinds). Thorough runs it
	// FIRST and the big products afterwards, smallest first, so that a run cut by
	// its deadline has still covered every dimension.
	addQuickPlan := func() {
		// classes that differ in how a bound value is converted for the driver
		convClasses := []pg.Class{pg.CStr, pg.CNilPtr, pg.CNullInvalid, pg.CBytes, pg.CSlice2, pg.CExpr, pg.CDValuerSlice, pg.CGValuer, pg.CSub, pg.CByteArray, pg.CTime}
		addItems(pg.Shapes([]int{pg.ModelT}, pg.Seqs(all, 0, 1), pg.FinsFor(false, true)), 1, convClasses, 0)
		addItems(pg.Shapes([]int{pg.ModelS}, pg.Seqs(all, 0, 1), pg.FinsFor(false, true)), 0, nil, 0)
		for lg := 1; lg <= 3; lg++ {
			addItems(pg.Shapes(both, pg.Seqs(all, 0, 1), pg.FinsFor(false, true)), 0, nil, 10*lg)
		}
		addItems(pg.Shapes(both, pg.Seqs(all, 0, 1), guarded(pg.FinsFor(false, true))), 0, nil, 1)
		addItems(pg.Shapes(both, pg.Seqs(all, 0, 1), guarded(pg.FinsFor(false, true))), 0, nil, 2)
		// the model with integer tracked-time / serializer / default / pointer fields
		addItems(pg.Shapes([]int{pg.ModelU}, pg.Seqs(all, 0, 1), pg.FinsFor(false, true)), 0, nil, 0)
		// QueryFields by Config and by an earlier Session: the read finishers (and lookup-then-write ones)
		var readers []*pg.Fin
		for _, f := range pg.FinsFor(false, true) {
			if f.Kind == "query" || f.WriteStep != "" {
				readers = append(readers, f)
			}
		}
		addItems(pg.Shapes(all3, pg.Seqs(all, 0, 1), readers), 0, nil, 1000)
		addItems(pg.Shapes(all3, pg.Seqs(all, 0, 1), readers), 0, nil, 2000)
		// receiver prefix: the leading call(s) are applied before Session{DryRun} / ToSQL is taken
		addItems(pg.Shapes(all3, pg.Seqs(all, 1, 1), pg.FinsFor(false, true)), 0, nil, 100)
		addItems(pg.CyclicShapes(all3, pg.Seqs(all2, 2, 2), pg.FinsFor(false, true), 2), 0, nil, 100)
		addItems(pg.CyclicShapes(all3, pg.Seqs(all2, 2, 2), pg.FinsFor(false, true), 1), 0, nil, 200)
		// 2-call programs: pairwise — every call sequence with 6 finishers (3 of the
		// update/delete ones on the handles without AllowGlobalUpdate) and a model chosen cyclically
		addItems(pg.CyclicShapes(all3, pg.Seqs(all2, 2, 2), guarded(pg.FinsFor(false, true)), 3), 0, nil, 1)
		addItems(pg.CyclicShapes(all3, pg.Seqs(all2, 2, 2), pg.FinsFor(false, true), 6), 0, nil, 0)

	}
	addQuickPlan()
	plan = fmt.Sprintf("<=1 call over %d calls x %d finishers x 3 models (model T with <=1 slot deviating over 11 conversion-relevant classes of the %d path classes, S and U with default classes); every 2-call sequence with 6 of all finishers and a model chosen cyclically (pairwise cover of call x call, call x finisher, call x model; %d finishers), default classes", len(all), len(pg.FinsFor(false, true)), len(pg.PathClasses), len(pg.FinsFor(false, true)))
	if thorough {
		addItems(pg.Shapes(both, pg.Seqs(all, 0, 1), pg.FinsFor(false, true)), 1, nil, 0)
		for lg := 1; lg <= 3; lg++ {
			addItems(pg.Shapes(both, pg.Seqs(all, 0, 1), pg.FinsFor(false, true)), 1, pg.PathClasses, 10*lg)
		}
		addItems(pg.Shapes(both, pg.Seqs(all, 0, 1), guarded(pg.FinsFor(false, true))), 1, pg.PathClasses, 1)
		addItems(pg.Shapes([]int{pg.ModelU}, pg.Seqs(all, 0, 1), pg.FinsFor(false, true)), 1, pg.PathClasses, 0)
		addItems(pg.Shapes([]int{pg.ModelU}, pg.Seqs(all2, 2, 2), pg.FinsFor(true, true)), 0, nil, 0)
		addItems(pg.Shapes([]int{pg.ModelS}, pg.Seqs(core, 3, 3), pg.FinsFor(true, true)), 0, nil, 0)
		addItems(pg.Shapes(both, pg.Seqs(all2, 2, 2), pg.FinsFor(true, true)), 0, nil, 200)
		addItems(pg.Shapes(both, pg.Seqs(all2, 2, 2), guarded(pg.FinsFor(false, true))), 0, nil, 1)
		addItems(pg.Shapes(both, pg.Seqs(all2, 2, 2), pg.FinsFor(false, true)), 0, nil, 0)
		addItems(pg.Shapes(both, pg.Seqs(all2, 2, 2), pg.FinsFor(false, true)), 0, nil, 100)
		addItems(pg.Shapes(both, pg.Seqs(all2, 2, 2), pg.FinsFor(true, true)), 1, pg.PathClasses, 0)
		plan = "thorough = the quick plan first [" + plan + "], then, smallest first: <=1 call x all finishers x models T,S with <=1 slot deviating over all classes (logger / no-AllowGlobalUpdate / model U variants over the path classes); model U x 2 calls x representative finishers; 3 calls over the reduced alphabet x representative finishers x model S; every 2-call sequence x representative finishers with both calls on the receiver; x update/delete finishers without AllowGlobalUpdate; x all finishers x models T,S (default classes), the same with the first call on the receiver, and x representative finishers with <=1 slot deviating over the path classes"
	}

	st := &stats{}
	samples := &mc.Samples{N: 8}
	outcomes := &mc.Set{}
	texts := &mc.Set{}
	var next int64 = -1
	var timedOut, tooMany int32
	var shapesDone int64
	var wg sync.WaitGroup
	var mu sync.Mutex
	for i := 0; i < 16; i++ {
		wg.Add(1)
		go func() {
			defer wg.Done()
			w := newWorker()
			for {
				n := atomic.AddInt64(&next, 1)
				if int(n) >= len(items) {
					break
				}
				if time.Now().After(deadline) {
					atomic.StoreInt32(&timedOut, 1)
					break
				}
				if run.NumViolations() > 2000 {
					atomic.StoreInt32(&tooMany, 1)
					break
				}
				it := items[n]
				it.shape.ClassVectors(it.dev, it.r1, nil, func(classes []int) {
					p := it.shape.Prog(classes)
					p.Case.Strict, p.Case.SessionAGU, p.Case.Logger, p.Case.Prefix, p.Case.QueryFields = it.strict > 0, it.strict == 2, it.logger, it.prefix, it.qf
					if it.qf > 0 {
						atomic.AddInt64(&st.queryFields, 1)
					}
					if p.Case.Prefix > len(p.Ops) {
						return
					}
					if p.Case.Prefix > 0 {
						atomic.AddInt64(&st.prefixed, 1)
					}
					check(run, w, p, st, samples, outcomes, false)
				})
				atomic.AddInt64(&shapesDone, 1)
			}
			mu.Lock()
			for k := range w.texts {
				texts.Add(fmt.Sprint(k))
			}
			mu.Unlock()
		}()
	}
	wg.Wait()

	// non-vacuity floors judge a COMPLETE enumeration; a run cut by its deadline
	// (or stopped after too many violations) reports exhaustive:false instead
	if run.NumViolations() == 0 && timedOut == 0 && tooMany == 0 {
		if st.compared < 2000 {
			run.HarnessError("vacuous: only %d programs whose real statement was compared with the DryRun statement", st.compared)
		}
		if st.bothMissingWhere < 50 {
			run.HarnessError("vacuous: only %d condition-less updates/deletes refused alike by DryRun and real run", st.bothMissingWhere)
		}
		if st.queryFields < 1000 {
			run.HarnessError("vacuous: only %d programs with QueryFields", st.queryFields)
		}
		if st.prefixed < 1000 || st.modelU < 1000 {
			run.HarnessError("vacuous: programs with a receiver prefix: %d, on model U: %d", st.prefixed, st.modelU)
		}
		if st.writeCompared < 100 {
			run.HarnessError("vacuous: only %d lookup-then-write programs whose write statement was compared", st.writeCompared)
		}
		if st.loggerCompared < 1000 {
			run.HarnessError("vacuous: only %d programs compared under a non-Discard logger", st.loggerCompared)
		}
		if st.dryWriteTx < 100 {
			run.HarnessError("vacuous: only %d DryRun writes opened an (empty) implicit transaction", st.dryWriteTx)
		}
		if texts.Len() < 500 {
			run.HarnessError("vacuous: only %d distinct statement texts compared", texts.Len())
		}
	}
	run.Assume("programs of package proggram: records without nested association values; for finishers with several main statements or none exposed on the returned handle (CreateInBatches, CreateBatchSize, FirstOrCreate, FindInBatches, Transaction / Begin blocks) only the sends-nothing half is checked; a Transaction/Begin block requested by the program itself may BEGIN/COMMIT in every mode")
	run.Assume("QueryFields by Config and by an earlier Session: read finishers and lookup-then-write finishers with <=1 call on the three models")
	run.Assume("logger configurations: logger.Discard for all programs; stock logger Info+ParameterizedQueries, stock logger Silent and db.Debug() for programs with <=1 call")
	run.Assume("lookup-then-write finishers: the write statement is compared only when the real lookup found no row (what a found row contains is data DryRun cannot know)")
	run.Assume("handle configurations: AllowGlobalUpdate by Config (all programs), off, and on by Session (update/delete finishers); when the real run refuses an operation and sends nothing, DryRun must return the same error")
	run.Assume("'values after conversion' = database/sql's driver.DefaultParameterConverter (the recording driver defines no converter of its own); a value it refuses never reaches the driver, which is checked instead of the equality")
	run.Assume("when nothing is built in DryRun mode only 'the real run does not succeed in sending something' is checked; an error set after the statement was exposed (e.g. FirstOrInit assigning condition values) does not suspend the comparison")
	run.Assume("an explicit RETURNING call in front of a finisher whose destination cannot receive rows ([]map, batch sub-slice, map update without model) makes gorm's Scan panic in the REAL run on the unchanged tree; that panic (and the transaction it leaves open) is classified by this input-side predicate and not a C19 violation — the DryRun halves and the first-statement comparison are still checked")
	run.Finish(map[string]interface{}{
		"evaluations":         st.programs,
		"distinct_nontrivial": texts.Len(),
		"rule":                "every program is run as Session{DryRun:true}, Config.DryRun, ToSQL and for real from identical handles/data (counter clock reset, re-seed after writes): " + plan + "; all of these on handles with AllowGlobalUpdate, and every update/delete finisher additionally (<=1 call, and 2 calls with default classes) on handles WITHOUT AllowGlobalUpdate and with AllowGlobalUpdate switched on by Session; every program with <=1 call additionally on handles with the stock logger at Info with ParameterizedQueries, the stock logger at Silent, and db.Debug() (all writing to io.Discard); every read / lookup-then-write program with <=1 call also with QueryFields switched on by Config and by an earlier Session; every program with <=1 call also on model U (integer tracked-time columns in seconds/millis/nanos, serializer, default-value and pointer fields); every 1-call program (3 models) and every 2-call sequence (pairwise: 2+1 finishers and a model chosen cyclically per sequence) also with the first call / both calls applied to the RECEIVER before Session{DryRun:true} / ToSQL is taken from it; lookup-then-write finishers (FirstOrCreate / First,Take,Find + Save,Create into a pre-filled destination) compare their main INSERT instead of the first statement; non-trivial = distinct statement texts that reached the driver in the real run and were compared (text and converted values) with the DryRun statement",
		"samples":             samples.List(),
		"exhaustive":          timedOut == 0 && tooMany == 0,
		"shapes_total":        len(items),
		"shapes_done":         shapesDone,
		"gorm_runs":           st.programs * 4,
		"programs_real_statement_equal_to_dryrun":                           st.compared,
		"programs_real_statement_equal_but_db_error":                        st.realErr,
		"programs_dryrun_build_error_or_nothing_built":                      st.dryErr,
		"programs_value_refused_by_database_sql":                            st.unconvertible,
		"dryrun_writes_with_empty_transaction":                              st.dryWriteTx,
		"real_run_panics_classified_returning_into_unscannable_destination": st.classifiedPanics,
		"multi_statement_programs_checked_for_sending_nothing":              st.multi,
		"multi_statement_programs_whose_real_run_sent_statements":           st.multiRealStmts,
		"programs_failing_before_sending_in_both_modes":                     st.bothError,
		"programs_refused_with_missing_where_in_dryrun_and_real":            st.bothMissingWhere,
		"programs_run_without_allow_global_update":                          st.strict,
		"lookup_then_write_programs_write_statement_compared":               st.writeCompared,
		"lookup_then_write_programs_write_step_not_reached":                 st.writeNotReached,
		"programs_compared_under_a_non_discard_logger":                      st.loggerCompared,
		"programs_with_a_receiver_prefix":                                   st.prefixed,
		"programs_with_query_fields_by_config_or_earlier_session":           st.queryFields,
		"programs_on_the_model_with_transforming_fields":                    st.modelU,
		"read_programs":                     st.reads,
		"write_programs":                    st.writes,
		"distinct_outcomes":                 outcomes.Len(),
		"stopped_by_deadline":               timedOut != 0,
		"stopped_after_too_many_violations": tooMany != 0,
	})
}
