//go:build verifsched

// C14 — the prepared-statement cache is transparent, leak-free and safe in any
// interleaving. Stateless model checking of the real prepare_stmt.go under the
// controlled scheduler (E2): 2–3 harness threads (+ the closer goroutines gorm
// spawns) over a fake driver, all interleavings up to a preemption bound, with
// Prepare failures and bad connections as environment choices.
package main

import (
	"database/sql"
	"errors"
	"fmt"
	"hash/fnv"
	"os"
	"path/filepath"
	"runtime"
	"sort"
	"strings"
	"sync"
	"time"

	"database/sql/driver"

	"gorm.io/gorm"
	"gorm.io/gorm/logger"

	"verif/drivers/fakedb"
	"verif/drivers/fakedial"
	"verif/mc"
	"verif/racelog"
	"verif/sched"
)

const (
	qExec = "UPDATE kv SET v = ? WHERE k = ?"
	qSel  = "SELECT v FROM kv WHERE k = ?"
	qSel2 = "SELECT v FROM kv WHERE k = ? /*2*/"
)

// operations of a thread program
const (
	opX  = 'X' // Exec qExec on own key
	opS  = 'S' // Query qSel on own key
	opS2 = 'Z' // Query qSel2 on own key
	opT  = 'T' // Transaction{Exec qExec; Query qSel}
	opR  = 'R' // cache Reset
	opC  = 'C' // cache Close
	opP  = 'P' // first-use Session{PrepareStmt:true}.Exec qExec (only with Config.PrepareStmt=false)
	opW  = 'w' // Raw(qSel).Row().Scan on own key (QueryRowContext path)
	opV  = 'V' // Transaction{Exec qExec; Raw(qSel).Row().Scan} (QueryRowContext inside a transaction)
)

type Program struct {
	Threads      []string `json:"threads"` // one string of op letters per thread
	FaultPrepare bool     `json:"fault_prepare"`
	FaultBadConn bool     `json:"fault_badconn"`
	SessionMode  bool     `json:"session_mode"` // Config.PrepareStmt=false, threads use Session{PrepareStmt:true}
	Bound        int      `json:"preemption_bound"`
	FaultBound   int      `json:"-"`
}

func (p Program) String() string {
	s := strings.Join(p.Threads, "|")
	if p.FaultPrepare {
		s += " +prepfail"
	}
	if p.FaultBadConn {
		s += " +badconn"
	}
	if p.SessionMode {
		s += " +session"
	}
	return s
}

type opResult struct {
	Op   byte
	Err  error
	Val  int64
	Rows int64
	Found bool
	AfterCloseBegan bool
}

type outcome struct {
	results   [][]opResult
	sch       *sched.Exec
	fake      *fakedb.DB
	stats     *fakedial.Stats
	finalOpen int
	finalTx   int
	inUse     int
	kv        string
	resets    int
	closes    int
	caches    int
	finalErr  string
	prepSnap  string
}

type Replay struct {
	Program Program  `json:"program"`
	Choices []int    `json:"choices"`
	Trace   []string `json:"trace"`
	Log     []string `json:"log,omitempty"`
}

func hasOp(p Program, op byte) bool {
	for _, t := range p.Threads {
		if strings.IndexByte(t, op) >= 0 {
			return true
		}
	}
	return false
}

// runOne performs one execution of program p driven by x.
func runOne(p Program, x *mc.Exec, keepLog bool) *outcome {
	fake := fakedb.New(fakedb.Options{FaultPrepare: p.FaultPrepare, FaultBadConn: p.FaultBadConn})
	fake.KeepLog = keepLog
	sqldb := fake.OpenSQL()
	stats := fakedial.NewStats()
	pool := &fakedial.Pool{DB: sqldb, S: stats}
	db, err := gorm.Open(fakedial.Dialector{Pool: pool}, &gorm.Config{
		PrepareStmt:            !p.SessionMode,
		SkipDefaultTransaction: true,
		DisableAutomaticPing:   true,
		Logger:                 logger.Discard,
	})
	if err != nil {
		panic(err)
	}
	out := &outcome{fake: fake, stats: stats, results: make([][]opResult, len(p.Threads))}
	closeBegan := false
	// caches seen by session-mode threads
	cacheSet := map[interface{}]*gorm.PreparedStmtDB{} // keyed by the shared Mux: one entry per real cache

	cacheOf := func(d *gorm.DB) *gorm.PreparedStmtDB {
		if c, ok := d.ConnPool.(*gorm.PreparedStmtDB); ok {
			return c
		}
		return nil
	}

	bodies := make([]func(), len(p.Threads))
	var wg sync.WaitGroup // real synchronisation: orders the finalisation and the oracle after the threads
	wg.Add(len(p.Threads))
	for ti := range p.Threads {
		ti := ti
		prog := p.Threads[ti]
		key := fmt.Sprintf("k%d", ti)
		bodies[ti] = func() {
			defer wg.Done()
			val := int64(100 * (ti + 1))
			for i := 0; i < len(prog); i++ {
				fakedb.BeginOp()
				h := db
				if p.SessionMode {
					h = db.Session(&gorm.Session{PrepareStmt: true})
					if c, ok := h.Statement.ConnPool.(*gorm.PreparedStmtDB); ok {
						if _, seen := cacheSet[c.Mux]; !seen {
							cacheSet[c.Mux] = c
						}
					}
				}
				r := opResult{Op: prog[i]}
				switch prog[i] {
				case opX, opP:
					val++
					tx := h.Exec(qExec, val, key)
					r.Err, r.Rows = tx.Error, tx.RowsAffected
				case opS, opS2:
					q := qSel
					if prog[i] == opS2 {
						q = qSel2
					}
					var v []int64
					tx := h.Raw(q, key).Scan(&v)
					r.Err = tx.Error
					if len(v) > 0 {
						r.Val, r.Found = v[0], true
					}
				case opT:
					val++
					r.Err = h.Transaction(func(tx *gorm.DB) error {
						if e := tx.Exec(qExec, val, key).Error; e != nil {
							return e
						}
						var v []int64
						if e := tx.Raw(qSel, key).Scan(&v).Error; e != nil {
							return e
						}
						if len(v) > 0 {
							r.Val, r.Found = v[0], true
						}
						return nil
					})
				case opW:
					var v int64
					row := h.Raw(qSel, key).Row()
					if row == nil {
						r.Err = errors.New("Row() returned nil")
					} else if e := row.Scan(&v); e == nil {
						r.Val, r.Found = v, true
					} else if !errors.Is(e, sql.ErrNoRows) {
						r.Err = e
					}
				case opV:
					val++
					r.Err = h.Transaction(func(tx *gorm.DB) error {
						if e := tx.Exec(qExec, val, key).Error; e != nil {
							return e
						}
						var v int64
						row := tx.Raw(qSel, key).Row()
						if row == nil {
							return errors.New("Row() returned nil")
						}
						if e := row.Scan(&v); e == nil {
							r.Val, r.Found = v, true
						} else if !errors.Is(e, sql.ErrNoRows) {
							return e
						}
						return nil
					})
				case opR:
					out.resets++
					cacheOf(db).Reset()
				case opC:
					out.closes++
					closeBegan = true
					cacheOf(db).Close()
				}
				r.AfterCloseBegan = closeBegan
				out.results[ti] = append(out.results[ti], r)
			}
		}
	}
	out.sch = sched.Run(x, 4000, keepLog, bodies...)

	// finalisation (default schedule, not part of the explored choices): close the
	// cache(s) under the scheduler so that the closer goroutines are managed and
	// run to completion deterministically, then look for leaked driver statements.
	panicked := false
	for _, t := range out.sch.Threads {
		if t.Panic != nil {
			panicked = true
		}
	}
	if !out.sch.Deadlock && !out.sch.Overrun && !panicked {
		wg.Wait()
		fin := mc.NewExec(nil)
		f := sched.RunAfter(out.sch, fin, 4000, false, func() {
			if p.SessionMode {
				for _, c := range cacheSet {
					c.Close()
				}
			} else if c := cacheOf(db); c != nil {
				c.Close()
			}
		})
		if f.Deadlock {
			out.finalErr = "deadlock while closing the cache: " + f.BlockedDesc
		}
		for _, t := range f.Threads {
			if t.Panic != nil {
				out.finalErr = fmt.Sprintf("panic while closing the cache: %v", t.Panic)
			}
		}
	}
	out.caches = len(cacheSet)
	out.finalOpen = fake.OpenStmts
	out.prepSnap = fmt.Sprintf("driver prepares=%v driver closes=%v pool prepares=%v tx prepares=%v", fake.Prepared, fake.Closed, stats.DBPrepares, stats.TxPrepares)
	out.finalTx = fake.OpenTx
	out.inUse = sqldb.Stats().InUse
	out.kv = fake.Snapshot()
	sqldb.Close()
	return out
}

// expected sequential result of thread ti's i-th op (threads own their keys).
// ok[j] tells whether op j succeeded (a failed write leaves the previous value).
func expectedVal(prog string, ti, i int, ok func(j int) bool) (val int64, found bool) {
	v := int64(100 * (ti + 1))
	cur, has := int64(0), false
	for j := 0; j <= i; j++ {
		switch prog[j] {
		case opX, opT, opP, opV:
			v++
			if ok(j) {
				cur, has = v, true
			}
		}
	}
	return cur, has
}

func isInjected(err error) bool {
	return errors.Is(err, fakedb.ErrPrepare) || errors.Is(err, driver.ErrBadConn)
}

type verdict struct {
	kind string
	tags []string
	msg  string
}

func judge(p Program, o *outcome) []verdict {
	var vs []verdict
	add := func(kind string, tags []string, format string, a ...interface{}) {
		vs = append(vs, verdict{kind, tags, fmt.Sprintf(format, a...)})
	}
	hasReset, hasClose := hasOp(p, opR), hasOp(p, opC)
	if o.sch.Deadlock {
		add("deadlock", nil, "deadlock: %s", o.sch.BlockedDesc)
		return vs
	}
	if o.sch.Overrun {
		add("livelock-suspicion", nil, "step horizon exceeded")
		return vs
	}
	for _, t := range o.sch.Threads {
		if t.Panic != nil {
			add("panic", nil, "thread %s panicked: %v\n%s", t.Name, t.Panic, t.Stack)
			return vs
		}
	}
	faulty := p.FaultPrepare || p.FaultBadConn
	failedOps := 0
	for ti, rs := range o.results {
		for i, r := range rs {
			if r.Op == opR || r.Op == opC {
				continue
			}
			if r.Err != nil {
				failedOps++
				if isInjected(r.Err) {
					continue // environment failure reported to the caller: allowed
				}
				if hasClose && r.AfterCloseBegan {
					continue // clean error once the cache is closed
				}
				txt := r.Err.Error()
				if strings.Contains(txt, "statement is closed") && hasReset {
					add("stmt-closed-error-after-reset", []string{"stmt-closed-error@reset-concurrent-with-cached-stmt-use"},
						"thread %d op %d (%c) returned %q although the cache was only reset, never closed", ti, i, r.Op, txt)
					continue
				}
				if strings.Contains(txt, "statement is closed") && p.FaultBadConn {
					add("stmt-closed-error-after-badconn-eviction", []string{"stmt-closed-error@badconn-eviction-concurrent-with-cached-stmt-use"},
						"thread %d op %d (%c) returned %q: another operation's bad-connection eviction closed the cached statement this operation was using", ti, i, r.Op, txt)
					continue
				}
				add("unexpected-error", nil, "thread %d op %d (%c) returned unexpected error %q", ti, i, r.Op, txt)
				continue
			}
			want, has := expectedVal(p.Threads[ti], ti, i, func(j int) bool { return rs[j].Err == nil })
			switch r.Op {
			case opS, opS2, opT, opW, opV:
				if r.Found != has || (has && r.Val != want) {
					add("wrong-rows", nil, "thread %d op %d (%c) read (%d,%v), sequential non-prepared run reads (%d,%v)", ti, i, r.Op, r.Val, r.Found, want, has)
				}
			case opX, opP:
				if r.Rows != 1 {
					add("wrong-rows-affected", nil, "thread %d op %d exec RowsAffected=%d want 1", ti, i, r.Rows)
				}
			}
		}
	}
	// leaks
	if o.finalErr != "" {
		add("finalisation", nil, "%s", o.finalErr)
	}
	if o.finalOpen != 0 {
		add("leaked-driver-statement", nil, "%d driver statement(s) still open after the cache was closed and all closers finished (%s)", o.finalOpen, o.prepSnap)
	}
	if o.finalTx != 0 || o.inUse != 0 {
		add("leaked-connection", nil, "open driver transactions=%d connections in use=%d", o.finalTx, o.inUse)
	}
	// at most one cache-level prepare per text and generation
	if !p.SessionMode {
		evictions := o.resets + o.closes
		for _, q := range []string{qExec, qSel, qSel2} {
			n := o.stats.DBPrepares[q]
			limit := 1 + evictions
			if faulty {
				limit += failedOps // each failed preparation / bad-conn eviction permits one more
			}
			if n > limit {
				add("double-prepare", nil, "text %q was prepared %d times on the pool; at most %d allowed (1 + %d resets/closes + %d failures)", q, n, limit, evictions, failedOps)
			}
		}
	} else if o.caches > 1 {
		add("two-caches", nil, "%d distinct prepared-statement caches were created by concurrent first uses of Session{PrepareStmt:true}", o.caches)
	}
	// final table: every thread's last successful write
	if !faulty {
		exp := map[string]int64{}
		for ti, prog := range p.Threads {
			okAll := true
			for _, r := range o.results[ti] {
				if r.Err != nil {
					okAll = false
				}
			}
			if !okAll {
				exp = nil
				break
			}
			if v, has := expectedVal(prog, ti, len(prog)-1, func(int) bool { return true }); has {
				exp[fmt.Sprintf("k%d", ti)] = v
			}
		}
		if exp != nil {
			keys := make([]string, 0, len(exp))
			for k := range exp {
				keys = append(keys, k)
			}
			sort.Strings(keys)
			var sb strings.Builder
			for _, k := range keys {
				fmt.Fprintf(&sb, "%s=%d;", k, exp[k])
			}
			if sb.String() != o.kv {
				add("wrong-final-state", nil, "table is %q, expected %q", o.kv, sb.String())
			}
		}
	}
	return vs
}

func fingerprint(o *outcome) string {
	var sb strings.Builder
	for _, rs := range o.results {
		for _, r := range rs {
			e := ""
			if r.Err != nil {
				e = r.Err.Error()
			}
			fmt.Fprintf(&sb, "%c:%s:%d:%v;", r.Op, e, r.Val, r.Found)
		}
		sb.WriteByte('|')
	}
	fmt.Fprintf(&sb, "open=%d kv=%s dl=%v prep=%v", o.finalOpen, o.kv, o.sch.Deadlock, o.stats.DBPrepares)
	return sb.String()
}

// ---------------------------------------------------------------------------

func threadPrograms(tier string) (single []string, double []string) {
	single = []string{"X", "S", "T", "R", "C", "Z"}
	double = []string{"XS", "XX", "SX", "ST", "TX", "XR", "RX", "RS", "XC", "CX", "SZ", "RR", "TT", "TS"}
	return
}

func programs(tier string, race bool) []Program {
	single, double := threadPrograms(tier)
	var ps []Program
	seen := map[string]bool{}
	add := func(p Program) {
		th := append([]string{}, p.Threads...)
		sort.Strings(th)
		k := fmt.Sprint(th, p.FaultPrepare, p.FaultBadConn, p.SessionMode, p.Bound)
		if seen[k] {
			return
		}
		seen[k] = true
		p.Threads = th
		ps = append(ps, p)
	}
	all := append(append([]string{}, single...), double...)
	nonAdmin := func(s string) bool { return strings.Trim(s, "RC") != "" }
	// 2 threads: all pairs of thread programs
	b2 := 2
	if tier == "thorough" {
		b2 = 3
	}
	if race {
		// the race build is ~10x slower: one preemption less, same programs
		b2 = 1
		if tier == "thorough" {
			b2 = 2
		}
	}
	for i, a := range all {
		for _, b := range all[i:] {
			if !nonAdmin(a) && !nonAdmin(b) {
				continue
			}
			bb := b2
			if len(a)+len(b) == 2 {
				bb = b2 + 1 // single-op pairs are cheap: one more preemption
			}
			add(Program{Threads: []string{a, b}, Bound: bb})
			add(Program{Threads: []string{a, b}, Bound: bb, FaultPrepare: true})
			add(Program{Threads: []string{a, b}, Bound: bb, FaultBadConn: true})
		}
	}
	// 3 threads: singles (+ some doubles in thorough), preemption-bounded
	three := single
	b3 := 2
	if tier == "thorough" {
		three = append(append([]string{}, single...), "XS", "XR", "RX", "XC")
		b3 = 2
	}
	if race {
		three = single
		b3 = 1
		if tier == "thorough" {
			b3 = 2
		}
	}
	for i, a := range three {
		for j, b := range three[i:] {
			for _, c := range three[i+j:] {
				if !nonAdmin(a) && !nonAdmin(b) && !nonAdmin(c) {
					continue
				}
				add(Program{Threads: []string{a, b, c}, Bound: b3})
				add(Program{Threads: []string{a, b, c}, Bound: b3, FaultPrepare: true})
				if tier == "thorough" {
					add(Program{Threads: []string{a, b, c}, Bound: b3, FaultBadConn: true})
				}
			}
		}
	}
	if tier == "thorough" && !race {
		four := []string{"X", "S", "T", "R", "C"}
		for i, a := range four {
			for j, b := range four[i:] {
				for k, c := range four[i+j:] {
					for _, d := range four[i+j+k:] {
						if !nonAdmin(a + b + c + d) {
							continue
						}
						add(Program{Threads: []string{a, b, c, d}, Bound: 1})
					}
				}
			}
		}
	}
	// QueryRowContext paths, outside and inside transactions, after the text was cached by the other path
	for _, pr := range [][]string{{"wV"}, {"SV"}, {"Vw"}, {"XwV"}, {"w", "V"}, {"SV", "X"}, {"wV", "S"}, {"V", "V"}, {"wV", "R"}} {
		add(Program{Threads: pr, Bound: b2})
	}
	// session first use
	add(Program{Threads: []string{"P", "P"}, SessionMode: true, Bound: 4})
	add(Program{Threads: []string{"PP", "P"}, SessionMode: true, Bound: 3})
	add(Program{Threads: []string{"P", "P", "P"}, SessionMode: true, Bound: 2})
	return ps
}

func main() {
	args := mc.ParseArgs()
	run := mc.NewRun("C14", args.Tier, "model_checking")
	if !sched.Instrumented {
		fmt.Fprintln(os.Stderr, "HARNESS-ERROR: binary built without the instrumentation overlay")
		os.Exit(3)
	}
	if sched.RaceBuild {
		runtime.GOMAXPROCS(1)
	} else {
		runtime.GOMAXPROCS(2)
	}
	if args.Replay != "" {
		var rp Replay
		if err := mc.LoadReplay(args.Replay, &rp); err != nil {
			fmt.Fprintln(os.Stderr, err)
			os.Exit(3)
		}
		x := mc.NewExec(rp.Choices)
		o := runOne(rp.Program, x, true)
		fmt.Printf("program %s\nschedule (non-default choices): %v\n", rp.Program, x.Trace())
		for _, l := range o.sch.LogStrings() {
			fmt.Println("  ", l)
		}
		fmt.Println("driver log:")
		for _, l := range o.fake.Log {
			fmt.Println("  ", l)
		}
		for ti, rs := range o.results {
			for i, r := range rs {
				fmt.Printf("T%d op%d %c err=%v val=%d found=%v rows=%d\n", ti, i, r.Op, r.Err, r.Val, r.Found, r.Rows)
			}
		}
		vs := judge(rp.Program, o)
		for _, v := range vs {
			fmt.Printf("VERDICT %s: %s\n", v.kind, v.msg)
			run.Violation(v.tags, v.kind+"\n"+v.msg, rp)
		}
		if x.Diverged != "" {
			fmt.Println("DIVERGED:", x.Diverged)
			os.Exit(3)
		}
		if run.NumViolations() > 0 {
			os.Exit(1)
		}
		return
	}

	ps := programs(args.Tier, sched.RaceBuild)
	if only := os.Getenv("VERIF_C14_ONLY"); only != "" {
		var f []Program
		for _, p := range ps {
			if strings.HasPrefix(p.String(), only) {
				f = append(f, p)
			}
		}
		ps = f
	}
	if mc.IsShardChild() {
		run.ChildMode()
		child(run, args, ps)
		return
	}
	nproc := 16
	budget := 50 * time.Second
	if args.Tier == "thorough" {
		budget = 6 * time.Minute
	}
	os.Setenv("VERIF_DEADLINE", fmt.Sprint(time.Now().Add(budget).Unix()))
	m := mc.RunShards(run, nproc)
	raceCov := map[string]interface{}{}
	if raceBin := os.Getenv("VERIF_RACE_BIN"); raceBin != "" {
		os.Setenv("VERIF_DEADLINE", fmt.Sprint(time.Now().Add(budget).Unix()))
		logdir := filepath.Join(mc.Root(), ".work", fmt.Sprintf("race-c14-%d", os.Getpid()))
		os.MkdirAll(logdir, 0o755)
		rm := mc.RunShardsBin(run, nproc, raceBin, []string{"GORACE=halt_on_error=0 exitcode=0 log_path=" + filepath.Join(logdir, "race"), "VERIF_RACE_LOG=" + filepath.Join(logdir, "race")})
		os.RemoveAll(logdir) // Finish exits the process: no defer
		raceCov["race_build_executions"] = rm.Counters["executions"]
		raceCov["race_reports_total"] = rm.Counters["race_reports"]
		raceCov["race_pairs_in_gorm"] = rm.Sets["race_pairs"]
		raceCov["race_reports_outside_gorm_ignored"] = rm.Counters["race_reports_ignored"]
		raceCov["race_build_programs_capped"] = rm.Counters["capped_programs"]
		m.Counters["capped_programs"] += rm.Counters["capped_programs"]
	} else {
		run.HarnessError("race build missing (VERIF_RACE_BIN not set)")
	}
	exhaustive := m.Counters["capped_programs"] == 0
	if m.Counters["nv_waiter_blocked"] == 0 || m.Counters["nv_reset_while_inprogress"] == 0 {
		if run.NumViolations() == 0 {
			run.HarnessError("vacuous: waiter-blocked executions=%d, reset-while-preparing executions=%d", m.Counters["nv_waiter_blocked"], m.Counters["nv_reset_while_inprogress"])
		}
	}
	run.Assume("database/sql and the fake driver are atomic steps; scheduling points at every sync.RWMutex/sync.Map/channel/go operation of the instrumented gorm files (statement.go's per-statement Settings map excluded)")
	run.Assume("threads use the same statement texts on their own keys; 2 threads unbounded, 3-4 threads preemption-bounded; faults: Prepare failure, persistent ErrBadConn per logical call")
	cov := map[string]interface{}{}
	for k, v := range raceCov {
		cov[k] = v
	}
	for k, v := range map[string]interface{}{
		"states":                        m.Counters["executions"],
		"transitions":                   m.Counters["points"],
		"traces_validated_against_impl": m.Counters["executions"],
		"evaluations":                   m.Counters["executions"],
		"distinct_nontrivial":           len(m.Sets["outcomes"]),
		"rule":                          "every schedule (and fault choice) of every program within its preemption bound is executed on the instrumented implementation; states = complete executions (stateless search), transitions = scheduling/choice points taken; distinct_nontrivial = distinct outcome fingerprints (results, errors, prepare counts, leaks)",
		"samples":                       m.Samples,
		"programs":                      len(ps),
		"programs_completed":            m.Counters["programs_completed"],
		"programs_capped_by_deadline":   m.Counters["capped_programs"],
		"exhaustive":                    exhaustive,
		"max_points_per_execution":      m.Max["max_depth"],
		"max_threads":                   m.Max["max_threads"],
		"executions_with_blocked_waiter":          m.Counters["nv_waiter_blocked"],
		"executions_reset_while_prepare_inflight": m.Counters["nv_reset_while_inprogress"],
		"executions_with_preemption":              m.Counters["nv_preempted"],
		"replay_divergences":                      m.Counters["divergences"],
		"deadlocks":                               m.Counters["deadlocks"],
	} {
		cov[k] = v
	}
	run.Finish(cov)
}

func hashStr(s string) uint32 {
	h := fnv.New32a()
	h.Write([]byte(s))
	return h.Sum32()
}

func child(run *mc.Run, args mc.Args, ps []Program) {
	out := mc.NewShardOut()
	var deadline time.Time
	if d := os.Getenv("VERIF_DEADLINE"); d != "" {
		var u int64
		fmt.Sscan(d, &u)
		deadline = time.Unix(u, 0)
	}
	outcomes := map[string]bool{}
	var rl *racelog.Log
	if sched.RaceBuild {
		rl = racelog.New(os.Getenv("VERIF_RACE_LOG"))
	}
	const sub = 4 // each program's tree is split into `sub` subtree shards
	item := 0
	for pi, p := range ps {
		for k := 0; k < sub; k++ {
			item++
			if int(hashStr(fmt.Sprintf("%s/%d", p, k))%uint32(args.Shards)) != args.Shard {
				continue
			}
			p := p
			e := &mc.Explorer{Bound: p.Bound, Workers: 1, Shard: k, Shards: sub, ShardDepth: 2, Deadline: deadline}
			e.Run = func(x *mc.Exec) interface{} { return runOne(p, x, false) }
			e.Check = func(x *mc.Exec, obs interface{}) {
				o := obs.(*outcome)
				fp := fingerprint(o)
				if !outcomes[fp] && len(outcomes) < 20000 {
					outcomes[fp] = true
				}
				if rl != nil {
					for _, rep := range rl.Drain() {
						out.Counters["race_reports"]++
						pair, ok := rep.Pair()
						if !ok {
							out.Counters["race_reports_ignored"]++
							continue
						}
						seen := false
						for _, q := range out.Sets["race_pairs"] {
							if q == pair {
								seen = true
							}
						}
						if !seen {
							out.Sets["race_pairs"] = append(out.Sets["race_pairs"], pair)
						}
						run.Violation([]string{"race:" + pair}, "data-race\n"+p.String()+"\n"+pair+"\n"+rep.Text,
							Replay{Program: p, Choices: x.ChoiceInts(), Trace: x.Trace()})
					}
				}
				if o.sch.SawBlocked[sched.OpRecv] {
					out.Counters["nv_waiter_blocked"]++
				}
				if o.sch.SpawnedBlocked {
					out.Counters["nv_reset_while_inprogress"]++
				}
				if o.sch.Preemptions > 0 {
					out.Counters["nv_preempted"]++
				}
				if o.sch.Deadlock {
					out.Counters["deadlocks"]++
				}
				if n := int64(len(o.sch.Threads)); n > out.Max["max_threads"] {
					out.Max["max_threads"] = n
				}
				for _, v := range judge(p, o) {
					// confirm determinism before reporting: replay 3 times
					stable := true
					for r := 0; r < 3; r++ {
						x2 := mc.NewExec(x.ChoiceInts())
						o2 := runOne(p, x2, false)
						if x2.Diverged != "" || fingerprint(o2) != fp {
							stable = false
						}
					}
					if !stable {
						run.HarnessError("nondeterministic replay for program %s choices %v", p, x.ChoiceInts())
						continue
					}
					x3 := mc.NewExec(x.ChoiceInts())
					o3 := runOne(p, x3, true)
					run.Violation(v.tags, v.kind+"\n"+p.String()+"\n"+v.msg, Replay{Program: p, Choices: x.ChoiceInts(), Trace: x.Trace(), Log: o3.sch.LogStrings()})
				}
			}
			e.Explore()
			if os.Getenv("VERIF_DEBUG") != "" {
				fmt.Fprintf(os.Stderr, "program %s sub %d/%d: owned=%d perlevel=%v completed=%d capped=%v\n", p, k, sub, e.Owned, e.PerLevel, e.CompletedBound, e.Capped)
			}
			out.Counters["executions"] += e.Owned
			out.Counters["points"] += e.PointsTotal
			out.Counters["divergences"] += e.Diverged
			if e.MaxDepth > out.Max["max_depth"] {
				out.Max["max_depth"] = e.MaxDepth
			}
			if e.Capped {
				out.Counters["capped_programs"]++
			} else if k == 0 {
				out.Counters["programs_completed"]++
			}
			if e.Diverged > 0 {
				run.HarnessError("replay divergence in program %s: %s", p, e.FirstDivergence)
			}
			if pi%37 == 0 && k == 0 && len(out.Samples) < 3 {
				out.Samples = append(out.Samples, map[string]interface{}{"program": p.String(), "bound": p.Bound, "executions_in_subtree": e.Owned})
			}
		}
	}
	for fp := range outcomes {
		out.Sets["outcomes"] = append(out.Sets["outcomes"], fp)
	}
	run.FinishShard(out)
}
