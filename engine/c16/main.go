// C16 — Save, upsert and FirstOrCreate/FirstOrInit converge to the documented
// state.
//
// Explicit-state breadth-first search (E3) over sequences of operations on a
// small key space, executed on the real gorm code on SQLite behind the
// recording driver and stepped in lock-step with a reference map keyed by
// primary key. A state is the canonical dump of the model's table (auto
// timestamps masked); a successor is produced by re-seeding the table from the
// canonical state with raw SQL and executing one more operation. Every
// expanded state is additionally reached once through the real operation path
// from the empty table (no re-seeding) and its dump compared.
package main

import (
	"database/sql"
	"fmt"
	"os"
	"sort"
	"strings"
	"sync"
	"sync/atomic"
	"time"

	"verif/h"
	"verif/mc"
)

// ---------------------------------------------------------------------------

type worker struct {
	env *h.Env
	cur [2]string // canonical key of what each table currently holds
	// per-worker counters, merged at the end
	st       stats
	classes  map[string]int64
	wrapPos  map[string]int64
	outcomes map[string]struct{}
}

func newWorker() *worker {
	e := h.Open(nil)
	for _, s := range strings.Split(schemaSQL+";"+codeSchemaSQL+";"+hookSchemaSQL, ";") {
		if strings.TrimSpace(s) != "" {
			e.MustExec(s)
		}
	}
	return &worker{env: e, classes: map[string]int64{}, wrapPos: map[string]int64{}, outcomes: map[string]struct{}{}}
}

const seedTime = "2020-01-01 00:00:00+00:00"

func (w *worker) seed(m int, st State) {
	if w.cur[m] == st.Key() {
		return // identical contents (timestamps aside) already there
	}
	e := w.env
	e.MustExec("DELETE FROM " + tableOf[m])
	for _, r := range st {
		var email interface{}
		if r.Email != nil {
			email = *r.Email
		}
		if m == mPlain {
			e.MustExec("INSERT INTO c16_plain (id,name,age,email,created_at,updated_at) VALUES (?,?,?,?,?,?)", r.ID, r.Name, r.Age, email, seedTime, seedTime)
		} else {
			var del interface{}
			if r.Del {
				del = seedTime
			}
			e.MustExec("INSERT INTO c16_soft (id,name,age,email,created_at,updated_at,deleted_at) VALUES (?,?,?,?,?,?,?)", r.ID, r.Name, r.Age, email, seedTime, seedTime, del)
		}
	}
	w.cur[m] = st.Key()
}

// dump reads the table in primary-key order, timestamps masked.
func (w *worker) dump(m int) State {
	var st State
	w.env.Quiet(func() {
		q := "SELECT id,name,age,email,0 FROM c16_plain ORDER BY id"
		if m == mSoft {
			q = "SELECT id,name,age,email,deleted_at IS NOT NULL FROM c16_soft ORDER BY id"
		}
		rows, err := w.env.SQL.Query(q)
		if err != nil {
			st = State{{ID: -1, Name: "DUMP ERROR " + err.Error()}}
			return
		}
		defer rows.Close()
		for rows.Next() {
			var id int
			var name, email sql.NullString
			var age sql.NullInt64
			var del bool
			if err := rows.Scan(&id, &name, &age, &email, &del); err != nil {
				st = append(st, Row{ID: -1, Name: "SCAN ERROR " + err.Error()})
				return
			}
			r := Row{ID: id, Name: name.String, Age: int(age.Int64), Del: del}
			if !name.Valid {
				r.Name = "\x00NULL"
			}
			if !age.Valid {
				r.Age = -999
			}
			if email.Valid {
				r.Email = strp(email.String)
			}
			st = append(st, r)
		}
	})
	return st
}

// ---------------------------------------------------------------------------

// Case is the replay format: the operation path from the empty table to the
// state, the canonical state, and the operation under test.
type Case struct {
	Model    int      `json:"model"`
	Path     []Op     `json:"path"`
	State    State    `json:"state"`
	Op       Op       `json:"op"`
	Readable []string `json:"readable,omitempty"`
}

func (c Case) lines() []string {
	var l []string
	l = append(l, "model "+modelName[c.Model]+", history from the empty table:")
	for _, o := range c.Path {
		l = append(l, "  "+o.Label(c.Model))
	}
	l = append(l, "state: "+c.State.Key())
	l = append(l, "operation: "+c.Op.Label(c.Model))
	return l
}

func tags(c Case) []string {
	var t []string
	if c.Op.wrapAfterAttrsOrAssign() {
		t = append(t, "attrs-assign-then-"+wrapShort[c.Op.Wrap]+"-then-"+finName[c.Op.Fin])
	}
	return t
}

type node struct {
	st     State
	depth  int
	parent string
	via    Op
}

type graph struct {
	mu    sync.Mutex
	nodes map[string]*node
}

func (g *graph) path(key string) []Op {
	var rev []Op
	for {
		n := g.nodes[key]
		if n == nil || n.depth == 0 {
			break
		}
		rev = append(rev, n.via)
		key = n.parent
	}
	for i, j := 0, len(rev)-1; i < j; i, j = i+1, j-1 {
		rev[i], rev[j] = rev[j], rev[i]
	}
	return rev
}

type stats struct {
	transitions    int64
	executions     int64
	saveSecond     int64
	pathReplayed   int64
	wrapped        int64
	wrappedAfter   int64
	firstOrInit    int64
	firstOrCreate  int64
	noWriteChecked int64
	nontrivial     int64
	faultSteps     int64
	createTwice    int64
}

func (a *stats) add(b *stats) {
	a.transitions += b.transitions
	a.executions += b.executions
	a.saveSecond += b.saveSecond
	a.pathReplayed += b.pathReplayed
	a.wrapped += b.wrapped
	a.wrappedAfter += b.wrappedAfter
	a.firstOrInit += b.firstOrInit
	a.firstOrCreate += b.firstOrCreate
	a.noWriteChecked += b.noWriteChecked
	a.nontrivial += b.nontrivial
	a.faultSteps += b.faultSteps
	a.createTwice += b.createTwice
}

func bump(m *sync.Map, k string) {
	v, ok := m.Load(k)
	if !ok {
		v, _ = m.LoadOrStore(k, new(int64))
	}
	atomic.AddInt64(v.(*int64), 1)
}

func dumpCounts(m *sync.Map) map[string]int64 {
	o := map[string]int64{}
	m.Range(func(k, v interface{}) bool {
		o[k.(string)] = atomic.LoadInt64(v.(*int64))
		return true
	})
	return o
}

// step executes op on state st (re-seeding if needed), judges it and returns
// the successor state. failure is "" when the reference agrees.
func (w *worker) step(m int, st State, op Op) (out Outcome, ex Expect, failure string) {
	w.seed(m, st)
	ex = ref(m, st, op)
	out = w.exec(m, st, op)
	failure = judge(m, st, op, ex, out)
	return
}

func final(out Outcome) State {
	if out.Second != nil {
		return out.Second.After
	}
	return out.After
}

func describe(out Outcome) string {
	var sb strings.Builder
	fmt.Fprintf(&sb, "err=%q rows_affected=%d returned=%v writes=%d tx_events=%d\nafter: %s\nevents:\n  %s", out.Err, out.RA, out.Recs, out.Writes, out.TxEv, out.After.Key(), fmtEvents(out.Events))
	if out.Second != nil {
		fmt.Fprintf(&sb, "\nsecond Save: err=%q rows_affected=%d returned=%v\nafter: %s\nevents:\n  %s", out.Second.Err, out.Second.RA, out.Second.Recs, out.Second.After.Key(), fmtEvents(out.Second.Events))
	}
	return sb.String()
}

// report turns a failed step into a violation. For a chain with Session /
// WithContext the unwrapped twin is executed as well: when that one agrees
// with the reference the failure is a dependence on the placement.
func report(run *mc.Run, w *worker, c Case, ex Expect, out Outcome, failure string) {
	kind := strings.SplitN(failure, "\n", 2)[0]
	extra := ""
	if c.Op.Kind == "first" && c.Op.Wrap != 0 {
		base := c.Op
		base.Wrap, base.WrapPos = 0, 0
		bout, _, bfail := w.step(c.Model, c.State, base)
		if bfail == "" {
			kind = "result depends on where Session/WithContext is placed: " + kind
			extra = fmt.Sprintf("\nsame chain without %s agrees with the reference: %s\n  returned=%v rows_affected=%d after=%s", wrapShort[c.Op.Wrap], base.Label(c.Model), bout.Recs, bout.RA, bout.After.Key())
		} else {
			extra = "\nthe same chain without the wrapper fails too: " + strings.SplitN(bfail, "\n", 2)[0]
		}
	}
	tg := tags(c)
	bump(&violByTag, strings.Join(tg, ",")+" | "+kind)
	if atomic.AddInt64(&reported, 1) > 300 {
		// keep counting (and matching known findings) without storing text
		run.Violation(tg, kind, nil)
		return
	}
	detail := ""
	if p := strings.SplitN(failure, "\n", 2); len(p) == 2 {
		detail = "\n" + p[1]
	}
	c.Readable = c.lines()
	msg := kind + "\n" + strings.Join(c.Readable, "\n") + detail + extra +
		fmt.Sprintf("\nreference: returned=%v rows_affected=%d(checked=%v) after=%s class=%s", ex.Recs, ex.RA, ex.CheckRA, ex.After.Key(), ex.Class) +
		"\nobserved: " + describe(out)
	run.Violation(tg, msg, c)
}

var violByTag sync.Map
var reported int64

func replay(run *mc.Run, path string) {
	var hc HCase
	if err := mc.LoadReplay(path, &hc); err == nil && hc.Hook {
		w := newWorker()
		fail := w.runHook(hc)
		fmt.Println(hc.String())
		fmt.Println("table after: " + w.dumpHooks())
		if fail != "" {
			fmt.Println("VERDICT: still violates: " + fail)
			run.Violation(nil, fail, hc)
			os.Exit(1)
		}
		fmt.Println("VERDICT: agrees with the reference")
		return
	}
	var uc UCase
	if err := mc.LoadReplay(path, &uc); err == nil && uc.Unique {
		w := newWorker()
		fail, _ := w.runUnique(uc)
		fmt.Println(uc.String())
		fmt.Println("table after: " + w.dumpCodesOf(uc))
		if fail != "" {
			fmt.Println("VERDICT: still violates: " + fail)
			run.Violation(nil, fail, uc)
			os.Exit(1)
		}
		fmt.Println("VERDICT: agrees with the reference")
		return
	}
	var c Case
	if err := mc.LoadReplay(path, &c); err != nil {
		fmt.Fprintln(os.Stderr, err)
		os.Exit(3)
	}
	w := newWorker()
	fmt.Println(strings.Join(c.lines(), "\n"))
	// 1. through the real history
	cur := State{}
	w.seed(c.Model, cur)
	ok := true
	for i, o := range c.Path {
		out, _, fail := w.step(c.Model, cur, o)
		if fail != "" {
			fmt.Printf("history step %d (%s) already disagrees with the reference: %s\n", i+1, o.Label(c.Model), fail)
			ok = false
		}
		cur = final(out)
	}
	if cur.Key() != c.State.Key() {
		fmt.Printf("note: history reaches %s, recorded state is %s; using the recorded state\n", cur.Key(), c.State.Key())
		ok = false
	} else {
		fmt.Println("history replayed on the implementation reaches the recorded state")
	}
	if !ok {
		w.seed(c.Model, c.State)
	}
	out, ex, fail := w.step(c.Model, c.State, c.Op)
	fmt.Printf("reference: returned=%v rows_affected=%d(checked=%v) want_error=%v after=%s\n", ex.Recs, ex.RA, ex.CheckRA, ex.WantErr, ex.After.Key())
	fmt.Println("observed: " + describe(out))
	if fail != "" {
		fmt.Println("VERDICT: still violates: " + fail)
		report(run, w, c, ex, out, fail)
		os.Exit(1)
	}
	fmt.Println("VERDICT: agrees with the reference")
}

func main() {
	args := mc.ParseArgs()
	run := mc.NewRun("C16", args.Tier, "model_checking")
	if args.Replay != "" {
		replay(run, args.Replay)
		return
	}

	// sequences of length <= maxDepth over the core alphabet; the chains with
	// Session / WithContext at every position are the last operation of every
	// sequence of length <= wrapDepth
	maxDepth, wrapDepth := 3, 2
	deadline := time.Now().Add(240 * time.Second)
	if args.Tier == "thorough" {
		maxDepth, wrapDepth = 4, 3
		deadline = time.Now().Add(570 * time.Second)
	}

	st := &stats{}
	samples := &mc.Samples{N: 24}
	var sampled sync.Map // one sample per step class
	totalStates, expanded := 0, 0
	exhaustive := true
	alphaSize := map[string]int{}
	perDepth := map[string]int{}
	const nw = 16
	workers := make([]*worker, nw)
	for i := range workers {
		workers[i] = newWorker()
	}

	uniqueN, uniqueConflicts, partialConflicts, partialHidden := uniqueEnumeration(run, workers[0])
	hookN, hookFallback := hookEnumeration(run, workers[0])

	var graphs [2]*graph
	var frontiers [2][]string
	var coreOps, wrapOps [2][]Op
	for m := 0; m < 2; m++ {
		coreOps[m], wrapOps[m] = alphabet(m)
		alphaSize[modelName[m]+"/core"] = len(coreOps[m])
		alphaSize[modelName[m]+"/session_withcontext"] = len(wrapOps[m])
		graphs[m] = &graph{nodes: map[string]*node{}}
		root := State{}
		graphs[m].nodes[root.Key()] = &node{st: root}
		frontiers[m] = []string{root.Key()}
		totalStates++
	}
	type item struct {
		m   int
		key string
	}
	// both models advance level by level, interleaved, so that an internal
	// deadline cuts the deepest level of both instead of dropping one model
	for depth := 0; depth < maxDepth && exhaustive && len(frontiers[0])+len(frontiers[1]) > 0; depth++ {
		var items []item
		var opsAt [2][]Op
		for m := 0; m < 2; m++ {
			perDepth[fmt.Sprintf("%s/depth%d", modelName[m], depth)] = len(frontiers[m])
			opsAt[m] = coreOps[m]
			if depth < wrapDepth {
				opsAt[m] = append(append([]Op{}, coreOps[m]...), wrapOps[m]...)
			}
		}
		for i := 0; i < len(frontiers[0]) || i < len(frontiers[1]); i++ {
			for m := 0; m < 2; m++ {
				if i < len(frontiers[m]) {
					items = append(items, item{m, frontiers[m][i]})
				}
			}
		}
		var next int64 = -1
		var wg sync.WaitGroup
		succ := make([][2]map[string]*node, nw)
		var timedOut int32
		for wi := 0; wi < nw; wi++ {
			wg.Add(1)
			succ[wi] = [2]map[string]*node{{}, {}}
			go func(wi int) {
				defer wg.Done()
				w := workers[wi]
				for {
					n := int(atomic.AddInt64(&next, 1))
					if n >= len(items) {
						return
					}
					if time.Now().After(deadline) {
						atomic.StoreInt32(&timedOut, 1)
						return
					}
					m, key := items[n].m, items[n].key
					g := graphs[m]
					ops := opsAt[m]
					expandState(run, w, g, m, key, ops, depth, maxDepth, depth < wrapDepth, succ[wi][m], samples, &sampled)
					expandedInc()
				}
			}(wi)
		}
		wg.Wait()
		if timedOut != 0 {
			exhaustive = false
			break
		}
		for m := 0; m < 2; m++ {
			g := graphs[m]
			// merge deterministically: the lexicographically smallest parent wins
			newKeys := map[string]*node{}
			for _, s := range succ {
				for k, n := range s[m] {
					if _, seen := g.nodes[k]; seen {
						continue
					}
					if o, ok := newKeys[k]; !ok || n.parent < o.parent {
						newKeys[k] = n
					}
				}
			}
			frontier := frontiers[m][:0]
			for k, n := range newKeys {
				g.nodes[k] = n
				frontier = append(frontier, k)
			}
			sort.Strings(frontier)
			frontiers[m] = frontier
			totalStates += len(frontier)
			if depth+1 == maxDepth {
				perDepth[fmt.Sprintf("%s/depth%d", modelName[m], depth+1)] = len(frontier)
			}
		}
	}
	expanded = int(atomic.LoadInt64(&expandedN))

	classes := map[string]int64{}
	wrapPos := map[string]int64{}
	outcomes := &mc.Set{}
	for _, w := range workers {
		st.add(&w.st)
		for k, v := range w.classes {
			classes[k] += v
		}
		for k, v := range w.wrapPos {
			wrapPos[k] += v
		}
		for k := range w.outcomes {
			outcomes.Add(k)
		}
	}
	floor := []string{
		"save-existing-key", "save-soft-deleted-key", "save-absent-key", "save-zero-key",
		"upsert-donothing-conflict", "upsert-updateall-conflict", "upsert-cols-conflict", "upsert-const-conflict",
		"upsert-updateall-conflict-soft-deleted", "upsert-cols-conflict-soft-deleted", "upsert-donothing-conflict-soft-deleted",
		"batch-upsert-updateall-conflict",
		"found", "found-first-of-many", "found-assign-update", "found-first-of-many-assign-update",
		"notfound", "notfound-soft-deleted-match", "create-key-collides-soft-deleted", "softdel-live",
		"upsert-where-true-conflict", "upsert-where-false-conflict",
		"found+or-not-group", "notfound+or-not-group", "notfound-soft-deleted-match+or-not-group", "second-call-found",
		"fault-found", "fault-found-first-of-many", "fault-found-assign-update", "fault-notfound",
		"fault-save-absent-key", "fault-save-existing-key", "fault-upsert-updateall-conflict",
	}
	if run.NumViolations() == 0 && exhaustive {
		for _, f := range floor {
			if classes[f] == 0 {
				run.HarnessError("vacuous: no step of class %q was executed", f)
			}
		}
		if partialConflicts == 0 || partialHidden == 0 {
			run.HarnessError("vacuous: partial-index target conflicts=%d hidden=%d", partialConflicts, partialHidden)
		}
		if hookFallback == 0 {
			run.HarnessError("vacuous: no Save of the hook model took the insert fallback")
		}
		if callerKeyConflicts == 0 {
			run.HarnessError("vacuous: no conflict on the unique column of the caller-assigned-key model")
		}
		if uniqueConflicts == 0 {
			run.HarnessError("vacuous: no conflict on the unique-column target")
		}
		if st.wrappedAfter == 0 || st.wrapped == 0 || st.noWriteChecked == 0 || outcomes.Len() < 50 {
			run.HarnessError("vacuous: wrapped=%d wrapped_after_attrs=%d no_write_checked=%d outcomes=%d", st.wrapped, st.wrappedAfter, st.noWriteChecked, outcomes.Len())
		}
	}

	run.Assume("SQLite dialect with RETURNING; tables created by the harness with INTEGER PRIMARY KEY (no AUTOINCREMENT) so that the next key is a function of the table contents")
	run.Assume("created_at / updated_at / the time stored in deleted_at are masked (the property sets tracked timestamps aside); deleted_at is observed as NULL / NOT NULL")
	run.Assume("RowsAffected is compared except for a batch Create with OnConflict{DoNothing} and caller-supplied keys (ambiguous); the in-memory elements of a batch Create whose OnConflict.Where skipped rows are not compared (table and RowsAffected are); FirstOrCreate with a key taken from the conditions that collides with a soft-deleted row is expected to fail and leave the table unchanged")
	run.Assume("single-fault variants: a fault is an injected error on one statement (exec/query) of the operation, executed for unwrapped operations on the states that also get the Session/WithContext chains; begin/commit faults are left to C04/C05")
	run.Assume("with Or/Not/grouped conditions the new record is expected to carry the fields of the Where condition only (what stands under Or/Not selects rows but is not copied); a raw string as the first condition and a group containing Or next to another condition are outside the alphabet (what they contribute to the record is not defined); Or/Not/groups are not combined with Session/WithContext positions")
	run.Assume("outside the alphabet: pointer to map in Where/Attrs/Assign (not accepted by gorm: assignInterfacesToValue and BuildCondition only know map values and treat *map as a primary-key value); OnConflict with an empty DoUpdates, OnConstraint, Where on DoNothing (not valid SQL), Attrs overlapping the condition columns, all-zero struct in Assign, hooks, associations, Select/Omit")
	run.Assume("the re-seeded state equals the state reached by the real history up to the masked timestamps; checked once per expanded state by replaying the history on the implementation")
	run.Finish(map[string]interface{}{
		"states":                                      totalStates,
		"states_expanded":                             expanded,
		"transitions":                                 st.transitions,
		"traces_validated_against_impl":               st.transitions,
		"evaluations":                                 st.executions,
		"distinct_nontrivial":                         st.nontrivial,
		"distinct_outcomes":                           outcomes.Len(),
		"rule":                                        fmt.Sprintf("BFS from the empty table over all operation sequences of length <= %d, per model (plain, soft-delete twin); a state is the table dump in key order with timestamps masked; every operation of the alphabet (Save x2 of keys 0..3, Create+OnConflict{DoNothing,UpdateAll,DoUpdates over every non-empty subset of name/age/email, constant assignment, UpdateAll and DoUpdates with a Where on excluded vs stored age} on keys 1..3 and two-row batches, soft delete, FirstOrInit/FirstOrCreate with 6 conditions x struct/map x Where/inline, conditions, Attrs and Assign also as pointer to struct, Attrs and Assign in struct/map/key-value form, Or/Not/grouped conditions around the condition, every writing FirstOrCreate repeated once, Session(&Session{}) or WithContext at every position of the chain) is executed on the implementation from every state of depth < %d (plus, for the states that also get the Session/WithContext chains, every unwrapped operation once more per statement it sends with that statement failing in the driver: error required, table unchanged) and compared with the reference map (returned record, RowsAffected, table, driver log); non-trivial = distinct (state, operation) whose step met existing data (key collision, match, invisible soft-deleted match) or built a record from conditions/Attrs/Assign", maxDepth, maxDepth),
		"samples":                                     samples.List(),
		"exhaustive":                                  exhaustive,
		"max_sequence_length":                         maxDepth,
		"alphabet_size":                               alphaSize,
		"states_per_depth":                            perDepth,
		"single_fault_steps":                          st.faultSteps,
		"first_or_create_repeated_calls":              st.createTwice,
		"save_idempotence_checks":                     st.saveSecond,
		"histories_replayed_on_impl":                  st.pathReplayed,
		"first_or_init_steps":                         st.firstOrInit,
		"first_or_init_no_write_verified":             st.noWriteChecked,
		"first_or_create_steps":                       st.firstOrCreate,
		"session_withcontext_steps":                   st.wrapped,
		"session_withcontext_after_attrs_assign":      st.wrappedAfter,
		"session_withcontext_positions":               wrapPos,
		"step_classes":                                classes,
		"unique_column_target_cases":                  uniqueN,
		"unique_column_target_conflicts":              uniqueConflicts,
		"caller_assigned_key_unique_target_conflicts": callerKeyConflicts,
		"hook_model_save_cases":                       hookN,
		"hook_model_save_fallback_cases":              hookFallback,
		"partial_index_target_conflicts":              partialConflicts,
		"partial_index_same_code_as_soft_deleted":     partialHidden,
		"violations_by_tag_and_kind":                  dumpCounts(&violByTag),
	})
}

func firstTime(m *sync.Map, k string) bool {
	_, dup := m.LoadOrStore(k, true)
	return !dup
}

var lastNode = &node{}

var expandedN int64

func expandedInc() { atomic.AddInt64(&expandedN, 1) }

func labels(m int, ops []Op) []string {
	var l []string
	for _, o := range ops {
		l = append(l, o.Label(m))
	}
	return l
}

// expandState executes every operation of ops on one state (reached once
// through its real history, then re-seeded) and collects the successors.
func expandState(run *mc.Run, w *worker, g *graph, m int, key string, ops []Op, depth, maxDepth int, faults bool, succ map[string]*node, samples *mc.Samples, sampledP *sync.Map) {
	nd := g.nodes[key]
	path := g.path(key)
	// reach the state through the real history once
	if len(path) > 0 {
		w.seed(m, State{})
		cur := State{}
		for _, o := range path {
			w.env.Rec.Reset()
			out := w.exec(m, cur, o)
			cur = final(out)
		}
		w.st.pathReplayed++
		if cur.Key() != key {
			run.HarnessError("nondeterminism: history %v reaches %s, expected %s", labels(m, path), cur.Key(), key)
		}
	}
	for _, op := range ops {
		out, ex, fail := w.step(m, nd.st, op)
		ws := &w.st
		ws.transitions++
		ws.executions++
		if out.Second != nil {
			ws.saveSecond++
			ws.executions++
		}
		w.classes[ex.Class]++
		if op.Kind == "first" {
			if op.Fin == 0 {
				ws.firstOrInit++
				if fail == "" {
					ws.noWriteChecked++
				}
			} else {
				ws.firstOrCreate++
			}
			if op.Wrap != 0 {
				ws.wrapped++
				w.wrapPos[fmt.Sprintf("%s@%d/%d", wrapShort[op.Wrap], op.WrapPos, len(op.calls()))]++
				if op.wrapAfterAttrsOrAssign() {
					ws.wrappedAfter++
				}
			}
		}
		w.outcomes[fmt.Sprintf("%s|%d|%v|%v", ex.Class, out.RA, out.Recs, out.Err != "")] = struct{}{}
		if ex.Class != "" && !strings.HasSuffix(ex.Class, "-fresh") && ex.Class != "save-absent-key" && ex.Class != "softdel-noop" {
			// non-trivial: the step met existing data (collision,
			// match, hidden soft-deleted row) or built a record
			// from conditions/Attrs/Assign. (model, state, op) is
			// distinct by construction: every state is expanded
			// once and the alphabet has no duplicates.
			ws.nontrivial++
			sk := ex.Class
			if op.Wrap != 0 {
				sk += "+" + wrapShort[op.Wrap]
			}
			if len(path) >= 1 && firstTime(sampledP, sk) {
				samples.Add(map[string]interface{}{"model": modelName[m], "history": labels(m, path), "state": key, "op": op.Label(m), "class": ex.Class, "returned": fmt.Sprint(out.Recs), "rows_affected": out.RA, "after": final(out).Key()})
			}
		}
		if fail != "" {
			report(run, w, Case{Model: m, Path: path, State: nd.st, Op: op}, ex, out, fail)
			// do not follow a transition the reference rejects
			continue
		}
		if faults && op.Wrap == 0 {
			// single-fault variants: the k-th statement of the operation fails
			for k := 1; k <= out.Stmts; k++ {
				fop := op
				fop.Fault = k
				fout, fex, ffail := w.step(m, nd.st, fop)
				ws.transitions++
				ws.executions++
				ws.faultSteps++
				ws.nontrivial++
				w.classes[fex.Class]++
				w.outcomes[fmt.Sprintf("%s|%d|%v|%v", fex.Class, fout.RA, fout.Recs, fout.Err != "")] = struct{}{}
				if len(path) >= 1 && firstTime(sampledP, fex.Class) {
					samples.Add(map[string]interface{}{"model": modelName[m], "history": labels(m, path), "state": key, "op": fop.Label(m), "class": fex.Class, "error": fout.Err, "after": fout.After.Key()})
				}
				if ffail != "" {
					report(run, w, Case{Model: m, Path: path, State: nd.st, Op: fop}, fex, fout, ffail)
				}
			}
		}
		if op.Kind == "first" && op.Fin == 1 && op.Wrap == 0 && out.Writes > 0 {
			// the identical FirstOrCreate once more: it is stepped against the
			// reference from the state the first call left (a call that created
			// a row matching its own conditions must now find that row and the
			// table must not grow again)
			mid := final(out)
			out2, ex2, fail2 := w.step(m, mid, op)
			ws.transitions++
			ws.executions++
			ws.createTwice++
			w.classes["second-call-"+ex2.Class]++
			if fail2 != "" {
				report(run, w, Case{Model: m, Path: append(append([]Op{}, path...), op), State: mid, Op: op}, ex2, out2, "second identical call: "+fail2)
			}
		}
		fs := final(out)
		fk := fs.Key()
		if fk != key {
			if _, ok := succ[fk]; !ok {
				if depth+1 == maxDepth {
					// never expanded: only counted
					succ[fk] = lastNode
				} else {
					succ[fk] = &node{st: fs, depth: depth + 1, parent: key, via: op}
				}
			}
		}
	}
	// the table of the other model still holds what this worker left there
	if o := w.dump(1 - m); o.Key() != w.cur[1-m] {
		run.Violation(nil, fmt.Sprintf("a table that was not addressed changed\nmodel %s state %s: table %s held %s before and %s after the operations of the alphabet", modelName[m], key, tableOf[1-m], w.cur[1-m], o.Key()), nil)
		w.cur[1-m] = o.Key()
	}
}
