package main

import (
	"fmt"
	"strings"
	"time"

	"gorm.io/gorm"
	"gorm.io/gorm/clause"

	"verif/mc"
)

// A conflict target other than the primary key: the rule must leave the key of
// the existing row alone ("UpdateAll = every column except the primary key").
// This is a flat enumeration next to the BFS (the table has its own model).

type Code struct {
	ID        uint `gorm:"primaryKey"`
	Code      string
	Label     string
	UpdatedAt time.Time
}

func (Code) TableName() string { return "c16_code" }

const codeSchemaSQL = `CREATE TABLE c16_code (id integer primary key, code text UNIQUE, label text, updated_at datetime);
CREATE TABLE c16_ncode (id integer primary key, code text UNIQUE, label text, updated_at datetime);
CREATE TABLE c16_pcode (id integer primary key, code text, label text, updated_at datetime, deleted_at datetime);
CREATE UNIQUE INDEX idx_c16_pcode_live ON c16_pcode(code) WHERE deleted_at IS NULL`

// PCode: the code is unique among live rows only (partial unique index); the
// conflict target needs OnConflict.TargetWhere to name that index.
type PCode struct {
	ID        uint `gorm:"primaryKey"`
	Code      string
	Label     string
	UpdatedAt time.Time
	DeletedAt gorm.DeletedAt
}

func (PCode) TableName() string { return "c16_pcode" }

// NCode: like Code, but the primary key is assigned by the caller (no
// database default): UpdateAll must still leave it alone on a conflict on the
// unique column.
type NCode struct {
	ID        uint `gorm:"primaryKey;autoIncrement:false"`
	Code      string
	Label     string
	UpdatedAt time.Time
}

func (NCode) TableName() string { return "c16_ncode" }

type UCase struct {
	Unique    bool   `json:"unique_target"`                 // marks the replay format
	CallerKey bool   `json:"caller_assigned_key,omitempty"` // c16_ncode: primary key without database default
	Partial   bool   `json:"partial_index,omitempty"`       // c16_pcode + TargetWhere{deleted_at IS NULL}
	ExDel     bool   `json:"existing_deleted,omitempty"`    // the existing row is soft-deleted
	Existing  int    `json:"existing_id"`
	NewID     int    `json:"new_id"`
	NewCode   string `json:"new_code"`
	Rule      int    `json:"rule"` // 0 DoNothing, 1 UpdateAll, 2 DoUpdates(label)
}

var uRuleName = []string{"OnConflict{code;DoNothing}", "OnConflict{code;UpdateAll}", "OnConflict{code;DoUpdates:AssignmentColumns(label)}"}

func (c UCase) String() string {
	if c.Partial {
		del := ""
		if c.ExDel {
			del = ",DELETED"
		}
		return fmt.Sprintf("table {(%d,\"k\",\"x\"%s),(9,\"m\",\"w\")} unique(code) WHERE deleted_at IS NULL: Clauses(%s + TargetWhere{deleted_at IS NULL}).Create(&PCode{ID:%d,Code:%q,Label:\"y\"})", c.Existing, del, uRuleName[c.Rule], c.NewID, c.NewCode)
	}
	if c.CallerKey {
		return fmt.Sprintf("table {(%d,\"k\",\"x\"),(9,\"m\",\"w\")}, key assigned by the caller (autoIncrement:false): Clauses(%s).Create(&NCode{ID:%d,Code:%q,Label:\"y\"})", c.Existing, uRuleName[c.Rule], c.NewID, c.NewCode)
	}
	return fmt.Sprintf("table {(%d,\"k\",\"x\"),(9,\"m\",\"w\")}: Clauses(%s).Create(&Code{ID:%d,Code:%q,Label:\"y\"})", c.Existing, uRuleName[c.Rule], c.NewID, c.NewCode)
}

func (w *worker) dumpCodesOf(c UCase) string {
	if c.CallerKey {
		return w.dumpCodesQ("SELECT id,code,label,0 FROM c16_ncode ORDER BY id")
	}
	return w.dumpCodes(c.Partial)
}

func (w *worker) dumpCodes(partial bool) string {
	q := "SELECT id,code,label,0 FROM c16_code ORDER BY id"
	if partial {
		q = "SELECT id,code,label,deleted_at IS NOT NULL FROM c16_pcode ORDER BY id"
	}
	return w.dumpCodesQ(q)
}

func (w *worker) dumpCodesQ(q string) string {
	var l []string
	w.env.Quiet(func() {
		rows, err := w.env.SQL.Query(q)
		if err != nil {
			l = append(l, "ERROR "+err.Error())
			return
		}
		defer rows.Close()
		for rows.Next() {
			var id int
			var code, label string
			var del bool
			rows.Scan(&id, &code, &label, &del)
			if del {
				l = append(l, fmt.Sprintf("(%d,%q,%q,DELETED)", id, code, label))
			} else {
				l = append(l, fmt.Sprintf("(%d,%q,%q)", id, code, label))
			}
		}
	})
	return strings.Join(l, "")
}

// runUnique executes one case; returns "" or the failure.
func (w *worker) runUnique(c UCase) (fail string, conflict bool) {
	e := w.env
	if c.Partial {
		e.MustExec("DELETE FROM c16_pcode")
		var del interface{}
		if c.ExDel {
			del = seedTime
		}
		e.MustExec("INSERT INTO c16_pcode (id,code,label,updated_at,deleted_at) VALUES (?,?,?,?,?)", c.Existing, "k", "x", seedTime, del)
		e.MustExec("INSERT INTO c16_pcode (id,code,label,updated_at) VALUES (9,'m','w',?)", seedTime)
	} else if c.CallerKey {
		e.MustExec("DELETE FROM c16_ncode")
		e.MustExec("INSERT INTO c16_ncode (id,code,label,updated_at) VALUES (?,?,?,?)", c.Existing, "k", "x", seedTime)
		e.MustExec("INSERT INTO c16_ncode (id,code,label,updated_at) VALUES (9,'m','w',?)", seedTime)
	} else {
		e.MustExec("DELETE FROM c16_code")
		e.MustExec("INSERT INTO c16_code (id,code,label,updated_at) VALUES (?,?,?,?)", c.Existing, "k", "x", seedTime)
		e.MustExec("INSERT INTO c16_code (id,code,label,updated_at) VALUES (9,'m','w',?)", seedTime)
	}
	var oc clause.OnConflict
	target := []clause.Column{{Name: "code"}}
	switch c.Rule {
	case 0:
		oc = clause.OnConflict{Columns: target, DoNothing: true}
	case 1:
		oc = clause.OnConflict{Columns: target, UpdateAll: true}
	default:
		oc = clause.OnConflict{Columns: target, DoUpdates: clause.AssignmentColumns([]string{"label"})}
	}
	if c.Partial {
		oc.TargetWhere = clause.Where{Exprs: []clause.Expression{clause.Expr{SQL: "deleted_at IS NULL"}}}
	}
	// reference: the rule applies where the target (unique among live rows
	// for the partial index) conflicts; otherwise the row is inserted
	conflict = c.NewCode == "k" && !c.ExDel
	label := "x"
	extra := ""
	var wantRA int64 = 1
	if conflict {
		if c.Rule != 0 {
			label = "y"
		} else {
			wantRA = 0
		}
	} else {
		id := c.NewID
		if id == 0 {
			id = 10
		}
		extra = fmt.Sprintf("(%d,%q,%q)", id, c.NewCode, "y")
	}
	first := fmt.Sprintf("(%d,%q,%q)", c.Existing, "k", label)
	if c.ExDel {
		first = fmt.Sprintf("(%d,%q,%q,DELETED)", c.Existing, "k", label)
	}
	rows := []string{first, `(9,"m","w")`}
	if extra != "" {
		// keep key order
		if c.NewID != 0 && c.NewID < c.Existing {
			rows = append([]string{extra}, rows...)
		} else if c.NewID != 0 {
			rows = []string{rows[0], extra, rows[1]}
		} else {
			rows = append(rows, extra)
		}
	}
	want := strings.Join(rows, "")

	e.Rec.Reset()
	var tx *gorm.DB
	panicMsg := ""
	func() {
		defer func() {
			if r := recover(); r != nil {
				panicMsg = fmt.Sprint(r)
			}
		}()
		if c.CallerKey {
			tx = e.DB.Clauses(oc).Create(&NCode{ID: uint(c.NewID), Code: c.NewCode, Label: "y"})
		} else if c.Partial {
			tx = e.DB.Clauses(oc).Create(&PCode{ID: uint(c.NewID), Code: c.NewCode, Label: "y"})
		} else {
			tx = e.DB.Clauses(oc).Create(&Code{ID: uint(c.NewID), Code: c.NewCode, Label: "y"})
		}
	}()
	if panicMsg != "" {
		return "panic inside gorm\n" + panicMsg, conflict
	}
	if l := e.Leaks(); l != "" {
		return "leaked transaction or connection\n" + l, conflict
	}
	got := w.dumpCodesOf(c)
	if tx.Error != nil {
		return "unexpected error\nerr: " + tx.Error.Error(), conflict
	}
	if got != want {
		return "table contents differ from the reference (conflict target = unique column)\nexpected " + want + "\nobserved " + got, conflict
	}
	if tx.RowsAffected != wantRA {
		return fmt.Sprintf("RowsAffected differs from the reference (conflict target = unique column)\nexpected %d\nobserved %d", wantRA, tx.RowsAffected), conflict
	}
	return "", conflict
}

func uniqueCases() []UCase {
	var cs []UCase
	for ex := 1; ex <= 3; ex++ {
		for nid := 0; nid <= 3; nid++ {
			if nid == ex {
				continue // both constraints of the same row: outside the rule's definition
			}
			for rule := 0; rule < 3; rule++ {
				for _, code := range []string{"k", "n"} {
					cs = append(cs, UCase{Unique: true, Existing: ex, NewID: nid, NewCode: code, Rule: rule})
					if nid != 0 {
						cs = append(cs, UCase{Unique: true, CallerKey: true, Existing: ex, NewID: nid, NewCode: code, Rule: rule})
					}
					cs = append(cs, UCase{Unique: true, Partial: true, Existing: ex, NewID: nid, NewCode: code, Rule: rule})
					cs = append(cs, UCase{Unique: true, Partial: true, ExDel: true, Existing: ex, NewID: nid, NewCode: code, Rule: rule})
				}
			}
		}
	}
	return cs
}

var callerKeyConflicts int

func uniqueEnumeration(run *mc.Run, w *worker) (n, conflicts, partialConflicts, partialHidden int) {
	for _, c := range uniqueCases() {
		fail, conflict := w.runUnique(c)
		n++
		if conflict {
			conflicts++
			if c.CallerKey {
				callerKeyConflicts++
			}
			if c.Partial {
				partialConflicts++
			}
		} else if c.Partial && c.ExDel && c.NewCode == "k" {
			partialHidden++ // same code as a soft-deleted row: not a conflict
		}
		if fail != "" {
			p := strings.SplitN(fail, "\n", 2)
			run.Violation(nil, p[0]+"\n"+c.String()+"\n"+strings.Join(p[1:], "\n"), c)
		}
	}
	return
}
