package main

import (
	"context"
	"fmt"
	"strings"

	"gorm.io/gorm"
	"gorm.io/gorm/clause"

	"verif/drivers/recsqlite"
)

// Op is one operation of the alphabet (also the replay format).
type Op struct {
	Kind string `json:"kind"` // save | upsert | upsertb | softdel | first
	Key  int    `json:"key,omitempty"`
	Val  int    `json:"val,omitempty"`
	Rule int    `json:"rule,omitempty"`

	// first-or-init / first-or-create chain
	Fin        int  `json:"fin,omitempty"`  // 0 FirstOrInit, 1 FirstOrCreate
	Cond       int  `json:"cond,omitempty"` // index into condSet
	CondForm   int  `json:"cond_form,omitempty"`
	CondInline bool `json:"cond_inline,omitempty"`
	Attrs      int  `json:"attrs,omitempty"` // 0 = no Attrs call, else index into attrSet
	AttrsForm  int  `json:"attrs_form,omitempty"`
	Assign     int  `json:"assign,omitempty"` // 0 = no Assign call, else index into assignSet
	AssignForm int  `json:"assign_form,omitempty"`
	Wrap       int  `json:"wrap,omitempty"` // 0 none, 1 Session(&Session{}), 2 WithContext(ctx)
	WrapPos    int  `json:"wrap_pos,omitempty"`

	// Extra > 0: a further condition call between Where(cond) and the rest of
	// the chain, or a grouped spelling of the condition (see extraName).
	Extra int `json:"extra,omitempty"`

	// Fault k > 0: the k-th statement the operation sends to the driver fails
	// with an injected error instead of executing (single transient fault).
	Fault int `json:"fault,omitempty"`
}

// ---- contents -------------------------------------------------------------

var condSet = []Content{
	{{"name", "a"}},
	{{"name", "b"}},
	{{"name", "z"}}, // never stored by Save/upsert: only FirstOrCreate can make it match
	{{"id", 2}},
	{{"name", "a"}, {"age", 7}},
	{{"name", "a"}, {"age", 0}}, // struct form drops the zero age, map form keeps it
}

var attrSet = []Content{
	nil,
	{{"age", 7}},
	{{"age", 7}, {"email", "e"}},
}

var assignSet = []Content{
	nil,
	{{"age", 9}},
	{{"name", "c"}},
	{{"age", 0}}, // map / kv forms only (an all-zero struct carries nothing)
}

// extras: alternatives / negations / groups around the condition. The new
// record is built from the condition of the Where call only; what stands
// under Or / Not selects rows but is never copied into the record.
const (
	xNone     = 0
	xOrMap    = 1 // .Or(map{name:"b"})
	xOrStruct = 2 // .Or(T{Name:"b"})
	xOrString = 3 // .Or("name = ?", "b")
	xNotMap   = 4 // .Not(map{age:7})
	xGroupOr  = 5 // Where(db.Where(cond).Or(map{name:"b"}))   instead of Where(cond)
	xGroupAnd = 6 // Where(db.Where(first field).Where(rest))   instead of Where(cond)
	numExtras = 7
)

func (op Op) extraMatches(r Row, condMatch bool) bool {
	switch op.Extra {
	case xOrMap, xOrStruct, xOrString, xGroupOr:
		return condMatch || r.Name == "b"
	case xNotMap:
		return condMatch && r.Age != 7
	}
	return condMatch
}

var finName = []string{"FirstOrInit", "FirstOrCreate"}
var wrapName = []string{"", "Session(&gorm.Session{})", "WithContext(ctx)"}
var wrapShort = []string{"", "Session", "WithContext"}

type ctxKey struct{}

var wrapCtx = context.WithValue(context.Background(), ctxKey{}, "c16")

// ---- upsert rules ---------------------------------------------------------

var updCols = []string{"name", "age", "email"}

const (
	ruleDoNothing = 0
	ruleUpdateAll = 1
	ruleColsFirst = 2 // 2..8: DoUpdates(AssignmentColumns(subset)), subset = bitmask rule-1
	ruleConstAge  = 9 // DoUpdates(Assignments{age: 5})
	// conditional rules: the update is applied only where the incoming age is
	// greater than the stored one (OnConflict.Where)
	ruleUpdateAllWhere = 10 // UpdateAll + Where
	ruleColsWhere      = 11 // DoUpdates(AssignmentColumns(name,email)) + Where
	numRules           = 12
)

func ruleHasWhere(rule int) bool { return rule == ruleUpdateAllWhere || rule == ruleColsWhere }

func ruleWhere(m int) clause.Where {
	return clause.Where{Exprs: []clause.Expression{clause.Expr{SQL: "excluded.age > " + tableOf[m] + ".age"}}}
}

func ruleCols(rule int) []string {
	if rule == ruleColsWhere {
		return []string{"name", "email"}
	}
	var cols []string
	mask := rule - 1
	for i, c := range updCols {
		if mask&(1<<uint(i)) != 0 {
			cols = append(cols, c)
		}
	}
	return cols
}

func ruleClause(m int, rule int) clause.OnConflict {
	idCol := []clause.Column{{Name: "id"}}
	switch {
	case rule == ruleUpdateAllWhere:
		return clause.OnConflict{UpdateAll: true, Where: ruleWhere(m)}
	case rule == ruleColsWhere:
		return clause.OnConflict{Columns: idCol, DoUpdates: clause.AssignmentColumns(ruleCols(rule)), Where: ruleWhere(m)}
	case rule == ruleDoNothing:
		return clause.OnConflict{DoNothing: true}
	case rule == ruleUpdateAll:
		return clause.OnConflict{UpdateAll: true}
	case rule == ruleConstAge:
		return clause.OnConflict{Columns: idCol, DoUpdates: clause.Assignments(map[string]interface{}{"age": 5})}
	default:
		return clause.OnConflict{Columns: idCol, DoUpdates: clause.AssignmentColumns(ruleCols(rule))}
	}
}

func ruleName(rule int) string {
	switch {
	case rule == ruleUpdateAllWhere:
		return "OnConflict{UpdateAll;Where:excluded.age > t.age}"
	case rule == ruleColsWhere:
		return "OnConflict{id;DoUpdates:AssignmentColumns(name,email);Where:excluded.age > t.age}"
	case rule == ruleDoNothing:
		return "OnConflict{DoNothing}"
	case rule == ruleUpdateAll:
		return "OnConflict{UpdateAll}"
	case rule == ruleConstAge:
		return "OnConflict{id;DoUpdates:Assignments{age:5}}"
	default:
		return "OnConflict{id;DoUpdates:AssignmentColumns(" + strings.Join(ruleCols(rule), ",") + ")}"
	}
}

// batch of the upsertb operation
func batchOf(op Op) [][2]int { return [][2]int{{op.Key, 0}, {op.Key + 1, 2}} }

// ---- chain shape ----------------------------------------------------------

// calls lists the chain calls before the finisher: "where", "attrs", "assign".
func (op Op) calls() []string {
	var c []string
	if !op.CondInline {
		c = append(c, "where")
	}
	if op.Extra >= xOrMap && op.Extra <= xNotMap {
		c = append(c, "extra")
	}
	if op.Attrs > 0 {
		c = append(c, "attrs")
	}
	if op.Assign > 0 {
		c = append(c, "assign")
	}
	return c
}

// wrapAfterAttrsOrAssign: the Session/WithContext call comes after an Attrs or
// Assign call (and, by construction, before the finisher). Input-side only.
func (op Op) wrapAfterAttrsOrAssign() bool {
	if op.Kind != "first" || op.Wrap == 0 {
		return false
	}
	for i, c := range op.calls() {
		if i < op.WrapPos && (c == "attrs" || c == "assign") {
			return true
		}
	}
	return false
}

func fmtArgs(m int, c Content, form int) string {
	switch form {
	case fPtr:
		return "&" + fmtArgs(m, c, fStruct)
	case fStruct:
		var p []string
		for _, kv := range c {
			k := strings.ToUpper(kv.K[:1]) + kv.K[1:]
			if kv.K == "id" {
				k = "ID"
			}
			p = append(p, fmt.Sprintf("%s:%#v", k, kv.V))
		}
		return modelName[m] + "{" + strings.Join(p, ",") + "}"
	case fMap:
		return "map{" + c.String() + "}"
	default:
		return fmt.Sprintf("%q,%#v", c[0].K, c[0].V)
	}
}

func (op Op) Label(m int) string {
	if op.Fault > 0 {
		o := op
		o.Fault = 0
		return o.Label(m) + fmt.Sprintf("  [driver fault at statement #%d]", op.Fault)
	}
	switch op.Kind {
	case "save":
		return fmt.Sprintf("Save(&%s{ID:%d,%s}) x2", modelName[m], op.Key, valSet[op.Val])
	case "upsert":
		return fmt.Sprintf("Clauses(%s).Create(&%s{ID:%d,%s})", ruleName(op.Rule), modelName[m], op.Key, valSet[op.Val])
	case "upsertb":
		var p []string
		for _, b := range batchOf(op) {
			p = append(p, fmt.Sprintf("{ID:%d,%s}", b[0], valSet[b[1]]))
		}
		return fmt.Sprintf("Clauses(%s).Create(&[]%s{%s})", ruleName(op.Rule), modelName[m], strings.Join(p, ","))
	case "softdel":
		return fmt.Sprintf("Delete(&%s{ID:%d})", modelName[m], op.Key)
	case "first":
		var parts []string
		w := func(pos int) {
			if op.Wrap != 0 && op.WrapPos == pos {
				parts = append(parts, wrapName[op.Wrap])
			}
		}
		for i, c := range op.calls() {
			w(i)
			switch c {
			case "where":
				switch op.Extra {
				case xGroupOr:
					parts = append(parts, "Where(db.Where("+fmtArgs(m, condSet[op.Cond], op.CondForm)+").Or(map{name:\"b\"}))")
				case xGroupAnd:
					c := condSet[op.Cond]
					g := "db.Where(" + fmtArgs(m, c[:1], op.CondForm) + ")"
					if len(c) > 1 {
						g += ".Where(" + fmtArgs(m, c[1:], op.CondForm) + ")"
					}
					parts = append(parts, "Where("+g+")")
				default:
					parts = append(parts, "Where("+fmtArgs(m, condSet[op.Cond], op.CondForm)+")")
				}
			case "extra":
				parts = append(parts, []string{"", `Or(map{name:"b"})`, "Or(" + modelName[m] + `{Name:"b"})`, `Or("name = ?","b")`, `Not(map{age:7})`}[op.Extra])
			case "attrs":
				parts = append(parts, "Attrs("+fmtArgs(m, attrSet[op.Attrs], op.AttrsForm)+")")
			case "assign":
				parts = append(parts, "Assign("+fmtArgs(m, assignSet[op.Assign], op.AssignForm)+")")
			}
		}
		w(len(op.calls()))
		fin := finName[op.Fin] + "(&" + modelName[m] + "{}"
		if op.CondInline {
			fin += ", " + fmtArgs(m, condSet[op.Cond], op.CondForm)
		}
		parts = append(parts, fin+")")
		return "db." + strings.Join(parts, ".")
	}
	return "?"
}

// ---- alphabet -------------------------------------------------------------

// mutators are the operations that generate the state graph; probes are the
// remaining FirstOr* programs (all FirstOrInit programs never write, and a
// wrapped FirstOrCreate must behave like its unwrapped twin which is a mutator
// or a probe itself). Every op of both lists is executed on every expanded
// state; successors are taken from all of them.
func alphabet(m int) (core, wrapped []Op) {
	var ops []Op
	seen := map[Op]bool{}
	add := func(o Op) {
		if !seen[o] {
			seen[o] = true
			ops = append(ops, o)
		}
	}
	// Save: zero key (insert path) with one value, keys 1..3 with every value.
	add(Op{Kind: "save", Key: 0, Val: 0})
	for k := 1; k <= 3; k++ {
		for v := range valSet {
			add(Op{Kind: "save", Key: k, Val: v})
		}
	}
	// upsert
	for k := 1; k <= 3; k++ {
		for v := 0; v < 2; v++ {
			for r := 0; r < numRules; r++ {
				add(Op{Kind: "upsert", Key: k, Val: v, Rule: r})
			}
		}
	}
	for k := 1; k <= 2; k++ {
		for _, r := range []int{ruleDoNothing, ruleUpdateAll, ruleColsFirst, ruleUpdateAllWhere} {
			add(Op{Kind: "upsertb", Key: k, Rule: r})
		}
	}
	if m == mSoft {
		for k := 1; k <= 3; k++ {
			add(Op{Kind: "softdel", Key: k})
		}
	}
	// P1: content product on two condition shapes, no wrapper
	type af struct{ c, f int }
	attrsP1 := []af{{0, 0}, {1, fStruct}, {2, fMap}}
	assignP1 := []af{{0, 0}, {1, fStruct}, {2, fMap}, {3, fMap}}
	for fin := 0; fin < 2; fin++ {
		for c := range condSet {
			for shape := 0; shape < 2; shape++ {
				for _, at := range attrsP1 {
					for _, as := range assignP1 {
						o := Op{Kind: "first", Fin: fin, Cond: c, Attrs: at.c, AttrsForm: at.f, Assign: as.c, AssignForm: as.f}
						if shape == 0 {
							o.CondForm, o.CondInline = fStruct, false
						} else {
							o.CondForm, o.CondInline = fMap, true
						}
						add(o)
					}
				}
			}
		}
	}
	// P1 pointer block: every struct argument of the chain given as a pointer
	for fin := 0; fin < 2; fin++ {
		for c := range condSet {
			for inline := 0; inline < 2; inline++ {
				for at := 0; at < 2; at++ {
					for as := 0; as < 2; as++ {
						o := Op{Kind: "first", Fin: fin, Cond: c, CondForm: fPtr, CondInline: inline == 1}
						if at == 1 {
							o.Attrs, o.AttrsForm = 2, fPtr
						}
						if as == 1 {
							o.Assign, o.AssignForm = 1, fPtr
						}
						add(o)
					}
				}
			}
		}
	}
	// P1 extras block: Or / Not / grouped spellings around every condition
	for fin := 0; fin < 2; fin++ {
		for c := range condSet {
			for form := fStruct; form <= fMap; form++ {
				for x := 1; x < numExtras; x++ {
					add(Op{Kind: "first", Fin: fin, Cond: c, CondForm: form, Extra: x, Attrs: 1, AttrsForm: fMap})
				}
			}
		}
	}
	core = ops
	ops = nil
	// P2: shape product (every form of condition, Attrs, Assign) with
	// Session / WithContext at every position of the chain
	for fin := 0; fin < 2; fin++ {
		for condShape := 0; condShape < 6; condShape++ {
			for atf := -1; atf < 4; atf++ {
				for asf := -1; asf < 4; asf++ {
					o := Op{Kind: "first", Fin: fin, Cond: 0, CondForm: []int{fStruct, fMap, fPtr}[condShape%3], CondInline: condShape >= 3}
					if atf >= 0 {
						o.Attrs, o.AttrsForm = 1, atf
					}
					if asf >= 0 {
						o.Assign, o.AssignForm = 1, asf
					}
					add(o)
					n := len(o.calls())
					for w := 1; w <= 2; w++ {
						for pos := 0; pos <= n; pos++ {
							ow := o
							ow.Wrap, ow.WrapPos = w, pos
							add(ow)
						}
					}
				}
			}
		}
	}
	return core, ops
}

// ---- execution on the real implementation ---------------------------------

type Outcome struct {
	Err     string
	RA      int64
	Recs    []Row
	Panic   string
	Leak    string
	Events  []recsqlite.Event
	Stmts   int  // statements sent to the driver
	Foreign bool // a statement mentioned the table of the other model
	Writes  int  // statements that are not SELECT
	TxEv    int  // begin/commit/rollback events
	After   State
	Second  *Outcome // Save: the second, identical Save
	Reached bool     // the operation body ran to its end
}

func verb(sql string) string {
	s := strings.TrimSpace(sql)
	if i := strings.IndexAny(s, " \t\n("); i > 0 {
		s = s[:i]
	}
	return strings.ToUpper(s)
}

// collect reads the driver log and the table after an operation. before is
// the state the table held when the operation started: when the driver saw
// nothing but SELECT statements the table cannot have changed and is not read
// again.
func (w *worker) collect(m int, before State, out *Outcome) {
	e := w.env
	out.Events = e.Rec.Events()
	other := tableOf[1-m]
	for _, ev := range out.Events {
		if ev.IsStatement() {
			out.Stmts++
			if verb(ev.SQL) != "SELECT" {
				out.Writes++
			}
			if strings.Contains(ev.SQL, other) {
				out.Foreign = true
			}
		} else if ev.Kind == "begin" || ev.Kind == "commit" || ev.Kind == "rollback" {
			out.TxEv++
		}
	}
	out.Leak = e.Leaks()
	if out.Writes == 0 && w.cur[m] == before.Key() {
		out.After = before
		return
	}
	out.After = w.dump(m)
	w.cur[m] = out.After.Key()
}

func fmtEvents(evs []recsqlite.Event) string {
	var l []string
	for _, ev := range evs {
		l = append(l, ev.String())
	}
	return strings.Join(l, "\n  ")
}

func (w *worker) exec(m int, before State, op Op) (out Outcome) {
	e := w.env
	db := e.DB
	e.Rec.Reset()
	if op.Fault > 0 {
		n := 0
		e.Rec.Fault = func(ev *recsqlite.Event) error {
			if ev.IsStatement() {
				n++
				if n == op.Fault {
					return recsqlite.ErrInjected
				}
			}
			return nil
		}
		defer func() { e.Rec.Fault = nil }()
	}
	run := func(o *Outcome, f func() (*gorm.DB, []Row)) {
		defer func() {
			if r := recover(); r != nil {
				o.Panic = fmt.Sprint(r)
			}
		}()
		tx, recs := f()
		if tx.Error != nil {
			o.Err = tx.Error.Error()
		}
		o.RA = tx.RowsAffected
		o.Recs = recs
		o.Reached = true
	}
	switch op.Kind {
	case "save":
		run(&out, func() (*gorm.DB, []Row) {
			rec := mkRecord(m, op.Key, valSet[op.Val])
			tx := db.Save(rec)
			return tx, []Row{readRecord(rec)}
		})
		w.collect(m, before, &out)
		if out.Panic == "" && out.Err == "" && op.Fault == 0 {
			// the same value again (with the key the first Save produced)
			key := op.Key
			if len(out.Recs) == 1 {
				key = out.Recs[0].ID
			}
			var second Outcome
			e.Rec.Reset()
			run(&second, func() (*gorm.DB, []Row) {
				rec := mkRecord(m, key, valSet[op.Val])
				tx := db.Save(rec)
				return tx, []Row{readRecord(rec)}
			})
			w.collect(m, out.After, &second)
			out.Second = &second
		}
		return
	case "upsert":
		run(&out, func() (*gorm.DB, []Row) {
			rec := mkRecord(m, op.Key, valSet[op.Val])
			tx := db.Clauses(ruleClause(m, op.Rule)).Create(rec)
			return tx, []Row{readRecord(rec)}
		})
	case "upsertb":
		run(&out, func() (*gorm.DB, []Row) {
			b := batchOf(op)
			if m == mPlain {
				var recs []User
				for _, x := range b {
					recs = append(recs, *(mkRecord(m, x[0], valSet[x[1]]).(*User)))
				}
				tx := db.Clauses(ruleClause(m, op.Rule)).Create(&recs)
				var rows []Row
				for i := range recs {
					rows = append(rows, readRecord(&recs[i]))
				}
				return tx, rows
			}
			var recs []SUser
			for _, x := range b {
				recs = append(recs, *(mkRecord(m, x[0], valSet[x[1]]).(*SUser)))
			}
			tx := db.Clauses(ruleClause(m, op.Rule)).Create(&recs)
			var rows []Row
			for i := range recs {
				rows = append(rows, readRecord(&recs[i]))
			}
			return tx, rows
		})
	case "softdel":
		run(&out, func() (*gorm.DB, []Row) {
			tx := db.Delete(mkRecord(m, op.Key, Vals{}))
			return tx, nil
		})
	case "first":
		run(&out, func() (*gorm.DB, []Row) {
			chain := db
			wrap := func(pos int) {
				if op.Wrap == 1 && op.WrapPos == pos {
					chain = chain.Session(&gorm.Session{})
				} else if op.Wrap == 2 && op.WrapPos == pos {
					chain = chain.WithContext(wrapCtx)
				}
			}
			calls := op.calls()
			for i, c := range calls {
				wrap(i)
				switch c {
				case "where":
					c := condSet[op.Cond]
					a := c.args(m, op.CondForm)
					switch op.Extra {
					case xGroupOr:
						chain = chain.Where(db.Where(a[0], a[1:]...).Or(map[string]interface{}{"name": "b"}))
					case xGroupAnd:
						a1 := c[:1].args(m, op.CondForm)
						g := db.Where(a1[0], a1[1:]...)
						if len(c) > 1 {
							a2 := c[1:].args(m, op.CondForm)
							g = g.Where(a2[0], a2[1:]...)
						}
						chain = chain.Where(g)
					default:
						chain = chain.Where(a[0], a[1:]...)
					}
				case "extra":
					switch op.Extra {
					case xOrMap:
						chain = chain.Or(map[string]interface{}{"name": "b"})
					case xOrStruct:
						chain = chain.Or(structOf(m, Content{{"name", "b"}}))
					case xOrString:
						chain = chain.Or("name = ?", "b")
					case xNotMap:
						chain = chain.Not(map[string]interface{}{"age": 7})
					}
				case "attrs":
					chain = chain.Attrs(attrSet[op.Attrs].args(m, op.AttrsForm)...)
				case "assign":
					chain = chain.Assign(assignSet[op.Assign].args(m, op.AssignForm)...)
				}
			}
			wrap(len(calls))
			dest := newRecord(m)
			var inline []interface{}
			if op.CondInline {
				inline = condSet[op.Cond].args(m, op.CondForm)
			}
			var tx *gorm.DB
			if op.Fin == 0 {
				tx = chain.FirstOrInit(dest, inline...)
			} else {
				tx = chain.FirstOrCreate(dest, inline...)
			}
			return tx, []Row{readRecord(dest)}
		})
	default:
		panic("unknown op kind " + op.Kind)
	}
	w.collect(m, before, &out)
	return
}

// ---- reference model ------------------------------------------------------

type Expect struct {
	WantErr   bool // an error is required (and the table must be unchanged)
	RA        int64
	CheckRA   bool
	Recs      []Row
	CheckRecs bool
	After     State
	NoWrite   bool   // no statement other than SELECT, no transaction
	MaxWrites int    // -1 = unbounded
	Class     string // non-vacuity class of this step
}

func rowOf(id int, v Vals) Row {
	return Row{ID: id, Name: v.Name, Age: v.Age, Email: v.Email}.clone()
}

func ref(m int, st State, op Op) Expect {
	if op.Fault > 0 {
		// a single failed statement: the operation reports an error and the
		// table is what it was (nothing is written on behalf of a failed
		// lookup, a failed write is rolled back)
		o := op
		o.Fault = 0
		base := ref(m, st, o)
		return Expect{WantErr: true, After: st.clone(), MaxWrites: -1, Class: "fault-" + base.Class}
	}
	after := st.clone()
	ex := Expect{MaxWrites: -1}
	switch op.Kind {
	case "save":
		id := op.Key
		switch {
		case id == 0:
			id = after.nextID()
			ex.Class = "save-zero-key"
		case st.find(id) < 0:
			ex.Class = "save-absent-key"
		case st[st.find(id)].Del:
			ex.Class = "save-soft-deleted-key"
		default:
			ex.Class = "save-existing-key"
		}
		r := rowOf(id, valSet[op.Val])
		after = after.put(r)
		ex.RA, ex.CheckRA = 1, true
		ex.Recs, ex.CheckRecs = []Row{r}, true
	case "upsert", "upsertb":
		var items [][2]int
		if op.Kind == "upsert" {
			items = [][2]int{{op.Key, op.Val}}
		} else {
			items = batchOf(op)
		}
		var ra int64
		conflicts, softConflicts, skipped := 0, 0, 0
		for _, it := range items {
			in := rowOf(it[0], valSet[it[1]])
			ex.Recs = append(ex.Recs, in)
			i := after.find(in.ID)
			if i < 0 {
				after = after.put(in)
				ra++
				continue
			}
			conflicts++
			if after[i].Del {
				softConflicts++
			}
			if ruleHasWhere(op.Rule) && !(in.Age > after[i].Age) {
				// the rule's condition does not hold for this row: left alone
				skipped++
				continue
			}
			switch {
			case op.Rule == ruleDoNothing:
			case op.Rule == ruleUpdateAll, op.Rule == ruleUpdateAllWhere:
				// every column except the primary key and created_at, so
				// deleted_at too (the new value has none)
				after[i] = in
				ra++
			case op.Rule == ruleConstAge:
				after[i].Age = 5
				ra++
			default:
				for _, c := range ruleCols(op.Rule) {
					switch c {
					case "name":
						after[i].Name = in.Name
					case "age":
						after[i].Age = in.Age
					case "email":
						after[i].Email = in.clone().Email
					}
				}
				ra++
			}
		}
		// the in-memory elements of a batch whose conditional rule skipped some
		// rows are not defined by this property (gorm maps the fewer RETURNING
		// rows onto the elements in order); single records and unconditional
		// batches are compared
		ex.CheckRecs = !(op.Kind == "upsertb" && ruleHasWhere(op.Rule))
		ex.RA = ra
		// RowsAffected of a batch with DO NOTHING and caller-supplied keys is
		// not defined by the property (ambiguous); single-row cases are.
		ex.CheckRA = op.Kind == "upsert" || op.Rule != ruleDoNothing
		rc := "cols"
		if op.Rule == ruleDoNothing {
			rc = "donothing"
		} else if op.Rule == ruleUpdateAll {
			rc = "updateall"
		} else if op.Rule == ruleConstAge {
			rc = "const"
		} else if ruleHasWhere(op.Rule) {
			rc = "where-true"
			if skipped > 0 {
				rc = "where-false"
			}
		}
		switch {
		case softConflicts > 0:
			ex.Class = "upsert-" + rc + "-conflict-soft-deleted"
		case conflicts > 0:
			ex.Class = "upsert-" + rc + "-conflict"
		default:
			ex.Class = "upsert-" + rc + "-fresh"
		}
		if op.Kind == "upsertb" {
			ex.Class = "batch-" + ex.Class
		}
	case "softdel":
		i := after.find(op.Key)
		if i >= 0 && !after[i].Del {
			after[i].Del = true
			ex.RA = 1
			ex.Class = "softdel-live"
		} else {
			ex.Class = "softdel-noop"
		}
		ex.CheckRA = true
	case "first":
		cond := condSet[op.Cond].effective(op.CondForm)
		attrs := attrSet[op.Attrs].effective(op.AttrsForm)
		assign := assignSet[op.Assign].effective(op.AssignForm)
		var matches []int
		hiddenMatch := false
		for i, r := range st {
			if op.extraMatches(r, r.matches(cond)) {
				if r.Del {
					hiddenMatch = true
				} else {
					matches = append(matches, i)
				}
			}
		}
		ex.CheckRecs = true
		if len(matches) > 0 {
			i := matches[0]
			rec := st[i].clone()
			rec.apply(assign)
			ex.Recs = []Row{rec}
			ex.Class = "found"
			if len(matches) > 1 {
				ex.Class = "found-first-of-many"
			}
			if op.Fin == 0 {
				ex.RA, ex.CheckRA = 1, true
			} else if len(assign) > 0 {
				after[i] = rec.clone()
				ex.RA, ex.CheckRA = 1, true
				ex.MaxWrites = 1
				ex.Class += "-assign-update"
			} else {
				ex.RA, ex.CheckRA = 0, true
				ex.MaxWrites = 0
			}
		} else {
			var rec Row
			rec.apply(cond)
			rec.apply(attrs)
			rec.apply(assign)
			ex.Class = "notfound"
			if hiddenMatch {
				ex.Class = "notfound-soft-deleted-match"
			}
			if op.Fin == 0 {
				ex.RA, ex.CheckRA = 0, true
			} else {
				ex.MaxWrites = 1
				if rec.ID != 0 && st.find(rec.ID) >= 0 {
					// the key taken from the conditions collides with a row the
					// query cannot see (soft-deleted): the insert must fail and
					// leave the table alone
					ex.WantErr = true
					ex.CheckRecs = false
					ex.Class = "create-key-collides-soft-deleted"
				} else {
					if rec.ID == 0 {
						rec.ID = st.nextID()
					}
					after = after.put(rec.clone())
					ex.RA, ex.CheckRA = 1, true
				}
			}
			ex.Recs = []Row{rec}
		}
		if op.Fin == 0 {
			ex.NoWrite = true
		}
		if op.Extra > 0 {
			ex.Class += "+or-not-group"
		}
	}
	ex.After = after
	return ex
}

func rowsEqual(a, b []Row) bool {
	if len(a) != len(b) {
		return false
	}
	for i := range a {
		if a[i].String() != b[i].String() {
			return false
		}
	}
	return true
}

func diffCount(a, b State) int {
	n := 0
	am := map[int]string{}
	for _, r := range a {
		am[r.ID] = r.String()
	}
	for _, r := range b {
		if s, ok := am[r.ID]; !ok || s != r.String() {
			n++
		}
		delete(am, r.ID)
	}
	return n + len(am)
}

// judge compares one executed step with the reference. It returns "" or the
// kind + detail of the first failed check.
func judge(m int, st State, op Op, ex Expect, out Outcome) string {
	if out.Panic != "" {
		return "panic inside gorm\npanic: " + out.Panic
	}
	if out.Leak != "" {
		return "leaked transaction or connection\n" + out.Leak
	}
	if out.Foreign {
		return "a statement addressed the table of the other model"
	}
	if ex.WantErr {
		if out.Err == "" {
			if op.Fault > 0 {
				if out.After.Key() != st.Key() {
					return "a statement failed but the operation returned no error and changed the table\nbefore " + st.Key() + "\nafter  " + out.After.Key()
				}
				return "a statement failed but the operation returned no error"
			}
			return "expected an error (key collides with a soft-deleted row), got none"
		}
		if out.After.Key() != st.Key() {
			return "failed operation changed the table\nbefore " + st.Key() + "\nafter  " + out.After.Key()
		}
		return ""
	}
	if out.Err != "" {
		return "unexpected error\nerr: " + out.Err
	}
	if ex.NoWrite && (out.Writes != 0 || out.TxEv != 0) {
		return fmt.Sprintf("FirstOrInit wrote to the database\nnon-SELECT statements=%d transaction events=%d", out.Writes, out.TxEv)
	}
	if ex.NoWrite && out.After.Key() != st.Key() {
		return "FirstOrInit changed the table\nbefore " + st.Key() + "\nafter  " + out.After.Key()
	}
	if op.Kind == "first" && op.Fin == 1 {
		if d := diffCount(st, out.After); d > 1 {
			return fmt.Sprintf("FirstOrCreate changed %d rows\nbefore %s\nafter  %s", d, st.Key(), out.After.Key())
		}
		if ex.MaxWrites >= 0 && out.Writes > ex.MaxWrites {
			return fmt.Sprintf("FirstOrCreate issued %d write statements, at most %d expected", out.Writes, ex.MaxWrites)
		}
	}
	if out.After.Key() != ex.After.Key() {
		return "table contents differ from the reference\nexpected " + ex.After.Key() + "\nobserved " + out.After.Key()
	}
	if ex.CheckRecs && !rowsEqual(ex.Recs, out.Recs) {
		return fmt.Sprintf("returned record differs from the reference\nexpected %v\nobserved %v", ex.Recs, out.Recs)
	}
	if ex.CheckRA && ex.RA != out.RA {
		return fmt.Sprintf("RowsAffected differs from the reference\nexpected %d\nobserved %d", ex.RA, out.RA)
	}
	if op.Kind == "save" {
		s := out.Second
		if s == nil {
			return "second Save was not executed"
		}
		if s.Panic != "" {
			return "panic inside gorm (second Save)\npanic: " + s.Panic
		}
		if s.Leak != "" {
			return "leaked transaction or connection (second Save)\n" + s.Leak
		}
		if s.Err != "" {
			return "second Save failed\nerr: " + s.Err
		}
		if s.After.Key() != out.After.Key() {
			return "Save twice differs from Save once\nafter 1st " + out.After.Key() + "\nafter 2nd " + s.After.Key()
		}
		if !rowsEqual(s.Recs, out.Recs) {
			return fmt.Sprintf("second Save returned a different record\n1st %v\n2nd %v", out.Recs, s.Recs)
		}
		if s.RA != 1 {
			return fmt.Sprintf("second Save RowsAffected differs\nexpected 1\nobserved %d", s.RA)
		}
	}
	return ""
}
