package main

import (
	"fmt"
	"strings"
	"time"

	"gorm.io/gorm"

	"verif/mc"
)

// Save of a model whose BeforeSave hook is not idempotent (suffix + revision
// counter): whichever path Save takes (insert for a zero key, UPDATE for an
// existing key, UPDATE + insert fallback for an absent or soft-deleted key),
// the stored and the returned value must be hook(value), never
// hook(hook(value)). Flat enumeration next to the BFS.

type HUser struct {
	ID        uint `gorm:"primaryKey"`
	Name      string
	Rev       int
	UpdatedAt time.Time
	DeletedAt gorm.DeletedAt
}

func (HUser) TableName() string { return "c16_hook" }

func (h *HUser) BeforeSave(tx *gorm.DB) error {
	h.Name += "!"
	h.Rev++
	return nil
}

const hookSchemaSQL = `CREATE TABLE c16_hook (id integer primary key, name text, rev integer, updated_at datetime, deleted_at datetime)`

type HCase struct {
	Hook     bool `json:"hook_save"` // marks the replay format
	Existing int  `json:"existing"`  // 0 absent, 1 live, 2 soft-deleted (row with the key of the Save; for key 0: row 1)
	Key      int  `json:"key"`
}

var hExisting = []string{"absent", "live", "soft-deleted"}

func (c HCase) String() string {
	return fmt.Sprintf("hook model (BeforeSave: Name+=\"!\", Rev++), row with that key %s: Save(&HUser{ID:%d,Name:\"a\"})", hExisting[c.Existing], c.Key)
}

func (w *worker) dumpHooks() string {
	var l []string
	w.env.Quiet(func() {
		rows, err := w.env.SQL.Query("SELECT id,name,rev,deleted_at IS NOT NULL FROM c16_hook ORDER BY id")
		if err != nil {
			l = append(l, "ERROR "+err.Error())
			return
		}
		defer rows.Close()
		for rows.Next() {
			var id, rev int
			var name string
			var del bool
			rows.Scan(&id, &name, &rev, &del)
			d := ""
			if del {
				d = ",DELETED"
			}
			l = append(l, fmt.Sprintf("(%d,%q,%d%s)", id, name, rev, d))
		}
	})
	return strings.Join(l, "")
}

func (w *worker) runHook(c HCase) string {
	e := w.env
	e.MustExec("DELETE FROM c16_hook")
	rowKey := c.Key
	if rowKey == 0 {
		rowKey = 1
	}
	if c.Existing > 0 {
		var del interface{}
		if c.Existing == 2 {
			del = seedTime
		}
		e.MustExec("INSERT INTO c16_hook (id,name,rev,updated_at,deleted_at) VALUES (?,?,?,?,?)", rowKey, "old", 5, seedTime, del)
	}
	// reference
	id := c.Key
	want := ""
	if id == 0 {
		id = 1
		if c.Existing > 0 {
			id = 2
			d := ""
			if c.Existing == 2 {
				d = ",DELETED"
			}
			want = fmt.Sprintf("(1,%q,5%s)", "old", d)
		}
	}
	want += fmt.Sprintf("(%d,%q,1)", id, "a!")

	e.Rec.Reset()
	rec := &HUser{ID: uint(c.Key), Name: "a"}
	var tx *gorm.DB
	panicMsg := ""
	func() {
		defer func() {
			if r := recover(); r != nil {
				panicMsg = fmt.Sprint(r)
			}
		}()
		tx = e.DB.Save(rec)
	}()
	if panicMsg != "" {
		return "panic inside gorm\n" + panicMsg
	}
	if l := e.Leaks(); l != "" {
		return "leaked transaction or connection\n" + l
	}
	got := w.dumpHooks()
	if tx.Error != nil {
		return "unexpected error\nerr: " + tx.Error.Error()
	}
	if got != want {
		return "Save with a non-idempotent hook: stored value differs from hook(value)\nexpected " + want + "\nobserved " + got
	}
	if int(rec.ID) != id || rec.Name != "a!" || rec.Rev != 1 {
		return fmt.Sprintf("Save with a non-idempotent hook: returned value differs from hook(value)\nexpected {%d,\"a!\",1}\nobserved {%d,%q,%d}", id, rec.ID, rec.Name, rec.Rev)
	}
	return ""
}

func hookCases() []HCase {
	var cs []HCase
	for ex := 0; ex < 3; ex++ {
		for key := 0; key <= 2; key++ {
			cs = append(cs, HCase{Hook: true, Existing: ex, Key: key})
		}
	}
	return cs
}

func hookEnumeration(run *mc.Run, w *worker) (n, fallback int) {
	for _, c := range hookCases() {
		fail := w.runHook(c)
		n++
		if c.Key != 0 && c.Existing != 1 {
			fallback++ // UPDATE matched nothing: insert fallback
		}
		if fail != "" {
			p := strings.SplitN(fail, "\n", 2)
			run.Violation(nil, p[0]+"\n"+c.String()+"\n"+strings.Join(p[1:], "\n"), c)
		}
	}
	return
}
