package main

import (
	"fmt"
	"sort"
	"strings"
	"time"

	"gorm.io/gorm"
)

// ---------------------------------------------------------------------------
// Models under test: a plain one and its soft-delete twin.

type User struct {
	ID        uint `gorm:"primaryKey"`
	Name      string
	Age       int
	Email     *string
	CreatedAt time.Time
	UpdatedAt time.Time
}

func (User) TableName() string { return "c16_plain" }

type SUser struct {
	ID        uint `gorm:"primaryKey"`
	Name      string
	Age       int
	Email     *string
	CreatedAt time.Time
	UpdatedAt time.Time
	DeletedAt gorm.DeletedAt
}

func (SUser) TableName() string { return "c16_soft" }

const (
	mPlain = 0
	mSoft  = 1
)

var tableOf = []string{"c16_plain", "c16_soft"}
var modelName = []string{"User", "SUser"}

const schemaSQL = `
CREATE TABLE c16_plain (id integer primary key, name text, age integer, email text, created_at datetime, updated_at datetime);
CREATE TABLE c16_soft (id integer primary key, name text, age integer, email text, created_at datetime, updated_at datetime, deleted_at datetime);
`

// ---------------------------------------------------------------------------
// Reference-side values. Timestamps are not part of them (masked).

// Row is one table row / one in-memory record with the auto timestamps masked.
type Row struct {
	ID    int     `json:"id"`
	Name  string  `json:"name"`
	Age   int     `json:"age"`
	Email *string `json:"email"`
	Del   bool    `json:"deleted,omitempty"`
}

func (r Row) String() string {
	e := "NULL"
	if r.Email != nil {
		e = fmt.Sprintf("%q", *r.Email)
	}
	d := ""
	if r.Del {
		d = ",DELETED"
	}
	return fmt.Sprintf("{%d,%q,%d,%s%s}", r.ID, r.Name, r.Age, e, d)
}

func (r Row) clone() Row {
	if r.Email != nil {
		e := *r.Email
		r.Email = &e
	}
	return r
}

// State is a table, rows in primary-key order.
type State []Row

func (s State) Key() string {
	parts := make([]string, len(s))
	for i, r := range s {
		parts[i] = r.String()
	}
	return strings.Join(parts, "")
}

func (s State) clone() State {
	o := make(State, len(s))
	for i, r := range s {
		o[i] = r.clone()
	}
	return o
}

func (s State) find(id int) int {
	for i, r := range s {
		if r.ID == id {
			return i
		}
	}
	return -1
}

func (s State) put(r Row) State {
	if i := s.find(r.ID); i >= 0 {
		s[i] = r
		return s
	}
	s = append(s, r)
	sort.Slice(s, func(i, j int) bool { return s[i].ID < s[j].ID })
	return s
}

// nextID is what SQLite assigns to an INTEGER PRIMARY KEY (no AUTOINCREMENT)
// column: max(rowid)+1, soft-deleted rows included.
func (s State) nextID() int {
	m := 0
	for _, r := range s {
		if r.ID > m {
			m = r.ID
		}
	}
	return m + 1
}

func strp(s string) *string { return &s }

// Vals are the non-key column values used by Save / upsert.
type Vals struct {
	Name  string
	Age   int
	Email *string
}

var valSet = []Vals{
	{"a", 7, strp("e")},
	{"b", 0, nil},
	{"a", 0, nil},
}

func (v Vals) String() string {
	e := "nil"
	if v.Email != nil {
		e = fmt.Sprintf("&%q", *v.Email)
	}
	return fmt.Sprintf("Name:%q,Age:%d,Email:%s", v.Name, v.Age, e)
}

// KV is one column/value pair of a condition / Attrs / Assign content.
type KV struct {
	K string
	V interface{} // int for id and age, string for name and email
}

type Content []KV

func (c Content) String() string {
	var p []string
	for _, kv := range c {
		p = append(p, fmt.Sprintf("%s:%#v", kv.K, kv.V))
	}
	return strings.Join(p, ",")
}

const (
	fStruct = 0
	fMap    = 1
	fKV     = 2
	fPtr    = 3 // pointer to struct: treated exactly like the struct value
)

var formName = []string{"struct", "map", "kv", "ptr"}

func isZeroV(v interface{}) bool {
	switch t := v.(type) {
	case int:
		return t == 0
	case string:
		return t == ""
	}
	return false
}

// effective returns the pairs that a content in the given form really carries:
// a struct carries only its non-zero fields, a map / key-value pair everything.
func (c Content) effective(form int) Content {
	if form != fStruct && form != fPtr {
		return c
	}
	var o Content
	for _, kv := range c {
		if !isZeroV(kv.V) {
			o = append(o, kv)
		}
	}
	return o
}

func (r *Row) apply(c Content) {
	for _, kv := range c {
		switch kv.K {
		case "id":
			r.ID = kv.V.(int)
		case "name":
			r.Name = kv.V.(string)
		case "age":
			r.Age = kv.V.(int)
		case "email":
			r.Email = strp(kv.V.(string))
		}
	}
}

func (r Row) matches(c Content) bool {
	for _, kv := range c {
		switch kv.K {
		case "id":
			if r.ID != kv.V.(int) {
				return false
			}
		case "name":
			if r.Name != kv.V.(string) {
				return false
			}
		case "age":
			if r.Age != kv.V.(int) {
				return false
			}
		case "email":
			if r.Email == nil || *r.Email != kv.V.(string) {
				return false
			}
		}
	}
	return true
}

// ---------------------------------------------------------------------------
// Building real gorm arguments from reference-side values.

func mkRecord(m int, id int, v Vals) interface{} {
	var e *string
	if v.Email != nil {
		e = strp(*v.Email)
	}
	if m == mPlain {
		return &User{ID: uint(id), Name: v.Name, Age: v.Age, Email: e}
	}
	return &SUser{ID: uint(id), Name: v.Name, Age: v.Age, Email: e}
}

func newRecord(m int) interface{} {
	if m == mPlain {
		return &User{}
	}
	return &SUser{}
}

func structOf(m int, c Content) interface{} {
	var r Row
	r.apply(c)
	if m == mPlain {
		return User{ID: uint(r.ID), Name: r.Name, Age: r.Age, Email: r.Email}
	}
	return SUser{ID: uint(r.ID), Name: r.Name, Age: r.Age, Email: r.Email}
}

// args renders a content in a form as the argument list of Where / Attrs /
// Assign / the finisher's inline conditions.
func (c Content) args(m int, form int) []interface{} {
	switch form {
	case fStruct:
		return []interface{}{structOf(m, c)}
	case fPtr:
		switch v := structOf(m, c).(type) {
		case User:
			return []interface{}{&v}
		case SUser:
			return []interface{}{&v}
		}
		panic("structOf")
	case fMap:
		mp := map[string]interface{}{}
		for _, kv := range c {
			mp[kv.K] = kv.V
		}
		return []interface{}{mp}
	default:
		return []interface{}{c[0].K, c[0].V}
	}
}

// readRecord extracts the masked value of a record returned by gorm.
func readRecord(v interface{}) Row {
	switch t := v.(type) {
	case *User:
		return Row{ID: int(t.ID), Name: t.Name, Age: t.Age, Email: t.Email}.clone()
	case *SUser:
		return Row{ID: int(t.ID), Name: t.Name, Age: t.Age, Email: t.Email, Del: t.DeletedAt.Valid}.clone()
	case User:
		return readRecord(&t)
	case SUser:
		return readRecord(&t)
	}
	panic(fmt.Sprintf("readRecord: %T", v))
}
