package main

import (
	"fmt"
	"sort"
	"strings"

	"gorm.io/gorm"

	"verif/h"
)

// Cfg is one search configuration.
type Cfg struct {
	Kind  Kind `json:"kind"`
	Slice bool `json:"slice_of_two_parents"`
	// Focus: a second, narrower search of the single-parent configuration over
	// the calls that pass the persistent values again plus the calls that
	// unlink (so that link -> unlink -> link-again with the same Go value is
	// reached within the quick bound for every relation kind).
	Focus bool `json:"kept_value_focus,omitempty"`
}

func (c Cfg) String() string {
	if c.Focus {
		return kindName[c.Kind] + "/single-kept-values"
	}
	if c.Slice {
		return kindName[c.Kind] + "/slice"
	}
	return kindName[c.Kind] + "/single"
}

func (c Cfg) parents() []uint {
	if c.Slice {
		return []uint{pA, pB}
	}
	return []uint{pA}
}

type worker struct {
	env      *h.Env
	pristine string
}

func newWorker() *worker {
	e := h.Open(&gorm.Config{})
	for _, s := range schemaSQL {
		e.MustExec(s)
	}
	seed(e)
	return &worker{env: e, pristine: takeSnap(e).String()}
}

func uptr(v uint) *uint { return &v }

// initial in-memory parents: as loaded with the relation under test preloaded.
func initialParents(c Cfg) []Parent {
	a := Parent{ID: pA, Name: "A", OwnerID: uptr(1), BossID: 1}
	t1 := Target{ID: 1, Name: "t1", OneID: 1, ManyID: uptr(1), PolyID: 1, PolyType: polyValue, SoloID: 1, SoloType: polyValue}
	switch c.Kind {
	case HasOne:
		a.One = t1
	case HasMany:
		a.Many = []Target{t1}
	case BelongsTo:
		a.Owner = &t1
	case BelongsToVal:
		a.Boss = t1
	case PolyOne:
		a.Pet = t1
	case Many2Many:
		a.Tags = []*Target{&t1}
	case Poly:
		a.Toys = []Target{t1}
	}
	if c.Slice {
		return []Parent{a, {ID: pB, Name: "B"}}
	}
	return []Parent{a}
}

// mkTarget: a fresh value for the plain symbols, the persistent value of this
// history for the kept ones.
func (s *session) mkTarget(sym int) *Target {
	if sym >= keptNew {
		return s.pool[sym]
	}
	if sym == 0 {
		return &Target{Name: "n"}
	}
	return &Target{ID: uint(sym), Name: fmt.Sprintf("t%d", sym)}
}

func fmtTarget(t *Target) string {
	if t == nil {
		return "nil"
	}
	many := "nil"
	if t.ManyID != nil {
		many = fmt.Sprint(*t.ManyID)
	}
	return fmt.Sprintf("{%d %s one=%d many=%s poly=%d/%q solo=%d/%q}", t.ID, t.Name, t.OneID, many, t.PolyID, t.PolyType, t.SoloID, t.SoloType)
}

// normalised list: distinct elements, sorted (the property speaks about the
// distinct records held by the field).
func fmtTargets(ts []*Target) string {
	set := map[string]bool{}
	for _, t := range ts {
		set[fmtTarget(t)] = true
	}
	var l []string
	for s := range set {
		l = append(l, s)
	}
	sort.Strings(l)
	return "[" + strings.Join(l, " ") + "]"
}

func ptrs(ts []Target) []*Target {
	var out []*Target
	for i := range ts {
		out = append(out, &ts[i])
	}
	return out
}

// memString: normalised in-memory value of one parent (all relation fields).
func memString(p *Parent) string {
	owner := "nil"
	if p.OwnerID != nil {
		owner = fmt.Sprint(*p.OwnerID)
	}
	return fmt.Sprintf("parent{%d %s ownerID=%s Owner=%s bossID=%d Boss=%s One=%s Many=%s Tags=%s Toys=%s Pet=%s}",
		p.ID, p.Name, owner, fmtTarget(p.Owner), p.BossID, fmtTarget(&p.Boss), fmtTarget(&p.One), fmtTargets(ptrs(p.Many)), fmtTargets(p.Tags), fmtTargets(ptrs(p.Toys)), fmtTarget(&p.Pet))
}

// memIDs: the distinct primary keys held by the relation field under test.
func memIDs(k Kind, p *Parent) []uint {
	set := map[uint]bool{}
	switch k {
	case HasOne:
		if p.One.ID != 0 {
			set[p.One.ID] = true
		}
	case BelongsTo:
		if p.Owner != nil && p.Owner.ID != 0 {
			set[p.Owner.ID] = true
		}
	case BelongsToVal:
		if p.Boss.ID != 0 {
			set[p.Boss.ID] = true
		}
	case PolyOne:
		if p.Pet.ID != 0 {
			set[p.Pet.ID] = true
		}
	case HasMany:
		for _, t := range p.Many {
			set[t.ID] = true
		}
	case Poly:
		for _, t := range p.Toys {
			set[t.ID] = true
		}
	case Many2Many:
		for _, t := range p.Tags {
			if t != nil {
				set[t.ID] = true
			}
		}
	}
	out := []uint{}
	for id := range set {
		out = append(out, id)
	}
	sort.Slice(out, func(i, j int) bool { return out[i] < out[j] })
	return out
}

// Obs is what is observed after one call.
type Obs struct {
	Err      string   // error returned by the call
	Panic    string   // recovered panic
	Res      [][]uint // primary keys of the argument records after the call
	Snap     *Snap
	Mem      []string
	MemIDs   [][]uint
	Leaks    string
	Count    int64 // Count() of a fresh association on the same in-memory value
	CountErr string
	FindIDs  []uint // keys returned by Find()
	FindErr  string
	Impure   string // non-empty if the Count/Find observers changed the state
	OpCount  int64  // result of the call itself when it is Count
	OpFind   []uint // result of the call itself when it is Find
	// key and name of the persistent values after the call
	KeptAfter map[int]KeptVal
}

func (o *Obs) canon() string {
	return o.Snap.String() + strings.Join(o.Mem, "\n")
}

type session struct {
	w       *worker
	c       Cfg
	parents []Parent
	pool    map[int]*Target // persistent argument values (single-parent configurations)
}

// memory: the normalised in-memory part of the state: the parent value(s) and
// the persistent argument values (a later call can read both).
func (s *session) memory() []string {
	var mem []string
	for i := range s.parents {
		mem = append(mem, memString(&s.parents[i]))
	}
	if s.pool != nil {
		mem = append(mem, fmt.Sprintf("kept values: t3=%s new=%s", fmtTarget(s.pool[keptT3]), fmtTarget(s.pool[keptNew])))
	}
	return mem
}

func (w *worker) begin(c Cfg) *session {
	seed(w.env)
	w.env.Rec.Reset()
	s := &session{w: w, c: c, parents: initialParents(c)}
	if !c.Slice {
		s.pool = map[int]*Target{keptT3: {ID: 3, Name: "t3"}, keptNew: {Name: "n"}}
	}
	return s
}

func (s *session) assoc(unscoped bool) *gorm.Association {
	var a *gorm.Association
	if s.c.Slice {
		a = s.w.env.DB.Model(&s.parents).Association(relName[s.c.Kind])
	} else {
		a = s.w.env.DB.Model(&s.parents[0]).Association(relName[s.c.Kind])
	}
	if unscoped {
		a = a.Unscoped()
	}
	return a
}

func idsOf(ts []Target) []uint {
	out := []uint{}
	for _, t := range ts {
		out = append(out, t.ID)
	}
	sort.Slice(out, func(i, j int) bool { return out[i] < out[j] })
	return out
}

// apply executes one call and observes; observe=false skips the (costly)
// observation for the steps of a replayed prefix.
func (s *session) apply(op Op, observe bool) (o *Obs) {
	o = &Obs{}
	var held [][]*Target
	var preKeys [][]uint
	func() {
		defer func() {
			if r := recover(); r != nil {
				o.Panic = fmt.Sprint(r)
			}
		}()
		a := s.assoc(op.Unscoped && !op.Derive)
		if op.Derive {
			// a is the kept handle h; derive the Unscoped view before the call
			u := a.Unscoped()
			if op.Unscoped {
				a = u
			}
		}
		var values []interface{}
		switch op.Code {
		case "Append", "Replace":
			for _, arg := range op.Args {
				var ts []*Target
				for _, sym := range arg {
					ts = append(ts, s.mkTarget(sym))
				}
				held = append(held, ts)
				if !s.c.Slice {
					for _, t := range ts {
						values = append(values, t)
					}
				} else if len(ts) == 1 {
					values = append(values, ts[0])
				} else {
					values = append(values, ts)
				}
			}
		case "Delete":
			var ts []*Target
			var named []int
			if len(op.Args) > 0 {
				named = op.Args[0]
			}
			for _, sym := range named {
				t := s.mkTarget(sym)
				ts = append(ts, t)
				values = append(values, t)
			}
			held = append(held, ts)
			// Delete names records by the keys the values carry BEFORE the call
			var r []uint
			for _, t := range ts {
				r = append(r, t.ID)
			}
			preKeys = [][]uint{r}
		}
		var err error
		switch op.Code {
		case "Append":
			err = a.Append(values...)
		case "Replace":
			err = a.Replace(values...)
		case "Delete":
			err = a.Delete(values...)
		case "Clear":
			err = a.Clear()
		case "Count":
			o.OpCount = a.Count()
			err = a.Error
		case "Find":
			var out []Target
			err = a.Find(&out)
			o.OpFind = idsOf(out)
		default:
			panic("unknown op " + op.Code)
		}
		if err != nil {
			o.Err = err.Error()
		}
	}()
	if op.Code != "Delete" {
		// Append/Replace: the keys the argument values carry AFTER the call (new
		// records receive theirs in the call)
		for _, ts := range held {
			var r []uint
			for _, t := range ts {
				r = append(r, t.ID)
			}
			o.Res = append(o.Res, r)
		}
	} else {
		o.Res = preKeys
	}
	if s.pool != nil {
		o.KeptAfter = map[int]KeptVal{}
		for sym, t := range s.pool {
			o.KeptAfter[sym] = KeptVal{t.ID, t.Name}
		}
	}
	if !observe {
		return
	}
	s.observe(o)
	return
}

func (s *session) observe(o *Obs) {
	o.Leaks = s.w.env.Leaks()
	o.Snap = takeSnap(s.w.env)
	o.Mem = s.memory()
	for i := range s.parents {
		o.MemIDs = append(o.MemIDs, memIDs(s.c.Kind, &s.parents[i]))
	}
	before := o.canon()
	func() {
		defer func() {
			if r := recover(); r != nil {
				o.CountErr = "panic: " + fmt.Sprint(r)
			}
		}()
		a := s.assoc(false)
		o.Count = a.Count()
		if a.Error != nil {
			o.CountErr = a.Error.Error()
		}
	}()
	func() {
		defer func() {
			if r := recover(); r != nil {
				o.FindErr = "panic: " + fmt.Sprint(r)
			}
		}()
		var out []Target
		if err := s.assoc(false).Find(&out); err != nil {
			o.FindErr = err.Error()
		}
		o.FindIDs = idsOf(out)
	}()
	after := takeSnap(s.w.env).String()
	if a := after + strings.Join(s.memory(), "\n"); a != before {
		o.Impure = "state after the Count/Find observers:\n" + a
	}
	if l := s.w.env.Leaks(); l != "" && o.Leaks == "" {
		o.Leaks = "after Count/Find: " + l
	}
}

// root observation (no call).
func (s *session) observeRoot() *Obs {
	o := &Obs{}
	s.observe(o)
	return o
}
