package main

import (
	"database/sql"
	"fmt"
	"sort"
	"strings"
)

// Op is one association-mode call (also the replay format).
//
// Target symbols: 1..4 = a record value carrying that primary key (1..3 are
// stored rows at the start, 4 is not stored yet), 0 = a new record without key.
// Append/Replace: Args holds one list per operated parent; for a single record
// the one list is the variadic argument list, for a slice of records element i
// is passed as values[i] (a pointer for one target, a slice for two).
// Delete: Args[0] are the named targets. Replace() and Clear have no Args.
type Op struct {
	Code     string `json:"op"`
	Unscoped bool   `json:"unscoped,omitempty"`
	// Derive: the handle h = Model(..).Association(..) is kept, the view
	// u := h.Unscoped() is derived from it BEFORE the one executed call; the
	// call then runs on h (scoped call) or on u (Unscoped call). Deriving a view
	// must not change what the handle it was derived from does.
	Derive bool    `json:"derive_unscoped_view_first,omitempty"`
	Args   [][]int `json:"args,omitempty"`
}

// Persistent values: created once per history and passed again by later calls,
// so they carry whatever earlier calls wrote into them (keys, reference
// fields). keptT3 starts as {key 3, name}, keptNew starts without key.
const (
	keptNew = 100
	keptT3  = 103
)

func symName(s int) string {
	switch {
	case s == 0:
		return "new"
	case s == keptNew:
		return "kept-new"
	case s > keptNew:
		return fmt.Sprintf("kept-t%d", s-keptNew)
	}
	return fmt.Sprintf("t%d", s)
}

// KeptVal: key and name a persistent value carries. They are read from the Go
// value itself after every call (the value is part of the state a history has
// reached, i.e. input for the next call): gorm may write into a value it was
// given earlier, e.g. zero it when it is aliased by a pointer relation field.
type KeptVal struct {
	Key  uint
	Name string
}

// keyOf: the primary key a target symbol carries in this state (0 = none).
func (m *Model) keyOf(sym int) uint {
	if sym >= keptNew {
		return m.Kept[sym].Key
	}
	return uint(sym)
}

// nameOf: the name a record created from this symbol's value gets.
func (m *Model) nameOf(sym int) string {
	switch {
	case sym >= keptNew:
		return m.Kept[sym].Name
	case sym == 0:
		return "n"
	}
	return fmt.Sprintf("t%d", sym)
}

func (o Op) String() string {
	var sb strings.Builder
	switch {
	case o.Derive && o.Unscoped:
		sb.WriteString("{u:=h.Unscoped()} u.")
	case o.Derive:
		sb.WriteString("{_=h.Unscoped()} h.")
	case o.Unscoped:
		sb.WriteString("Unscoped().")
	}
	sb.WriteString(o.Code + "(")
	for i, a := range o.Args {
		if i > 0 {
			sb.WriteString("; ")
		}
		if len(o.Args) > 1 {
			sb.WriteString(fmt.Sprintf("p%d:", i))
		}
		var names []string
		for _, s := range a {
			names = append(names, symName(s))
		}
		if len(o.Args) > 1 && len(a) > 1 {
			sb.WriteString("[" + strings.Join(names, ",") + "]")
		} else {
			sb.WriteString(strings.Join(names, ","))
		}
	}
	sb.WriteString(")")
	return sb.String()
}

func pathString(p []Op) string {
	var s []string
	for _, o := range p {
		s = append(s, o.String())
	}
	return strings.Join(s, " . ")
}

func (o Op) mutator() bool { return o.Code != "Count" && o.Code != "Find" }

func (o Op) newCount(m *Model) int {
	n := 0
	seenKept := false
	for _, a := range o.Args {
		for _, s := range a {
			if m.keyOf(s) == 0 && o.Code != "Delete" && !(s == keptNew && seenKept) {
				n++
			}
			if s == keptNew {
				seenKept = true
			}
		}
	}
	return n
}

func (o Op) usesKept() bool {
	for _, a := range o.Args {
		for _, s := range a {
			if s >= keptNew {
				return true
			}
		}
	}
	return false
}

var allSyms = []int{1, 2, 3, 4, 0}

// two-value argument lists for a single parent: duplicates in one call,
// linked+unlinked, unlinked+not stored, stored-or-not keyed + key-less in both
// orders, two key-less records.
var singlePairs = [][]int{{1, 1}, {1, 2}, {1, 3}, {2, 3}, {3, 3}, {3, 4}, {4, 0}, {0, 4}, {0, 0}}

// value lists that mix TWO distinct key-less new records with stored keyed
// records in every order (one batch insert: generated keys must come back to
// the right values, stored ones are stepped over).
var mixedNewLists = [][]int{{0, 3, 0}, {0, 1, 0}, {3, 0, 0}, {0, 0, 3}, {0, 3, 1, 0}}
var deletePairs = [][]int{{1, 1}, {1, 2}, {1, 3}, {2, 3}, {3, 4}}
var keyedSyms = []int{1, 2, 3, 4}

// focusAlphabet: the sub-alphabet of the kept-value search.
func focusAlphabet(k Kind) []Op {
	var out []Op
	for _, o := range alphabet(k, false) {
		if o.Derive {
			continue
		}
		single13 := len(o.Args) == 1 && len(o.Args[0]) == 1 && (o.Args[0][0] == 1 || o.Args[0][0] == 3)
		switch {
		case o.usesKept(), len(o.Args) == 0:
			out = append(out, o)
		case o.Code == "Delete" && len(o.Args[0]) == 1:
			out = append(out, o)
		case (o.Code == "Append" || o.Code == "Replace") && single13:
			out = append(out, o)
		}
	}
	return out
}

// alphabet of a configuration (before the state-dependent guards).
func alphabet(k Kind, slice bool) []Op {
	var ops []Op
	add := func(code string, args [][]int, withUnscoped bool) {
		ops = append(ops, Op{Code: code, Args: args})
		if withUnscoped {
			ops = append(ops, Op{Code: code, Args: args, Unscoped: true})
		}
	}
	// per-parent argument lists for Append/Replace
	syms := allSyms
	dsyms, dpairs := keyedSyms, deletePairs
	if k.polymorphic() {
		// 9: the record owned by an owner of another polymorphic type with the same key
		syms = append(append([]int{}, allSyms...), 9)
		dsyms = append(append([]int{}, keyedSyms...), 9)
		dpairs = append(append([][]int{}, deletePairs...), []int{1, 9}, []int{2, 9})
	}
	var perParent [][]int
	for _, s := range syms {
		if s == 4 && slice && !k.single() {
			// slice of parents x collection relation: the keyed-but-unstored
			// record is left to the single-parent configurations
			continue
		}
		perParent = append(perParent, []int{s})
	}
	if !k.single() {
		if slice {
			perParent = append(perParent, []int{1, 3}, []int{3, 3})
		} else {
			perParent = append(perParent, singlePairs...)
			perParent = append(perParent, mixedNewLists...)
			if k.polymorphic() {
				perParent = append(perParent, []int{1, 9}, []int{9, 3})
			}
		}
	}
	if !slice {
		// persistent values that later calls pass again
		perParent = append(perParent, []int{keptT3}, []int{keptNew})
		if !k.single() {
			perParent = append(perParent, []int{keptT3, keptT3}, []int{keptNew, keptT3}, []int{1, keptT3})
		}
		dsyms = append(append([]int{}, dsyms...), keptT3, keptNew)
	}
	var argLists [][][]int
	if !slice {
		for _, a := range perParent {
			argLists = append(argLists, [][]int{a})
		}
	} else {
		for _, a := range perParent {
			for _, b := range perParent {
				if k.fkInTarget() && sharesKeyed(a, b) {
					// one keyed record handed to two parents of a relation in which a
					// record has one parent: the call contradicts itself
					continue
				}
				argLists = append(argLists, [][]int{a, b})
			}
		}
	}
	for _, al := range argLists {
		// Append on has-one/belongs-to is Replace, which reads the Unscoped flag
		add("Append", al, k.single())
	}
	for _, al := range argLists {
		add("Replace", al, true)
	}
	add("Replace", nil, true)
	// calls with an empty target list: Append() and Delete() change nothing
	add("Append", nil, true)
	add("Delete", nil, true)
	for _, s := range dsyms {
		add("Delete", [][]int{{s}}, true)
	}
	for _, p := range dpairs {
		add("Delete", [][]int{p}, true)
	}
	add("Clear", nil, true)
	// handle-derivation variants: every call that reads the Unscoped flag and
	// takes at most one value per parent is also made on a kept handle from
	// which an Unscoped view was derived first (scoped call on the handle
	// itself, Unscoped call on the derived view)
	for _, o := range ops {
		small := true
		for _, a := range o.Args {
			if len(a) > 1 {
				small = false
			}
		}
		if slice && len(o.Args) > 1 {
			small = false
		}
		if !small || o.usesKept() || (o.Code == "Append" && len(o.Args) > 0 && !k.single()) {
			continue
		}
		d := o
		d.Derive = true
		ops = append(ops, d)
	}
	add("Count", nil, false)
	add("Find", nil, false)
	return ops
}

func sharesKeyed(a, b []int) bool {
	for _, x := range a {
		for _, y := range b {
			if x != 0 && x == y {
				return true
			}
		}
	}
	return false
}

// ---------------------------------------------------------------------------
// reference model: a set of links + the set of stored target rows

type Model struct {
	Links map[Link]bool
	Rows  map[uint]TRow
	Kept  map[int]KeptVal // persistent values (single-parent configurations)
}

func i64(n int64) sql.NullInt64   { return sql.NullInt64{Int64: n, Valid: true} }
func str(s string) sql.NullString { return sql.NullString{String: s, Valid: true} }

func initialModel(k Kind) *Model {
	m := &Model{Links: map[Link]bool{{pA, 1}: true, {pC, 2}: true}, Rows: map[uint]TRow{}}
	m.Kept = map[int]KeptVal{keptT3: {3, "t3"}, keptNew: {0, "n"}}
	m.Rows[1] = TRow{ID: 1, Name: "t1", One: i64(1), Many: i64(1), PolyID: i64(1), PolyType: str(polyValue), SoloID: i64(1), SoloType: str(polyValue)}
	m.Rows[2] = TRow{ID: 2, Name: "t2", One: i64(3), Many: i64(3), PolyID: i64(3), PolyType: str(polyValue), SoloID: i64(3), SoloType: str(polyValue)}
	m.Rows[3] = TRow{ID: 3, Name: "t3", PolyType: str(""), SoloType: str("")}
	m.Rows[20] = TRow{ID: 20, Name: "sentinel", PolyType: str(""), SoloType: str("")}
	m.Rows[9] = TRow{ID: 9, Name: "t9", PolyID: i64(1), PolyType: str("other"), SoloID: i64(1), SoloType: str("other")}
	return m
}

func (m *Model) clone() *Model {
	c := &Model{Links: map[Link]bool{}, Rows: map[uint]TRow{}, Kept: m.Kept}
	for l := range m.Links {
		c.Links[l] = true
	}
	for id, r := range m.Rows {
		c.Rows[id] = r
	}
	return c
}

// a record created by association mode from a value that carries nothing but
// key and name: the columns of the other relations get their Go zero values.
func newRow(id uint, name string) TRow {
	return TRow{ID: id, Name: name, One: i64(0), PolyID: i64(0), PolyType: str(""), SoloID: i64(0), SoloType: str("")}
}

func (m *Model) links() []Link {
	var out []Link
	for l := range m.Links {
		out = append(out, l)
	}
	sortLinks(out)
	return out
}

func (m *Model) targetsOf(p uint) []uint {
	var out []uint
	for l := range m.Links {
		if l[0] == p {
			out = append(out, l[1])
		}
	}
	sort.Slice(out, func(i, j int) bool { return out[i] < out[j] })
	return out
}

func (m *Model) parentsOf(t uint) []uint {
	var out []uint
	for l := range m.Links {
		if l[1] == t {
			out = append(out, l[0])
		}
	}
	sort.Slice(out, func(i, j int) bool { return out[i] < out[j] })
	return out
}

// snap synthesises the part of a database snapshot the model predicts (the
// columns owned by relation k are not meaningful and never compared).
func (m *Model) snap(k Kind) *Snap {
	s := &Snap{
		Parents: []PRow{{ID: 1, Name: "A", Owner: i64(1), Boss: i64(1)}, {ID: 2, Name: "B"}, {ID: 3, Name: "C", Owner: i64(2), Boss: i64(2)}},
		Joins:   [][2]uint{{1, 1}, {3, 2}},
	}
	var ids []uint
	for id := range m.Rows {
		ids = append(ids, id)
	}
	sort.Slice(ids, func(i, j int) bool { return ids[i] < ids[j] })
	for _, id := range ids {
		s.Targets = append(s.Targets, m.Rows[id])
	}
	return s
}

// step applies one call to the model. res holds the primary keys of the
// argument records (new records: the key the implementation assigned, or a
// placeholder when the step is only evaluated for its guard). It returns a
// non-empty string when the documented behaviour does not determine the
// outcome of the call in this state; such calls are not part of the alphabet.
func (m *Model) step(k Kind, ps []uint, op Op, res [][]uint) (ambiguous string) {
	operated := map[uint]bool{}
	for _, p := range ps {
		operated[p] = true
	}
	del := map[uint]bool{}
	removeAll := func() {
		for _, p := range ps {
			for _, t := range m.targetsOf(p) {
				delete(m.Links, Link{p, t})
				if op.Unscoped && k != Many2Many {
					del[t] = true
				}
			}
		}
	}
	switch {
	case (op.Code == "Append" || op.Code == "Delete") && len(op.Args) == 0:
		// no targets named: nothing changes
	case op.Code == "Clear", op.Code == "Replace" && len(op.Args) == 0:
		removeAll()
	case op.Code == "Append" || op.Code == "Replace":
		replace := op.Code == "Replace" || k.single()
		union := map[uint]bool{}
		for i := range ps {
			if k.single() && len(res[i]) != 1 {
				ambiguous = "several values for a relation that holds one record"
			}
			for j, t := range res[i] {
				union[t] = true
				if _, ok := m.Rows[t]; !ok {
					m.Rows[t] = newRow(t, m.nameOf(op.Args[i][j]))
				}
			}
		}
		if replace {
			for i, p := range ps {
				keep := map[uint]bool{}
				for _, t := range res[i] {
					keep[t] = true
				}
				for _, t := range m.targetsOf(p) {
					if keep[t] {
						continue
					}
					delete(m.Links, Link{p, t})
					if op.Unscoped && k != Many2Many {
						if union[t] {
							if !k.fkInTarget() {
								ambiguous = "Unscoped: a record is taken from one operated parent and given to another in the same call"
							}
							continue
						}
						del[t] = true
					}
				}
			}
		}
		for i, p := range ps {
			for _, t := range res[i] {
				if k.fkInTarget() {
					for _, q := range m.parentsOf(t) {
						if q != p {
							if operated[q] && !replace {
								ambiguous = "Append moves a record between two operated parents (the in-memory field of the former parent is not rebuilt)"
							}
							delete(m.Links, Link{q, t})
						}
					}
				}
				m.Links[Link{p, t}] = true
				// a record taken over from an owner of a foreign polymorphic type
				// now carries this owner type
				if r := m.Rows[t]; k == Poly {
					r.PolyType = str(polyValue)
					m.Rows[t] = r
				} else if k == PolyOne {
					r.SoloType = str(polyValue)
					m.Rows[t] = r
				}
			}
		}
	case op.Code == "Delete":
		named := map[uint]bool{}
		for _, t := range res[0] {
			named[t] = true
		}
		for _, p := range ps {
			for _, t := range m.targetsOf(p) {
				if named[t] {
					delete(m.Links, Link{p, t})
					if op.Unscoped && k != Many2Many {
						del[t] = true
					}
				}
			}
		}
	}
	for t := range del {
		delete(m.Rows, t)
		if k.fkInTarget() {
			for _, q := range m.parentsOf(t) {
				delete(m.Links, Link{q, t})
			}
		}
	}
	return
}

// placeholder keys for guard evaluation
func placeholderRes(m *Model, op Op) [][]uint {
	var res [][]uint
	next := uint(1000)
	kept := uint(0)
	for _, a := range op.Args {
		var r []uint
		for _, s := range a {
			switch {
			case m.keyOf(s) != 0:
				r = append(r, m.keyOf(s))
			case s == keptNew:
				if kept == 0 {
					kept = next
					next++
				}
				r = append(r, kept)
			default:
				r = append(r, next)
				next++
			}
		}
		res = append(res, r)
	}
	return res
}

// maxNew: how many records created from key-less values may be stored at the
// same time (their keys are > 20). Keeps the state space finite.
var maxNew = 1

func (m *Model) aliveNew() int {
	n := 0
	for id := range m.Rows {
		if id > 20 {
			n++
		}
	}
	return n
}

// enabled: state-dependent guard of the alphabet.
func enabled(k Kind, ps []uint, m *Model, op Op) (bool, string) {
	// one key-less record per call needs room under maxNew; a call with several
	// key-less records is enabled only while none is stored (so at most as many
	// as the largest such call are ever stored at once)
	if n := op.newCount(m); n == 1 && m.aliveNew()+n > maxNew || n > 1 && m.aliveNew() > 0 {
		return false, "row-cap"
	}
	if !op.mutator() {
		return true, ""
	}
	c := m.clone()
	if amb := c.step(k, ps, op, placeholderRes(m, op)); amb != "" {
		return false, amb
	}
	return true, ""
}

// argument classes (input side: computed from the call and the model state
// before the call) used for violation tags.
func argClasses(k Kind, ps []uint, m *Model, op Op) string {
	operated := map[uint]bool{}
	for _, p := range ps {
		operated[p] = true
	}
	class := func(slot int, s int) string {
		t := m.keyOf(s)
		if t == 0 {
			return "new"
		}
		if _, ok := m.Rows[t]; !ok {
			if len(m.parentsOf(t)) > 0 {
				return "absent-dangling"
			}
			return "absent"
		}
		var c []string
		own, sib, other := false, false, false
		for _, q := range m.parentsOf(t) {
			switch {
			case op.Code == "Delete" && operated[q]:
				own = true
			case op.Code != "Delete" && q == ps[slot]:
				own = true
			case operated[q]:
				sib = true
			default:
				other = true
			}
		}
		if own {
			c = append(c, "own")
		}
		if sib {
			c = append(c, "sib")
		}
		if other {
			c = append(c, "other")
		}
		if len(c) == 0 {
			if r := m.Rows[t]; (k == Poly && r.PolyType.String == "other" && r.PolyID.Int64 != 0) || (k == PolyOne && r.SoloType.String == "other" && r.SoloID.Int64 != 0) {
				return "foreign-type"
			}
			return "free"
		}
		return strings.Join(c, "+")
	}
	var slots []string
	for i, a := range op.Args {
		var cs []string
		for _, s := range a {
			cs = append(cs, class(i, s))
		}
		slots = append(slots, strings.Join(cs, ","))
	}
	return strings.Join(slots, ";")
}

// featureTags: input-side predicates (call + model state before the call)
// that name the situations of the findings recorded for this property.
func featureTags(k Kind, slice bool, ps []uint, m *Model, op Op) []string {
	var tags []string
	hasArgs := len(op.Args) > 0
	linked := map[uint]bool{} // targets linked to an operated parent
	for _, p := range ps {
		for _, t := range m.targetsOf(p) {
			linked[t] = true
		}
	}
	argSet := map[uint]bool{}
	for _, a := range op.Args {
		for _, s := range a {
			if m.keyOf(s) != 0 {
				argSet[m.keyOf(s)] = true
			}
		}
	}
	if k.belongsTo() && op.Unscoped && len(linked) > 0 {
		switch {
		case op.Code == "Clear" || (op.Code == "Replace" && !hasArgs):
			tags = append(tags, "belongs-to:unscoped-clear-with-owner")
		case op.Code == "Delete":
			for t := range linked {
				if !argSet[t] {
					tags = append(tags, "belongs-to:unscoped-delete-not-naming-the-owner")
					break
				}
			}
		case op.Code == "Append" || op.Code == "Replace":
			if k == BelongsTo {
				tags = append(tags, "belongs-to-pointerfk:unscoped-replace-with-owner")
			}
			for t := range linked {
				if argSet[t] {
					tags = append(tags, "belongs-to:unscoped-replace-by-a-current-owner")
					break
				}
			}
		}
	}
	if k == Many2Many && slice && hasArgs && (op.Code == "Replace") {
	outer:
		for i, p := range ps {
			mine := map[int]bool{}
			for _, s := range op.Args[i] {
				mine[s] = true
			}
			for _, t := range m.targetsOf(p) {
				if mine[int(t)] {
					continue
				}
				for j := range ps {
					if j != i {
						for _, s := range op.Args[j] {
							if m.keyOf(s) != 0 && m.keyOf(s) == t {
								tags = append(tags, "many2many:slice-replace-dropped-target-listed-for-other-parent")
								break outer
							}
						}
					}
				}
			}
		}
	}
	if (k == Many2Many || k.belongsTo()) && hasArgs && (op.Code == "Append" || op.Code == "Replace") {
		// records are inserted in one batch with ON CONFLICT DO NOTHING
		seenAbsent := false
		for _, a := range op.Args {
			for _, s := range a {
				if m.keyOf(s) == 0 && seenAbsent {
					tags = append(tags, "do-nothing-batch:unstored-keyed-record-before-keyless-record")
					seenAbsent = false
				}
				if m.keyOf(s) != 0 {
					if _, ok := m.Rows[m.keyOf(s)]; !ok {
						seenAbsent = true
					}
				}
			}
		}
	}
	return tags
}

func tagsFor(k Kind, slice bool, ps []uint, m *Model, op Op) []string {
	mode := "single"
	if slice {
		mode = "slice"
	}
	name := op.Code
	if len(op.Args) == 0 && (op.Code == "Replace" || op.Code == "Append" || op.Code == "Delete") {
		name = op.Code + "0"
	}
	if op.Derive {
		name = "Derived." + name
	}
	if op.Unscoped {
		name = "Unscoped." + name
	}
	n := 0
	for _, p := range ps {
		n += len(m.targetsOf(p))
	}
	linked := "linked"
	if n == 0 {
		linked = "empty"
	}
	general := fmt.Sprintf("case:%s/%s/%s", kindName[k], mode, name)
	tags := []string{fmt.Sprintf("%s(%s)@%s", general, argClasses(k, ps, m, op), linked)}
	return append(tags, featureTags(k, slice, ps, m, op)...)
}
