// C12 — association mode keeps stored links, counts and the in-memory value
// in agreement.
//
// Explicit-state breadth-first search (E3) executed on the real gorm code on
// SQLite. A state is the shortest call sequence that reaches it; a successor is
// produced by resetting the database, replaying the sequence on a fresh
// in-memory parent value and applying one more call. States are deduplicated
// on the canonical form "all tables + normalised in-memory parent value(s)".
// A link-set reference model is stepped in lock-step; after every transition
// stored links, surviving records, Count(), Find() and the in-memory relation
// field are compared with it.
package main

import (
	"fmt"
	"os"
	"strings"
	"sync"
	"sync/atomic"
	"time"

	"verif/mc"
)

// Case is the replay format: configuration + call sequence.
type Case struct {
	Cfg
	KindName string `json:"kind_name,omitempty"`
	Path     []Op   `json:"path"`
	Readable string `json:"readable,omitempty"`
}

var debugSeen = &mc.Set{}

type node struct {
	path  []Op
	canon string
	model *Model
}

type task struct {
	n  *node
	op Op
}

type result struct {
	done        bool
	prefixCanon string
	obs         *Obs
}

func (w *worker) execute(c Cfg, path []Op) (prefixCanon string, o *Obs) {
	s := w.begin(c)
	for i, op := range path {
		last := i == len(path)-1
		if last {
			prefixCanon = takeSnap(w.env).String() + strings.Join(s.memory(), "\n")
		}
		o = s.apply(op, last)
		if !last && (o.Panic != "" || o.Err != "") {
			// a prefix that was accepted before now fails: nondeterminism
			return "PREFIX-FAILED: " + o.Panic + o.Err, o
		}
	}
	return
}

type cfgStats struct {
	Cfg             string      `json:"configuration"`
	States          int         `json:"states"`
	Transitions     int         `json:"transitions"`
	ChangedLinks    int         `json:"transitions_that_changed_the_link_set"`
	States2Links    int         `json:"states_with_2_or_more_links"`
	MaxLinks        int         `json:"max_links_in_a_state"`
	Depth           int         `json:"depth_explored"`
	Closed          bool        `json:"closed_no_new_state"`
	AlphabetSize    int         `json:"alphabet_size"`
	SkippedCap      int         `json:"calls_disabled_by_row_cap"`
	SkippedAmbig    int         `json:"calls_disabled_as_ambiguous"`
	Violating       int         `json:"violating_transitions"`
	Complete        bool        `json:"complete_within_bound"`
	SelfLoops       int         `json:"transitions_to_the_same_state"`
	UnscopedDeletes int         `json:"transitions_in_which_unscoped_removed_a_record"`
	PerDepth        []depthStat `json:"per_depth"`
	CutAt           int         `json:"next_level_not_started_transitions,omitempty"`
	TimedOut        bool        `json:"stopped_by_deadline,omitempty"`
}

type depthStat struct {
	Depth       int `json:"depth"`
	Transitions int `json:"transitions"`
	NewStates   int `json:"new_states"`
}

func operatedLinks(c Cfg, m *Model) int {
	n := 0
	for _, p := range c.parents() {
		n += len(m.targetsOf(p))
	}
	return n
}

func explore(run *mc.Run, c Cfg, maxDepth int, levelCap int, workers []*worker, deadline time.Time, samples *mc.Samples, ambig map[string]int) (st cfgStats, nondet string) {
	st.Cfg = c.String()
	lastSample := ""
	defer func() {
		if lastSample != "" {
			samples.Add(lastSample)
		}
	}()
	alpha := alphabet(c.Kind, c.Slice)
	if c.Focus {
		alpha = focusAlphabet(c.Kind)
	}
	st.AlphabetSize = len(alpha)
	ps := c.parents()

	// root
	rootSession := workers[0].begin(c)
	ro := rootSession.observeRoot()
	ro.OpCount = ro.Count
	init := initialModel(c.Kind)
	if _, fails := checkStep(c, init, Op{Code: "Count"}, ro); len(fails) > 0 {
		// the start state itself (seeded rows, preloaded in-memory value, no call
		// yet): Count()/Find() or the observers disagree with the seeded links
		if fmt.Sprint(storedLinks(c.Kind, ro.Snap)) != fmt.Sprint(init.links()) {
			run.HarnessError("%s: the seeded rows disagree with the initial reference model: %v", c, fails)
			return
		}
		st.Violating++
		cs := Case{Cfg: c, KindName: kindName[c.Kind], Path: []Op{}, Readable: "(no call: start state)"}
		run.Violation([]string{"case:" + c.String() + "/start-state"}, describe(c, nil, init, init, ro, fails), cs)
		return
	}
	root := &node{canon: ro.canon(), model: init}
	seen := map[string]bool{root.canon: true}
	st.States = 1
	if operatedLinks(c, init) >= 2 {
		st.States2Links++
	}
	frontier := []*node{root}

	for depth := 1; depth <= maxDepth && len(frontier) > 0; depth++ {
		var tasks []task
		for _, n := range frontier {
			for _, op := range alpha {
				ok, why := enabled(c.Kind, ps, n.model, op)
				if !ok {
					if why == "row-cap" {
						st.SkippedCap++
					} else {
						st.SkippedAmbig++
						ambig[why]++
					}
					continue
				}
				tasks = append(tasks, task{n, op})
			}
		}
		if len(tasks) > levelCap {
			// deterministic work bound: a level that would need more than
			// levelCap transitions is not started
			st.Depth = depth - 1
			st.CutAt = len(tasks)
			return
		}
		results := make([]result, len(tasks))
		var next int64 = -1
		var wg sync.WaitGroup
		for _, w := range workers {
			wg.Add(1)
			go func(w *worker) {
				defer wg.Done()
				for {
					i := int(atomic.AddInt64(&next, 1))
					if i >= len(tasks) || time.Now().After(deadline) {
						return
					}
					t := tasks[i]
					path := append(append([]Op{}, t.n.path...), t.op)
					pc, o := w.execute(c, path)
					results[i] = result{done: true, prefixCanon: pc, obs: o}
				}
			}(w)
		}
		wg.Wait()

		var newFrontier []*node
		complete := true
		for i, t := range tasks {
			r := results[i]
			if !r.done {
				complete = false
				continue
			}
			path := append(append([]Op{}, t.n.path...), t.op)
			if r.prefixCanon != t.n.canon {
				nondet = fmt.Sprintf("%s: replaying %q reached a different state than before:\n%s\nvs\n%s", c, pathString(t.n.path), r.prefixCanon, t.n.canon)
				return
			}
			st.Transitions++
			post, fails := checkStep(c, t.n.model, t.op, r.obs)
			if len(fails) > 0 && strings.HasPrefix(fails[0], "internal:") {
				run.HarnessError("%s: %s after %s", c, fails[0], pathString(path))
				continue
			}
			if len(fails) > 0 {
				st.Violating++
				cs := Case{Cfg: c, KindName: kindName[c.Kind], Path: path, Readable: pathString(path)}
				tags := tagsFor(c.Kind, c.Slice, ps, t.n.model, t.op)
				msg := describe(c, path, t.n.model, post, r.obs, fails)
				if os.Getenv("VERIF_C12_DEBUG") != "" && debugSeen.Add(fmt.Sprint(tags[1:])+"|"+fails[0][:20]) {
					fmt.Fprintf(os.Stderr, "DEBUG tags=%v\n%s\n", tags, msg)
				}
				run.Violation(tags, msg, cs)
				continue
			}
			if fmt.Sprint(post.links()) != fmt.Sprint(t.n.model.links()) {
				st.ChangedLinks++
			}
			if len(post.Rows) < len(t.n.model.Rows) {
				st.UnscopedDeletes++
			}
			cn := r.obs.canon()
			if cn == t.n.canon {
				st.SelfLoops++
			}
			if !seen[cn] {
				seen[cn] = true
				st.States++
				nl := operatedLinks(c, post)
				if nl >= 2 {
					st.States2Links++
				}
				if nl > st.MaxLinks {
					st.MaxLinks = nl
				}
				newFrontier = append(newFrontier, &node{path: path, canon: cn, model: post})
			}
		}
		if !complete {
			st.Depth = depth - 1
			st.TimedOut = true
			return
		}
		st.Depth = depth
		st.PerDepth = append(st.PerDepth, depthStat{depth, len(tasks), len(newFrontier)})
		if len(newFrontier) > 0 {
			lastSample = fmt.Sprintf("%s depth %d: %s", c, depth, pathString(newFrontier[len(newFrontier)/2].path))
		}
		frontier = newFrontier
	}
	st.Closed = len(frontier) == 0
	st.Complete = true
	return
}

func replay(run *mc.Run, file string) {
	var cs Case
	if err := mc.LoadReplay(file, &cs); err != nil {
		fmt.Fprintln(os.Stderr, err)
		os.Exit(3)
	}
	c := cs.Cfg
	w := newWorker()
	s := w.begin(c)
	m := initialModel(c.Kind)
	fmt.Printf("configuration %s, relation %q\nstart:\n%s%s\n", c, relName[c.Kind], indent(takeSnap(w.env).String()), "")
	{
		rs := w.begin(c)
		ro := rs.observeRoot()
		ro.OpCount = ro.Count
		if _, fails := checkStep(c, m, Op{Code: "Count"}, ro); len(fails) > 0 {
			msg := describe(c, nil, m, m, ro, fails)
			fmt.Println(msg)
			run.Violation([]string{"case:" + c.String() + "/start-state"}, msg, Case{Cfg: c, KindName: kindName[c.Kind], Path: []Op{}})
			if run.NumViolations() > 0 {
				os.Exit(1)
			}
			return
		}
		s = w.begin(c)
	}
	for i, op := range cs.Path {
		ok, why := enabled(c.Kind, c.parents(), m, op)
		if !ok {
			fmt.Printf("step %d %s: not part of the alphabet in this state (%s)\n", i+1, op, why)
			os.Exit(3)
		}
		o := s.apply(op, true)
		post, fails := checkStep(c, m, op, o)
		fmt.Printf("step %d: %s\n", i+1, op)
		if o.Snap != nil {
			fmt.Printf("%s\n%s\n   Count()=%d Find()=%v err=%q\n", indent(o.Snap.String()), indent(joinLines(o.Mem)), o.Count, o.FindIDs, o.Err)
		}
		if post != nil {
			fmt.Printf("   model links: %v\n", post.links())
		}
		if len(fails) > 0 {
			path := cs.Path[:i+1]
			cc := Case{Cfg: c, KindName: kindName[c.Kind], Path: path, Readable: pathString(path)}
			msg := describe(c, path, m, post, o, fails)
			fmt.Println(msg)
			run.Violation(tagsFor(c.Kind, c.Slice, c.parents(), m, op), msg, cc)
			if run.NumViolations() > 0 {
				os.Exit(1)
			}
			fmt.Println("(matches an open known finding)")
			return
		}
		m = post
	}
	fmt.Println("replay: every step agrees with the reference model")
}

func joinLines(l []string) string {
	s := ""
	for i, x := range l {
		if i > 0 {
			s += "\n"
		}
		s += x
	}
	return s
}

func main() {
	args := mc.ParseArgs()
	run := mc.NewRun("C12", args.Tier, "model_checking")
	if args.Replay != "" {
		replay(run, args.Replay)
		return
	}
	maxDepth := 4
	budget := 80 * time.Second
	levelCap := 25000
	if args.Tier == "thorough" {
		maxDepth = 8
		budget = 10 * time.Minute
		levelCap = 150000
	}
	if v := os.Getenv("VERIF_C12_LEVELCAP"); v != "" {
		fmt.Sscan(v, &levelCap)
	}
	if v := os.Getenv("VERIF_C12_BUDGET_S"); v != "" {
		var n int
		fmt.Sscan(v, &n)
		budget = time.Duration(n) * time.Second
	}
	if v := os.Getenv("VERIF_C12_DEPTH"); v != "" {
		fmt.Sscan(v, &maxDepth)
	}
	deadline := time.Now().Add(budget)

	const nw = 16
	workers := make([]*worker, nw)
	for i := range workers {
		workers[i] = newWorker()
	}
	samples := &mc.Samples{N: 24}
	ambig := map[string]int{}

	var all []cfgStats
	total := cfgStats{}
	exhaustive := true
	var cfgs []Cfg
	for _, slice := range []bool{false, true} {
		for k := Kind(0); k < numKinds; k++ {
			c := Cfg{Kind: k, Slice: slice}
			if only := os.Getenv("VERIF_C12_ONLY"); only != "" && !strings.Contains(","+only+",", ","+c.String()+",") {
				continue
			}
			cfgs = append(cfgs, c)
		}
		if !slice {
			for k := Kind(0); k < numKinds; k++ {
				c := Cfg{Kind: k, Focus: true}
				if only := os.Getenv("VERIF_C12_ONLY"); only != "" && !strings.Contains(","+only+",", ","+c.String()+",") {
					continue
				}
				cfgs = append(cfgs, c)
			}
		}
	}
	{
		for ci, c := range cfgs {
			// every configuration gets an equal share of the time that is left
			now := time.Now()
			cfgDeadline := deadline
			if left := deadline.Sub(now); left > 0 {
				cfgDeadline = now.Add(left / time.Duration(len(cfgs)-ci))
			}
			st, nondet := explore(run, c, maxDepth, levelCap, workers, cfgDeadline, samples, ambig)
			if nondet != "" {
				run.HarnessError("nondeterministic replay: %s", nondet)
			}
			all = append(all, st)
			total.States += st.States
			total.Transitions += st.Transitions
			total.ChangedLinks += st.ChangedLinks
			total.States2Links += st.States2Links
			total.Violating += st.Violating
			total.SelfLoops += st.SelfLoops
			total.UnscopedDeletes += st.UnscopedDeletes
			total.SkippedAmbig += st.SkippedAmbig
			total.SkippedCap += st.SkippedCap
			if !st.Complete {
				exhaustive = false
			}
			fmt.Printf("  %-20s states=%d transitions=%d changed=%d depth=%d closed=%v violating=%d\n", st.Cfg, st.States, st.Transitions, st.ChangedLinks, st.Depth, st.Closed, st.Violating)
			// non-vacuity floor per configuration
			if run.NumViolations() == 0 && !st.TimedOut && nondet == "" && (st.ChangedLinks < 50 || st.States < 10) {
				run.HarnessError("vacuous: %s explored %d states, %d link-changing transitions", st.Cfg, st.States, st.ChangedLinks)
			}
		}
	}
	if run.NumViolations() == 0 && total.States2Links < 20 {
		run.HarnessError("vacuous: only %d states with two or more links", total.States2Links)
	}

	run.Assume("SQLite dialect; models without hooks, soft delete, composite keys or NOT NULL foreign keys; FullSaveAssociations off; default transaction mode")
	run.Assume("the in-memory parent value starts with the relation under test loaded (as after Preload) and every call of a sequence is made through the same value; argument records are fresh values carrying key and name only, except the two persistent values of the single-parent configurations (kept-t3, kept-new), which are created once per history, passed again by later calls and are part of the canonical state")
	run.Assume("Unscoped is modelled as documented: records whose link an Unscoped Replace/Delete/Clear removes are deleted (not for many2many, where only join rows go); links a bystander parent holds to such a record stay stored")
	run.Assume("Append() without values on a slice of parents may return ErrInvalidValueOfLength (one value per parent is gorm's rule) but must change nothing; left out as not determined by the documentation: several values for has-one/belongs-to; one keyed record given to both parents of a slice in one call (has-one/has-many/polymorphic); Append that moves a record between the two operated parents of a slice; Unscoped belongs-to Replace that hands the old record of one operated parent to the other; Count()/Find() multiplicity when two operated parents share a target (either the number of links or of distinct records is accepted)")
	run.Assume("calls with one key-less value are enabled while no record created from a key-less value is stored, calls with several key-less values likewise (so at most 2 such records are stored at any time); canonical in-memory form is the sorted set of distinct elements (order and repetition inside the relation slice are not part of the state)")

	run.Finish(map[string]interface{}{
		"states":                                total.States,
		"transitions":                           total.Transitions,
		"traces_validated_against_impl":         total.Transitions,
		"evaluations":                           total.Transitions,
		"distinct_nontrivial":                   total.ChangedLinks,
		"rule":                                  "BFS over association-mode calls per (relation kind x {single record, slice of 2 records}); state = canonical dump of all tables + normalised in-memory parent(s); every transition is executed on gorm/SQLite by replaying its shortest path and compared with the link-set model; non-trivial = transition (a distinct state/call pair) that changed the link set; quick: depth<=4, thorough: depth<=8 or closure; a level needing more than level_cap_transitions is not started (depth reached per configuration is in per_configuration)",
		"samples":                               samples.List(),
		"exhaustive":                            exhaustive,
		"max_depth":                             maxDepth,
		"level_cap_transitions":                 levelCap,
		"configurations":                        len(cfgs),
		"transitions_that_changed_the_link_set": total.ChangedLinks,
		"states_with_2_or_more_links":           total.States2Links,
		"transitions_in_which_unscoped_removed_a_record": total.UnscopedDeletes,
		"self_loop_transitions":                          total.SelfLoops,
		"violating_transitions":                          total.Violating,
		"distinct_observed_outcomes":                     total.States,
		"calls_disabled_as_ambiguous":                    total.SkippedAmbig,
		"calls_disabled_as_ambiguous_by_reason":          ambig,
		"calls_disabled_by_row_cap":                      total.SkippedCap,
		"per_configuration":                              all,
	})
}
