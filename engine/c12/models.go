package main

import (
	"database/sql"
	"fmt"
	"sort"
	"strings"

	"verif/h"
)

// One pair of models carries all five relation kinds; a search configuration
// exercises exactly one of the relation fields. The columns of the other four
// relations are seeded with links too and act as a frame condition: an
// association-mode call on relation X must not disturb relation Y.
type Parent struct {
	ID      uint `gorm:"primaryKey"`
	Name    string
	OwnerID *uint
	Owner   *Target // belongs-to, pointer foreign key, pointer field
	BossID  uint
	Boss    Target    // belongs-to, value foreign key, struct field
	One     Target    `gorm:"foreignKey:OneID"`      // has-one (struct valued)
	Many    []Target  `gorm:"foreignKey:ManyID"`     // has-many
	Tags    []*Target `gorm:"many2many:parent_tags"` // many-to-many (pointer elements)
	Toys    []Target  `gorm:"polymorphic:Poly"`      // polymorphic has-many
	Pet     Target    `gorm:"polymorphic:Solo"`      // polymorphic has-one
}

type Target struct {
	ID       uint `gorm:"primaryKey"`
	Name     string
	OneID    uint
	ManyID   *uint
	PolyID   uint
	PolyType string
	SoloID   uint
	SoloType string
}

type Kind int

const (
	HasOne Kind = iota
	HasMany
	BelongsTo
	Many2Many
	Poly
	BelongsToVal
	PolyOne
	numKinds
)

var kindName = []string{"has-one", "has-many", "belongs-to", "many2many", "polymorphic", "belongs-to-valuefk", "polymorphic-has-one"}
var relName = []string{"One", "Many", "Owner", "Tags", "Toys", "Boss", "Pet"}

// single: the relation holds at most one link per parent (Append replaces).
func (k Kind) single() bool { return k == HasOne || k == PolyOne || k.belongsTo() }

// polymorphic: the link carries an owner-type column next to the owner key.
func (k Kind) polymorphic() bool { return k == Poly || k == PolyOne }

func (k Kind) belongsTo() bool { return k == BelongsTo || k == BelongsToVal }

// fkInTarget: the link is a column of the target row, hence a target has at
// most one parent and deleting the row deletes the link.
func (k Kind) fkInTarget() bool { return k == HasOne || k == HasMany || k == Poly || k == PolyOne }

const polyValue = "parents"

var schemaSQL = []string{
	`CREATE TABLE parents (id integer primary key, name text, owner_id integer, boss_id integer)`,
	`CREATE TABLE targets (id integer primary key, name text, one_id integer, many_id integer, poly_id integer, poly_type text, solo_id integer, solo_type text)`,
	`CREATE TABLE parent_tags (parent_id integer, target_id integer, primary key (parent_id, target_id))`,
}

// Seed: parents A=1, B=2 (operated in slice mode), C=3 (never operated: the
// bystander). Targets: 1 linked to A and 2 linked to C through every relation,
// 3 saved and unlinked, 4 absent (the "new record with a preset key"), 9 a
// decoy that carries parent A's key under a foreign polymorphic type. Row 20 is
// in no alphabet and only keeps the keys SQLite hands out (max+1) above it: new
// records without key get ids > 20 and never collide with a symbol.
const (
	pA = 1
	pB = 2
	pC = 3
)

func seed(e *h.Env) {
	e.MustExec("DELETE FROM parent_tags")
	e.MustExec("DELETE FROM targets")
	e.MustExec("DELETE FROM parents")
	e.MustExec("INSERT INTO parents (id,name,owner_id,boss_id) VALUES (1,'A',1,1),(2,'B',NULL,NULL),(3,'C',2,2)")
	e.MustExec("INSERT INTO targets (id,name,one_id,many_id,poly_id,poly_type,solo_id,solo_type) VALUES " +
		"(1,'t1',1,1,1,'parents',1,'parents'),(2,'t2',3,3,3,'parents',3,'parents'),(3,'t3',NULL,NULL,NULL,'',NULL,''),(9,'t9',NULL,NULL,1,'other',1,'other'),(20,'sentinel',NULL,NULL,NULL,'',NULL,'')")
	e.MustExec("INSERT INTO parent_tags (parent_id,target_id) VALUES (1,1),(3,2)")
}

// ---------------------------------------------------------------------------
// structured snapshot of the database

type TRow struct {
	ID       uint
	Name     string
	One      sql.NullInt64
	Many     sql.NullInt64
	PolyID   sql.NullInt64
	PolyType sql.NullString
	SoloID   sql.NullInt64
	SoloType sql.NullString
}

type PRow struct {
	ID    uint
	Name  string
	Owner sql.NullInt64
	Boss  sql.NullInt64
}

type Snap struct {
	Parents []PRow
	Targets []TRow
	Joins   [][2]uint
	Err     string
}

func ni(n sql.NullInt64) string {
	if !n.Valid {
		return "NULL"
	}
	return fmt.Sprint(n.Int64)
}
func ns(n sql.NullString) string {
	if !n.Valid {
		return "NULL"
	}
	return fmt.Sprintf("%q", n.String)
}

func (s *Snap) String() string {
	var sb strings.Builder
	if s.Err != "" {
		sb.WriteString("ERROR " + s.Err + "\n")
	}
	sb.WriteString("parents:")
	for _, p := range s.Parents {
		fmt.Fprintf(&sb, " (%d %s owner=%s boss=%s)", p.ID, p.Name, ni(p.Owner), ni(p.Boss))
	}
	sb.WriteString("\ntargets:")
	for _, t := range s.Targets {
		fmt.Fprintf(&sb, " (%d %s one=%s many=%s poly=%s/%s solo=%s/%s)", t.ID, t.Name, ni(t.One), ni(t.Many), ni(t.PolyID), ns(t.PolyType), ni(t.SoloID), ns(t.SoloType))
	}
	sb.WriteString("\nparent_tags:")
	for _, j := range s.Joins {
		fmt.Fprintf(&sb, " (%d,%d)", j[0], j[1])
	}
	sb.WriteString("\n")
	return sb.String()
}

func takeSnap(e *h.Env) *Snap {
	s := &Snap{}
	e.Quiet(func() {
		rows, err := e.SQL.Query("SELECT id,name,owner_id,boss_id FROM parents ORDER BY id")
		if err != nil {
			s.Err = err.Error()
			return
		}
		for rows.Next() {
			var p PRow
			if err := rows.Scan(&p.ID, &p.Name, &p.Owner, &p.Boss); err != nil {
				s.Err = err.Error()
			}
			s.Parents = append(s.Parents, p)
		}
		rows.Close()
		rows, err = e.SQL.Query("SELECT id,name,one_id,many_id,poly_id,poly_type,solo_id,solo_type FROM targets ORDER BY id")
		if err != nil {
			s.Err = err.Error()
			return
		}
		for rows.Next() {
			var t TRow
			var name sql.NullString
			if err := rows.Scan(&t.ID, &name, &t.One, &t.Many, &t.PolyID, &t.PolyType, &t.SoloID, &t.SoloType); err != nil {
				s.Err = err.Error()
			}
			t.Name = name.String
			s.Targets = append(s.Targets, t)
		}
		rows.Close()
		rows, err = e.SQL.Query("SELECT parent_id,target_id FROM parent_tags ORDER BY parent_id,target_id")
		if err != nil {
			s.Err = err.Error()
			return
		}
		for rows.Next() {
			var a, b sql.NullInt64
			if err := rows.Scan(&a, &b); err != nil {
				s.Err = err.Error()
			}
			s.Joins = append(s.Joins, [2]uint{uint(a.Int64), uint(b.Int64)})
		}
		rows.Close()
	})
	return s
}

// Link is one stored link (parent key, target key) of the relation under test.
type Link [2]uint

func sortLinks(l []Link) {
	sort.Slice(l, func(i, j int) bool {
		if l[i][0] != l[j][0] {
			return l[i][0] < l[j][0]
		}
		return l[i][1] < l[j][1]
	})
}

// storedLinks extracts the links of relation k from a snapshot: a foreign key
// that is NULL or zero is no link.
func storedLinks(k Kind, s *Snap) []Link {
	var out []Link
	switch k {
	case HasOne:
		for _, t := range s.Targets {
			if t.One.Valid && t.One.Int64 != 0 {
				out = append(out, Link{uint(t.One.Int64), t.ID})
			}
		}
	case HasMany:
		for _, t := range s.Targets {
			if t.Many.Valid && t.Many.Int64 != 0 {
				out = append(out, Link{uint(t.Many.Int64), t.ID})
			}
		}
	case Poly:
		for _, t := range s.Targets {
			if t.PolyID.Valid && t.PolyID.Int64 != 0 && t.PolyType.String == polyValue {
				out = append(out, Link{uint(t.PolyID.Int64), t.ID})
			}
		}
	case BelongsTo:
		for _, p := range s.Parents {
			if p.Owner.Valid && p.Owner.Int64 != 0 {
				out = append(out, Link{p.ID, uint(p.Owner.Int64)})
			}
		}
	case PolyOne:
		for _, t := range s.Targets {
			if t.SoloID.Valid && t.SoloID.Int64 != 0 && t.SoloType.String == polyValue {
				out = append(out, Link{uint(t.SoloID.Int64), t.ID})
			}
		}
	case BelongsToVal:
		for _, p := range s.Parents {
			if p.Boss.Valid && p.Boss.Int64 != 0 {
				out = append(out, Link{p.ID, uint(p.Boss.Int64)})
			}
		}
	case Many2Many:
		for _, j := range s.Joins {
			out = append(out, Link{j[0], j[1]})
		}
	}
	sortLinks(out)
	return out
}

// frame renders everything of a snapshot that relation k does NOT own: the
// target rows (existence, name, the columns of the other relations), the
// parent rows and the join table. For the polymorphic relation the type
// column of a row whose key column is NULL/zero is free.
func frame(k Kind, s *Snap) string {
	var sb strings.Builder
	for _, p := range s.Parents {
		fmt.Fprintf(&sb, "P%d %s", p.ID, p.Name)
		if k != BelongsTo {
			fmt.Fprintf(&sb, " owner=%s", ni(p.Owner))
		}
		if k != BelongsToVal {
			fmt.Fprintf(&sb, " boss=%s", ni(p.Boss))
		}
		sb.WriteString("; ")
	}
	for _, t := range s.Targets {
		fmt.Fprintf(&sb, "T%d %s", t.ID, t.Name)
		if k != HasOne {
			fmt.Fprintf(&sb, " one=%s", ni(t.One))
		}
		if k != HasMany {
			fmt.Fprintf(&sb, " many=%s", ni(t.Many))
		}
		if k != Poly {
			fmt.Fprintf(&sb, " poly=%s/%s", ni(t.PolyID), ns(t.PolyType))
		} else if t.PolyType.String == "other" {
			// rows of a foreign polymorphic type must keep their owner
			fmt.Fprintf(&sb, " foreignpoly=%s/%s", ni(t.PolyID), ns(t.PolyType))
		}
		if k != PolyOne {
			fmt.Fprintf(&sb, " solo=%s/%s", ni(t.SoloID), ns(t.SoloType))
		} else if t.SoloType.String == "other" {
			fmt.Fprintf(&sb, " foreignsolo=%s/%s", ni(t.SoloID), ns(t.SoloType))
		}
		sb.WriteString("; ")
	}
	if k != Many2Many {
		for _, j := range s.Joins {
			fmt.Fprintf(&sb, "J(%d,%d) ", j[0], j[1])
		}
	}
	return sb.String()
}
