package main

import (
	"fmt"

	"gorm.io/gorm"

	"sort"
	"strings"
)

func uintsEq(a, b []uint) bool {
	if len(a) != len(b) {
		return false
	}
	for i := range a {
		if a[i] != b[i] {
			return false
		}
	}
	return true
}

func distinct(a []uint) []uint {
	set := map[uint]bool{}
	for _, x := range a {
		set[x] = true
	}
	out := []uint{}
	for x := range set {
		out = append(out, x)
	}
	sort.Slice(out, func(i, j int) bool { return out[i] < out[j] })
	return out
}

// checkStep compares what was observed after `op` (executed in a state whose
// reference model is pre) with the reference model. It returns the model
// after the call and the list of disagreements (first one = the kind).
func checkStep(c Cfg, pre *Model, op Op, o *Obs) (post *Model, fails []string) {
	k := c.Kind
	ps := c.parents()
	fail := func(f string, a ...interface{}) { fails = append(fails, fmt.Sprintf(f, a...)) }
	if o.Panic != "" {
		fail("panic in association mode: %s", o.Panic)
		return nil, fails
	}
	if o.Err != "" {
		// a slice of parents takes one value per parent: a call without values
		// is a length mismatch that gorm reports; it must still change nothing
		lengthRule := c.Slice && op.Code == "Append" && len(op.Args) == 0 && o.Err == gorm.ErrInvalidValueOfLength.Error()
		if !lengthRule {
			fail("call returned an error: %s", o.Err)
			return nil, fails
		}
	}
	// keys of the argument records
	for i, arg := range op.Args {
		for j, sym := range arg {
			if i >= len(o.Res) || j >= len(o.Res[i]) {
				fail("internal: argument keys not captured")
				return nil, fails
			}
			got := o.Res[i][j]
			key := pre.keyOf(sym)
			// (what a Delete leaves in the values it was given is not part of the
			// property: a pointer relation field may alias a value passed earlier
			// and is zeroed in place)
			if key != 0 && got != key && op.Code != "Delete" {
				fail("key of an argument record was changed: %s had key %d and now has key %d", symName(sym), key, got)
				return nil, fails
			}
			if key == 0 && op.Code != "Delete" {
				if got == 0 {
					fail("new record received no primary key: the argument value still has key 0 after the call")
					return nil, fails
				}
				if _, exists := pre.Rows[got]; exists {
					fail("new record received an existing key: %d", got)
					return nil, fails
				}
			}
		}
	}
	post = pre.clone()
	if op.mutator() {
		if amb := post.step(k, ps, op, o.Res); amb != "" {
			fail("internal: ambiguous call reached the oracle: %s", amb)
			return nil, fails
		}
	}
	if o.KeptAfter != nil {
		post.Kept = o.KeptAfter
	}
	// 1. stored links of the relation, for all parents (operated and bystander)
	want := post.links()
	got := storedLinks(k, o.Snap)
	if fmt.Sprint(want) != fmt.Sprint(got) {
		fail("stored links differ: stored (parent,target) %v, expected %v", got, want)
	}
	// 2. everything else: associated records survive (unless Unscoped removed
	// their link), other relations / other tables untouched
	if wf, gf := frame(k, post.snap(k)), frame(k, o.Snap); wf != gf {
		fail("associated records or other relations changed: (records must survive, other relations must stay untouched)\n   stored:   %s\n   expected: %s", gf, wf)
	}
	if o.Snap.Err != "" {
		fail("snapshot error: %s", o.Snap.Err)
	}
	// 3. Count and Find of the operated parents
	var all []uint
	for _, p := range ps {
		all = append(all, post.targetsOf(p)...)
	}
	dist := distinct(all)
	countOK := func(n int64) bool { return n == int64(len(all)) || n == int64(len(dist)) }
	if o.CountErr != "" {
		fail("Count failed: %s", o.CountErr)
	} else if !countOK(o.Count) {
		fail("Count differs: Count() = %d, links of the operated parents: %d (distinct targets %v)", o.Count, len(all), dist)
	}
	if o.FindErr != "" {
		fail("Find failed: %s", o.FindErr)
	} else if !uintsEq(distinct(o.FindIDs), dist) || !countOK(int64(len(o.FindIDs))) {
		fail("Find differs: Find() returned keys %v, linked targets: %v", o.FindIDs, dist)
	}
	if op.Code == "Count" && !countOK(o.OpCount) {
		fail("Count differs: Count() = %d, links of the operated parents: %d", o.OpCount, len(all))
	}
	if op.Code == "Find" && (!uintsEq(distinct(o.OpFind), dist) || !countOK(int64(len(o.OpFind)))) {
		fail("Find differs: Find() returned keys %v, linked targets: %v", o.OpFind, dist)
	}
	// 4. in-memory relation field of every operated parent
	for i, p := range ps {
		w := post.targetsOf(p)
		if w == nil {
			w = []uint{}
		}
		if !uintsEq(o.MemIDs[i], w) {
			fail("in-memory relation field differs: parent %d holds records %v, its links are %v", p, o.MemIDs[i], w)
		}
	}
	if o.Impure != "" {
		fail("Count or Find changed the state: %s", o.Impure)
	}
	if o.Leaks != "" {
		fail("leak: %s", o.Leaks)
	}
	return post, fails
}

func describe(c Cfg, path []Op, pre, post *Model, o *Obs, fails []string) string {
	var sb strings.Builder
	kind := "disagreement"
	if len(fails) > 0 {
		kind = strings.SplitN(fails[0], ":", 2)[0]
		if i := strings.Index(kind, "\n"); i >= 0 {
			kind = kind[:i]
		}
	}
	fmt.Fprintf(&sb, "%s [%s]\n", kind, c)
	fmt.Fprintf(&sb, "program: Model(%s).Association(%q): %s\n", map[bool]string{false: "&parentA", true: "&[]Parent{A,B}"}[c.Slice], relName[c.Kind], pathString(path))
	if pre != nil {
		fmt.Fprintf(&sb, "links before the last call: %v\n", pre.links())
	}
	if post != nil {
		fmt.Fprintf(&sb, "links expected after it:    %v\n", post.links())
	}
	for _, f := range fails {
		fmt.Fprintf(&sb, " - %s\n", f)
	}
	if o != nil && o.Snap != nil {
		fmt.Fprintf(&sb, "observed database:\n%s", indent(o.Snap.String()))
		fmt.Fprintf(&sb, "observed in-memory:\n%s\n", indent(strings.Join(o.Mem, "\n")))
		fmt.Fprintf(&sb, "Count()=%d Find()=%v\n", o.Count, o.FindIDs)
	}
	return sb.String()
}

func indent(s string) string {
	return "   " + strings.ReplaceAll(strings.TrimRight(s, "\n"), "\n", "\n   ")
}
