// C18 — every statement of an operation carries the caller's context.
//
// Bounded-exhaustive enumeration (E3) on the real gorm code: every operation of
// the shared catalogue (verif/opcat: ~50 writes incl. CreateInBatches, Save
// fallback, delete of selected associations; reads, preloads, joins,
// FindInBatches, raw statements; association mode) x the way the handle is
// bound to the context x the transaction wrapper around it (nesting depth 0-2,
// manual Begin, save points, binding inside a running transaction, re-binding)
// x PrepareStmt off/config/session x live / already-cancelled context, each on
// a fresh in-memory SQLite database behind the recording driver.
//
// Oracle: every begin / prepare / exec / query / stmt_exec / stmt_query call
// the driver saw on behalf of the operation received a context whose marker
// value is the caller's; with an already-cancelled context the driver saw no
// such call at all.
package main

import (
	"context"
	"errors"
	"fmt"
	"os"
	"regexp"
	"strings"
	"sync"
	"sync/atomic"
	"time"

	"gorm.io/gorm"

	"verif/mc"
	"verif/opcat"
)

type ctxKey struct{}

const (
	callerMark = "caller"
	// noMark: the handle is bound to a bare context.Background()/TODO(): the
	// driver must see a context without any marker value.
	noMark = "<none>"
	outerMark  = "outer"
)

// Case is one enumerated program (also the replay format).
type Case struct {
	Op        string `json:"op"`
	Handle    string `json:"handle"`
	Wrap      string `json:"wrap"`
	Prepare   string `json:"prepare_stmt"` // off | config | session
	Cancelled bool   `json:"cancelled"`
	Dialect   string `json:"dialect"` // returning | lastinsertid
	SkipTx    bool   `json:"skip_default_transaction"`
	// handle-derivation history (Derive == "" : none). The handle the operation
	// is started from ("parent" or "child", Use) is bound to the caller's
	// context; the other handle of the pair to another one (unless the
	// derivation shares the parent's context: Begin, Debug, Session{}).
	Derive         string `json:"derive,omitempty"`
	Use            string `json:"use,omitempty"`
	OtherFirst     bool   `json:"other_handle_used_first,omitempty"`
	OtherCancelled bool   `json:"other_context_cancelled,omitempty"`
	// Bare ("Background" | "TODO"): the child is re-bound to the bare
	// context.Background() / context.TODO() instead of a marked context.
	Bare string `json:"child_rebound_to_bare,omitempty"`
	Readable       string `json:"readable,omitempty"`
}

func (c Case) String() string {
	ctx := "live ctx"
	if c.Cancelled {
		ctx = "cancelled ctx"
	}
	s := fmt.Sprintf("%s | handle=%s wrap=%s PrepareStmt=%s %s dialect=%s skipDefaultTx=%v", c.Op, c.Handle, c.Wrap, c.Prepare, ctx, c.Dialect, c.SkipTx)
	if c.Derive != "" {
		s += fmt.Sprintf(" | history: parent; child := parent.%s; operation on the %s (other handle used first=%v, other context cancelled=%v)", c.Derive, c.Use, c.OtherFirst, c.OtherCancelled)
		if c.Bare != "" {
			s += " child context = bare context." + c.Bare + "()"
		}
	}
	return s
}

// derivation kinds: how a child handle is derived from a context-bound parent.
// own = the child gets its own context; otherwise it shares the parent's.
type deriveKind struct {
	name string
	own  bool
	tx   bool
}

var deriveKinds = []deriveKind{
	{"Session{NewDB,Context}", true, false},
	{"Session{Context}", true, false},
	{"WithContext", true, false},
	{"Session{PrepareStmt,Context}", true, false},
	{"Session{NewDB,Context,SkipHooks}", true, false},
	{"Session{NewDB,Context};parent.WithContext(third)", true, false},
	{"WithContext.Begin", true, true},
	{"Begin", false, true},
	{"Debug", false, false},
	{"Session{}", false, false},
}

func kindOf(name string) deriveKind {
	for _, k := range deriveKinds {
		if k.name == name {
			return k
		}
	}
	panic("unknown derivation " + name)
}

func derive(parent *gorm.DB, kind string, ctx context.Context) *gorm.DB {
	switch kind {
	case "Session{NewDB,Context}":
		return parent.Session(&gorm.Session{NewDB: true, Context: ctx})
	case "Session{Context}":
		return parent.Session(&gorm.Session{Context: ctx})
	case "WithContext":
		return parent.WithContext(ctx)
	case "Session{PrepareStmt,Context}":
		return parent.Session(&gorm.Session{PrepareStmt: true, Context: ctx})
	case "Session{NewDB,Context,SkipHooks}":
		return parent.Session(&gorm.Session{NewDB: true, Context: ctx, SkipHooks: true})
	case "Session{NewDB,Context};parent.WithContext(third)":
		child := parent.Session(&gorm.Session{NewDB: true, Context: ctx})
		parent.WithContext(context.WithValue(context.Background(), ctxKey{}, "third"))
		parent.Session(&gorm.Session{NewDB: true, Context: context.WithValue(context.Background(), ctxKey{}, "third")})
		return child
	case "WithContext.Begin":
		return parent.WithContext(ctx).Begin()
	case "Begin":
		return parent.Begin()
	case "Debug":
		return parent.Debug()
	case "Session{}":
		return parent.Session(&gorm.Session{})
	}
	panic("unknown derivation " + kind)
}

// touch uses a handle for a small read.
func touch(db *gorm.DB) {
	var c opcat.Company
	db.First(&c, 1)
}

var handlesQuick = []string{"WithContext", "Session{Context}"}
var handlesThorough = []string{"WithContext", "Session{Context}", "Session{Context,NewDB}", "WithContext.Session{}", "WithContext(other).WithContext"}

var wrapsQuick = []string{"direct", "tx-depth1", "tx-depth2", "begin-commit", "bind-inside-tx"}
var wrapsThorough = []string{"direct", "tx-depth1", "tx-depth2", "begin-commit", "begin-savepoint-rollbackto", "bind-inside-tx", "rebind-inside-tx", "connection"}

func bind(db *gorm.DB, style string, ctx context.Context) *gorm.DB {
	switch style {
	case "WithContext":
		return db.WithContext(ctx)
	case "Session{Context}":
		return db.Session(&gorm.Session{Context: ctx})
	case "Session{Context,NewDB}":
		return db.Session(&gorm.Session{Context: ctx, NewDB: true})
	case "WithContext.Session{}":
		return db.WithContext(ctx).Session(&gorm.Session{})
	case "WithContext(other).WithContext":
		return db.WithContext(context.WithValue(context.Background(), ctxKey{}, "other")).WithContext(ctx)
	}
	panic("unknown handle style " + style)
}

type evRec struct {
	kind, sql string
	mark      interface{}
	hasCtx    bool
	inRange   bool
	want      string
	err       string
}

type result struct {
	err      error
	panicMsg string
	events   []evRec
	// counts over the checked range
	statements, begins, prepares, stmtCalls int
	bad                                     []string
	leaks                                   string
	hung                                    bool
}

var spName = regexp.MustCompile(`sp\d+`)

// watchdog only separates "never returns" from "returns": it is far above any
// stall a loaded machine can cause (a 30s limit produced false alarms at load
// average > 100), and the tier deadline stops workers from starting new cases,
// so a real deadlock costs each worker at most one such wait.
const watchdog = 5 * time.Minute

// execute runs one case under a watchdog: an operation that does not return
// (deadlock inside gorm / database/sql) is reported instead of hanging the run.
func execute(c Case) *result {
	try := func() *result {
		done := make(chan *result, 1)
		go func() { done <- executeRaw(c) }()
		select {
		case r := <-done:
			return r
		case <-time.After(watchdog):
			return nil
		}
	}
	if r := try(); r != nil {
		return r
	}
	// only a hang that reproduces is a verdict (no wall-clock oracle)
	fmt.Fprintf(os.Stderr, "WATCHDOG: case did not return within %s: %s\n", watchdog, c.String())
	if r := try(); r != nil {
		atomic.AddInt64(&hangsNotReproduced, 1)
		return r
	}
	return &result{hung: true}
}

var hangsNotReproduced int64

func executeRaw(c Case) *result {
	r := &result{}
	op, ok := opcat.ByName(c.Op)
	if !ok {
		r.panicMsg = "unknown operation " + c.Op
		return r
	}
	cfg := &gorm.Config{PrepareStmt: c.Prepare == "config", SkipDefaultTransaction: c.SkipTx}
	env := opcat.Open(cfg, c.Dialect == "lastinsertid")
	defer func() {
		// after a panic inside database/sql its mutex may be held: do not touch it
		if r.panicMsg == "" {
			env.Close()
		}
	}()
	ctl := opcat.Setup(env)
	ctl.Audit = true
	ctl.QueryInFind = true
	base := env.DB
	if c.Prepare == "session" {
		base = base.Session(&gorm.Session{PrepareStmt: true})
	}
	ctx := context.WithValue(context.Background(), ctxKey{}, callerMark)
	if c.Cancelled {
		var cancel context.CancelFunc
		ctx, cancel = context.WithCancel(ctx)
		cancel()
	}
	outerCtx := context.WithValue(context.Background(), ctxKey{}, outerMark)
	bare := context.Background()
	if c.Bare == "TODO" {
		bare = context.TODO()
	}
	innerWant := callerMark
	if c.Bare != "" && c.Use == "child" {
		ctx, innerWant = bare, noMark
	}

	// [from,to) is the range of driver events issued on behalf of the handle
	// bound to ctx; events outside belong to the surrounding transaction that
	// was started from another handle, or to the other handle of a derivation
	// history.
	from, to := 0, -1
	outerWant := "" // marker expected outside the range ("" = not checked)
	env.Rec.Reset()
	func() {
		defer func() {
			if p := recover(); p != nil {
				r.panicMsg = fmt.Sprint(p)
			}
		}()
		if c.Derive != "" {
			k := kindOf(c.Derive)
			otherCtx := context.WithValue(context.Background(), ctxKey{}, outerMark)
			if c.OtherCancelled {
				var cancel context.CancelFunc
				otherCtx, cancel = context.WithCancel(otherCtx)
				cancel()
			}
			outerWant = outerMark
			if !k.own {
				outerWant = callerMark
			}
			if c.Bare != "" && c.Use == "parent" {
				otherCtx, outerWant = bare, noMark
			}
			finish := func(child *gorm.DB, err error) {
				if !k.tx || child.Error != nil {
					return
				}
				if err != nil {
					child.Rollback()
				} else {
					child.Commit()
				}
			}
			var used *gorm.DB
			var after func()
			if c.Use == "parent" {
				parent := bind(base, c.Handle, ctx)
				child := derive(parent, c.Derive, otherCtx)
				if c.OtherFirst && child.Error == nil {
					touch(child)
				}
				finish(child, nil)
				used = parent
			} else {
				pctx := otherCtx
				if !k.own {
					pctx = ctx
				}
				parent := bind(base, c.Handle, pctx)
				if c.OtherFirst {
					touch(parent)
				}
				// the child's own BEGIN (if any) is issued on behalf of the child
				from = env.Rec.Len()
				child := derive(parent, c.Derive, ctx)
				if child.Error != nil {
					// Begin refused (cancelled context): a caller stops here
					r.err = child.Error
					to = env.Rec.Len()
					return
				}
				used = child
				after = func() { finish(child, r.err) }
			}
			if c.Use == "parent" {
				from = env.Rec.Len()
			}
			switch c.Wrap {
			case "direct":
				r.err = op.Run(used)
			case "tx-depth1":
				r.err = used.Transaction(func(tx *gorm.DB) error { return op.Run(tx) })
			default:
				panic("wrapper " + c.Wrap + " is not combined with derivation histories")
			}
			to = env.Rec.Len()
			if after != nil {
				after()
			}
			return
		}
		switch c.Wrap {
		case "direct":
			r.err = op.Run(bind(base, c.Handle, ctx))
		case "tx-depth1":
			r.err = bind(base, c.Handle, ctx).Transaction(func(tx *gorm.DB) error { return op.Run(tx) })
		case "tx-depth2":
			r.err = bind(base, c.Handle, ctx).Transaction(func(tx *gorm.DB) error {
				return tx.Transaction(func(tx2 *gorm.DB) error { return op.Run(tx2) })
			})
		case "begin-commit":
			tx := bind(base, c.Handle, ctx).Begin()
			if tx.Error != nil {
				r.err = tx.Error
				return
			}
			if r.err = op.Run(tx); r.err != nil {
				tx.Rollback()
				return
			}
			r.err = tx.Commit().Error
		case "begin-savepoint-rollbackto":
			tx := bind(base, c.Handle, ctx).Begin()
			if tx.Error != nil {
				r.err = tx.Error
				return
			}
			if r.err = tx.SavePoint("s1").Error; r.err == nil {
				r.err = op.Run(tx)
				tx.RollbackTo("s1")
			}
			if r.err != nil {
				tx.Rollback()
				return
			}
			r.err = tx.Commit().Error
		case "bind-inside-tx":
			r.err = base.Transaction(func(tx *gorm.DB) error {
				from = env.Rec.Len()
				err := op.Run(bind(tx, c.Handle, ctx))
				to = env.Rec.Len()
				return err
			})
		case "rebind-inside-tx":
			outerWant = outerMark
			r.err = bind(base, c.Handle, outerCtx).Transaction(func(tx *gorm.DB) error {
				from = env.Rec.Len()
				err := op.Run(bind(tx, c.Handle, ctx))
				to = env.Rec.Len()
				return err
			})
		case "connection":
			r.err = bind(base, c.Handle, ctx).Connection(func(tx *gorm.DB) error { return op.Run(tx) })
		default:
			panic("unknown wrapper " + c.Wrap)
		}
	}()
	if r.panicMsg == "" {
		r.leaks = env.Leaks()
	}
	evs := env.Rec.Events()
	if to < 0 {
		to = len(evs)
		if c.Derive != "" {
			// panicked before the operation ended: judge what was recorded
		} else if c.Wrap == "bind-inside-tx" || c.Wrap == "rebind-inside-tx" {
			// the block never ran (or panicked): nothing belongs to the bound handle
			if from == 0 {
				to = 0
			}
		}
	}
	for i, ev := range evs {
		switch ev.Kind {
		case "begin", "prepare", "exec", "query", "stmt_exec", "stmt_query":
		default:
			continue
		}
		e := evRec{kind: ev.Kind, sql: spName.ReplaceAllString(ev.SQL, "sp#"), inRange: i >= from && i < to}
		if ev.Err != nil {
			e.err = ev.Err.Error()
		}
		if ev.Ctx != nil {
			e.hasCtx = true
			e.mark = ev.Ctx.Value(ctxKey{})
		}
		if e.inRange {
			e.want = innerWant
		} else {
			e.want = outerWant
		}
		r.events = append(r.events, e)
		if e.want == noMark {
			if !e.hasCtx || e.mark != nil {
				r.bad = append(r.bad, fmt.Sprintf("%s %q received context marker %v, expected a context without marker (handle re-bound to the bare context)", e.kind, short(e.sql), e.mark))
			}
		} else if e.want != "" && (!e.hasCtx || e.mark != e.want) {
			r.bad = append(r.bad, fmt.Sprintf("%s %q received context marker %v, expected %q", e.kind, short(e.sql), e.mark, e.want))
		}
		if !e.inRange {
			continue
		}
		switch ev.Kind {
		case "begin":
			r.begins++
		case "prepare":
			r.prepares++
			r.statements++
		case "stmt_exec", "stmt_query":
			r.stmtCalls++
			r.statements++
		default:
			r.statements++
		}
	}
	return r
}

func short(s string) string {
	if len(s) > 90 {
		return s[:90] + "…"
	}
	return s
}

func tags(c Case) []string {
	op, _ := opcat.ByName(c.Op)
	t := []string{"op:" + c.Op, "kind:" + op.Kind, "wrap:" + c.Wrap, "handle:" + c.Handle, "prepare:" + c.Prepare}
	if c.Cancelled {
		t = append(t, "cancelled")
	}
	if c.Derive != "" {
		t = append(t, "derive:"+c.Derive, "use:"+c.Use)
		if c.Bare != "" {
			t = append(t, "child-rebound-to-bare-"+c.Bare)
		}
	}
	return t
}

// finding is one failed part of the oracle; the parts are judged independently
// and reported (and tagged: "aspect:<part>") separately, so that a listed
// finding about one part can never hide a failure of another.
type finding struct{ aspect, msg string }

func verdicts(c Case, r *result) []finding {
	if r.hung {
		return []finding{{"hang", "the operation did not return within 5 minutes, twice (deadlock)"}}
	}
	var out []finding
	if c.Cancelled {
		var ran []string
		for _, e := range r.events {
			if e.inRange && e.kind != "begin" {
				ran = append(ran, e.kind+" "+short(e.sql))
			}
		}
		if len(ran) > 0 {
			out = append(out, finding{"cancelled-ran", "a statement reached the driver although the caller's context was already cancelled\n" + strings.Join(ran, "\n")})
		}
	}
	if len(r.bad) > 0 {
		out = append(out, finding{"marker", "a driver call did not carry the caller's context\n" + strings.Join(r.bad, "\n")})
	}
	if !c.Cancelled && r.err != nil && (errors.Is(r.err, context.Canceled) || strings.Contains(r.err.Error(), "context canceled")) {
		out = append(out, finding{"live-refused", "an operation started from a handle whose own context is live was refused with a cancellation (another handle's context leaked into it)\nerr=" + r.err.Error()})
	}
	if r.panicMsg != "" && !c.Cancelled {
		out = append(out, finding{"panic", "panic inside gorm while running an operation under a live context\n" + r.panicMsg})
	}
	return out
}

func describe(c Case, r *result) string {
	var sb strings.Builder
	op, _ := opcat.ByName(c.Op)
	fmt.Fprintf(&sb, "%s\nprogram: %s\nresult error: %v\n", c.String(), op.Text, r.err)
	if r.panicMsg != "" {
		fmt.Fprintf(&sb, "panic: %s\n", r.panicMsg)
	}
	sb.WriteString("driver calls (marker seen by the driver):\n")
	for _, e := range r.events {
		scope := "op   "
		if !e.inRange {
			scope = "outer"
		}
		fmt.Fprintf(&sb, "  %s %-10s ctx=%v %s", scope, e.kind, e.mark, short(e.sql))
		if e.err != "" {
			fmt.Fprintf(&sb, " ERR=%s", e.err)
		}
		sb.WriteByte('\n')
	}
	return sb.String()
}

type stats struct {
	cases, live, cancelled                             int64
	events, begins, prepares, stmtCalls                int64
	multi, opErrors, panics, cancelledWithoutErr       int64
	liveWithInternalSession, insideTx, cancelledBlocks int64
	histories, parentAfterChild, liveBesideCancelled   int64
	bareChild                                          int64
}

func main() {
	args := mc.ParseArgs()
	run := mc.NewRun("C18", args.Tier, "exploration")
	if args.Replay != "" {
		var c Case
		if err := mc.LoadReplay(args.Replay, &c); err != nil {
			fmt.Fprintln(os.Stderr, err)
			os.Exit(3)
		}
		r := execute(c)
		fmt.Print(describe(c, r))
		if fs := verdicts(c, r); len(fs) > 0 {
			for _, f := range fs {
				fmt.Printf("verdict: VIOLATION — %s\n", f.msg)
			}
			os.Exit(1)
		}
		fmt.Println("verdict: holds")
		return
	}

	thorough := args.Tier == "thorough"
	handles, wraps := handlesQuick, wrapsQuick
	prepares := []string{"off", "config"}
	dialects := []string{"returning"}
	skips := []bool{false}
	if thorough {
		handles, wraps = handlesThorough, wrapsThorough
		prepares = []string{"off", "config", "session"}
		dialects = []string{"returning", "lastinsertid"}
		skips = []bool{false, true}
	}
	only := ""
	if len(args.Extra) > 0 {
		only = args.Extra[0]
	}
	var ops []opcat.Op
	for _, op := range opcat.All() {
		if !op.Fails { // operations that fail by themselves belong to C05 only
			ops = append(ops, op)
		}
	}
	var cases []Case
	for _, op := range ops {
		if only != "" && op.Name != only {
			continue
		}
		for _, dl := range dialects {
			for _, sk := range skips {
				for _, hd := range handles {
					for _, w := range wraps {
						for _, p := range prepares {
							for _, cancelled := range []bool{false, true} {
								cases = append(cases, Case{Op: op.Name, Handle: hd, Wrap: w, Prepare: p, Cancelled: cancelled, Dialect: dl, SkipTx: sk})
							}
						}
					}
				}
			}
		}
	}

	// handle-derivation histories
	histOps := map[string]bool{}
	for _, n := range []string{"create-full-graph", "batches-3x2-graph", "save-absent-key-with-company", "updates-model-with-associations",
		"delete-select-pets", "delete-returning-columns", "updates-returning-columns-many-rows", "first", "count", "rows-scanrows", "exec", "first-or-create-missing", "preload-nested",
		"joins-preload-through-join", "find-in-batches", "assoc-append-m2m", "assoc-replace-has-many", "assoc-count-m2m"} {
		if _, ok := opcat.ByName(n); !ok {
			run.HarnessError("history subset names an unknown operation %s", n)
		}
		histOps[n] = true
	}
	histHandles := []string{"WithContext"}
	if thorough {
		histHandles = []string{"WithContext", "Session{Context}"}
	}
	nHist := 0
	histOpCount := len(histOps)
	if thorough {
		histOpCount = len(ops)
	}
	for _, op := range ops {
		if only != "" && op.Name != only {
			continue
		}
		if !thorough && !histOps[op.Name] {
			continue
		}
		for _, hd := range histHandles {
			for _, k := range deriveKinds {
				for _, use := range []string{"parent", "child"} {
					for _, first := range []bool{false, true} {
						for _, w := range []string{"direct", "tx-depth1"} {
							for _, p := range []string{"off", "config"} {
								if k.own && hd == "WithContext" {
									// re-binding the child to the bare context.Background()/TODO()
									for _, b := range []string{"Background", "TODO"} {
										cvs := [][2]bool{{false, false}, {false, true}} // child used: parent live / cancelled
										if use == "parent" {
											cvs = [][2]bool{{false, false}, {true, false}} // parent used: live / cancelled
										}
										for _, cv := range cvs {
											cases = append(cases, Case{Op: op.Name, Handle: hd, Wrap: w, Prepare: p, Cancelled: cv[0], Dialect: "returning",
												Derive: k.name, Use: use, OtherFirst: first, OtherCancelled: cv[1], Bare: b})
											nHist++
										}
									}
								}
								for _, cv := range [][2]bool{{false, false}, {true, false}, {false, true}} {
									if cv[1] && !k.own {
										continue // one shared context: there is no other one to cancel
									}
									cases = append(cases, Case{Op: op.Name, Handle: hd, Wrap: w, Prepare: p, Cancelled: cv[0], Dialect: "returning",
										Derive: k.name, Use: use, OtherFirst: first, OtherCancelled: cv[1]})
									nHist++
								}
							}
						}
					}
				}
			}
		}
	}

	// quick: both executor branches of the write finishers (RETURNING/scan vs
	// exec) in every mode — the writes also on the dialector without RETURNING and
	// with SkipDefaultTransaction (thorough has the full cross product above)
	if !thorough {
		for _, op := range ops {
			if !op.IsWrite() || (only != "" && op.Name != only) {
				continue
			}
			for _, hd := range handles {
				for _, p := range prepares {
					for _, cancelled := range []bool{false, true} {
						for _, w := range wraps {
							cases = append(cases, Case{Op: op.Name, Handle: hd, Wrap: w, Prepare: p, Cancelled: cancelled, Dialect: "lastinsertid"})
						}
						for _, w := range []string{"direct", "tx-depth1"} {
							for _, dl := range []string{"returning", "lastinsertid"} {
								cases = append(cases, Case{Op: op.Name, Handle: hd, Wrap: w, Prepare: p, Cancelled: cancelled, Dialect: dl, SkipTx: true})
							}
						}
					}
				}
			}
		}
	}

	deadline := time.Now().Add(80 * time.Second)
	if thorough {
		deadline = time.Now().Add(9 * time.Minute)
	}
	st := &stats{}
	var distinct, outcomes, opsSeen mc.Set
	samples := &mc.Samples{N: 8}
	var errMu sync.Mutex
	var opErrs []string
	var panics []string
	var next int64 = -1
	var capped int32
	var wg sync.WaitGroup
	for w := 0; w < 16; w++ {
		wg.Add(1)
		go func() {
			defer wg.Done()
			for {
				n := int(atomic.AddInt64(&next, 1))
				if n >= len(cases) {
					return
				}
				if time.Now().After(deadline) {
					atomic.StoreInt32(&capped, 1)
					return
				}
				c := cases[n]
				r := execute(c)
				atomic.AddInt64(&st.cases, 1)
				if c.Derive != "" {
					atomic.AddInt64(&st.histories, 1)
					if !c.Cancelled && c.Use == "parent" && r.statements > 0 {
						atomic.AddInt64(&st.parentAfterChild, 1)
					}
					if c.Bare != "" && c.Use == "child" && r.statements > 0 {
						atomic.AddInt64(&st.bareChild, 1)
					}
					if !c.Cancelled && c.OtherCancelled && r.statements > 0 {
						atomic.AddInt64(&st.liveBesideCancelled, 1)
					}
				}
				atomic.AddInt64(&st.events, int64(r.statements+r.begins))
				atomic.AddInt64(&st.begins, int64(r.begins))
				atomic.AddInt64(&st.prepares, int64(r.prepares))
				atomic.AddInt64(&st.stmtCalls, int64(r.stmtCalls))
				op, _ := opcat.ByName(c.Op)
				opsSeen.Add(c.Op)
				if c.Cancelled {
					atomic.AddInt64(&st.cancelled, 1)
					if r.err == nil && r.panicMsg == "" {
						atomic.AddInt64(&st.cancelledWithoutErr, 1)
					}
				} else {
					atomic.AddInt64(&st.live, 1)
					if r.statements >= 2 {
						atomic.AddInt64(&st.multi, 1)
						if distinct.Add(c.String()) {
							samples.Add(map[string]interface{}{"case": c.String(), "program": op.Text, "driver_calls_checked": r.statements + r.begins})
						}
					}
					if r.err != nil {
						atomic.AddInt64(&st.opErrors, 1)
						errMu.Lock()
						if len(opErrs) < 10 {
							opErrs = append(opErrs, c.String()+": "+r.err.Error())
						}
						errMu.Unlock()
					}
				}
				if r.panicMsg != "" {
					atomic.AddInt64(&st.panics, 1)
					errMu.Lock()
					if len(panics) < 10 {
						panics = append(panics, c.String()+": "+r.panicMsg)
					}
					errMu.Unlock()
				}
				fs := verdicts(c, r)
				kind := "ok"
				if len(fs) > 0 {
					kind = ""
					for _, f := range fs {
						kind += strings.SplitN(f.msg, "\n", 2)[0] + ";"
					}
				}
				outcomes.Add(fmt.Sprintf("%s|%s|n=%d|b=%d|p=%d|err=%v|%s", op.Kind, c.Wrap, r.statements, r.begins, r.prepares, r.err != nil, kind))
				for _, f := range fs {
					c.Readable = op.Text
					run.Violation(append(tags(c), "aspect:"+f.aspect), f.msg+"\n"+describe(c, r), c)
				}
			}
		}()
	}
	wg.Wait()

	if run.NumViolations() == 0 && only == "" {
		if st.opErrors > 0 {
			run.HarnessError("%d operations of the catalogue failed under a live context (their statements cannot all have been observed), e.g. %s", st.opErrors, strings.Join(opErrs, " ;; "))
		}
		if st.multi < 1000 {
			run.HarnessError("vacuous: only %d live cases with >= 2 statements", st.multi)
		}
		if st.begins < 500 || st.prepares < 500 || st.stmtCalls < 500 {
			run.HarnessError("vacuous: begins=%d prepares=%d prepared-statement calls=%d checked", st.begins, st.prepares, st.stmtCalls)
		}
		if st.bareChild < 300 {
			run.HarnessError("vacuous: only %d operations ran from a child re-bound to the bare context", st.bareChild)
		}
		if st.parentAfterChild < 500 || st.liveBesideCancelled < 300 {
			run.HarnessError("vacuous: handle-derivation histories: %d live operations on a parent after deriving a child, %d live operations beside a cancelled sibling context", st.parentAfterChild, st.liveBesideCancelled)
		}
		if opsSeen.Len() != len(ops) && atomic.LoadInt32(&capped) == 0 {
			run.HarnessError("only %d of %d operations ran", opsSeen.Len(), len(ops))
		}
	}
	run.Assume("SQLite behind the recording driver; database/sql is trusted to hand the context it was given to the driver unchanged and to refuse a call whose context is already cancelled before reaching the driver")
	run.Assume("commit / rollback / statement close carry no context in the driver API and are not checked; AutoMigrate and the migrator are outside the alphabet")
	if len(panics) > 0 {
		run.Assume("panics observed with an already-cancelled context (no statement ran; not a context-propagation failure): " + strings.Join(panics[:1], ""))
	}
	run.Finish(map[string]interface{}{
		"evaluations":         st.cases,
		"distinct_nontrivial": distinct.Len(),
		"rule":                fmt.Sprintf("every operation of the catalogue (%d: %d writes, reads/preloads/joins/FindInBatches/raw, association mode) x handle binding %v x wrapper %v x PrepareStmt %v x {live, already cancelled} context x dialector %v x SkipDefaultTransaction %v (quick additionally runs every write operation on the dialector without RETURNING and with SkipDefaultTransaction, so that both executor branches exec / RETURNING-scan of every write finisher are reached in every mode), plus handle-derivation histories (parent bound to one context; child := parent.<%d derivation kinds: Session{NewDB,Context}, Session{Context}, WithContext, Session{PrepareStmt,Context}, …, Begin, Debug>, bound to another marked context, or re-bound to the bare context.Background()/TODO() (then its driver calls must carry no marker and run even if the parent's context is cancelled), unless the kind shares the parent's context; optionally the other handle used first; the operation started from the parent or from the child; either context already cancelled) for %d operations x wrappers direct/tx-depth1, each executed on a fresh database; every begin/prepare/exec/query/stmt_exec/stmt_query event of the recording driver is checked for the caller's marker value; non-trivial = distinct live-context cases in which the driver saw >= 2 statements on behalf of the operation (nested statements issued through internal sessions)", len(ops), len(opcat.Writes()), handles, wraps, prepares, dialects, skips, len(deriveKinds), histOpCount),
		"samples":             samples.List(),
		"exhaustive":          atomic.LoadInt32(&capped) == 0,
		"operations":          len(ops),
		"derivation_history_cases":                        st.histories,
		"live_operations_on_parent_after_deriving_child":  st.parentAfterChild,
		"live_operations_beside_cancelled_other_context":  st.liveBesideCancelled,
		"operations_from_child_rebound_to_bare_context":   st.bareChild,
		"watchdog_hangs_not_reproduced":                   atomic.LoadInt64(&hangsNotReproduced),
		"live_cases":          st.live,
		"cancelled_cases":     st.cancelled,
		"driver_calls_checked":                  st.events,
		"begin_calls_checked":                   st.begins,
		"prepare_calls_checked":                 st.prepares,
		"prepared_statement_exec_query_checked": st.stmtCalls,
		"live_cases_with_2_or_more_statements":  st.multi,
		"live_cases_with_operation_error":       st.opErrors,
		"cancelled_cases_returning_nil_error":   st.cancelledWithoutErr,
		"panics":                                st.panics,
		"distinct_outcomes":                     outcomes.Len(),
	})
}

