// Package mc holds the machinery shared by all property harnesses: run
// bookkeeping (violations, known findings, evidence files), the E1
// choice-tree explorer and small helpers for sharding work over cores.
package mc

import (
	"encoding/json"
	"flag"
	"fmt"
	"os"
	"path/filepath"
	"sort"
	"strconv"
	"strings"
	"sync"
	"time"
)

// Root is the /verif directory (overridable for runs from a snapshot).
func Root() string {
	if r := os.Getenv("VERIF_ROOT"); r != "" {
		return r
	}
	return "/verif"
}

// KnownFinding is one entry of known_findings.json. A violation is "known"
// iff its input-side tag set contains Tag (tags are computed by the harness
// from the failing *input* only, never from the outcome).
type KnownFinding struct {
	Property string `json:"property"`
	Tag      string `json:"tag"`
	What     string `json:"what"`
	Status   string `json:"status"` // "open" (suppresses + prints KNOWN-FINDING) or "fixed" (suppresses nothing)
	Commit   string `json:"commit,omitempty"`
}

type Violation struct {
	Property string      `json:"property"`
	Tags     []string    `json:"tags"`
	Message  string      `json:"message"`
	Replay   interface{} `json:"replay"`
	Path     string      `json:"-"`
}

// Run is the per-invocation context of a check.
type Run struct {
	ID    string
	Tier  string
	Seed  int
	Level string
	Start time.Time

	mu         sync.Mutex
	known      []KnownFinding
	knownHits  map[string]int
	violations []Violation
	maxReport  int
	Assumptions []string
	harnessErr []string
	kinds      map[string]int
	child      bool
}

// Args parsed from the command line of every harness binary.
type Args struct {
	Tier   string
	Replay string
	Shard  int
	Shards int
	Extra  []string
}

func ParseArgs() Args {
	var a Args
	fs := flag.NewFlagSet(os.Args[0], flag.ExitOnError)
	fs.StringVar(&a.Replay, "replay", "", "replay file")
	fs.IntVar(&a.Shard, "shard", 0, "shard index")
	fs.IntVar(&a.Shards, "shards", 1, "number of shards")
	tier := fs.String("tier", "", "quick|thorough")
	// the tier may come first ("quick --replay f"): the flag package stops at the first positional argument
	argv := os.Args[1:]
	pos := ""
	if len(argv) > 0 && (argv[0] == "quick" || argv[0] == "thorough") {
		pos, argv = argv[0], argv[1:]
	}
	fs.Parse(argv)
	a.Tier = *tier
	if a.Tier == "" {
		a.Tier = pos
	}
	rest := fs.Args()
	if a.Tier == "" && len(rest) > 0 && (rest[0] == "quick" || rest[0] == "thorough") {
		a.Tier = rest[0]
		rest = rest[1:]
	}
	if a.Tier == "" {
		a.Tier = os.Getenv("VERIF_TIER")
	}
	if a.Tier == "" {
		a.Tier = "quick"
	}
	a.Extra = rest
	return a
}

func NewRun(id, tier, level string) *Run {
	seed, _ := strconv.Atoi(os.Getenv("VERIF_SEED"))
	r := &Run{ID: id, Tier: tier, Seed: seed, Level: level, Start: time.Now(), knownHits: map[string]int{}, maxReport: 5}
	kf := filepath.Join(Root(), "known_findings.json")
	if alt := os.Getenv("VERIF_KNOWN_FINDINGS"); alt != "" {
		kf = alt
	}
	b, err := os.ReadFile(kf)
	if err == nil {
		var all struct {
			Findings []KnownFinding `json:"findings"`
		}
		if err := json.Unmarshal(b, &all); err != nil {
			fmt.Fprintf(os.Stderr, "HARNESS-ERROR: known_findings.json: %v\n", err)
			os.Exit(3)
		}
		for _, k := range all.Findings {
			if k.Property == id && k.Status == "open" {
				r.known = append(r.known, k)
			}
		}
	}
	return r
}

// Violation records a property violation. tags are input-side tags; if one of
// them is listed as an open known finding the violation is counted as known.
// Returns true when the violation is new (not known).
func (r *Run) Violation(tags []string, msg string, replay interface{}) bool {
	r.mu.Lock()
	defer r.mu.Unlock()
	if r.child {
		// keep at most 5 per kind so that frequent (e.g. known) kinds cannot crowd out a new one
		if r.kinds == nil {
			r.kinds = map[string]int{}
		}
		k := strings.Join(tags, ",") + "|" + strings.SplitN(msg, "\n", 2)[0]
		r.kinds[k]++
		if r.kinds[k] <= 5 {
			r.violations = append(r.violations, Violation{Property: r.ID, Tags: tags, Message: msg, Replay: replay})
		}
		return true
	}
	for _, k := range r.known {
		for _, t := range tags {
			if t == k.Tag {
				r.knownHits[k.Tag]++
				return false
			}
		}
	}
	v := Violation{Property: r.ID, Tags: tags, Message: msg, Replay: replay}
	if r.kinds == nil {
		r.kinds = map[string]int{}
	}
	r.kinds[strings.SplitN(msg, "\n", 2)[0]]++
	if len(r.violations) < r.maxReport || (r.kinds[strings.SplitN(msg, "\n", 2)[0]] == 1 && len(r.kinds) <= 25) {
		dir := filepath.Join(Root(), "replays")
		os.MkdirAll(dir, 0o755)
		v.Path = filepath.Join(dir, fmt.Sprintf("%s-%s-%d.json", r.ID, r.Tier, len(r.violations)+1))
		b, _ := json.MarshalIndent(map[string]interface{}{"property": r.ID, "tags": tags, "message": msg, "replay": replay}, "", " ")
		os.WriteFile(v.Path, b, 0o644)
		fmt.Printf("VIOLATION property=%s replay=%s\n", r.ID, v.Path)
		fmt.Printf("  %s\n", firstLines(msg, 12))
	}
	r.violations = append(r.violations, v)
	return true
}

func firstLines(s string, n int) string {
	ls := strings.Split(s, "\n")
	if len(ls) > n {
		ls = append(ls[:n], "...")
	}
	return strings.Join(ls, "\n  ")
}

func (r *Run) NumViolations() int {
	r.mu.Lock()
	defer r.mu.Unlock()
	return len(r.violations)
}

// HarnessError records a condition under which no verdict can be trusted
// (vacuous exploration, nondeterministic replay…): exit code 3, no VIOLATION.
func (r *Run) HarnessError(format string, a ...interface{}) {
	r.mu.Lock()
	defer r.mu.Unlock()
	r.harnessErr = append(r.harnessErr, fmt.Sprintf(format, a...))
}

func (r *Run) Assume(s string) { r.Assumptions = append(r.Assumptions, s) }

// Finish writes the evidence file and exits with the verdict.
func (r *Run) Finish(cov map[string]interface{}) {
	wall := time.Since(r.Start).Seconds()
	r.mu.Lock()
	nv := len(r.violations)
	var tags []string
	for t := range r.knownHits {
		tags = append(tags, t)
	}
	sort.Strings(tags)
	kh := map[string]int{}
	for _, t := range tags {
		kh[t] = r.knownHits[t]
		for _, k := range r.known {
			if k.Tag == t {
				fmt.Printf("KNOWN-FINDING: property=%s %s [tag=%s, %d failing cases this run]\n", r.ID, k.What, t, r.knownHits[t])
			}
		}
	}
	kinds := r.kinds
	r.mu.Unlock()
	if len(kinds) > 0 {
		kb, _ := json.Marshal(kinds)
		fmt.Printf("violation kinds: %s\n", kb)
	}
	if cov == nil {
		cov = map[string]interface{}{}
	}
	cov["known_finding_hits"] = kh
	if len(r.harnessErr) > 0 {
		cov["harness_errors"] = r.harnessErr
	}
	ev := map[string]interface{}{
		"property_id": r.ID,
		"tier":        r.Tier,
		"seed":        r.Seed,
		"level":       r.Level,
		"coverage":    cov,
		"assumptions": append([]string{}, r.Assumptions...),
		"wall_s":      float64(int(wall*100)) / 100,
		"violations":  nv,
	}
	dir := filepath.Join(Root(), "evidence")
	os.MkdirAll(dir, 0o755)
	b, _ := json.MarshalIndent(ev, "", " ")
	if err := os.WriteFile(filepath.Join(dir, r.ID+".json"), append(b, '\n'), 0o644); err != nil {
		fmt.Fprintf(os.Stderr, "HARNESS-ERROR: cannot write evidence: %v\n", err)
		os.Exit(3)
	}
	summary := map[string]interface{}{}
	for k, v := range cov {
		if k == "samples" || k == "rule" {
			continue
		}
		summary[k] = v
	}
	sb, _ := json.Marshal(summary)
	fmt.Printf("%s %s: violations=%d wall=%.1fs %s\n", r.ID, r.Tier, nv, wall, sb)
	if nv > 0 {
		os.Exit(1)
	}
	if len(r.harnessErr) > 0 {
		for _, e := range r.harnessErr {
			fmt.Fprintf(os.Stderr, "HARNESS-ERROR: %s\n", e)
		}
		os.Exit(3)
	}
	os.Exit(0)
}

// LoadReplay reads a replay file written by Violation and unmarshals its
// "replay" member into v.
func LoadReplay(path string, v interface{}) error {
	b, err := os.ReadFile(path)
	if err != nil {
		return err
	}
	var w struct {
		Replay json.RawMessage `json:"replay"`
	}
	if err := json.Unmarshal(b, &w); err != nil {
		return err
	}
	return json.Unmarshal(w.Replay, v)
}

// Samples keeps the first n distinct samples offered.
type Samples struct {
	mu   sync.Mutex
	N    int
	list []interface{}
}

func (s *Samples) Add(v interface{}) {
	s.mu.Lock()
	if len(s.list) < s.N {
		s.list = append(s.list, v)
	}
	s.mu.Unlock()
}
func (s *Samples) List() []interface{} {
	s.mu.Lock()
	defer s.mu.Unlock()
	if s.list == nil {
		return []interface{}{}
	}
	return s.list
}

// Set is a concurrency-safe string set used for "distinct" counters.
type Set struct {
	mu sync.Mutex
	m  map[string]struct{}
}

func (s *Set) Add(k string) bool {
	s.mu.Lock()
	defer s.mu.Unlock()
	if s.m == nil {
		s.m = map[string]struct{}{}
	}
	if _, ok := s.m[k]; ok {
		return false
	}
	s.m[k] = struct{}{}
	return true
}
func (s *Set) Len() int { s.mu.Lock(); defer s.mu.Unlock(); return len(s.m) }
