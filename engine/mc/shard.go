package mc

import (
	"encoding/json"
	"fmt"
	"os"
	"os/exec"
	"path/filepath"
	"sort"
	"strconv"
	"sync"
)

// Process sharding: harnesses whose executions use process-global state (the
// controlled scheduler) or can die with a fatal runtime error run their work in
// child processes. The parent re-executes its own binary with -shard i -shards n
// and VERIF_SHARD_OUT=<file>; each child writes a ShardOut; the parent merges.

var shardSeq int

type ShardOut struct {
	Counters      map[string]int64       `json:"counters"`
	Max           map[string]int64       `json:"max"`
	Sets          map[string][]string    `json:"sets"`
	Violations    []Violation            `json:"violations"`
	Samples       []interface{}          `json:"samples"`
	HarnessErrors []string               `json:"harness_errors"`
	Flags         map[string]bool        `json:"flags"`
}

func NewShardOut() *ShardOut {
	return &ShardOut{Counters: map[string]int64{}, Max: map[string]int64{}, Sets: map[string][]string{}, Flags: map[string]bool{}}
}

func IsShardChild() bool { return os.Getenv("VERIF_SHARD_OUT") != "" }

// ChildMode makes Violation() only collect (the parent reports).
func (r *Run) ChildMode() { r.child = true }

// FinishShard writes the child's result and exits 0.
func (r *Run) FinishShard(out *ShardOut) {
	r.mu.Lock()
	out.Violations = append(out.Violations, r.violations...)
	out.HarnessErrors = append(out.HarnessErrors, r.harnessErr...)
	r.mu.Unlock()
	b, _ := json.Marshal(out)
	if err := os.WriteFile(os.Getenv("VERIF_SHARD_OUT"), b, 0o644); err != nil {
		fmt.Fprintln(os.Stderr, "HARNESS-ERROR: shard output:", err)
		os.Exit(3)
	}
	os.Exit(0)
}

// RunShards runs n children and merges their outputs; violations are reported
// through run.Violation in the parent. extra args are appended to the command line.
func RunShards(run *Run, n int, extra ...string) *ShardOut {
	return RunShardsBin(run, n, os.Args[0], nil, extra...)
}

// RunShardsBin is RunShards with an explicit child binary and extra environment.
func RunShardsBin(run *Run, n int, bin string, env []string, extra ...string) *ShardOut {
	shardSeq++
	dir := filepath.Join(Root(), ".work", fmt.Sprintf("shards-%s-%d-%d", run.ID, os.Getpid(), shardSeq))
	os.MkdirAll(dir, 0o755)
	defer os.RemoveAll(dir)
	outs := make([]*ShardOut, n)
	var wg sync.WaitGroup
	var mu sync.Mutex
	for i := 0; i < n; i++ {
		wg.Add(1)
		go func(i int) {
			defer wg.Done()
			file := filepath.Join(dir, fmt.Sprintf("shard%d.json", i))
			args := append([]string{"-tier", run.Tier, "-shard", strconv.Itoa(i), "-shards", strconv.Itoa(n)}, extra...)
			cmd := exec.Command(bin, args...)
			cmd.Env = append(append(os.Environ(), "VERIF_SHARD_OUT="+file), env...)
			cmd.Stderr = os.Stderr
			cmd.Stdout = os.Stderr
			err := cmd.Run()
			b, rerr := os.ReadFile(file)
			if err != nil || rerr != nil {
				mu.Lock()
				run.harnessErr = append(run.harnessErr, fmt.Sprintf("shard %d failed: run=%v read=%v", i, err, rerr))
				mu.Unlock()
				return
			}
			var o ShardOut
			if err := json.Unmarshal(b, &o); err != nil {
				mu.Lock()
				run.harnessErr = append(run.harnessErr, fmt.Sprintf("shard %d: bad output: %v", i, err))
				mu.Unlock()
				return
			}
			outs[i] = &o
		}(i)
	}
	wg.Wait()
	m := NewShardOut()
	sets := map[string]map[string]bool{}
	for _, o := range outs {
		if o == nil {
			continue
		}
		for k, v := range o.Counters {
			m.Counters[k] += v
		}
		for k, v := range o.Max {
			if v > m.Max[k] {
				m.Max[k] = v
			}
		}
		for k, v := range o.Flags {
			m.Flags[k] = m.Flags[k] || v
		}
		for k, vs := range o.Sets {
			if sets[k] == nil {
				sets[k] = map[string]bool{}
			}
			for _, v := range vs {
				sets[k][v] = true
			}
		}
		if len(m.Samples) < 8 {
			m.Samples = append(m.Samples, o.Samples...)
		}
		for _, v := range o.Violations {
			run.Violation(v.Tags, v.Message, v.Replay)
		}
		for _, h := range o.HarnessErrors {
			run.HarnessError("%s", h)
		}
	}
	for k, s := range sets {
		for v := range s {
			m.Sets[k] = append(m.Sets[k], v)
		}
		sort.Strings(m.Sets[k])
	}
	if len(m.Samples) > 8 {
		m.Samples = m.Samples[:8]
	}
	return m
}
