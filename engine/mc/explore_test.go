package mc

import (
	"fmt"
	"sync"
	"testing"
)

// 5 binary fault points: executions with <=2 faults = 1+5+10 = 16
func TestExploreCounts(t *testing.T) {
	for _, workers := range []int{1, 4} {
		var mu sync.Mutex
		seen := map[string]bool{}
		e := &Explorer{Bound: 2, Workers: workers,
			Run: func(x *Exec) interface{} {
				s := ""
				for i := 0; i < 5; i++ {
					s += fmt.Sprint(x.Choose(2, "p", 1))
				}
				return s
			},
			Check: func(x *Exec, obs interface{}) {
				mu.Lock()
				seen[obs.(string)] = true
				mu.Unlock()
			}}
		e.Explore()
		if e.Executions != 16 || len(seen) != 16 || e.CompletedBound != 2 {
			t.Fatalf("workers=%d executions=%d distinct=%d bound=%d", workers, e.Executions, len(seen), e.CompletedBound)
		}
	}
}

// early termination after a fault shortens the execution; sharding covers all
func TestExploreShards(t *testing.T) {
	total := map[string]int{}
	for sh := 0; sh < 3; sh++ {
		e := &Explorer{Bound: 2, Workers: 2, Shard: sh, Shards: 3, ShardDepth: 1,
			Run: func(x *Exec) interface{} {
				s := ""
				for i := 0; i < 6; i++ {
					c := x.Choose(3, "p", 1)
					s += fmt.Sprint(c)
					if c == 2 {
						break
					}
				}
				return s
			}}
		var mu sync.Mutex
		e.Check = func(x *Exec, obs interface{}) { mu.Lock(); total[obs.(string)]++; mu.Unlock() }
		e.Explore()
	}
	ref := map[string]int{}
	e := &Explorer{Bound: 2, Run: func(x *Exec) interface{} {
		s := ""
		for i := 0; i < 6; i++ {
			c := x.Choose(3, "p", 1)
			s += fmt.Sprint(c)
			if c == 2 {
				break
			}
		}
		return s
	}}
	e.Check = func(x *Exec, obs interface{}) { ref[obs.(string)]++ }
	e.Explore()
	if len(ref) != len(total) {
		t.Fatalf("sharded %d vs single %d", len(total), len(ref))
	}
	for k, v := range total {
		if v != 1 || ref[k] != 1 {
			t.Fatalf("%s counted %d/%d", k, v, ref[k])
		}
	}
}
