package mc

import (
	"fmt"
	"hash/fnv"
	"sync"
	"sync/atomic"
	"time"
)

// E1: deviation-bounded exploration of a choice tree. An execution is a
// deterministic function of its choice list; Choose answers the replayed
// prefix and 0 (the default environment answer) afterwards.

type Point struct {
	N     int    `json:"n"`
	Label string `json:"label"`
	Cost  int    `json:"cost"` // cost of taking any non-zero alternative here
}

type Exec struct {
	prefix  []byte
	Choices []byte
	Points  []Point
	Diverged string
	Horizon int // max number of points (0 = unlimited)
	Overrun bool
}

// Choose returns the answer for a choice point of arity n. cost is the
// deviation cost of taking a non-default answer (fault = 1, preemption = 1,
// forced switch = 0).
func (x *Exec) Choose(n int, label string, cost int) int {
	if n <= 1 {
		return 0
	}
	i := len(x.Choices)
	if x.Horizon > 0 && i >= x.Horizon {
		x.Overrun = true
		return 0
	}
	c := 0
	if i < len(x.prefix) {
		c = int(x.prefix[i])
		if c >= n {
			if x.Diverged == "" {
				x.Diverged = fmt.Sprintf("replay divergence at point %d (%s): recorded choice %d but arity is %d", i, label, c, n)
			}
			c = 0
		}
	}
	x.Choices = append(x.Choices, byte(c))
	x.Points = append(x.Points, Point{N: n, Label: label, Cost: cost})
	return c
}

// Deviations returns the total cost of the non-default choices taken.
func (x *Exec) Deviations() int {
	d := 0
	for i, c := range x.Choices {
		if c != 0 {
			d += x.Points[i].Cost
		}
	}
	return d
}

func (x *Exec) ChoiceInts() []int {
	out := make([]int, len(x.Choices))
	for i, c := range x.Choices {
		out[i] = int(c)
	}
	return out
}

// Trace renders the non-default choices with their labels (for replay files).
func (x *Exec) Trace() []string {
	var out []string
	for i, c := range x.Choices {
		if c != 0 {
			out = append(out, fmt.Sprintf("#%d %s -> %d", i, x.Points[i].Label, c))
		}
	}
	return out
}

func NewExec(prefix []int) *Exec {
	p := make([]byte, len(prefix))
	for i, c := range prefix {
		p[i] = byte(c)
	}
	return &Exec{prefix: p}
}

type task struct {
	prefix []byte
	cost   int
	nz     int
	owner  int
}

type Explorer struct {
	Bound      int // max deviation cost (-1 = unbounded)
	Workers    int
	Horizon    int
	Shard      int
	Shards     int
	ShardDepth int // number of non-default choices at which a subtree is assigned to one shard
	Deadline   time.Time
	// Run performs one execution and returns an observation.
	Run func(x *Exec) interface{}
	// Check is called for every execution this shard owns.
	Check func(x *Exec, obs interface{})

	Executions  int64
	Owned       int64
	PointsTotal int64
	MaxDepth    int64
	Overruns    int64
	Diverged    int64
	// CompletedBound is the highest deviation cost whose executions were all explored.
	CompletedBound int
	Capped         bool
	PerLevel       []int64
	FirstDivergence string

	mu      sync.Mutex
	levels  [][]task
	pending int
	cond    *sync.Cond
}

func hashBytes(b []byte) uint32 {
	h := fnv.New32a()
	h.Write(b)
	return h.Sum32()
}

func (e *Explorer) push(t task) {
	for len(e.levels) <= t.cost {
		e.levels = append(e.levels, nil)
		e.PerLevel = append(e.PerLevel, 0)
	}
	e.levels[t.cost] = append(e.levels[t.cost], t)
}

// Explore runs the whole bounded tree. Levels (deviation cost) are completed in
// ascending order, so a deadline leaves a well-defined completed bound.
func (e *Explorer) Explore() {
	if e.Workers <= 0 {
		e.Workers = 1
	}
	if e.Shards <= 0 {
		e.Shards = 1
	}
	if e.ShardDepth <= 0 {
		e.ShardDepth = 1
	}
	e.cond = sync.NewCond(&e.mu)
	e.CompletedBound = -1
	e.push(task{owner: -1})
	level := 0
	for {
		// run everything at this level (tasks may add more tasks at the same level)
		var wg sync.WaitGroup
		e.pending = 0
		stop := int32(0)
		for w := 0; w < e.Workers; w++ {
			wg.Add(1)
			go func() {
				defer wg.Done()
				for {
					e.mu.Lock()
					for len(e.levels[level]) == 0 && e.pending > 0 && atomic.LoadInt32(&stop) == 0 {
						e.cond.Wait()
					}
					if atomic.LoadInt32(&stop) != 0 || len(e.levels[level]) == 0 {
						e.mu.Unlock()
						e.cond.Broadcast()
						return
					}
					q := e.levels[level]
					t := q[len(q)-1]
					e.levels[level] = q[:len(q)-1]
					e.pending++
					e.mu.Unlock()

					e.runTask(t, level)

					e.mu.Lock()
					e.pending--
					e.mu.Unlock()
					e.cond.Broadcast()
					if !e.Deadline.IsZero() && time.Now().After(e.Deadline) {
						atomic.StoreInt32(&stop, 1)
						e.cond.Broadcast()
						return
					}
				}
			}()
		}
		wg.Wait()
		if stop != 0 {
			e.mu.Lock()
			rest := 0
			for l := level; l < len(e.levels); l++ {
				rest += len(e.levels[l])
			}
			e.mu.Unlock()
			if rest > 0 {
				e.Capped = true
				return
			}
		}
		e.CompletedBound = level
		level++
		if level >= len(e.levels) || (e.Bound >= 0 && level > e.Bound) {
			return
		}
	}
}

func (e *Explorer) runTask(t task, level int) {
	x := &Exec{prefix: t.prefix, Horizon: e.Horizon}
	obs := e.Run(x)
	atomic.AddInt64(&e.Executions, 1)
	atomic.AddInt64(&e.PointsTotal, int64(len(x.Points)))
	for {
		m := atomic.LoadInt64(&e.MaxDepth)
		if int64(len(x.Points)) <= m || atomic.CompareAndSwapInt64(&e.MaxDepth, m, int64(len(x.Points))) {
			break
		}
	}
	if x.Overrun {
		atomic.AddInt64(&e.Overruns, 1)
	}
	if x.Diverged != "" {
		atomic.AddInt64(&e.Diverged, 1)
		e.mu.Lock()
		if e.FirstDivergence == "" {
			e.FirstDivergence = x.Diverged
		}
		e.mu.Unlock()
		return
	}
	owned := t.owner == e.Shard || (t.owner == -1 && e.Shard == 0)
	if owned {
		atomic.AddInt64(&e.Owned, 1)
		e.mu.Lock()
		e.PerLevel[level]++
		e.mu.Unlock()
		if e.Check != nil {
			e.Check(x, obs)
		}
	}
	// children: deviate at every point after the prefix
	var kids []task
	for i := len(t.prefix); i < len(x.Points); i++ {
		p := x.Points[i]
		for alt := 1; alt < p.N; alt++ {
			c := t.cost + p.Cost
			if e.Bound >= 0 && c > e.Bound {
				continue
			}
			np := make([]byte, i+1)
			copy(np, x.Choices[:i])
			np[i] = byte(alt)
			k := task{prefix: np, cost: c, nz: t.nz + 1, owner: t.owner}
			if k.owner == -1 && k.nz >= e.ShardDepth && e.Shards > 1 {
				k.owner = int(hashBytes(np) % uint32(e.Shards))
			}
			if k.owner != -1 && k.owner != e.Shard {
				continue
			}
			kids = append(kids, k)
		}
	}
	if len(kids) > 0 {
		e.mu.Lock()
		for i := len(kids) - 1; i >= 0; i-- {
			e.push(kids[i])
		}
		e.mu.Unlock()
	}
}

// RunOnce executes a single choice list (used for replay and determinism checks).
func (e *Explorer) RunOnce(choices []int) (*Exec, interface{}) {
	x := NewExec(choices)
	x.Horizon = e.Horizon
	obs := e.Run(x)
	return x, obs
}

// Stats returns the evidence fields describing the exploration.
func (e *Explorer) Stats() map[string]interface{} {
	return map[string]interface{}{
		"executions":           e.Executions,
		"executions_owned":     e.Owned,
		"choice_points_total":  e.PointsTotal,
		"max_depth":            e.MaxDepth,
		"bound_requested":      e.Bound,
		"bound_completed":      e.CompletedBound,
		"executions_per_bound": e.PerLevel,
		"capped":               e.Capped,
		"horizon_overruns":     e.Overruns,
		"replay_divergences":   e.Diverged,
	}
}
