// C11 — eager loading attaches to each record exactly its own associated rows.
//
// Bounded-exhaustive enumeration (E3) of data graphs over a hand-written model
// family (has-one, has-many, belongs-to, many-to-many, polymorphic,
// self-referential, composite (string,string) and (string,int) keys, nested
// path), inserted with raw SQL, loaded through the real gorm code with every
// loader x result shape of the alphabet, and compared with a reference join
// computed over the in-memory copy of the inserted rows.
package main

import (
	"fmt"
	"hash/fnv"
	"os"
	"reflect"
	"sort"
	"strconv"
	"strings"
	"sync"
	"sync/atomic"
	"time"

	"gorm.io/gorm"
	"gorm.io/gorm/clause"

	"verif/h"
	"verif/mc"
)

// ---------------------------------------------------------------------------
// environment

var allModels = []interface{}{&SP{}, &SK{}, &IP{}, &IK{}, &CP{}, &CK{}, &DP{}, &DK{}, &Dog{}, &Toy{}, &RO{}, &RK{}, &RN{}, &Node{}, &MR{}, &ML{}, &XL{}, &GP{}, &NK{}, &NT{}}

type joinInfo struct {
	table string
	left  []string
	right string
}

func openEnv(record bool) *h.Env {
	e := h.Open(&gorm.Config{DisableForeignKeyConstraintWhenMigrating: true})
	e.Rec.Pause()
	if err := e.DB.AutoMigrate(allModels...); err != nil {
		panic(fmt.Sprintf("AutoMigrate: %v", err))
	}
	e.MustExec("CREATE TABLE c11_dup (n integer)")
	e.MustExec("INSERT INTO c11_dup (n) VALUES (1),(2)")
	e.MustExec("CREATE TABLE c11_mult (pseq integer, n integer)")
	if record {
		e.Rec.Resume()
	}
	return e
}

func joinTableOf(e *h.Env, model interface{}, rel string) joinInfo {
	stmt := &gorm.Statement{DB: e.DB}
	if err := stmt.Parse(model); err != nil {
		panic(err)
	}
	r := stmt.Schema.Relationships.Relations[rel]
	ji := joinInfo{table: r.JoinTable.Table}
	for _, ref := range r.References {
		if ref.OwnPrimaryKey {
			ji.left = append(ji.left, ref.ForeignKey.DBName)
		} else {
			ji.right = ref.ForeignKey.DBName
		}
	}
	return ji
}

// ---------------------------------------------------------------------------
// families

var families []*Family
var famByName = map[string]*Family{}

func buildFamilies(e *h.Env) {
	T := func(v interface{}) reflect.Type { return reflect.TypeOf(v) }
	str := newBip(bipCfg{name: "str", lt: "c11_sp", rt: "c11_sk", lk: []string{"id"}, rk: []string{"pid"},
		lTyp: T(SP{}), rTyp: T(SK{}), many: "Kids", one: "One", bel: "Owner", extraMany: []string{"KidPs"}, extraOne: []string{"OneV"}})
	str.stdChecks(str.Dirs[0], "Kids", "One", true)
	str.stdChecks(str.Dirs[1], "", "Owner", true)
	{
		d := str.Dirs[0]
		str.preload(d, "Preload(KidPs,cond).Preload(OneV)", func(db *gorm.DB) *gorm.DB {
			return db.Preload("KidPs", "tag = ?", "x").Preload("OneV")
		}, []Exp{{"KidPs", "cond"}, {"OneV", ""}}, none, shSlice, shPrefilled, shDup)
		str.joins(d, "Joins(OneV)", func(db *gorm.DB) *gorm.DB { return db.Joins("OneV") }, Exp{"OneV", ""}, none, shSlice, shStruct)
		str.assoc(d, "KidPs", "", nil, none, shStruct)
	}

	intf := newBip(bipCfg{name: "int", lt: "c11_ip", rt: "c11_ik", lk: []string{"id"}, rk: []string{"pid"}, intAt: map[int]bool{0: true},
		lTyp: T(IP{}), rTyp: T(IK{}), many: "Kids", one: "One", bel: "Owner"})
	intf.stdChecks(intf.Dirs[0], "Kids", "One", true)
	intf.stdChecks(intf.Dirs[1], "", "Owner", true)

	css := newBip(bipCfg{name: "css", lt: "c11_cp", rt: "c11_ck", lk: []string{"k1", "k2"}, rk: []string{"f1", "f2"},
		lTyp: T(CP{}), rTyp: T(CK{}), many: "Kids", one: "One", bel: "Owner"})
	css.stdChecks(css.Dirs[0], "Kids", "One", true)
	css.stdChecks(css.Dirs[1], "", "Owner", true)

	csi := newBip(bipCfg{name: "csi", lt: "c11_dp", rt: "c11_dk", lk: []string{"k1", "k2"}, rk: []string{"f1", "f2"}, intAt: map[int]bool{1: true},
		lTyp: T(DP{}), rTyp: T(DK{}), many: "Kids", one: "One", bel: "Owner"})
	csi.stdChecks(csi.Dirs[0], "Kids", "One", true)
	csi.stdChecks(csi.Dirs[1], "", "Owner", true)

	poly := newBip(bipCfg{name: "poly", lt: "c11_dog", rt: "c11_toy", lk: []string{"id"}, rk: []string{"owner_id"},
		lTyp: T(Dog{}), rTyp: T(Toy{}), many: "Toys", one: "Toy1", poly: true})
	poly.stdChecks(poly.Dirs[0], "Toys", "Toy1", true)

	self := newBip(bipCfg{name: "self", lt: "c11_node", rt: "c11_node", lk: []string{"id"}, rk: []string{"parent_id"},
		lTyp: T(Node{}), rTyp: T(Node{}), many: "Children", bel: "Parent", extraOne: []string{"Boss"}, self: true})
	self.stdChecks(self.Dirs[0], "Children", "", false)
	self.stdChecks(self.Dirs[1], "", "Parent", true)
	{
		// association Joins of self-referential relations with a Preload below a
		// joined relation: every set of top-level joins over {Parent, Boss} x
		// every nested path X.Y with X joined and Y any relation of the model
		// (in particular Y equal to the name of a top-level join)
		d := self.Dirs[1]
		for _, js := range [][]string{{"Parent"}, {"Boss"}, {"Parent", "Boss"}, {"Boss", "Parent"}} {
			for _, x := range js {
				for _, y := range []string{"Parent", "Boss", "Children"} {
					js, x, y := js, x, y
					name := ""
					var exp []Exp
					for _, j := range js {
						name += "Joins(" + j + ")."
						mode := ""
						if j == x {
							mode = "n:" + y
						}
						exp = append(exp, Exp{j, mode})
					}
					name += "Preload(" + x + "." + y + ")"
					core := none
					if y == x && len(js) == 1 {
						core = shSlice
					}
					self.preload(d, name, func(db *gorm.DB) *gorm.DB {
						for _, j := range js {
							db = db.Joins(j)
						}
						return db.Preload(x + "." + y)
					}, exp, core, shStruct, shSlice, shPtrSlice)
				}
			}
		}
		self.preload(d, "Joins(Parent).Preload(Parent.Boss).Preload(Boss)", func(db *gorm.DB) *gorm.DB {
			return db.Joins("Parent").Preload("Parent.Boss").Preload("Boss")
		}, []Exp{{"Parent", "n:Boss"}, {"Boss", ""}}, none, shSlice, shStruct)
	}

	j1 := joinTableOf(e, &ML{}, "Rights")
	m2m := newM2M("m2m", "c11_ml", []string{"id"}, T(ML{}), j1.table, j1.left, j1.right, false)
	m2m.stdChecks(m2m.Dirs[0], "Rights", "", false)
	j2 := joinTableOf(e, &XL{}, "Rights")
	xm2m := newM2M("xm2m", "c11_xl", []string{"k1", "k2"}, T(XL{}), j2.table, j2.left, j2.right, false)
	xm2m.stdChecks(xm2m.Dirs[0], "Rights", "", false)

	// referenced key = non-primary column `code` (tags foreignKey / references / joinForeignKey ...)
	j3 := joinTableOf(e, &RO{}, "Rights")
	refTables := []string{"c11_ro", "c11_rk", "c11_rn", "c11_mr", j3.table}
	ref := newBip(bipCfg{name: "ref", lt: "c11_ro", rt: "c11_rk", lk: []string{"code"}, rk: []string{"owner_code"},
		lTyp: T(RO{}), rTyp: T(RK{}), many: "Kids", one: "One", bel: "Owner", idFromSeq: true, tables: refTables})
	ref.stdChecks(ref.Dirs[0], "Kids", "One", true)
	ref.stdChecks(ref.Dirs[1], "", "Owner", true)
	refpoly := newBip(bipCfg{name: "refpoly", lt: "c11_ro", rt: "c11_rn", lk: []string{"code"}, rk: []string{"owner_id"},
		lTyp: T(RO{}), rTyp: T(RN{}), many: "Notes", one: "Note1", poly: true, idFromSeq: true, tables: refTables})
	refpoly.stdChecks(refpoly.Dirs[0], "Notes", "Note1", true)
	refm2m := newM2M("refm2m", "c11_ro", []string{"code"}, T(RO{}), j3.table, j3.left, j3.right, true)
	refm2m.Tables = refTables
	refm2m.stdChecks(refm2m.Dirs[0], "Rights", "", false)

	nest := newNest()
	{
		gp, nk := nest.Dirs[0], nest.Dirs[1]
		pre := func(name string, mode string, core int, apply func(*gorm.DB) *gorm.DB, shapes ...int) {
			nest.preload(gp, name, apply, []Exp{{"Kids", mode}}, core, shapes...)
		}
		pre("Preload(Kids.Toys)", "toys", shSlice, func(db *gorm.DB) *gorm.DB { return db.Preload("Kids.Toys") },
			shStruct, shPrefilled, shSlice, shPtrSlice, shDup)
		nest.multChecks(gp, "Preload(Kids.Toys)", func(db *gorm.DB) *gorm.DB { return db.Preload("Kids.Toys") }, []Exp{{"Kids", "toys"}})
		pre("Preload(Kids).Preload(Kids.Toys)", "toys", none, func(db *gorm.DB) *gorm.DB { return db.Preload("Kids").Preload("Kids.Toys") }, shSlice)
		pre("Preload(Kids,cond).Preload(Kids.Toys)", "cond+toys", shSlice, func(db *gorm.DB) *gorm.DB {
			return db.Preload("Kids", "tag = ?", "x").Preload("Kids.Toys")
		}, shSlice, shStruct)
		pre("Preload(Kids.Toys,cond)", "toys-tcond", shPtrSlice, func(db *gorm.DB) *gorm.DB { return db.Preload("Kids.Toys", "tag = ?", "x") }, shPtrSlice, shDup)
		pre("Preload(Kids.Toys,scope)", "toys-tcond", none, func(db *gorm.DB) *gorm.DB { return db.Preload("Kids.Toys", tagX) }, shSlice)
		pre("Preload(Kids.Associations)", "toys", none, func(db *gorm.DB) *gorm.DB { return db.Preload("Kids." + clause.Associations) }, shSlice)
		pre("Preload(clause.Associations)", "", none, func(db *gorm.DB) *gorm.DB { return db.Preload(clause.Associations) }, shSlice, shStruct)
		pre("Preload(Kids)", "", none, func(db *gorm.DB) *gorm.DB { return db.Preload("Kids") }, shPtrSlice)
		nest.assoc(gp, "Kids", "assoc", nil, none, shStruct, shSlice)
		nest.assoc(gp, "Kids", "assoc-cond", condArgs, none, shSlice)
		// child side: joined belongs-to with a preload below the joined relation
		nest.preload(nk, "Joins(GP).Preload(GP.Kids)", func(db *gorm.DB) *gorm.DB { return db.Joins("GP").Preload("GP.Kids") },
			[]Exp{{"GP", "kids"}}, shSlice, shSlice, shPtrSlice, shStruct)
		nest.preload(nk, "Preload(GP.Kids).Preload(Toys)", func(db *gorm.DB) *gorm.DB { return db.Preload("GP.Kids").Preload("Toys") },
			[]Exp{{"GP", "kids"}, {"Toys", ""}}, none, shSlice)
		nest.preload(nk, "Preload(clause.Associations)", func(db *gorm.DB) *gorm.DB { return db.Preload(clause.Associations) },
			[]Exp{{"GP", ""}, {"Toys", ""}}, none, shSlice)
	}
	families = []*Family{str, intf, css, csi, poly, self, m2m, xm2m, nest, ref, refpoly, refm2m}
	for _, f := range families {
		famByName[f.Name] = f
	}
}

// ---------------------------------------------------------------------------
// enumeration

type K = []*string // one key tuple

func tuples1(a []string) []K {
	var out []K
	for _, x := range a {
		out = append(out, K{sp(x)})
	}
	return out
}
func tuples2(a, b []string) []K {
	var out []K
	for _, x := range a {
		for _, y := range b {
			out = append(out, K{sp(x), sp(y)})
		}
	}
	return out
}

// ordered selections of p distinct tuples
func ordered(u []K, p int) [][]K {
	if p == 0 {
		return [][]K{{}}
	}
	var out [][]K
	var recur func(cur []K, used []bool)
	recur = func(cur []K, used []bool) {
		if len(cur) == p {
			out = append(out, append([]K{}, cur...))
			return
		}
		for i := range u {
			if !used[i] {
				used[i] = true
				recur(append(cur, u[i]), used)
				used[i] = false
			}
		}
	}
	recur(nil, make([]bool, len(u)))
	return out
}

func kk(parts ...string) K {
	var k K
	for _, p := range parts {
		if p == "\x00" {
			k = append(k, nil)
		} else {
			k = append(k, sp(p))
		}
	}
	return k
}

// Part is one stated sub-space: a family, its key lists, graph sizes, and the
// checks that are run on every graph of it.
type Part struct {
	Name     string
	Fam      *Family
	KeyLists [][]K
	MinC     int
	MaxC     int
	MaxT     int  // nested: toys
	DelMode  int  // 0: nothing deleted; 1: nothing or one child; 2: nothing, one child or one parent
	Half     bool // composite: child options (NULL,k2) and (k1,NULL)
	Identity bool // only the assignment child i -> parent i (further children -> NULL)
	CoreOnly bool
	Fault    int // cursor faults on every graph of the part: 0 none, 1 for the core checks, 2 for all checks
}

func nullKey(n int) K { return make(K, n) }

// childOptions: the foreign-key values a child can take given the parents.
type opt struct {
	key K
	typ *string
}

func (p *Part) childOptions(L []K) []opt {
	var dog, cat *string
	if p.Fam.Poly {
		dog, cat = sp("dog"), sp("cat")
	}
	n := 1
	if len(L) > 0 {
		n = len(L[0])
	} else if p.Fam.Name == "css" || p.Fam.Name == "csi" {
		n = 2
	}
	out := []opt{{nullKey(n), dog}}
	for _, l := range L {
		out = append(out, opt{l, dog})
	}
	if p.Fam.Poly {
		for _, l := range L {
			out = append(out, opt{l, cat})
		}
	}
	if p.Half {
		for _, l := range L {
			out = append(out, opt{K{nil, l[1]}, nil}, opt{K{l[0], nil}, nil})
		}
	}
	return out
}

// each calls yield for every graph of the part.
func (p *Part) each(yield func(*Graph) bool) {
	for _, kl := range p.KeyLists {
		switch p.Fam.Name {
		case "self":
			if !p.eachSelf(kl, yield) {
				return
			}
		case "m2m", "xm2m", "refm2m":
			if !p.eachM2M(kl, yield) {
				return
			}
		case "nest":
			if !p.eachNest(kl, yield) {
				return
			}
		default:
			if !p.eachBip(kl, yield) {
				return
			}
		}
	}
}

func assignments(n, options int, f func([]int) bool) bool {
	cur := make([]int, n)
	for {
		if !f(cur) {
			return false
		}
		i := n - 1
		for i >= 0 {
			cur[i]++
			if cur[i] < options {
				break
			}
			cur[i] = 0
			i--
		}
		if i < 0 {
			return true
		}
	}
}

func (p *Part) eachBip(kl []K, yield func(*Graph) bool) bool {
	opts := p.childOptions(kl)
	for c := p.MinC; c <= p.MaxC; c++ {
		ok := assignments(c, len(opts), func(as []int) bool {
			if p.Identity {
				for j, a := range as {
					if (j < len(kl) && a != j+1) || (j >= len(kl) && a != 0) {
						return true
					}
				}
			}
			dels := [][2]int{{-1, -1}}
			if p.DelMode >= 1 {
				for j := 0; j < c; j++ {
					dels = append(dels, [2]int{-1, j})
				}
			}
			if p.DelMode >= 2 {
				for i := range kl {
					dels = append(dels, [2]int{i, -1})
				}
			}
			for _, d := range dels {
				g := &Graph{Family: p.Fam.Name}
				for i, k := range kl {
					g.L = append(g.L, Row{Seq: i + 1, Key: k, Del: d[0] == i})
				}
				for j := 0; j < c; j++ {
					o := opts[as[j]]
					g.R = append(g.R, Row{Seq: j + 1, Key: o.key, Type: o.typ, Del: d[1] == j})
				}
				if !yield(g) {
					return false
				}
			}
			return true
		})
		if !ok {
			return false
		}
	}
	return true
}

func (p *Part) eachSelf(kl []K, yield func(*Graph) bool) bool {
	n := len(kl)
	opts := append([]K{nullKey(1)}, kl...)
	return assignments(n, len(opts), func(as []int) bool {
		dels := []int{-1}
		if p.DelMode >= 1 {
			for i := 0; i < n; i++ {
				dels = append(dels, i)
			}
		}
		for _, d := range dels {
			g := &Graph{Family: "self"}
			for i, k := range kl {
				g.L = append(g.L, Row{Seq: i + 1, Key: k, Del: d == i})
				g.R = append(g.R, Row{Seq: i + 1, Key: opts[as[i]], Del: d == i})
			}
			if !yield(g) {
				return false
			}
		}
		return true
	})
}

// rightPKs: primary keys for the rows of the far side that overlap the near
// side's keys in reversed order (never the empty string: an all-zero key is
// outside the property).
func rightPKs(kl []K, n int) []string {
	var out []string
	seen := map[string]bool{"": true}
	push := func(s string) {
		if !seen[s] && len(out) < n {
			seen[s] = true
			out = append(out, s)
		}
	}
	for i := len(kl) - 1; i >= 0; i-- {
		for j := len(kl[i]) - 1; j >= 0; j-- {
			if kl[i][j] != nil {
				push(*kl[i][j])
			}
		}
	}
	for _, a := range alpha {
		push(a)
	}
	return out
}

func (p *Part) eachM2M(kl []K, yield func(*Graph) bool) bool {
	for c := p.MinC; c <= p.MaxC; c++ {
		pks := rightPKs(kl, c)
		cells := len(kl) * c
		for mask := 0; mask < 1<<uint(cells); mask++ {
			dels := []int{-1}
			if p.DelMode >= 1 {
				for j := 0; j < c; j++ {
					dels = append(dels, j)
				}
			}
			for _, d := range dels {
				g := &Graph{Family: p.Fam.Name}
				for i, k := range kl {
					g.L = append(g.L, Row{Seq: i + 1, Key: k})
				}
				for j := 0; j < c; j++ {
					g.R = append(g.R, Row{Seq: j + 1, PK: pks[j], Del: d == j})
				}
				for b := 0; b < cells; b++ {
					if mask&(1<<uint(b)) != 0 {
						g.Links = append(g.Links, [2]int{b / c, b % c})
					}
				}
				if !yield(g) {
					return false
				}
			}
		}
	}
	return true
}

func (p *Part) eachNest(kl []K, yield func(*Graph) bool) bool {
	gpOpts := append([]K{nullKey(1)}, kl...)
	for c := p.MinC; c <= p.MaxC; c++ {
		pks := rightPKs(kl, c)
		kidOpts := []K{nullKey(1)}
		for _, pk := range pks {
			kidOpts = append(kidOpts, K{sp(pk)})
		}
		for t := 0; t <= p.MaxT; t++ {
			if c == 0 && t > 0 {
				continue
			}
			ok := assignments(c, len(gpOpts), func(ka []int) bool {
				return assignments(t, len(kidOpts), func(ta []int) bool {
					dels := [][2]int{{-1, -1}}
					if p.DelMode >= 1 {
						for j := 0; j < c; j++ {
							dels = append(dels, [2]int{j, -1})
						}
						for j := 0; j < t; j++ {
							dels = append(dels, [2]int{-1, j})
						}
					}
					for _, d := range dels {
						g := &Graph{Family: "nest"}
						for i, k := range kl {
							g.L = append(g.L, Row{Seq: i + 1, Key: k})
						}
						for j := 0; j < c; j++ {
							g.R = append(g.R, Row{Seq: j + 1, PK: pks[j], Key: gpOpts[ka[j]], Del: d[0] == j})
						}
						for j := 0; j < t; j++ {
							g.T = append(g.T, Row{Seq: j + 1, Key: kidOpts[ta[j]], Del: d[1] == j})
						}
						if !yield(g) {
							return false
						}
					}
					return true
				})
			})
			if !ok {
				return false
			}
		}
	}
	return true
}

// fixed key lists for the structural parts
func lists(ls ...[]K) [][]K { return ls }

var (
	single12 = lists(
		[]K{kk("a")}, []K{kk("nil")}, []K{kk("")},
		[]K{kk("a"), kk("b")}, []K{kk("nil"), kk("a_b")}, []K{kk("a_"), kk("_")}, []K{kk(""), kk("a")},
		[]K{kk("a"), kk("a ")}, []K{kk(" a"), kk("a")}, // keys that differ only in surrounding whitespace
	)
	single3 = lists(
		[]K{kk("a"), kk("b"), kk("c")}, []K{kk("nil"), kk("a_b"), kk("a")}, []K{kk("_"), kk(""), kk("a_")},
	)
	int12 = lists([]K{kk("1")}, []K{kk("0")}, []K{kk("1"), kk("2")}, []K{kk("0"), kk("3")}, []K{kk("2"), kk("1")})
	int3  = lists([]K{kk("1"), kk("2"), kk("3")}, []K{kk("3"), kk("0"), kk("1")})
	css12 = lists(
		[]K{kk("a", "b")}, []K{kk("", "a")}, []K{kk("nil", "nil")},
		[]K{kk("a_b", "c"), kk("a", "b_c")}, []K{kk("a", "b_c"), kk("a_b", "c")},
		[]K{kk("a", "b"), kk("b", "a")}, []K{kk("a", "b"), kk("a", "c")}, []K{kk("a", "c"), kk("b", "c")},
		[]K{kk("nil", "a"), kk("a", "nil")}, []K{kk("a", "_"), kk("a_", "")}, []K{kk("", "a"), kk("a", "")},
		[]K{kk("a", "b"), kk("a ", "b")},
	)
	css3 = lists(
		[]K{kk("a_b", "c"), kk("a", "b_c"), kk("a", "b")}, []K{kk("a", "b"), kk("b", "a"), kk("a", "a")},
		[]K{kk("nil", "a"), kk("a", "b"), kk("a", "c")}, []K{kk("_", ""), kk("a", "b"), kk("", "_")},
	)
	csi12 = lists(
		[]K{kk("a", "1")}, []K{kk("a", "0")}, []K{kk("", "1")},
		[]K{kk("a", "1"), kk("a", "2")}, []K{kk("a", "1"), kk("b", "1")}, []K{kk("a", "0"), kk("nil", "1")},
		[]K{kk("a_1", "2"), kk("a", "1")}, []K{kk("nil", "0"), kk("a", "0")},
	)
	csi3 = lists(
		[]K{kk("a", "1"), kk("a", "2"), kk("b", "1")}, []K{kk("a", "0"), kk("a", "1"), kk("nil", "0")},
	)
)

// codes of the "ref" families: the owner ids are 1, 2, 3 (= seq), so the codes
// "1", "2", "3" are the text of ANOTHER owner's id
var refAlpha = []string{"1", "2", "3", "a_b", "nil", "a"}
var (
	ref12 = lists([]K{kk("2"), kk("1")}, []K{kk("2"), kk("a_b")}, []K{kk("nil"), kk("1")}, []K{kk("1")}, []K{kk("3")})
	ref3  = lists([]K{kk("2"), kk("a_b"), kk("1")}, []K{kk("3"), kk("1"), kk("2")}, []K{kk("nil"), kk("3"), kk("a")})
)

func coreOf(f *Family) []*Check {
	var out []*Check
	for _, c := range f.Checks {
		if c.Core {
			out = append(out, c)
		}
	}
	return out
}

func parts(tier string) []*Part {
	f := famByName
	u1 := tuples1(alpha)
	uI := tuples1(alphaInt)
	u2 := tuples2(alpha, alpha)
	uSI := tuples2(alpha, alphaInt)
	thorough := tier == "thorough"
	var ps []*Part
	add := func(p *Part) { ps = append(ps, p) }
	cat := func(a ...[][]K) [][]K {
		var out [][]K
		for _, x := range a {
			out = append(out, x...)
		}
		return out
	}
	if !thorough {
		// K parts: the full key alphabet on small graphs with the core checks;
		// S parts: fixed key lists on every graph of the size, all checks.
		add(&Part{Name: "str/K", Fam: f["str"], KeyLists: cat(ordered(u1, 1), ordered(u1, 2)), MaxC: 2, DelMode: 1, CoreOnly: true})
		add(&Part{Name: "str/S", Fam: f["str"], KeyLists: single12, MaxC: 3, DelMode: 2})
		add(&Part{Name: "int/K", Fam: f["int"], KeyLists: cat(ordered(uI, 1), ordered(uI, 2)), MaxC: 2, DelMode: 1, CoreOnly: true})
		add(&Part{Name: "int/S", Fam: f["int"], KeyLists: int12, MaxC: 3, DelMode: 2})
		add(&Part{Name: "css/K", Fam: f["css"], KeyLists: cat(ordered(u2, 1), ordered(u2, 2)), MinC: 2, MaxC: 2, DelMode: 0, CoreOnly: true})
		add(&Part{Name: "css/S", Fam: f["css"], KeyLists: css12, MaxC: 2, DelMode: 2, Half: true})
		add(&Part{Name: "csi/K", Fam: f["csi"], KeyLists: cat(ordered(uSI, 1), ordered(uSI, 2)), MinC: 1, MaxC: 2, DelMode: 0, CoreOnly: true})
		add(&Part{Name: "csi/S", Fam: f["csi"], KeyLists: csi12, MaxC: 2, DelMode: 2, Half: true})
		add(&Part{Name: "poly/K", Fam: f["poly"], KeyLists: cat(ordered(u1, 1), ordered(u1, 2)), MaxC: 2, DelMode: 1, CoreOnly: true})
		add(&Part{Name: "poly/S", Fam: f["poly"], KeyLists: single12, MaxC: 3, DelMode: 2})
		add(&Part{Name: "self/K", Fam: f["self"], KeyLists: cat(ordered(u1, 1), ordered(u1, 2)), DelMode: 1, CoreOnly: true})
		add(&Part{Name: "self/S", Fam: f["self"], KeyLists: cat(single12[3:5], single3), DelMode: 1, Fault: 1})
		add(&Part{Name: "m2m/K", Fam: f["m2m"], KeyLists: cat(ordered(u1, 1), ordered(u1, 2)), MaxC: 2, DelMode: 1, CoreOnly: true})
		add(&Part{Name: "m2m/S", Fam: f["m2m"], KeyLists: single12, MaxC: 3, DelMode: 1})
		add(&Part{Name: "xm2m/K", Fam: f["xm2m"], KeyLists: cat(ordered(u2, 1), ordered(u2, 2)), MinC: 1, MaxC: 1, DelMode: 0, CoreOnly: true})
		add(&Part{Name: "xm2m/S", Fam: f["xm2m"], KeyLists: css12, MaxC: 3, DelMode: 1})
		// three parents (fixed key lists): needed for anything that involves a
		// parent and two different later parents
		add(&Part{Name: "str/S3", Fam: f["str"], KeyLists: single3, MaxC: 3, DelMode: 1, Fault: 1})
		add(&Part{Name: "css/S3", Fam: f["css"], KeyLists: css3, MaxC: 2, DelMode: 1, Fault: 1})
		add(&Part{Name: "m2m/S3", Fam: f["m2m"], KeyLists: single3, MinC: 2, MaxC: 2, DelMode: 1, Fault: 1})
		add(&Part{Name: "xm2m/S3", Fam: f["xm2m"], KeyLists: css3, MinC: 2, MaxC: 2, DelMode: 1, Fault: 1})
		// referenced key = non-primary column whose values look like other owners' ids
		uR := tuples1(refAlpha)
		add(&Part{Name: "ref/K", Fam: f["ref"], KeyLists: cat(ordered(uR, 1), ordered(uR, 2)), MaxC: 2, DelMode: 1, CoreOnly: true})
		add(&Part{Name: "ref/S", Fam: f["ref"], KeyLists: cat(ref12[:2], ref3[:2]), MaxC: 2, DelMode: 2})
		add(&Part{Name: "refpoly/K", Fam: f["refpoly"], KeyLists: cat(ordered(uR, 1), ordered(uR, 2)), MaxC: 2, DelMode: 1, CoreOnly: true})
		add(&Part{Name: "refpoly/S", Fam: f["refpoly"], KeyLists: cat(ref12[:2], ref3[:1]), MaxC: 2, DelMode: 1})
		add(&Part{Name: "refm2m/K", Fam: f["refm2m"], KeyLists: cat(ordered(uR, 1), ordered(uR, 2)), MinC: 1, MaxC: 2, DelMode: 0, CoreOnly: true})
		add(&Part{Name: "refm2m/S", Fam: f["refm2m"], KeyLists: cat(ref12[:2], ref3[:1]), MinC: 1, MaxC: 2, DelMode: 1})
		// F parts: small graphs on which cursor faults are explored for every check of the family
		add(&Part{Name: "str/F", Fam: f["str"], KeyLists: single12[3:4], MaxC: 2, DelMode: 2, Fault: 2})
		add(&Part{Name: "int/F", Fam: f["int"], KeyLists: int12[2:3], MinC: 1, MaxC: 2, DelMode: 1, Fault: 1})
		add(&Part{Name: "csi/F", Fam: f["csi"], KeyLists: csi12[3:4], MinC: 1, MaxC: 2, DelMode: 1, Fault: 1})
		add(&Part{Name: "poly/F", Fam: f["poly"], KeyLists: single12[3:4], MinC: 1, MaxC: 2, DelMode: 1, Fault: 2})
		add(&Part{Name: "nest/F", Fam: f["nest"], KeyLists: single12[3:4], MinC: 1, MaxC: 2, MaxT: 2, DelMode: 1, Fault: 2})
		add(&Part{Name: "nest/K", Fam: f["nest"], KeyLists: cat(ordered(u1, 1), ordered(u1, 2)), MinC: 1, MaxC: 2, MaxT: 2, DelMode: 0, CoreOnly: true})
		add(&Part{Name: "nest/S", Fam: f["nest"], KeyLists: single12[3:5], MaxC: 3, MaxT: 2, DelMode: 1})
		return ps
	}
	add(&Part{Name: "str/K", Fam: f["str"], KeyLists: cat(ordered(u1, 1), ordered(u1, 2)), MaxC: 3, DelMode: 2})
	add(&Part{Name: "str/K3", Fam: f["str"], KeyLists: ordered(u1, 3), MaxC: 3, DelMode: 1, CoreOnly: true})
	add(&Part{Name: "str/S", Fam: f["str"], KeyLists: single3, MaxC: 3, DelMode: 2, Fault: 1})
	add(&Part{Name: "int/K", Fam: f["int"], KeyLists: cat(ordered(uI, 1), ordered(uI, 2), ordered(uI, 3)), MaxC: 3, DelMode: 2})
	add(&Part{Name: "css/K", Fam: f["css"], KeyLists: cat(ordered(u2, 1), ordered(u2, 2)), MinC: 1, MaxC: 3, DelMode: 1, CoreOnly: true})
	add(&Part{Name: "css/K3", Fam: f["css"], KeyLists: ordered(u2, 3), MinC: 3, MaxC: 3, DelMode: 0, Identity: true, CoreOnly: true})
	add(&Part{Name: "css/S", Fam: f["css"], KeyLists: cat(css12, css3), MaxC: 3, DelMode: 2, Half: true})
	add(&Part{Name: "csi/K", Fam: f["csi"], KeyLists: cat(ordered(uSI, 1), ordered(uSI, 2)), MinC: 1, MaxC: 3, DelMode: 1, CoreOnly: true})
	add(&Part{Name: "csi/S", Fam: f["csi"], KeyLists: cat(csi12, csi3), MaxC: 3, DelMode: 2, Half: true})
	add(&Part{Name: "poly/K", Fam: f["poly"], KeyLists: cat(ordered(u1, 1), ordered(u1, 2)), MaxC: 3, DelMode: 1, CoreOnly: true})
	add(&Part{Name: "poly/S", Fam: f["poly"], KeyLists: cat(single12, single3), MaxC: 3, DelMode: 2, Fault: 1})
	add(&Part{Name: "self/K", Fam: f["self"], KeyLists: cat(ordered(u1, 1), ordered(u1, 2)), DelMode: 1})
	add(&Part{Name: "self/K3", Fam: f["self"], KeyLists: ordered(u1, 3), DelMode: 1, CoreOnly: true})
	add(&Part{Name: "self/S", Fam: f["self"], KeyLists: single3, DelMode: 1, Fault: 2})
	add(&Part{Name: "m2m/K", Fam: f["m2m"], KeyLists: cat(ordered(u1, 1), ordered(u1, 2)), MaxC: 3, DelMode: 1, CoreOnly: true})
	add(&Part{Name: "m2m/S", Fam: f["m2m"], KeyLists: cat(single12, single3), MaxC: 3, DelMode: 1, Fault: 1})
	add(&Part{Name: "xm2m/K", Fam: f["xm2m"], KeyLists: cat(ordered(u2, 1), ordered(u2, 2)), MinC: 1, MaxC: 2, DelMode: 1, CoreOnly: true})
	add(&Part{Name: "xm2m/S", Fam: f["xm2m"], KeyLists: cat(css12, css3), MaxC: 3, DelMode: 1, Fault: 1})
	uR := tuples1(refAlpha)
	add(&Part{Name: "ref/K", Fam: f["ref"], KeyLists: cat(ordered(uR, 1), ordered(uR, 2), ordered(uR, 3)), MaxC: 3, DelMode: 1, CoreOnly: true})
	add(&Part{Name: "ref/S", Fam: f["ref"], KeyLists: cat(ref12, ref3), MaxC: 3, DelMode: 2, Fault: 1})
	add(&Part{Name: "refpoly/K", Fam: f["refpoly"], KeyLists: cat(ordered(uR, 1), ordered(uR, 2), ordered(uR, 3)), MaxC: 2, DelMode: 1, CoreOnly: true})
	add(&Part{Name: "refpoly/S", Fam: f["refpoly"], KeyLists: cat(ref12, ref3), MaxC: 3, DelMode: 2, Fault: 1})
	add(&Part{Name: "refm2m/K", Fam: f["refm2m"], KeyLists: cat(ordered(uR, 1), ordered(uR, 2), ordered(uR, 3)), MinC: 1, MaxC: 2, DelMode: 1, CoreOnly: true})
	add(&Part{Name: "refm2m/S", Fam: f["refm2m"], KeyLists: cat(ref12, ref3), MaxC: 3, DelMode: 1, Fault: 1})
	add(&Part{Name: "str/F", Fam: f["str"], KeyLists: cat(single12[3:5], single3[:1]), MaxC: 2, DelMode: 2, Fault: 2})
	add(&Part{Name: "int/F", Fam: f["int"], KeyLists: int12, MaxC: 2, DelMode: 2, Fault: 2})
	add(&Part{Name: "css/F", Fam: f["css"], KeyLists: css12[3:8], MinC: 1, MaxC: 2, DelMode: 1, Fault: 2})
	add(&Part{Name: "csi/F", Fam: f["csi"], KeyLists: csi12[3:6], MinC: 1, MaxC: 2, DelMode: 1, Fault: 2})
	add(&Part{Name: "poly/F", Fam: f["poly"], KeyLists: cat(single12[3:5], single3[:1]), MinC: 1, MaxC: 2, DelMode: 1, Fault: 2})
	add(&Part{Name: "m2m/F", Fam: f["m2m"], KeyLists: single3[:1], MinC: 2, MaxC: 2, DelMode: 1, Fault: 2})
	add(&Part{Name: "xm2m/F", Fam: f["xm2m"], KeyLists: css3[:1], MinC: 2, MaxC: 2, DelMode: 1, Fault: 2})
	add(&Part{Name: "nest/F", Fam: f["nest"], KeyLists: single12[3:5], MinC: 1, MaxC: 2, MaxT: 2, DelMode: 1, Fault: 2})
	add(&Part{Name: "nest/K", Fam: f["nest"], KeyLists: cat(ordered(u1, 1), ordered(u1, 2)), MinC: 1, MaxC: 2, MaxT: 3, DelMode: 1, CoreOnly: true})
	add(&Part{Name: "nest/S", Fam: f["nest"], KeyLists: cat(single12[3:5], single3[:1]), MaxC: 3, MaxT: 3, DelMode: 1})
	return ps
}

// ---------------------------------------------------------------------------
// driver

// Case is the replay format: one graph and one check.
type Case struct {
	Graph    *Graph      `json:"graph"`
	Check    string      `json:"check"`
	Fault    *FaultPoint `json:"cursor_fault,omitempty"`
	Readable string      `json:"readable,omitempty"`
}

type job struct {
	part   *Part
	g      *Graph
	checks []*Check
}

type stats struct {
	graphs, evals                             int64
	nvCross, nvCollide, nvDupShape, nvSoftDel int64
}

func hashOf(s string) string {
	hsh := fnv.New64a()
	hsh.Write([]byte(s))
	return string(hsh.Sum(nil))
}

func loadGraph(e *h.Env, f *Family, g *Graph) {
	for _, t := range f.Tables {
		e.MustExec("DELETE FROM " + t)
	}
	f.Insert(e, g)
}

// crossRevealing: at least two live parents with different keys that both
// have rows of their own (only such graphs can reveal cross-attachment).
func crossRevealing(f *Family, g *Graph) bool {
	for _, d := range f.Dirs {
		keys := map[string]bool{}
		for _, l := range liveLefts(d.Lefts(g)) {
			if l.Zero {
				continue
			}
			mode := ""
			if f.Name == "nest" && d.Name == "GP" {
				mode = "toys"
			}
			for _, rel := range d.Rels {
				if len(d.Want(g, l.Seq, rel, mode)) > 0 {
					keys[keyStr(l.Key)] = true
					break
				}
			}
		}
		if len(keys) >= 2 {
			return true
		}
	}
	return false
}

func tagsOf(c *Check, g *Graph) []string {
	return inputTags(c.Dir, g)
}

func report(run *mc.Run, c *Check, g *Graph, res Result) {
	kinds := map[string]bool{}
	var lines []string
	for _, p := range res.Problems {
		kinds[p.Kind] = true
		lines = append(lines, "  "+p.Kind+": "+p.Text)
	}
	var ks []string
	for k := range kinds {
		ks = append(ks, k)
	}
	sort.Strings(ks)
	msg := fmt.Sprintf("%s\ncheck: %s\ngraph: %s\n%s\nobserved: %s", strings.Join(ks, " + "), c.Name, g.String(), strings.Join(lines, "\n"), strings.Join(res.Obs, " "))
	run.Violation(tagsOf(c, g), msg, Case{Graph: g, Check: c.Name, Readable: g.String()})
}

func reportFault(run *mc.Run, c *Check, g *Graph, fp FaultPoint, kind string, res Result) {
	var lines []string
	for _, p := range res.Problems {
		lines = append(lines, "  "+p.Kind+": "+p.Text)
	}
	msg := fmt.Sprintf("%s\ncheck: %s\ngraph: %s\ncursor fault: the result set of recorded event #%d fails before row %d\n%s\nobserved: %s",
		kind, c.Name, g.String(), fp.Query, fp.Row, strings.Join(lines, "\n"), strings.Join(res.Obs, " "))
	f := fp
	run.Violation(tagsOf(c, g), msg, Case{Graph: g, Check: c.Name, Fault: &f, Readable: g.String()})
}

func main() {
	args := mc.ParseArgs()
	run := mc.NewRun("C11", args.Tier, "exploration")

	if args.Replay != "" {
		var c Case
		if err := mc.LoadReplay(args.Replay, &c); err != nil {
			fmt.Fprintln(os.Stderr, err)
			os.Exit(3)
		}
		thoroughTier = true // the thorough check list contains the quick one
		e := openEnv(true)
		buildFamilies(e)
		f := famByName[c.Graph.Family]
		if f == nil || f.byName[c.Check] == nil {
			fmt.Fprintf(os.Stderr, "unknown family/check %q %q\n", c.Graph.Family, c.Check)
			os.Exit(3)
		}
		ck := f.byName[c.Check]
		e.Quiet(func() { loadGraph(e, f, c.Graph) })
		for _, t := range f.Tables {
			fmt.Printf("## %s\n  %s\n", t, strings.Join(e.DumpTable(t), "\n  "))
		}
		e.Rec.Reset()
		if c.Fault != nil {
			fmt.Printf("check: %s\ngraph: %s\ninput tags: %v\ncursor fault: the result set of recorded event #%d fails before row %d\n", ck.Name, c.Graph.String(), tagsOf(ck, c.Graph), c.Fault.Query, c.Fault.Row)
			e.Rec.Pause()
			base := runRecorded(e, ck, c.Graph, nil)
			fr := runRecorded(e, ck, c.Graph, c.Fault)
			fmt.Printf("fault reached: %v\nobserved: %s\n", fr.fired, strings.Join(fr.res.Obs, " "))
			for _, p := range fr.res.Problems {
				fmt.Printf("  %s: %s\n", p.Kind, p.Text)
			}
			bad := false
			if fr.leak != "" {
				fmt.Printf("VIOLATES: driver resources left open: %s\n", fr.leak)
				bad = true
			}
			if s := fr.res.silent(); !subsetProblems(s, base.res.silent()) {
				fmt.Println("VIOLATES: a call returned Error == nil although its result disagrees with the reference join (cursor fault swallowed)")
				bad = true
			}
			if bad {
				os.Exit(1)
			}
			fmt.Println("verdict: every call reported an error or agrees with the reference join; nothing left open")
			return
		}
		res := ck.Run(e, c.Graph)
		fmt.Printf("check: %s\ngraph: %s\ninput tags: %v\nstatements:\n", ck.Name, c.Graph.String(), tagsOf(ck, c.Graph))
		for _, ev := range e.Rec.Events() {
			if ev.IsStatement() {
				fmt.Printf("  %s\n", ev.String())
			}
		}
		fmt.Printf("observed: %s\n", strings.Join(res.Obs, " "))
		if len(res.Problems) == 0 {
			fmt.Println("verdict: agrees with the reference join")
			return
		}
		for _, p := range res.Problems {
			fmt.Printf("VIOLATES: %s: %s\n", p.Kind, p.Text)
		}
		os.Exit(1)
	}

	deadline := time.Now().Add(240 * time.Second)
	if args.Tier == "thorough" {
		deadline = time.Now().Add(9 * time.Minute)
	}
	if s, err := strconv.Atoi(os.Getenv("C11_DEADLINE_S")); err == nil && s > 0 {
		deadline = time.Now().Add(time.Duration(s) * time.Second)
	}

	thoroughTier = args.Tier == "thorough"
	boot := openEnv(false)
	buildFamilies(boot)
	ps := parts(args.Tier)
	filtered := false
	if only := os.Getenv("C11_PARTS"); only != "" { // development aid: run some parts only
		var keep []*Part
		for _, p := range ps {
			for _, o := range strings.Split(only, ",") {
				if p.Name == o {
					keep = append(keep, p)
				}
			}
		}
		ps, filtered = keep, true
	}

	if os.Getenv("C11_COUNT") != "" { // development aid: size of the enumeration, nothing executed
		var tg, te int64
		for _, p := range ps {
			n := int64(0)
			p.each(func(*Graph) bool { n++; return true })
			nc := len(p.Fam.Checks)
			if p.CoreOnly {
				nc = len(coreOf(p.Fam))
			}
			fmt.Printf("%-8s graphs=%8d checks=%3d evaluations=%9d\n", p.Name, n, nc, n*int64(nc))
			tg += n
			te += n * int64(nc)
		}
		fmt.Printf("total graphs=%d evaluations=%d\n", tg, te)
		return
	}

	st := &stats{}
	fst := &faultStats{}
	distinct := &mc.Set{}
	outcomes := &mc.Set{}
	samples := &mc.Samples{N: 40}
	sampled := &mc.Set{}
	perPart := map[string]*[2]int64{}
	for _, p := range ps {
		perPart[p.Name] = &[2]int64{}
	}
	var timedOut int32

	// one generator goroutine per part, merged round-robin so that a run cut
	// short by the deadline still covers every family
	jobs := make(chan job, 256)
	var stop int32
	partCh := make([]chan job, len(ps))
	for i, p := range ps {
		partCh[i] = make(chan job, 32)
		go func(p *Part, out chan job) {
			defer close(out)
			checks := p.Fam.Checks
			if p.CoreOnly {
				checks = coreOf(p.Fam)
			}
			p.each(func(g *Graph) bool {
				if atomic.LoadInt32(&stop) != 0 {
					return false
				}
				out <- job{p, g, checks}
				return true
			})
		}(p, partCh[i])
	}
	go func() {
		defer close(jobs)
		open := len(partCh)
		done := make([]bool, len(partCh))
		n := 0
		for open > 0 {
			for i, ch := range partCh {
				if done[i] {
					continue
				}
				j, ok := <-ch
				if !ok {
					done[i] = true
					open--
					continue
				}
				n++
				if n%64 == 0 && time.Now().After(deadline) {
					atomic.StoreInt32(&timedOut, 1)
					atomic.StoreInt32(&stop, 1)
					for k, c := range partCh { // let the generators run out
						if !done[k] {
							for range c {
							}
						}
					}
					return
				}
				jobs <- j
			}
		}
	}()

	var wg sync.WaitGroup
	for i := 0; i < 16; i++ {
		wg.Add(1)
		go func(i int) {
			defer wg.Done()
			e := boot
			if i > 0 {
				e = openEnv(false)
			}
			for j := range jobs {
				f := j.part.Fam
				loadGraph(e, f, j.g)
				atomic.AddInt64(&st.graphs, 1)
				atomic.AddInt64(&perPart[j.part.Name][0], 1)
				cross := crossRevealing(f, j.g)
				collide := false
				for _, d := range f.Dirs {
					if len(collisionTags(d, j.g)) > 0 {
						collide = true
					}
				}
				if cross {
					atomic.AddInt64(&st.nvCross, 1)
				}
				if collide {
					atomic.AddInt64(&st.nvCollide, 1)
				}
				if cross || collide {
					distinct.Add(hashOf(j.g.JSON()))
					// samples: the first non-trivial graph of every part, and its first colliding one
					if (cross && sampled.Add(j.part.Name+"/cross")) || (collide && sampled.Add(j.part.Name+"/collide")) {
						samples.Add(j.g.String() + " :: e.g. " + j.checks[0].Name)
					}
				}
				for _, r := range append(append([]Row{}, j.g.R...), j.g.T...) {
					if r.Del {
						atomic.AddInt64(&st.nvSoftDel, 1)
						break
					}
				}
				for _, c := range j.checks {
					res := c.Run(e, j.g)
					atomic.AddInt64(&st.evals, 1)
					atomic.AddInt64(&perPart[j.part.Name][1], 1)
					if c.Shape == shDup || c.Shape == shDupPtr {
						atomic.AddInt64(&st.nvDupShape, 1)
					}
					outcomes.Add(hashOf(strings.Join(res.Obs, " ")))
					if len(res.Problems) > 0 {
						report(run, c, j.g, res)
					}
				}
				if j.part.Fault > 0 {
					fchecks := f.Checks
					if j.part.Fault == 1 {
						fchecks = coreOf(f)
					}
					for _, c := range fchecks {
						c := c
						exploreFaults(e, c, j.g, fst, func(fp FaultPoint, kind string, res Result) {
							reportFault(run, c, j.g, fp, kind, res)
						})
					}
				}
			}
		}(i)
	}
	wg.Wait()

	exhaustive := atomic.LoadInt32(&timedOut) == 0 && !filtered
	if run.NumViolations() == 0 {
		if st.nvCross < 1000 {
			run.HarnessError("vacuous: only %d graphs with two differently-keyed parents that both own rows", st.nvCross)
		}
		if st.nvCollide < 10 {
			run.HarnessError("vacuous: only %d graphs with colliding joined keys", st.nvCollide)
		}
	}
	if run.NumViolations() == 0 {
		if fst.truncatingError < 500 {
			run.HarnessError("vacuous: only %d cursor faults that cut a result set short were reported as an error", fst.truncatingError)
		}
		if fst.notReached*10 > fst.points {
			run.HarnessError("cursor faults: %d of %d fault points were not reached in the faulted run", fst.notReached, fst.points)
		}
	}
	partCounts := map[string]interface{}{}
	var rule []string
	for _, p := range ps {
		partCounts[p.Name] = map[string]int64{"graphs": perPart[p.Name][0], "evaluations": perPart[p.Name][1]}
		nchecks := len(p.Fam.Checks)
		if p.CoreOnly {
			nchecks = len(coreOf(p.Fam))
		}
		rule = append(rule, fmt.Sprintf("%s: %d parent key lists, %d..%d children, del-mode %d, half-null %v, %d checks, fault=%d", p.Name, len(p.KeyLists), p.MinC, p.MaxC, p.DelMode, p.Half, nchecks, p.Fault))
	}
	nchecks := 0
	for _, f := range families {
		nchecks += len(f.Checks)
	}
	run.Assume("SQLite dialect; rows are inserted with raw SQL, the write path is not exercised")
	run.Assume("a record whose relation key tuple consists only of zero values (\"\" or 0 in a value field, NULL in a pointer field) is skipped: gorm treats an all-zero key as 'no key' (preload does not query it, a SQL join does) — such records are enumerated but their relation fields are not compared")
	run.Assume("many-to-many far-side rows and nested middle rows never have the empty string as primary key, for the same reason")
	run.Assume("has-one with several eligible rows: any one of them is accepted (the property does not say which); association Joins is compared as a LEFT JOIN row set")
	run.Assume("the plain (no eager loading) read of the parents used for Association().Find is trusted")
	run.Assume("cursor faults: one fault per execution; the fault is an error returned by the driver's Rows.Next before a given row (recsqlite RowFault); parts marked fault=1 explore the core checks, fault=2 all checks of the family, other parts none")
	run.Finish(map[string]interface{}{
		"evaluations":                             st.evals,
		"distinct_nontrivial":                     distinct.Len(),
		"rule":                                    "every data graph of the parts listed (K parts: every ordered list of distinct parent key tuples over the key alphabet " + fmt.Sprint(alpha) + " (ints " + fmt.Sprint(alphaInt) + "), every child -> parent-or-NULL assignment, soft-delete choice per del-mode (0 none, 1 none or one child, 2 none, one child or one parent) x the core loader/shape checks; S parts: fixed key lists x every graph of the size x all loader/shape checks of the family; composite S parts also enumerate half-NULL foreign keys); non-trivial = a graph in which two live parents with different keys both own rows, or whose parent key tuples collide after joining with '_' (distinct by graph hash). Parts: " + strings.Join(rule, "; "),
		"samples":                                 samples.List(),
		"exhaustive":                              exhaustive,
		"graphs":                                  st.graphs,
		"checks_defined":                          nchecks,
		"nv_graphs_two_keyed_parents_with_rows":   st.nvCross,
		"nv_graphs_with_colliding_joined_keys":    st.nvCollide,
		"graphs_with_soft_deleted_child":          st.nvSoftDel,
		"evaluations_with_duplicate_parents":      st.nvDupShape,
		"distinct_observed_outcomes":              outcomes.Len(),
		"cursor_fault_operations":                 fst.ops,
		"cursor_fault_queries":                    fst.queries,
		"cursor_fault_points":                     fst.points,
		"cursor_fault_points_not_reached":         fst.notReached,
		"cursor_faults_ended_in_error":            fst.endedError,
		"cursor_faults_ended_complete":            fst.endedComplete,
		"cursor_faults_truncating":                fst.truncating,
		"cursor_faults_truncating_ended_in_error": fst.truncatingError,
		"cursor_faults_truncating_ended_complete": fst.truncatingComplete,
		"parts": partCounts,
	})
}
