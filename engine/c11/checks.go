package main

// Loaders x result shapes, executed on the real gorm code, and the comparison
// of what was attached with the reference join.

import (
	"fmt"
	"reflect"
	"regexp"
	"sort"
	"strings"

	"gorm.io/gorm"
	"gorm.io/gorm/clause"

	"verif/h"
)

const (
	kPreload = iota
	kJoins
	kAssoc
)

const (
	shStruct    = iota // Take into a single struct, once per parent
	shPrefilled        // the same, destination struct already holds junk in its relation fields
	shSlice            // Find into []T
	shPtrSlice         // Find into []*T
	shDup              // Find into []T through a cross join that returns every parent twice
	shDupPtr           // Association mode only: []*T that contains the same pointer twice
	shMult             // Find into []T through a join that returns parent #i Mult[i-1] times (1 beyond the vector)
	shMultPtr          // the same into []*T
)

var shapeName = []string{"struct", "struct-prefilled", "[]T", "[]*T", "[]T-with-duplicates", "[]*T-same-pointer-twice", "[]T-multiplicity", "[]*T-multiplicity"}

// Exp says that relation Rel is loaded by the check, under mode Mode.
type Exp struct{ Rel, Mode string }

type Check struct {
	Name  string
	Dir   *Dir
	Kind  int
	Shape int
	Core  bool
	Mult  []int // shMult: how often parent #1, #2, ... occurs in the result slice
	Apply func(db *gorm.DB) *gorm.DB
	Exp   []Exp
	// association mode
	Rel   string
	Mode  string
	Conds []interface{}
}

func tagX(db *gorm.DB) *gorm.DB { return db.Where("tag = ?", "x") }

// Problem is one disagreement with the reference join.
type Problem struct {
	Kind string
	Text string
}

type Result struct {
	Problems []Problem
	Obs      []string // readable observation
}

var hexAddr = regexp.MustCompile(`0x[0-9a-f]{6,}`)

func (r *Result) add(kind, format string, a ...interface{}) {
	// pointer addresses inside gorm's error texts differ from run to run
	r.Problems = append(r.Problems, Problem{kind, hexAddr.ReplaceAllString(fmt.Sprintf(format, a...), "0x…")})
}

func diffKind(want, got []string) string {
	w := map[string]int{}
	for _, x := range want {
		w[x]++
	}
	missing, foreign := false, false
	gm := map[string]int{}
	for _, x := range got {
		gm[x]++
	}
	for x, n := range w {
		if gm[x] < n {
			missing = true
		}
	}
	for x, n := range gm {
		if w[x] < n {
			foreign = true
		}
	}
	switch {
	case missing && foreign:
		return "own rows missing and other rows attached"
	case missing:
		return "own rows missing"
	case foreign:
		return "rows attached that are not the record's own"
	}
	return ""
}

func newDest(typ reflect.Type, shape int) reflect.Value {
	switch shape {
	case shStruct, shPrefilled:
		return reflect.New(typ)
	case shPtrSlice, shDupPtr, shMultPtr:
		return reflect.New(reflect.SliceOf(reflect.PtrTo(typ)))
	default:
		return reflect.New(reflect.SliceOf(typ))
	}
}

func recsOf(dest reflect.Value) []rec {
	v := dest.Elem()
	if v.Kind() == reflect.Struct {
		return []rec{dest.Interface().(rec)}
	}
	var out []rec
	for i := 0; i < v.Len(); i++ {
		e := v.Index(i)
		if e.Kind() == reflect.Ptr {
			if e.IsNil() {
				out = append(out, nil)
				continue
			}
			out = append(out, e.Interface().(rec))
		} else {
			out = append(out, e.Addr().Interface().(rec))
		}
	}
	return out
}

func find(ls []Left, seq int) *Left {
	for i := range ls {
		if ls[i].Seq == seq {
			return &ls[i]
		}
	}
	return nil
}

// compareRec checks the relation fields of one loaded record.
func (c *Check) compareRec(g *Graph, r rec, res *Result) {
	seq := r.LSeq()
	ls := c.Dir.Lefts(g)
	l := find(ls, seq)
	rels := r.Rels()
	res.Obs = append(res.Obs, fmt.Sprintf("#%d%v", seq, relsStr(rels, c.Dir.Rels)))
	if l == nil || l.Del {
		res.add("unexpected parent row", "record #%d is not a live row of %s", seq, c.Dir.Table)
		return
	}
	if l.Zero && c.Shape == shPrefilled {
		return // an all-zero key is "no key": the preload does nothing, not even clearing
	}
	for _, rel := range c.Dir.Rels {
		obs := rels[rel]
		var exp *Exp
		for i := range c.Exp {
			if c.Exp[i].Rel == rel {
				exp = &c.Exp[i]
			}
		}
		if exp == nil {
			if c.Shape != shPrefilled && len(obs) > 0 {
				res.add("relation filled although it was not requested", "#%d.%s = %v", seq, rel, obs)
			}
			continue
		}
		want := c.Dir.Want(g, seq, rel, exp.Mode)
		if l.Zero && len(want) > 0 {
			// gorm convention: an all-zero key is "no key" (a preload skips it, a
			// SQL join matches it) — don't care. When the reference join is empty
			// as well (NULL keys, no row with the zero key) both readings agree
			// and the relation must be empty.
			continue
		}
		if c.Dir.One[rel] {
			switch {
			case len(want) == 0 && len(obs) > 0:
				res.add("rows attached that are not the record's own", "#%d.%s = %v, reference join: none", seq, rel, obs)
			case len(want) > 0 && len(obs) == 0:
				res.add("own rows missing", "#%d.%s is empty, reference join: one of %v", seq, rel, want)
			case len(want) > 0 && !contains(want, obs[0]):
				res.add("rows attached that are not the record's own", "#%d.%s = %v, reference join: one of %v", seq, rel, obs, want)
			}
			continue
		}
		if k := diffKind(want, obs); k != "" {
			res.add(k, "#%d.%s = %v, reference join: %v", seq, rel, obs, want)
		}
	}
}

func contains(xs []string, x string) bool {
	for _, y := range xs {
		if y == x {
			return true
		}
	}
	return false
}

func relsStr(m map[string][]string, rels []string) string {
	var ps []string
	for _, r := range rels {
		ps = append(ps, fmt.Sprintf("%s=%v", r, m[r]))
	}
	return "{" + strings.Join(ps, " ") + "}"
}

func liveLefts(ls []Left) []Left {
	var out []Left
	for _, l := range ls {
		if !l.Del {
			out = append(out, l)
		}
	}
	return out
}

// Run executes the check on the graph that is currently in the database.
func (c *Check) Run(e *h.Env, g *Graph) (res Result) {
	defer func() {
		if r := recover(); r != nil {
			res.add("panic", "%v", r)
		}
	}()
	db := e.DB
	ls := c.Dir.Lefts(g)
	live := liveLefts(ls)
	switch c.Kind {
	case kPreload, kJoins:
		switch c.Shape {
		case shStruct, shPrefilled:
			for _, l := range live {
				dest := newDest(c.Dir.Typ, c.Shape)
				if c.Shape == shPrefilled {
					dest.Interface().(rec).Prefill()
				}
				err := c.Apply(db).Where(c.Dir.Table+".seq = ?", l.Seq).Take(dest.Interface()).Error
				if err != nil {
					res.add("error", "Take(#%d): %v", l.Seq, err)
					continue
				}
				if c.Kind == kJoins {
					c.compareJoinRows(g, l, recsOf(dest), true, &res)
				} else {
					c.compareRec(g, recsOf(dest)[0], &res)
				}
			}
		default:
			dest := newDest(c.Dir.Typ, c.Shape)
			tx := c.Apply(db)
			multOf := func(seq int) int { return 1 }
			switch c.Shape {
			case shDup:
				tx = tx.Joins("JOIN c11_dup")
				multOf = func(int) int { return 2 }
			case shMult, shMultPtr:
				multOf = func(seq int) int {
					if seq >= 1 && seq <= len(c.Mult) {
						return c.Mult[seq-1]
					}
					return 1
				}
				e.MustExec("DELETE FROM c11_mult")
				for _, l := range live {
					for n := 1; n <= multOf(l.Seq); n++ {
						e.MustExec("INSERT INTO c11_mult (pseq,n) VALUES (?,?)", l.Seq, n)
					}
				}
				tx = tx.Joins("JOIN c11_mult ON c11_mult.pseq = " + c.Dir.Table + ".seq")
			}
			if err := tx.Find(dest.Interface()).Error; err != nil {
				res.add("error", "Find: %v", err)
				return
			}
			rs := recsOf(dest)
			bySeq := map[int][]rec{}
			for _, r := range rs {
				if r == nil {
					res.add("nil element in result", "")
					continue
				}
				bySeq[r.LSeq()] = append(bySeq[r.LSeq()], r)
			}
			if c.Kind == kJoins {
				for _, l := range live {
					c.compareJoinRows(g, l, bySeq[l.Seq], false, &res)
					delete(bySeq, l.Seq)
				}
				for s := range bySeq {
					res.add("unexpected parent row", "record #%d", s)
				}
				return
			}
			for _, l := range live {
				if len(bySeq[l.Seq]) != multOf(l.Seq) {
					res.add("parent rows differ", "#%d returned %d times, expected %d", l.Seq, len(bySeq[l.Seq]), multOf(l.Seq))
				}
			}
			for _, r := range rs {
				if r != nil {
					c.compareRec(g, r, &res)
				}
			}
		}
	case kAssoc:
		// parents are read with a plain query (trusted: no eager loading involved)
		all := newDest(c.Dir.Typ, shPtrSlice)
		var rerr error
		e.Quiet(func() { rerr = db.Order("seq").Find(all.Interface()).Error }) // not part of the operation under test: no recording, no faults
		if rerr != nil {
			res.add("error", "reading parents: %v", rerr)
			return
		}
		ptrs := all.Elem()
		if ptrs.Len() != len(live) {
			res.add("parent rows differ", "%d parents read, %d live", ptrs.Len(), len(live))
			return
		}
		runOne := func(model interface{}, members []Left, label string) {
			usable := false
			for _, m := range members {
				usable = usable || !m.Zero
			}
			if !usable {
				// no parent with a key: nothing can be attached; what gorm does with
				// an empty key list (composite keys: SQL error "IN(...) element has
				// 1 term") is outside the property
				return
			}
			out := reflect.New(reflect.SliceOf(c.Dir.Target[c.Rel]))
			as := db.Model(model).Association(c.Rel)
			if as.Error != nil {
				res.add("error", "Association(%s): %v", c.Rel, as.Error)
				return
			}
			if err := as.Find(out.Interface(), c.Conds...); err != nil {
				res.add("error", "Association(%s).Find: %v", c.Rel, err)
				return
			}
			var got []string
			for i := 0; i < out.Elem().Len(); i++ {
				got = append(got, out.Elem().Index(i).Addr().Interface().(rid).RID())
			}
			sort.Strings(got)
			// reference: union over the members with a usable key; rows that only
			// belong to all-zero-key members are "don't care"
			// (a many-to-many association query is a join: a far-side row linked to
			// two of the parents is returned once per link — multiset union)
			must, may := map[string]int{}, map[string]bool{}
			for _, m := range members {
				for _, id := range c.Dir.Want(g, m.Seq, c.Rel, c.Mode) {
					switch {
					case m.Zero:
						may[id] = true
					case c.Dir.PerLink:
						must[id]++
					default:
						must[id] = 1
					}
				}
			}
			var want, cmp []string
			for id, n := range must {
				for i := 0; i < n; i++ {
					want = append(want, id)
				}
			}
			sort.Strings(want)
			for _, id := range got {
				if must[id] > 0 || !may[id] {
					cmp = append(cmp, id)
				}
			}
			res.Obs = append(res.Obs, fmt.Sprintf("%s -> %v", label, got))
			if k := diffKind(want, cmp); k != "" {
				res.add(k, "%s.Association(%s).Find = %v, reference join: %v", label, c.Rel, got, want)
			}
		}
		switch c.Shape {
		case shStruct:
			for i, l := range live {
				runOne(ptrs.Index(i).Interface(), []Left{l}, fmt.Sprintf("#%d", l.Seq))
			}
		case shSlice:
			vals := reflect.New(reflect.SliceOf(c.Dir.Typ))
			for i := 0; i < ptrs.Len(); i++ {
				vals.Elem().Set(reflect.Append(vals.Elem(), ptrs.Index(i).Elem()))
			}
			runOne(vals.Interface(), live, "[]T(all)")
		case shDupPtr:
			dup := reflect.New(ptrs.Type())
			for i := 0; i < ptrs.Len(); i++ {
				dup.Elem().Set(reflect.Append(dup.Elem(), ptrs.Index(i)))
			}
			if ptrs.Len() > 0 {
				dup.Elem().Set(reflect.Append(dup.Elem(), ptrs.Index(0)))
			}
			runOne(dup.Interface(), live, "[]*T(all+first again)")
		}
	}
	return
}

// compareJoinRows: an association Joins is a LEFT JOIN — a parent with n
// eligible rows appears n times (once with an empty relation when n = 0).
func (c *Check) compareJoinRows(g *Graph, l Left, rows []rec, single bool, res *Result) {
	rel := c.Exp[0].Rel
	want := c.Dir.Want(g, l.Seq, rel, c.Exp[0].Mode)
	var got []string
	for _, r := range rows {
		rels := r.Rels()
		res.Obs = append(res.Obs, fmt.Sprintf("#%d%v", r.LSeq(), relsStr(rels, c.Dir.Rels)))
		if o := rels[rel]; len(o) > 0 {
			got = append(got, o[0])
		} else {
			got = append(got, "none")
		}
	}
	if l.Zero && len(want) > 0 {
		return
	}
	sort.Strings(got)
	if single {
		// Take: one row of the join
		switch {
		case len(got) != 1:
			res.add("parent rows differ", "#%d: %d rows", l.Seq, len(got))
		case len(want) == 0 && got[0] != "none":
			res.add("rows attached that are not the record's own", "#%d.%s = %v, reference join: none", l.Seq, rel, got)
		case len(want) > 0 && got[0] == "none":
			res.add("own rows missing", "#%d.%s empty, reference join: one of %v", l.Seq, rel, want)
		case len(want) > 0 && !contains(want, got[0]):
			res.add("rows attached that are not the record's own", "#%d.%s = %v, reference join: one of %v", l.Seq, rel, got, want)
		}
		return
	}
	w := want
	if len(w) == 0 {
		w = []string{"none"}
	}
	if k := diffKind(w, got); k != "" {
		res.add(k, "#%d joined %s rows = %v, reference join: %v", l.Seq, rel, got, w)
	}
}

// ---------------------------------------------------------------------------
// check lists

func (f *Family) add(c *Check) {
	c.Name = fmt.Sprintf("%s/%s/%s", c.Dir.Name, c.Name, shapeName[c.Shape])
	if len(c.Mult) > 0 {
		c.Name += "-" + strings.ReplaceAll(strings.Trim(fmt.Sprint(c.Mult), "[]"), " ", "-")
	}
	if f.byName == nil {
		f.byName = map[string]*Check{}
	}
	if f.byName[c.Name] != nil {
		panic("duplicate check " + c.Name)
	}
	f.byName[c.Name] = c
	f.Checks = append(f.Checks, c)
}

func (f *Family) preload(d *Dir, name string, apply func(*gorm.DB) *gorm.DB, exp []Exp, core int, shapes ...int) {
	for _, s := range shapes {
		f.add(&Check{Name: name, Dir: d, Kind: kPreload, Shape: s, Apply: apply, Exp: exp, Core: s == core})
	}
}
func (f *Family) joins(d *Dir, name string, apply func(*gorm.DB) *gorm.DB, exp Exp, core int, shapes ...int) {
	for _, s := range shapes {
		f.add(&Check{Name: name, Dir: d, Kind: kJoins, Shape: s, Apply: apply, Exp: []Exp{exp}, Core: s == core})
	}
}
func (f *Family) assoc(d *Dir, rel, mode string, conds []interface{}, core int, shapes ...int) {
	name := "Association(" + rel + ").Find"
	if len(conds) > 0 {
		name += "(cond)"
	}
	for _, s := range shapes {
		f.add(&Check{Name: name, Dir: d, Kind: kAssoc, Shape: s, Rel: rel, Mode: mode, Conds: conds, Core: s == core})
	}
}

// multVectors: how often each of up to three parents occurs in the result
// slice: every vector over {1,3,5} except all-ones (thorough), every vector over
// {1,3} except all-ones plus a single 5 at each position (quick). Occurrence
// counts 3 and 5 leave spare capacity in the per-key parent lists (cap 4, 8).
func multVectors(thorough bool) [][]int {
	var out [][]int
	vals := []int{1, 3}
	if thorough {
		vals = []int{1, 3, 5}
	}
	for _, a := range vals {
		for _, b := range vals {
			for _, c := range vals {
				if a*b*c != 1 {
					out = append(out, []int{a, b, c})
				}
			}
		}
	}
	if !thorough {
		out = append(out, []int{5, 1, 1}, []int{1, 5, 1}, []int{1, 1, 5})
	}
	return out
}

var thoroughTier bool

// multChecks: a Preload on result slices with multiplied parents.
func (f *Family) multChecks(d *Dir, name string, apply func(*gorm.DB) *gorm.DB, exp []Exp) {
	for _, v := range multVectors(thoroughTier) {
		sh := shMult
		if ((v[0]+3*v[1]+5*v[2])/2)%2 == 1 { // about half of the vectors go into []*T
			sh = shMultPtr
		}
		f.add(&Check{Name: name, Dir: d, Kind: kPreload, Shape: sh, Mult: v, Apply: apply, Exp: exp})
	}
}

var condArgs = []interface{}{"tag = ?", "x"}

func allExp(d *Dir, mode string) []Exp {
	var out []Exp
	for _, r := range d.Rels {
		out = append(out, Exp{r, mode})
	}
	return out
}

const none = -1

// stdChecks builds the loader x shape matrix for a direction with a
// multi-valued relation `many`, a single-valued `one` (either may be "").
func (f *Family) stdChecks(d *Dir, many, one string, joinable bool) {
	P := func(names ...interface{}) func(*gorm.DB) *gorm.DB { // P("Kids") or P("Kids", cond...)
		return func(db *gorm.DB) *gorm.DB { return db.Preload(names[0].(string), names[1:]...) }
	}
	assocCore := shSlice
	if many == "" {
		assocCore = none // the single relation is covered by Preload(one)
	}
	f.preload(d, "Preload(clause.Associations)", P(clause.Associations), allExp(d, ""), assocCore,
		shStruct, shPrefilled, shSlice, shPtrSlice, shDup)
	f.preload(d, "Preload(clause.Associations,cond)", P(clause.Associations, "tag = ?", "x"), allExp(d, "cond"), none,
		shSlice, shStruct)
	if many != "" {
		f.preload(d, "Preload("+many+")", P(many), []Exp{{many, ""}}, shPtrSlice, shStruct, shSlice, shPtrSlice)
		f.preload(d, "Preload("+many+",cond)", P(many, "tag = ?", "x"), []Exp{{many, "cond"}}, none, shSlice, shPrefilled)
		f.preload(d, "Preload("+many+",scope)", P(many, tagX), []Exp{{many, "cond"}}, none, shPtrSlice, shDup)
		f.assoc(d, many, "", nil, shSlice, shStruct, shSlice, shDupPtr)
		f.assoc(d, many, "cond", condArgs, none, shStruct, shSlice)
		f.multChecks(d, "Preload("+many+")", P(many), []Exp{{many, ""}})
	}
	if one != "" {
		f.preload(d, "Preload("+one+")", P(one), []Exp{{one, ""}}, shStruct, shStruct, shSlice, shPtrSlice, shDup, shPrefilled)
		f.preload(d, "Preload("+one+",cond)", P(one, "tag = ?", "x"), []Exp{{one, "cond"}}, none, shSlice, shStruct)
		f.preload(d, "Preload("+one+",scope)", P(one, tagX), []Exp{{one, "cond"}}, none, shPtrSlice)
		if joinable {
			J := func(db *gorm.DB) *gorm.DB { return db.Joins(one) }
			JC := func(db *gorm.DB) *gorm.DB {
				// struct condition on the target model (the documented form): &Target{Tag: "x"}
				cond := reflect.New(d.Target[one])
				cond.Elem().FieldByName("Tag").SetString("x")
				return db.Joins(one, db.Session(&gorm.Session{NewDB: true}).Where(cond.Interface()))
			}
			f.joins(d, "Joins("+one+")", J, Exp{one, ""}, shSlice, shStruct, shSlice, shPtrSlice)
			f.joins(d, "Joins("+one+",cond)", JC, Exp{one, "cond"}, none, shSlice)
		}
		oneAssocCore := none
		if many == "" {
			oneAssocCore = shStruct
		}
		f.assoc(d, one, "", nil, oneAssocCore, shStruct, shSlice, shDupPtr)
		if many == "" {
			f.multChecks(d, "Preload("+one+")", P(one), []Exp{{one, ""}})
		}
		f.assoc(d, one, "cond", condArgs, none, shStruct)
	}
	if many != "" && one != "" {
		// a reusable handle that already carries a Preload, and two statements
		// derived from it: each must load what IT asked for
		f.preload(d, "handle=Preload("+one+").Session;q1=handle.Preload("+many+",cond);q2=handle.Preload("+many+");run-q1", func(db *gorm.DB) *gorm.DB {
			handle := db.Preload(one).Session(&gorm.Session{})
			q1 := handle.Preload(many, "tag = ?", "x")
			_ = handle.Preload(many)
			return q1
		}, []Exp{{one, ""}, {many, "cond"}}, none, shSlice, shStruct)
		f.preload(d, "handle=Preload("+one+").Session;q=handle.Preload("+many+");run-handle", func(db *gorm.DB) *gorm.DB {
			handle := db.Preload(one).Session(&gorm.Session{})
			_ = handle.Preload(many)
			return handle
		}, []Exp{{one, ""}}, none, shSlice)
		f.preload(d, "Preload("+one+").Preload("+many+",cond)", func(db *gorm.DB) *gorm.DB {
			return db.Preload(one).Preload(many, "tag = ?", "x")
		}, []Exp{{one, ""}, {many, "cond"}}, none, shDup, shPrefilled)
	}
}
