package main

// Data graphs, raw-SQL insertion and the reference join (the oracle).

import (
	"encoding/json"
	"fmt"
	"reflect"
	"sort"
	"strconv"
	"strings"

	"verif/h"
)

const delTS = "2019-01-01 00:00:00+00:00"

// alpha is the key alphabet of the DESIGN section plus "c" (without it the
// canonical pair ("a_b","c") / ("a","b_c") cannot be formed).
var alpha = []string{"a", "b", "c", "a_b", "b_c", "a_", "_", "nil", ""}
var alphaInt = []string{"0", "1", "2", "3"}

func sp(s string) *string { return &s }

// Row is one table row as far as the relation is concerned.
type Row struct {
	Seq  int       `json:"seq"`
	Key  []*string `json:"key"`            // left rows: the referenced key tuple; right rows: the foreign key tuple (null = NULL)
	PK   string    `json:"pk,omitempty"`   // own primary key of a right row that has a string key of its own (m2m rights, nested kids)
	Type *string   `json:"type,omitempty"` // polymorphic owner type
	Del  bool      `json:"del,omitempty"`  // soft-deleted
}

// Graph is one data graph (also the replay format).
type Graph struct {
	Family string   `json:"family"`
	L      []Row    `json:"left"`
	R      []Row    `json:"right"`
	T      []Row    `json:"toys,omitempty"`  // nested family: grandchildren, Key = fk to R[].PK
	Links  [][2]int `json:"links,omitempty"` // many-to-many: (index into L, index into R)
}

func (g *Graph) JSON() string {
	b, _ := json.Marshal(g)
	return string(b)
}

func keyStr(k []*string) string {
	var ps []string
	for _, c := range k {
		if c == nil {
			ps = append(ps, "NULL")
		} else {
			ps = append(ps, strconv.Quote(*c))
		}
	}
	return "(" + strings.Join(ps, ",") + ")"
}

func (g *Graph) String() string {
	var sb strings.Builder
	sb.WriteString(g.Family + ": left[")
	for i, r := range g.L {
		if i > 0 {
			sb.WriteString(" ")
		}
		fmt.Fprintf(&sb, "#%d%s", r.Seq, keyStr(r.Key))
		if r.Del {
			sb.WriteString("†")
		}
	}
	sb.WriteString("] right[")
	for i, r := range g.R {
		if i > 0 {
			sb.WriteString(" ")
		}
		fmt.Fprintf(&sb, "#%d", r.Seq)
		if r.PK != "" || g.Family == "m2m" || g.Family == "xm2m" || g.Family == "refm2m" || g.Family == "nest" {
			fmt.Fprintf(&sb, "pk=%q", r.PK)
		}
		if r.Key != nil {
			sb.WriteString("fk=" + keyStr(r.Key))
		}
		if r.Type != nil {
			sb.WriteString("type=" + *r.Type)
		}
		if r.Del {
			sb.WriteString("†")
		}
	}
	sb.WriteString("]")
	if len(g.T) > 0 {
		sb.WriteString(" toys[")
		for i, r := range g.T {
			if i > 0 {
				sb.WriteString(" ")
			}
			fmt.Fprintf(&sb, "#%dfk=%s", r.Seq, keyStr(r.Key))
			if r.Del {
				sb.WriteString("†")
			}
		}
		sb.WriteString("]")
	}
	if len(g.Links) > 0 {
		fmt.Fprintf(&sb, " links%v", g.Links)
	}
	return sb.String()
}

func tagOf(seq int) string {
	if seq%2 == 1 {
		return "x"
	}
	return "y"
}

// eq is SQL equality of key tuples: NULL equals nothing.
func eq(a, b []*string) bool {
	if len(a) != len(b) || len(a) == 0 {
		return false
	}
	for i := range a {
		if a[i] == nil || b[i] == nil || *a[i] != *b[i] {
			return false
		}
	}
	return true
}

func sameTuple(a, b []*string) bool {
	if len(a) != len(b) {
		return false
	}
	for i := range a {
		if (a[i] == nil) != (b[i] == nil) {
			return false
		}
		if a[i] != nil && *a[i] != *b[i] {
			return false
		}
	}
	return true
}

// Left describes one record of the side that is being loaded.
type Left struct {
	Seq  int
	Del  bool
	Zero bool // every component of its relation key is a zero value (gorm: "no key")
	Key  []*string
}

// Dir is one loading direction of a family: which model is loaded and what
// the reference join says about each of its relations.
type Dir struct {
	Name    string
	Fam     *Family
	Typ     reflect.Type
	Table   string
	IntAt   map[int]bool // key components that are integers
	Lefts   func(g *Graph) []Left
	Rels    []string                                                 // all relation fields the model reports
	One     map[string]bool                                          // single-valued relations
	PerLink bool                                                     // many-to-many: Association().Find over several parents returns one row per link
	Target  map[string]reflect.Type                                  // relation -> target model
	Want    func(g *Graph, seq int, rel, mode string) (ids []string) // reference join: eligible rows
}

// Family is a group of tables with its models, graph insertion and directions.
type Family struct {
	Name   string
	Poly   bool // polymorphic: child rows carry an owner type ("dog" = ours, "cat" = another owner type)
	M2M    bool
	Tables []string
	Insert func(e *h.Env, g *Graph)
	Dirs   []*Dir
	Checks []*Check
	byName map[string]*Check
}

func zeroComp(c *string, isInt bool) bool {
	return c == nil || *c == "" || (isInt && *c == "0")
}

func zeroKey(k []*string, intAt map[int]bool) bool {
	for i, c := range k {
		if !zeroComp(c, intAt[i]) {
			return false
		}
	}
	return true
}

// allNull: zero-ness of a key held in pointer fields (foreign keys): a
// pointer to "" or 0 is not a zero value for gorm, only NULL is.
func allNull(k []*string) bool {
	for _, c := range k {
		if c != nil {
			return false
		}
	}
	return true
}

func arg(c *string, isInt bool) interface{} {
	if c == nil {
		return nil
	}
	if isInt {
		n, _ := strconv.Atoi(*c)
		return n
	}
	return *c
}

func delArg(d bool) interface{} {
	if d {
		return delTS
	}
	return nil
}

func condOK(mode string, seq int) bool {
	if strings.Contains(mode, "cond") {
		return tagOf(seq) == "x"
	}
	return true
}

// --- bipartite families ------------------------------------------------------

type bipCfg struct {
	name           string
	lt, rt         string   // tables
	lk, rk         []string // key columns
	intAt          map[int]bool
	lTyp, rTyp     reflect.Type
	many, one, bel string // relation names ("" = not present)
	extraOne       []string
	extraMany      []string
	poly           bool
	self           bool
	idFromSeq      bool     // the left table has a numeric primary key `id` besides the referenced key: id = seq
	tables         []string // tables to clear (default: lt, rt)
}

func newBip(c bipCfg) *Family {
	f := &Family{Name: c.name, Poly: c.poly}
	if c.tables != nil {
		f.Tables = c.tables
	} else if c.self {
		f.Tables = []string{c.lt}
	} else {
		f.Tables = []string{c.lt, c.rt}
	}
	f.Insert = func(e *h.Env, g *Graph) {
		if c.self {
			for i, l := range g.L {
				r := g.R[i]
				e.MustExec("INSERT INTO "+c.lt+" (id,seq,parent_id,tag,deleted_at) VALUES (?,?,?,?,?)",
					arg(l.Key[0], false), l.Seq, arg(r.Key[0], false), tagOf(l.Seq), delArg(l.Del))
			}
			return
		}
		for _, l := range g.L {
			cols := append([]string{}, c.lk...)
			args := []interface{}{}
			for i := range c.lk {
				args = append(args, arg(l.Key[i], c.intAt[i]))
			}
			if c.idFromSeq {
				cols = append(cols, "id")
				args = append(args, l.Seq)
			}
			cols = append(cols, "seq", "tag", "deleted_at")
			args = append(args, l.Seq, tagOf(l.Seq), delArg(l.Del))
			e.MustExec("INSERT INTO "+c.lt+" ("+strings.Join(cols, ",")+") VALUES ("+qs(len(cols))+")", args...)
		}
		for _, r := range g.R {
			cols := append([]string{}, c.rk...)
			args := []interface{}{}
			for i := range c.rk {
				args = append(args, arg(r.Key[i], c.intAt[i]))
			}
			if c.poly {
				cols = append(cols, "owner_type")
				args = append(args, arg(r.Type, false))
			}
			cols = append(cols, "seq", "tag", "deleted_at")
			args = append(args, r.Seq, tagOf(r.Seq), delArg(r.Del))
			e.MustExec("INSERT INTO "+c.rt+" ("+strings.Join(cols, ",")+") VALUES ("+qs(len(cols))+")", args...)
		}
	}
	typeOK := func(r Row) bool {
		if !c.poly {
			return true
		}
		return r.Type != nil && *r.Type == "dog"
	}
	// has-one / has-many direction
	has := &Dir{Name: c.lTyp.Name(), Fam: f, Typ: c.lTyp, Table: c.lt, IntAt: c.intAt,
		One: map[string]bool{}, Target: map[string]reflect.Type{}}
	for _, m := range append([]string{c.many}, c.extraMany...) {
		if m != "" {
			has.Rels = append(has.Rels, m)
			has.Target[m] = c.rTyp
		}
	}
	for _, o := range append([]string{c.one}, c.extraOne...) {
		if o != "" {
			has.Rels = append(has.Rels, o)
			has.One[o] = true
			has.Target[o] = c.rTyp
		}
	}
	has.Lefts = func(g *Graph) []Left {
		var out []Left
		for _, l := range g.L {
			out = append(out, Left{Seq: l.Seq, Del: l.Del, Zero: zeroKey(l.Key, c.intAt), Key: l.Key})
		}
		return out
	}
	has.Want = func(g *Graph, seq int, rel, mode string) (ids []string) {
		for _, l := range g.L {
			if l.Seq != seq {
				continue
			}
			for _, r := range g.R {
				if eq(l.Key, r.Key) && typeOK(r) && !r.Del && condOK(mode, r.Seq) {
					ids = append(ids, itoa(r.Seq))
				}
			}
		}
		sort.Strings(ids)
		return
	}
	if c.self {
		// one table: a node is a parent through its id (Children) and a child
		// through its parent_id (Parent). The two relations have different
		// relation keys (and zero-ness), hence two directions over one model.
		has.Rels = []string{c.many}
		// nodeDesc: the related node l (= g.L[i], g.R[i] is the same node) with
		// what mode "n:<Relation>" loads below it
		nodeDesc := func(g *Graph, i int, mode string) string {
			s := itoa(g.L[i].Seq)
			if !strings.HasPrefix(mode, "n:") {
				return s
			}
			switch y := mode[2:]; y {
			case c.many:
				var kids []string
				for _, r2 := range g.R {
					// (a related node whose own id is the zero value has "no key":
					// the preload below it is skipped)
					if !zeroKey(g.L[i].Key, c.intAt) && eq(g.L[i].Key, r2.Key) && !r2.Del {
						kids = append(kids, itoa(r2.Seq))
					}
				}
				sort.Strings(kids)
				if len(kids) > 0 {
					s += "<" + strings.Join(kids, " ") + ">"
				}
			default: // Parent / Boss
				for _, l2 := range g.L {
					if eq(l2.Key, g.R[i].Key) && !l2.Del {
						s += "^" + y[:1] + "(" + itoa(l2.Seq) + ")"
					}
				}
			}
			return s
		}
		belWant := func(g *Graph, seq int, rel, mode string) (ids []string) {
			for _, r := range g.R {
				if r.Seq != seq {
					continue
				}
				for i, l := range g.L {
					if eq(l.Key, r.Key) && !l.Del && condOK(mode, l.Seq) {
						ids = append(ids, nodeDesc(g, i, mode))
					}
				}
			}
			sort.Strings(ids)
			return
		}
		bel := &Dir{Name: c.lTyp.Name() + "~bel", Fam: f, Typ: c.lTyp, Table: c.lt, IntAt: c.intAt,
			Rels: []string{c.bel}, One: map[string]bool{c.bel: true}, Target: map[string]reflect.Type{c.bel: c.lTyp}}
		for _, o := range c.extraOne {
			bel.Rels = append(bel.Rels, o)
			bel.One[o] = true
			bel.Target[o] = c.lTyp
		}
		bel.Lefts = func(g *Graph) []Left {
			var out []Left
			for _, r := range g.R {
				out = append(out, Left{Seq: r.Seq, Del: r.Del, Zero: allNull(r.Key), Key: r.Key})
			}
			return out
		}
		bel.Want = belWant
		f.Dirs = []*Dir{has, bel}
		return f
	}
	f.Dirs = []*Dir{has}
	if c.bel != "" {
		bel := &Dir{Name: c.rTyp.Name(), Fam: f, Typ: c.rTyp, Table: c.rt, IntAt: c.intAt,
			Rels: []string{c.bel}, One: map[string]bool{c.bel: true}, Target: map[string]reflect.Type{c.bel: c.lTyp}}
		bel.Lefts = func(g *Graph) []Left {
			var out []Left
			for _, r := range g.R {
				out = append(out, Left{Seq: r.Seq, Del: r.Del, Zero: allNull(r.Key), Key: r.Key})
			}
			return out
		}
		bel.Want = func(g *Graph, seq int, rel, mode string) (ids []string) {
			for _, r := range g.R {
				if r.Seq != seq {
					continue
				}
				for _, l := range g.L {
					if eq(l.Key, r.Key) && !l.Del && condOK(mode, l.Seq) {
						ids = append(ids, itoa(l.Seq))
					}
				}
			}
			sort.Strings(ids)
			return
		}
		f.Dirs = append(f.Dirs, bel)
	}
	return f
}

func qs(n int) string {
	return strings.TrimSuffix(strings.Repeat("?,", n), ",")
}

// --- many-to-many -------------------------------------------------------------

// newM2M: jt = join table, jl = its columns for the left key, jr = its column
// for the right key (read from the parsed schema at start-up).
func newM2M(name, lt string, lk []string, lTyp reflect.Type, jt string, jl []string, jr string, idFromSeq bool) *Family {
	f := &Family{Name: name, M2M: true, Tables: []string{lt, "c11_mr", jt}}
	f.Insert = func(e *h.Env, g *Graph) {
		for _, l := range g.L {
			cols := append([]string{}, lk...)
			args := []interface{}{}
			for i := range lk {
				args = append(args, arg(l.Key[i], false))
			}
			if idFromSeq {
				cols = append(cols, "id")
				args = append(args, l.Seq)
			}
			cols = append(cols, "seq", "tag", "deleted_at")
			args = append(args, l.Seq, tagOf(l.Seq), delArg(l.Del))
			e.MustExec("INSERT INTO "+lt+" ("+strings.Join(cols, ",")+") VALUES ("+qs(len(cols))+")", args...)
		}
		for _, r := range g.R {
			e.MustExec("INSERT INTO c11_mr (id,seq,tag,deleted_at) VALUES (?,?,?,?)", r.PK, r.Seq, tagOf(r.Seq), delArg(r.Del))
		}
		for _, ln := range g.Links {
			cols := append([]string{}, jl...)
			args := []interface{}{}
			for i := range jl {
				args = append(args, arg(g.L[ln[0]].Key[i], false))
			}
			cols = append(cols, jr)
			args = append(args, g.R[ln[1]].PK)
			e.MustExec("INSERT INTO "+jt+" ("+strings.Join(cols, ",")+") VALUES ("+qs(len(cols))+")", args...)
		}
	}
	d := &Dir{Name: lTyp.Name(), Fam: f, Typ: lTyp, Table: lt, Rels: []string{"Rights"}, One: map[string]bool{}, PerLink: true,
		Target: map[string]reflect.Type{"Rights": reflect.TypeOf(MR{})}}
	d.Lefts = func(g *Graph) []Left {
		var out []Left
		for _, l := range g.L {
			out = append(out, Left{Seq: l.Seq, Del: l.Del, Zero: zeroKey(l.Key, nil), Key: l.Key})
		}
		return out
	}
	d.Want = func(g *Graph, seq int, rel, mode string) (ids []string) {
		// reference join by value through the join rows
		seen := map[int]bool{}
		for _, l := range g.L {
			if l.Seq != seq {
				continue
			}
			for _, ln := range g.Links {
				if !eq(g.L[ln[0]].Key, l.Key) {
					continue
				}
				for _, r := range g.R {
					if r.PK == g.R[ln[1]].PK && !r.Del && condOK(mode, r.Seq) && !seen[r.Seq] {
						seen[r.Seq] = true
						ids = append(ids, itoa(r.Seq))
					}
				}
			}
		}
		sort.Strings(ids)
		return
	}
	f.Dirs = []*Dir{d}
	return f
}

// --- nested -------------------------------------------------------------------

func newNest() *Family {
	f := &Family{Name: "nest", Tables: []string{"c11_gp", "c11_nk", "c11_nt"}}
	f.Insert = func(e *h.Env, g *Graph) {
		for _, l := range g.L {
			e.MustExec("INSERT INTO c11_gp (id,seq,tag,deleted_at) VALUES (?,?,?,?)", arg(l.Key[0], false), l.Seq, tagOf(l.Seq), delArg(l.Del))
		}
		for _, r := range g.R {
			e.MustExec("INSERT INTO c11_nk (id,seq,gp_id,tag,deleted_at) VALUES (?,?,?,?,?)", r.PK, r.Seq, arg(r.Key[0], false), tagOf(r.Seq), delArg(r.Del))
		}
		for _, t := range g.T {
			e.MustExec("INSERT INTO c11_nt (seq,k_id,tag,deleted_at) VALUES (?,?,?,?)", t.Seq, arg(t.Key[0], false), tagOf(t.Seq), delArg(t.Del))
		}
	}
	toysOf := func(g *Graph, kid Row, cond bool) []string {
		ts := []string{}
		pk := kid.PK
		for _, t := range g.T {
			if eq([]*string{&pk}, t.Key) && !t.Del && (!cond || tagOf(t.Seq) == "x") {
				ts = append(ts, itoa(t.Seq))
			}
		}
		sort.Strings(ts)
		return ts
	}
	// modes for Kids: "" kids only | "toys" | "cond" | "cond+toys" | "toys-tcond"
	kidsOf := func(g *Graph, gp Row, mode string) (out []string) {
		for _, k := range g.R {
			if !eq(gp.Key, k.Key) || k.Del {
				continue
			}
			if strings.HasPrefix(mode, "cond") && tagOf(k.Seq) != "x" {
				continue
			}
			ts := []string{}
			if strings.Contains(mode, "toys") {
				ts = toysOf(g, k, strings.Contains(mode, "tcond"))
			}
			out = append(out, fmt.Sprintf("%d%v", k.Seq, ts))
		}
		sort.Strings(out)
		return
	}
	gp := &Dir{Name: "GP", Fam: f, Typ: reflect.TypeOf(GP{}), Table: "c11_gp", Rels: []string{"Kids"}, One: map[string]bool{},
		Target: map[string]reflect.Type{"Kids": reflect.TypeOf(NK{})}}
	gp.Lefts = func(g *Graph) []Left {
		var out []Left
		for _, l := range g.L {
			out = append(out, Left{Seq: l.Seq, Del: l.Del, Zero: zeroKey(l.Key, nil), Key: l.Key})
		}
		return out
	}
	gp.Want = func(g *Graph, seq int, rel, mode string) []string {
		for _, l := range g.L {
			if l.Seq == seq {
				if mode == "assoc" || mode == "assoc-cond" { // Association().Find returns plain kid ids
					var ids []string
					for _, k := range g.R {
						if eq(l.Key, k.Key) && !k.Del && (mode == "assoc" || tagOf(k.Seq) == "x") {
							ids = append(ids, itoa(k.Seq))
						}
					}
					sort.Strings(ids)
					return ids
				}
				return kidsOf(g, l, mode)
			}
		}
		return nil
	}
	nk := &Dir{Name: "NK", Fam: f, Typ: reflect.TypeOf(NK{}), Table: "c11_nk", Rels: []string{"Toys", "GP"}, One: map[string]bool{"GP": true},
		Target: map[string]reflect.Type{}}
	nk.Lefts = func(g *Graph) []Left {
		var out []Left
		for _, r := range g.R {
			// skipped when the kid's own id is zero, or when it points at a
			// grandparent whose id is the zero value "" (all-zero key convention
			// one level down: Joins(GP) matches it, Preload(GP.Kids) skips it)
			pk := r.PK
			out = append(out, Left{Seq: r.Seq, Del: r.Del, Zero: zeroKey([]*string{&pk}, nil) || (!allNull(r.Key) && zeroKey(r.Key, nil)), Key: r.Key})
		}
		return out
	}
	nk.Want = func(g *Graph, seq int, rel, mode string) []string {
		for _, k := range g.R {
			if k.Seq != seq {
				continue
			}
			if rel == "Toys" {
				return toysOf(g, k, strings.Contains(mode, "cond"))
			}
			// GP: modes "" (gp only) | "kids" (gp with its kids)
			var out []string
			for _, l := range g.L {
				if eq(l.Key, k.Key) && !l.Del {
					ks := []string{}
					if mode == "kids" {
						ks = kidsOf(g, l, "")
					}
					out = append(out, fmt.Sprintf("%d%v", l.Seq, ks))
				}
			}
			sort.Strings(out)
			return out
		}
		return nil
	}
	f.Dirs = []*Dir{gp, nk}
	return f
}

// --- input-side tags -----------------------------------------------------------

// joinText is the "_"-joined text of a key tuple in which NULL is written
// "nil" (the identity-key format of utils.ToStringKey).
func joinText(k []*string) (text string, hasNull bool) {
	var ps []string
	for _, c := range k {
		if c == nil {
			ps = append(ps, "nil")
			hasNull = true
		} else {
			ps = append(ps, *c)
		}
	}
	return strings.Join(ps, "_"), hasNull
}

const (
	tagCollide = "composite-key-tuples-equal-after-underscore-join"
	tagNullNil = "composite-key-null-vs-text-nil"
	tagZeroInt = "composite-key-integer-zero-value-vs-pointer-field"
)

// collisionTags looks at the relation keys of the records being loaded
// (input only): two DIFFERENT live tuples with the same joined text.
func collisionTags(d *Dir, g *Graph) []string {
	ls := d.Lefts(g)
	set := map[string]bool{}
	for i := 0; i < len(ls); i++ {
		if len(ls[i].Key) < 2 || ls[i].Del || ls[i].Zero {
			continue
		}
		for j := i + 1; j < len(ls); j++ {
			if ls[j].Del || ls[j].Zero || sameTuple(ls[i].Key, ls[j].Key) {
				continue
			}
			ti, ni := joinText(ls[i].Key)
			tj, nj := joinText(ls[j].Key)
			if ti != tj {
				continue
			}
			if ni || nj {
				set[tagNullNil] = true
			} else {
				set[tagCollide] = true
			}
		}
	}
	var out []string
	for t := range set {
		out = append(out, t)
	}
	sort.Strings(out)
	return out
}

// inputTags = collision tags + the integer-zero tag: a composite key with an
// integer 0 component that is referenced by a live row on the other side
// (value field on one side, pointer field on the other).
func inputTags(d *Dir, g *Graph) []string {
	set := map[string]bool{}
	for _, t := range collisionTags(d, g) {
		set[t] = true
	}
	if len(d.IntAt) > 0 {
		for _, l := range g.L {
			for _, r := range g.R {
				if l.Del || r.Del || len(l.Key) < 2 || !eq(l.Key, r.Key) {
					continue
				}
				for i, c := range l.Key {
					if d.IntAt[i] && *c == "0" {
						set[tagZeroInt] = true
					}
				}
			}
		}
	}
	var out []string
	for t := range set {
		out = append(out, t)
	}
	sort.Strings(out)
	return out
}
