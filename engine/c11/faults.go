package main

// Cursor faults (environment deviation, bound 1): for a loading operation,
// every query it issues (identified by its index in the recorded event list
// of the fault-free run) x every row position k in 0..rows(q): the result set
// breaks off with an error before handing out row k (k = rows(q): at the
// end-of-rows call), as a dropped connection or a cancelled context does.
//
// Oracle: every gorm call of the operation either reports a non-nil Error or
// its parents carry exactly their own rows (the reference join, unchanged);
// and nothing is left open on the driver.

import (
	"fmt"
	"sort"
	"sync"
	"sync/atomic"

	"verif/drivers/recsqlite"
	"verif/h"
)

// FaultPoint: the result set of recorded event #Query fails before row #Row.
type FaultPoint struct {
	Query int `json:"query_event"`
	Row   int `json:"row"`
}

type faultRun struct {
	res      Result
	rowsSeen map[int]int // event seq of a query -> highest row position consulted (= rows delivered when iterated to the end)
	fired    bool
	leak     string
}

// runRecorded runs the check with the recorder active and, if fp != nil, one
// cursor fault.
func runRecorded(e *h.Env, c *Check, g *Graph, fp *FaultPoint) (fr faultRun) {
	fr.rowsSeen = map[int]int{}
	var mu sync.Mutex
	e.Rec.Reset()
	e.Rec.RowFault = func(ev *recsqlite.Event, row int) error {
		mu.Lock()
		defer mu.Unlock()
		if old, ok := fr.rowsSeen[ev.Seq]; !ok || row > old {
			fr.rowsSeen[ev.Seq] = row
		}
		if fp != nil && ev.Seq == fp.Query && row == fp.Row {
			fr.fired = true
			return recsqlite.ErrInjected
		}
		return nil
	}
	e.Rec.Resume()
	fr.res = c.Run(e, g)
	fr.leak = e.Leaks()
	if n := atomic.LoadInt32(&e.Rec.OpenRows); n != 0 {
		fr.leak += fmt.Sprintf(" open result sets=%d", n)
	}
	e.Rec.Pause()
	e.Rec.RowFault = nil
	e.Rec.Reset()
	return
}

type faultStats struct {
	ops, points, notReached                         int64
	endedError, endedComplete                       int64
	truncating, truncatingError, truncatingComplete int64
	queries                                         int64
}

func (r *Result) hasError() bool {
	for _, p := range r.Problems {
		if p.Kind == "error" || p.Kind == "panic" {
			return true
		}
	}
	return false
}

// silent: the problems of calls that returned Error == nil.
func (r *Result) silent() []Problem {
	var out []Problem
	for _, p := range r.Problems {
		if p.Kind != "error" {
			out = append(out, p)
		}
	}
	return out
}

// exploreFaults enumerates every fault point of one (graph, check) and calls
// violate for each one that breaks the oracle.
func exploreFaults(e *h.Env, c *Check, g *Graph, fs *faultStats, violate func(fp FaultPoint, kind string, res Result)) {
	base := runRecorded(e, c, g, nil)
	atomic.AddInt64(&fs.ops, 1)
	if base.leak != "" {
		violate(FaultPoint{-1, -1}, "driver resources left open", base.res)
	}
	var qs []int
	for q := range base.rowsSeen {
		qs = append(qs, q)
	}
	sort.Ints(qs)
	atomic.AddInt64(&fs.queries, int64(len(qs)))
	for _, q := range qs {
		for k := 0; k <= base.rowsSeen[q]; k++ {
			fp := FaultPoint{q, k}
			fr := runRecorded(e, c, g, &fp)
			atomic.AddInt64(&fs.points, 1)
			if !fr.fired {
				atomic.AddInt64(&fs.notReached, 1)
				continue
			}
			trunc := k < base.rowsSeen[q]
			if trunc {
				atomic.AddInt64(&fs.truncating, 1)
			}
			if fr.leak != "" {
				violate(fp, "driver resources left open: "+fr.leak, fr.res)
			}
			if fr.res.hasError() {
				atomic.AddInt64(&fs.endedError, 1)
				if trunc {
					atomic.AddInt64(&fs.truncatingError, 1)
				}
			} else {
				atomic.AddInt64(&fs.endedComplete, 1)
				if trunc {
					atomic.AddInt64(&fs.truncatingComplete, 1)
				}
			}
			// calls that returned Error == nil must satisfy the reference join
			// (problems the fault-free run has as well are the graph's own and
			// are reported by the fault-free check)
			if s := fr.res.silent(); !subsetProblems(s, base.res.silent()) {
				violate(fp, "cursor fault swallowed", fr.res)
			}
		}
	}
}

// subsetProblems: every problem of a is one the fault-free run has as well.
func subsetProblems(a, b []Problem) bool {
	have := map[Problem]bool{}
	for _, p := range b {
		have[p] = true
	}
	for _, p := range a {
		if !have[p] {
			return false
		}
	}
	return true
}
