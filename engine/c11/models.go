package main

// The hand-written model family of C11. Every key column has an explicit
// column name; every row carries a harness-owned `seq` (row number, unique per
// table, starting at 1) that identifies it in observations, and a `tag`
// ("x" for odd seq, "y" for even) that conditions filter on.

import (
	"fmt"
	"sort"
	"strconv"
	"strings"

	"gorm.io/gorm"
)

// rec is implemented by every model that is loaded as a "parent" (left side).
type rec interface {
	LSeq() int
	Rels() map[string][]string // relation name -> ids of attached rows (sorted)
	Prefill()                  // put junk (seq 99) into every relation field
}

// rid is implemented by every model that is fetched through Association().Find.
type rid interface{ RID() string }

func itoa(n int) string { return strconv.Itoa(n) }

func sorted(m map[string][]string) map[string][]string {
	for k := range m {
		sort.Strings(m[k])
	}
	return m
}

// ---------------------------------------------------------------------------
// family "str": single string key. SP has-many / has-one SK; SK belongs-to SP.

type SP struct {
	ID        string `gorm:"column:id;primaryKey"`
	Seq       int    `gorm:"column:seq"`
	Tag       string `gorm:"column:tag"`
	DeletedAt gorm.DeletedAt
	Kids      []SK  `gorm:"foreignKey:PID;references:ID"`
	KidPs     []*SK `gorm:"foreignKey:PID;references:ID"`
	One       *SK   `gorm:"foreignKey:PID;references:ID"`
	OneV      SK    `gorm:"foreignKey:PID;references:ID"`
}

func (SP) TableName() string { return "c11_sp" }

type SK struct {
	Seq       int     `gorm:"column:seq;primaryKey"`
	PID       *string `gorm:"column:pid"`
	Tag       string  `gorm:"column:tag"`
	DeletedAt gorm.DeletedAt
	Owner     *SP `gorm:"foreignKey:PID;references:ID"`
}

func (SK) TableName() string { return "c11_sk" }

func (p *SP) LSeq() int   { return p.Seq }
func (p *SP) RID() string { return itoa(p.Seq) }
func (k *SK) LSeq() int   { return k.Seq }
func (k *SK) RID() string { return itoa(k.Seq) }

func (p *SP) Rels() map[string][]string {
	m := map[string][]string{}
	for i := range p.Kids {
		m["Kids"] = append(m["Kids"], itoa(p.Kids[i].Seq))
	}
	for _, k := range p.KidPs {
		if k == nil {
			m["KidPs"] = append(m["KidPs"], "nil-element")
		} else {
			m["KidPs"] = append(m["KidPs"], itoa(k.Seq))
		}
	}
	if p.One != nil {
		m["One"] = []string{itoa(p.One.Seq)}
	}
	if p.OneV.Seq != 0 || p.OneV.PID != nil || p.OneV.Tag != "" {
		m["OneV"] = []string{itoa(p.OneV.Seq)}
	}
	return sorted(m)
}
func (p *SP) Prefill() {
	p.Kids = []SK{{Seq: 99}}
	p.KidPs = []*SK{{Seq: 99}}
	p.One = &SK{Seq: 99}
	p.OneV = SK{Seq: 99}
}
func (k *SK) Rels() map[string][]string {
	m := map[string][]string{}
	if k.Owner != nil {
		m["Owner"] = []string{itoa(k.Owner.Seq)}
	}
	return m
}
func (k *SK) Prefill() { k.Owner = &SP{Seq: 99} }

// ---------------------------------------------------------------------------
// family "int": single unsigned integer key.

type IP struct {
	ID        uint   `gorm:"column:id;primaryKey;autoIncrement:false"`
	Seq       int    `gorm:"column:seq"`
	Tag       string `gorm:"column:tag"`
	DeletedAt gorm.DeletedAt
	Kids      []IK `gorm:"foreignKey:PID;references:ID"`
	One       *IK  `gorm:"foreignKey:PID;references:ID"`
}

func (IP) TableName() string { return "c11_ip" }

type IK struct {
	Seq       int    `gorm:"column:seq;primaryKey"`
	PID       *uint  `gorm:"column:pid"`
	Tag       string `gorm:"column:tag"`
	DeletedAt gorm.DeletedAt
	Owner     *IP `gorm:"foreignKey:PID;references:ID"`
}

func (IK) TableName() string { return "c11_ik" }

func (p *IP) LSeq() int   { return p.Seq }
func (p *IP) RID() string { return itoa(p.Seq) }
func (k *IK) LSeq() int   { return k.Seq }
func (k *IK) RID() string { return itoa(k.Seq) }
func (p *IP) Rels() map[string][]string {
	m := map[string][]string{}
	for i := range p.Kids {
		m["Kids"] = append(m["Kids"], itoa(p.Kids[i].Seq))
	}
	if p.One != nil {
		m["One"] = []string{itoa(p.One.Seq)}
	}
	return sorted(m)
}
func (p *IP) Prefill() {
	p.Kids = []IK{{Seq: 99}}
	p.One = &IK{Seq: 99}
}
func (k *IK) Rels() map[string][]string {
	m := map[string][]string{}
	if k.Owner != nil {
		m["Owner"] = []string{itoa(k.Owner.Seq)}
	}
	return m
}
func (k *IK) Prefill() { k.Owner = &IP{Seq: 99} }

// ---------------------------------------------------------------------------
// family "css": composite (string,string) key.

type CP struct {
	K1        string `gorm:"column:k1;primaryKey"`
	K2        string `gorm:"column:k2;primaryKey"`
	Seq       int    `gorm:"column:seq"`
	Tag       string `gorm:"column:tag"`
	DeletedAt gorm.DeletedAt
	Kids      []CK `gorm:"foreignKey:F1,F2;references:K1,K2"`
	One       *CK  `gorm:"foreignKey:F1,F2;references:K1,K2"`
}

func (CP) TableName() string { return "c11_cp" }

type CK struct {
	Seq       int     `gorm:"column:seq;primaryKey"`
	F1        *string `gorm:"column:f1"`
	F2        *string `gorm:"column:f2"`
	Tag       string  `gorm:"column:tag"`
	DeletedAt gorm.DeletedAt
	Owner     *CP `gorm:"foreignKey:F1,F2;references:K1,K2"`
}

func (CK) TableName() string { return "c11_ck" }

func (p *CP) LSeq() int   { return p.Seq }
func (p *CP) RID() string { return itoa(p.Seq) }
func (k *CK) LSeq() int   { return k.Seq }
func (k *CK) RID() string { return itoa(k.Seq) }
func (p *CP) Rels() map[string][]string {
	m := map[string][]string{}
	for i := range p.Kids {
		m["Kids"] = append(m["Kids"], itoa(p.Kids[i].Seq))
	}
	if p.One != nil {
		m["One"] = []string{itoa(p.One.Seq)}
	}
	return sorted(m)
}
func (p *CP) Prefill() {
	p.Kids = []CK{{Seq: 99}}
	p.One = &CK{Seq: 99}
}
func (k *CK) Rels() map[string][]string {
	m := map[string][]string{}
	if k.Owner != nil {
		m["Owner"] = []string{itoa(k.Owner.Seq)}
	}
	return m
}
func (k *CK) Prefill() { k.Owner = &CP{Seq: 99} }

// ---------------------------------------------------------------------------
// family "csi": composite (string,int) key.

type DP struct {
	K1        string `gorm:"column:k1;primaryKey"`
	K2        int    `gorm:"column:k2;primaryKey;autoIncrement:false"`
	Seq       int    `gorm:"column:seq"`
	Tag       string `gorm:"column:tag"`
	DeletedAt gorm.DeletedAt
	Kids      []DK `gorm:"foreignKey:F1,F2;references:K1,K2"`
	One       *DK  `gorm:"foreignKey:F1,F2;references:K1,K2"`
}

func (DP) TableName() string { return "c11_dp" }

type DK struct {
	Seq       int     `gorm:"column:seq;primaryKey"`
	F1        *string `gorm:"column:f1"`
	F2        *int    `gorm:"column:f2"`
	Tag       string  `gorm:"column:tag"`
	DeletedAt gorm.DeletedAt
	Owner     *DP `gorm:"foreignKey:F1,F2;references:K1,K2"`
}

func (DK) TableName() string { return "c11_dk" }

func (p *DP) LSeq() int   { return p.Seq }
func (p *DP) RID() string { return itoa(p.Seq) }
func (k *DK) LSeq() int   { return k.Seq }
func (k *DK) RID() string { return itoa(k.Seq) }
func (p *DP) Rels() map[string][]string {
	m := map[string][]string{}
	for i := range p.Kids {
		m["Kids"] = append(m["Kids"], itoa(p.Kids[i].Seq))
	}
	if p.One != nil {
		m["One"] = []string{itoa(p.One.Seq)}
	}
	return sorted(m)
}
func (p *DP) Prefill() {
	p.Kids = []DK{{Seq: 99}}
	p.One = &DK{Seq: 99}
}
func (k *DK) Rels() map[string][]string {
	m := map[string][]string{}
	if k.Owner != nil {
		m["Owner"] = []string{itoa(k.Owner.Seq)}
	}
	return m
}
func (k *DK) Prefill() { k.Owner = &DP{Seq: 99} }

// ---------------------------------------------------------------------------
// family "poly": polymorphic has-many / has-one. Toys of a "cat" with the same
// owner id must never attach to a Dog.

type Dog struct {
	ID        string `gorm:"column:id;primaryKey"`
	Seq       int    `gorm:"column:seq"`
	Tag       string `gorm:"column:tag"`
	DeletedAt gorm.DeletedAt
	Toys      []Toy `gorm:"polymorphic:Owner;polymorphicValue:dog"`
	Toy1      *Toy  `gorm:"polymorphic:Owner;polymorphicValue:dog"`
}

func (Dog) TableName() string { return "c11_dog" }

type Toy struct {
	Seq       int     `gorm:"column:seq;primaryKey"`
	OwnerID   *string `gorm:"column:owner_id"`
	OwnerType *string `gorm:"column:owner_type"`
	Tag       string  `gorm:"column:tag"`
	DeletedAt gorm.DeletedAt
}

func (Toy) TableName() string { return "c11_toy" }

func (p *Dog) LSeq() int   { return p.Seq }
func (k *Toy) RID() string { return itoa(k.Seq) }
func (p *Dog) Rels() map[string][]string {
	m := map[string][]string{}
	for i := range p.Toys {
		m["Toys"] = append(m["Toys"], itoa(p.Toys[i].Seq))
	}
	if p.Toy1 != nil {
		m["Toy1"] = []string{itoa(p.Toy1.Seq)}
	}
	return sorted(m)
}
func (p *Dog) Prefill() {
	p.Toys = []Toy{{Seq: 99}}
	p.Toy1 = &Toy{Seq: 99}
}

// ---------------------------------------------------------------------------
// family "self": self-referential has-many (Children) and belongs-to (Parent).

type Node struct {
	ID        string  `gorm:"column:id;primaryKey"`
	Seq       int     `gorm:"column:seq"`
	ParentID  *string `gorm:"column:parent_id"`
	Tag       string  `gorm:"column:tag"`
	DeletedAt gorm.DeletedAt
	Children  []Node `gorm:"foreignKey:ParentID;references:ID"`
	Parent    *Node  `gorm:"foreignKey:ParentID;references:ID"`
	Boss      *Node  `gorm:"foreignKey:ParentID;references:ID"` // second belongs-to over the same key (several top-level joins)
}

func (Node) TableName() string { return "c11_node" }

func (p *Node) LSeq() int   { return p.Seq }
func (p *Node) RID() string { return itoa(p.Seq) }

// desc: a related node with whatever is loaded below it:
// seq ^P(parent) ^B(boss) <children>
func (p *Node) desc() string {
	s := itoa(p.Seq)
	if p.Parent != nil {
		s += "^P(" + p.Parent.desc() + ")"
	}
	if p.Boss != nil {
		s += "^B(" + p.Boss.desc() + ")"
	}
	if len(p.Children) > 0 {
		var cs []string
		for i := range p.Children {
			cs = append(cs, p.Children[i].desc())
		}
		sort.Strings(cs)
		s += "<" + strings.Join(cs, " ") + ">"
	}
	return s
}
func (p *Node) Rels() map[string][]string {
	m := map[string][]string{}
	for i := range p.Children {
		m["Children"] = append(m["Children"], p.Children[i].desc())
	}
	if p.Parent != nil {
		m["Parent"] = []string{p.Parent.desc()}
	}
	if p.Boss != nil {
		m["Boss"] = []string{p.Boss.desc()}
	}
	return sorted(m)
}
func (p *Node) Prefill() {
	p.Children = []Node{{Seq: 99}}
	p.Parent = &Node{Seq: 99}
	p.Boss = &Node{Seq: 99}
}

// ---------------------------------------------------------------------------
// family "m2m": many-to-many with single string keys on both sides, and
// family "xm2m": many-to-many whose left side has a composite (string,string) key.

type MR struct {
	ID        string `gorm:"column:id;primaryKey"`
	Seq       int    `gorm:"column:seq"`
	Tag       string `gorm:"column:tag"`
	DeletedAt gorm.DeletedAt
}

func (MR) TableName() string { return "c11_mr" }
func (r *MR) RID() string    { return itoa(r.Seq) }

type ML struct {
	ID        string `gorm:"column:id;primaryKey"`
	Seq       int    `gorm:"column:seq"`
	Tag       string `gorm:"column:tag"`
	DeletedAt gorm.DeletedAt
	Rights    []MR `gorm:"many2many:c11_ml_mr"`
}

func (ML) TableName() string { return "c11_ml" }
func (p *ML) LSeq() int      { return p.Seq }
func (p *ML) Rels() map[string][]string {
	m := map[string][]string{}
	for i := range p.Rights {
		m["Rights"] = append(m["Rights"], itoa(p.Rights[i].Seq))
	}
	return sorted(m)
}
func (p *ML) Prefill() { p.Rights = []MR{{Seq: 99}} }

type XL struct {
	K1        string `gorm:"column:k1;primaryKey"`
	K2        string `gorm:"column:k2;primaryKey"`
	Seq       int    `gorm:"column:seq"`
	Tag       string `gorm:"column:tag"`
	DeletedAt gorm.DeletedAt
	Rights    []*MR `gorm:"many2many:c11_xl_mr"`
}

func (XL) TableName() string { return "c11_xl" }
func (p *XL) LSeq() int      { return p.Seq }
func (p *XL) Rels() map[string][]string {
	m := map[string][]string{}
	for _, r := range p.Rights {
		if r == nil {
			m["Rights"] = append(m["Rights"], "nil-element")
		} else {
			m["Rights"] = append(m["Rights"], itoa(r.Seq))
		}
	}
	return sorted(m)
}
func (p *XL) Prefill() { p.Rights = []*MR{{Seq: 99}} }

// ---------------------------------------------------------------------------
// families "ref", "refpoly", "refm2m": the REFERENCED key is not the primary
// key but the column `code`, declared through tags; ids (= seq) and codes
// collide textually (id 1 next to code "1").

type RO struct {
	ID        uint   `gorm:"column:id;primaryKey;autoIncrement:false"`
	Code      string `gorm:"column:code"`
	Seq       int    `gorm:"column:seq"`
	Tag       string `gorm:"column:tag"`
	DeletedAt gorm.DeletedAt
	Kids      []RK `gorm:"foreignKey:OwnerCode;references:Code"`
	One       *RK  `gorm:"foreignKey:OwnerCode;references:Code"`
	Notes     []RN `gorm:"polymorphic:Owner;polymorphicValue:dog;foreignKey:Code"`
	Note1     *RN  `gorm:"polymorphic:Owner;polymorphicValue:dog;foreignKey:Code"`
	Rights    []MR `gorm:"many2many:c11_ro_mr;foreignKey:Code;joinForeignKey:OwnerCode;references:ID;joinReferences:RightID"`
}

func (RO) TableName() string { return "c11_ro" }

type RK struct {
	Seq       int     `gorm:"column:seq;primaryKey"`
	OwnerCode *string `gorm:"column:owner_code"`
	Tag       string  `gorm:"column:tag"`
	DeletedAt gorm.DeletedAt
	Owner     *RO `gorm:"foreignKey:OwnerCode;references:Code"`
}

func (RK) TableName() string { return "c11_rk" }

type RN struct {
	Seq       int     `gorm:"column:seq;primaryKey"`
	OwnerID   *string `gorm:"column:owner_id"`
	OwnerType *string `gorm:"column:owner_type"`
	Tag       string  `gorm:"column:tag"`
	DeletedAt gorm.DeletedAt
}

func (RN) TableName() string { return "c11_rn" }

func (p *RO) LSeq() int   { return p.Seq }
func (p *RO) RID() string { return itoa(p.Seq) }
func (k *RK) LSeq() int   { return k.Seq }
func (k *RK) RID() string { return itoa(k.Seq) }
func (k *RN) RID() string { return itoa(k.Seq) }
func (p *RO) Rels() map[string][]string {
	m := map[string][]string{}
	for i := range p.Kids {
		m["Kids"] = append(m["Kids"], itoa(p.Kids[i].Seq))
	}
	if p.One != nil {
		m["One"] = []string{itoa(p.One.Seq)}
	}
	for i := range p.Notes {
		m["Notes"] = append(m["Notes"], itoa(p.Notes[i].Seq))
	}
	if p.Note1 != nil {
		m["Note1"] = []string{itoa(p.Note1.Seq)}
	}
	for i := range p.Rights {
		m["Rights"] = append(m["Rights"], itoa(p.Rights[i].Seq))
	}
	return sorted(m)
}
func (p *RO) Prefill() {
	p.Kids = []RK{{Seq: 99}}
	p.One = &RK{Seq: 99}
	p.Notes = []RN{{Seq: 99}}
	p.Note1 = &RN{Seq: 99}
	p.Rights = []MR{{Seq: 99}}
}
func (k *RK) Rels() map[string][]string {
	m := map[string][]string{}
	if k.Owner != nil {
		m["Owner"] = []string{itoa(k.Owner.Seq)}
	}
	return m
}
func (k *RK) Prefill() { k.Owner = &RO{Seq: 99} }

// ---------------------------------------------------------------------------
// family "nest": grandparent -> kids -> toys.

type GP struct {
	ID        string `gorm:"column:id;primaryKey"`
	Seq       int    `gorm:"column:seq"`
	Tag       string `gorm:"column:tag"`
	DeletedAt gorm.DeletedAt
	Kids      []NK `gorm:"foreignKey:GPID;references:ID"`
}

func (GP) TableName() string { return "c11_gp" }

type NK struct {
	ID        string  `gorm:"column:id;primaryKey"`
	Seq       int     `gorm:"column:seq"`
	GPID      *string `gorm:"column:gp_id"`
	Tag       string  `gorm:"column:tag"`
	DeletedAt gorm.DeletedAt
	Toys      []NT `gorm:"foreignKey:KID;references:ID"`
	GP        *GP  `gorm:"foreignKey:GPID;references:ID"`
}

func (NK) TableName() string { return "c11_nk" }

type NT struct {
	Seq       int     `gorm:"column:seq;primaryKey"`
	KID       *string `gorm:"column:k_id"`
	Tag       string  `gorm:"column:tag"`
	DeletedAt gorm.DeletedAt
}

func (NT) TableName() string { return "c11_nt" }

func kidsDesc(ks []NK) []string {
	var out []string
	for i := range ks {
		var ts []string
		for j := range ks[i].Toys {
			ts = append(ts, itoa(ks[i].Toys[j].Seq))
		}
		sort.Strings(ts)
		out = append(out, fmt.Sprintf("%d%v", ks[i].Seq, ts))
	}
	sort.Strings(out)
	return out
}

func (p *GP) LSeq() int { return p.Seq }
func (p *GP) Rels() map[string][]string {
	m := map[string][]string{}
	if ks := kidsDesc(p.Kids); len(ks) > 0 {
		m["Kids"] = ks
	}
	return m
}
func (p *GP) Prefill() { p.Kids = []NK{{Seq: 99, Toys: []NT{{Seq: 98}}}} }

func (k *NK) LSeq() int   { return k.Seq }
func (k *NK) RID() string { return itoa(k.Seq) }
func (k *NK) Rels() map[string][]string {
	m := map[string][]string{}
	for i := range k.Toys {
		m["Toys"] = append(m["Toys"], itoa(k.Toys[i].Seq))
	}
	if k.GP != nil {
		m["GP"] = []string{fmt.Sprintf("%d%v", k.GP.Seq, kidsDesc(k.GP.Kids))}
	}
	return sorted(m)
}
func (k *NK) Prefill() {
	k.Toys = []NT{{Seq: 99}}
	k.GP = &GP{Seq: 99}
}
