package main

import (
	"context"
	"errors"
	"fmt"
	"strings"
	"time"

	"gorm.io/gorm"

	"verif/drivers/recsqlite"
	"verif/h"
)

// ---------------------------------------------------------------------------
// manual API: Begin, then a sequence over the alphabet below. States are
// explored breadth-first; a state is re-created by replaying its path on a
// clean database (SQLite transactions cannot be cloned).

const (
	opWrite = iota
	opSP1
	opSP2
	opRT1
	opRT2
	opTxOk
	opTxErr
	opTxPanic
	opCommit
	opRollback
	numOps
)

var opName = []string{"write", "SavePoint(s1)", "SavePoint(s2)", "RollbackTo(s1)", "RollbackTo(s2)",
	"Transaction{write;nil}", "Transaction{write;error}", "Transaction{write;panic}", "Commit", "Rollback"}

func terminal(op int) bool { return op == opCommit || op == opRollback }

var spNames = []string{"s1", "s2"}

func opsString(ops []int) string {
	var s []string
	for _, o := range ops {
		s = append(s, opName[o])
	}
	return "Begin; " + strings.Join(s, "; ")
}

type savePoint struct {
	name string
	snap []string
}

// manual reference model
type mmodel struct {
	cur   []string
	stack []savePoint
}

// sig renders the model state the way implSig renders the implementation:
// table + error on the handle + for each name what RollbackTo(name) then
// releasing it leads to.
func (m mmodel) sig() string {
	s := keyList(m.cur) + "|err=<nil>"
	for _, n := range spNames {
		idx := -1
		for i := len(m.stack) - 1; i >= 0; i-- {
			if m.stack[i].name == n {
				idx = i
				break
			}
		}
		if idx < 0 {
			s += "|" + n + ":-"
			continue
		}
		sub := mmodel{cur: m.stack[idx].snap, stack: m.stack[:idx]}
		s += "|" + n + ":(" + sub.sig() + ")"
	}
	return s
}

// inst is one running manual transaction with its model.
type inst struct {
	env      *h.Env
	tx       *gorm.DB
	h        *gorm.DB // handle the writes go through: derive(tx, der)
	der      int
	noNested bool
	strict   bool
	done     bool
	m        mmodel
	final    []string
	kind     string
	detail   string
	log      []string
	broken   bool // environment must not be reused

	// fault injection into the last operation of a sequence
	armNext  bool // the next apply is the faulted one
	armed    bool
	faultAt  int // 1-based index of the fault point inside the armed operation
	points   int
	injected bool
	everInjected bool
	injWhat  string
}

func (i *inst) hook(ev *recsqlite.Event) error {
	if !i.armed {
		return nil
	}
	cls := faultClass(ev)
	if cls == "" || cls == "savepoint" { // SAVEPOINT faults: see the block-tree part
		return nil
	}
	i.points++
	if i.points == i.faultAt {
		i.injected = true
		i.everInjected = true
		i.injWhat = ev.Kind + " " + normSQL(ev.SQL)
		i.log = append(i.log, "   FAULT injected: "+i.injWhat)
		return recsqlite.ErrInjected
	}
	return nil
}

func (i *inst) fail(kind, format string, a ...interface{}) {
	if i.kind == "" {
		i.kind, i.detail = kind, fmt.Sprintf(format, a...)
	}
	i.log = append(i.log, "!! "+kind+": "+fmt.Sprintf(format, a...))
}

func (i *inst) inTx() ([]string, error) {
	i.env.Rec.Pause()
	defer i.env.Rec.Resume()
	return keysOn(rawTx(i.tx))
}

func (i *inst) raw(sql string) error {
	i.env.Rec.Pause()
	defer i.env.Rec.Resume()
	_, err := rawTx(i.tx).ExecContext(context.Background(), sql)
	return err
}

var errManual = errors.New("manual nested block returns an error")

type manualPanic struct{ n int }

func (i *inst) apply(op int) {
	i.armed, i.armNext = i.armNext, false
	i.injected = false
	if pv, panicked := guard(func() { i.applyOp(op) }); panicked {
		i.armed = false
		i.broken = true
		i.fail("unexpected panic", "%s panicked with a value the program did not throw: %v", opName[op], pv)
	}
	i.armed = false
}

func (i *inst) applyOp(op int) {
	name := ""
	switch op {
	case opSP1, opRT1:
		name = "s1"
	case opSP2, opRT2:
		name = "s2"
	}
	key := fmt.Sprintf("k%d", len(i.m.cur))
	switch op {
	case opWrite:
		err := i.h.Create(&Row{K: key, V: 1}).Error
		i.armed = false
		if i.injected {
			if !errors.Is(err, recsqlite.ErrInjected) {
				i.fail("statement fault not returned", "Create(%s): the driver call failed with the injected error, Create returned %v", key, err)
				return
			}
			break // nothing written
		}
		if err != nil {
			i.fail("write failed", "Create(%s) in the transaction: %v", key, err)
			return
		}
		i.m.cur = addKey(i.m.cur, key)
	case opSP1, opSP2:
		// with a derived handle in play the two names are issued through
		// different handles of the same transaction: s1 saved via tx and rolled
		// back via the derived handle, s2 the other way round
		sph := i.tx
		if op == opSP2 {
			sph = i.h
		}
		if err := sph.SavePoint(name).Error; err != nil {
			i.fail("SavePoint failed", "SavePoint(%s): %v", name, err)
			return
		}
		i.m.stack = append(i.m.stack, savePoint{name, copyKeys(i.m.cur)})
	case opRT1, opRT2:
		rth := i.h
		if op == opRT2 {
			rth = i.tx
		}
		err := rth.RollbackTo(name).Error
		idx := -1
		for j := len(i.m.stack) - 1; j >= 0; j-- {
			if i.m.stack[j].name == name {
				idx = j
				break
			}
		}
		if idx < 0 {
			// no such save point: nothing may change; the shipped dialector
			// reports no error here, so the error value is not part of the oracle
			i.log = append(i.log, fmt.Sprintf("   RollbackTo(%s) without such a save point: err=%v", name, err))
			break
		}
		if err != nil {
			i.fail("RollbackTo failed", "RollbackTo(%s): %v", name, err)
			return
		}
		i.m.cur = copyKeys(i.m.stack[idx].snap)
		i.m.stack = i.m.stack[:idx+1]
	case opTxOk, opTxErr, opTxPanic:
		pv := &manualPanic{len(i.m.cur)}
		var err error
		var rec interface{}
		panicked, entered := false, false
		func() {
			defer func() {
				if p := recover(); p != nil {
					panicked, rec = true, p
				}
			}()
			err = i.tx.Transaction(func(tx2 *gorm.DB) error {
				entered = true
				if e := derive(tx2, i.der).Create(&Row{K: key, V: 1}).Error; e != nil {
					if !i.injected {
						i.fail("write failed", "Create(%s) in the nested block: %v", key, e)
					}
					return e
				}
				if i.injected {
					i.fail("statement fault not returned", "Create(%s) in the nested block returned nil although its driver call failed", key)
				}
				switch op {
				case opTxErr:
					return errManual
				case opTxPanic:
					panic(pv)
				}
				return nil
			})
		}()
		i.armed = false
		if i.kind != "" {
			return
		}
		if i.injected {
			// the block's only write failed, the block returned that error
			if !entered || panicked || !errors.Is(err, recsqlite.ErrInjected) {
				i.fail("block error not returned", "nested Transaction whose write failed with the injected error: entered=%v err=%v panic=%v", entered, err, rec)
			}
			break
		}
		switch {
		case !entered:
			i.fail("block not entered", "nested Transaction did not call the block (err=%v)", err)
		case op == opTxOk && (panicked || err != nil):
			i.fail("error without cause", "nested Transaction{nil}: err=%v panic=%v", err, rec)
		case op == opTxErr && (panicked || !errors.Is(err, errManual)):
			i.fail("block error not returned", "nested Transaction{error}: err=%v panic=%v", err, rec)
		case op == opTxPanic && (!panicked || !identical(rec, interface{}(pv))):
			i.fail("panic value changed", "nested Transaction{panic}: recovered %v err=%v", rec, err)
		}
		if op == opTxOk || i.noNested {
			i.m.cur = addKey(i.m.cur, key)
		}
	case opCommit:
		i.done = true
		err := i.tx.Commit().Error
		i.armed = false
		if i.injected {
			if !errors.Is(err, recsqlite.ErrInjected) {
				i.fail("COMMIT fault not returned", "Commit returned %v", err)
			}
			i.final = []string{} // a failed commit leaves nothing
			break
		}
		if err != nil {
			i.fail("Commit failed", "%v", err)
		}
		i.final = copyKeys(i.m.cur)
	case opRollback:
		i.done = true
		i.armed = false
		if err := i.tx.Rollback().Error; err != nil {
			i.fail("Rollback failed", "%v", err)
		}
		i.final = []string{}
	}
	i.armed = false
	if i.kind != "" {
		return
	}
	if !i.done {
		got, err := i.inTx()
		if err != nil {
			i.fail("table unreadable in transaction", "%v", err)
		} else if !sameKeys(got, i.m.cur) {
			i.fail("table in transaction differs from reference", "after %s: table %s, reference %s", opName[op], keyList(got), keyList(i.m.cur))
		}
		if i.kind == "" {
			// a read through the write handle and Row() (QueryRowContext path)
			cnt, rerr, pv, panicked := rowCount(i.h)
			switch {
			case panicked:
				i.broken = true
				i.fail("unexpected panic", "Row() read after %s panicked: %v", opName[op], pv)
			case rerr != nil:
				i.fail("read failed", "Row() read after %s: %v", opName[op], rerr)
			case cnt != len(i.m.cur):
				i.fail("read in transaction differs from reference", "after %s: Row() read counts %d rows, reference %s", opName[op], cnt, keyList(i.m.cur))
			}
		}
		if fc := foreignConn(i.env.Rec.Events()); fc != "" && i.kind == "" {
			i.fail("statement outside the transaction's connection", "%s", fc)
		}
		return
	}
	// the sequence has ended
	if fc := foreignConn(i.env.Rec.Events()); fc != "" {
		i.fail("statement outside the transaction's connection", "%s", fc)
		return
	}
	if l := i.env.Leaks(); l != "" {
		i.broken = true
		i.fail("leak", "after %s: %s", opName[op], l)
		return
	}
	got, err := keysOutside(i.env)
	if err != nil {
		i.fail("table unreadable after the sequence", "%v", err)
		return
	}
	if !sameKeys(got, i.final) {
		i.fail("table differs from reference", "after %s: table %s, reference %s", opName[op], keyList(got), keyList(i.final))
		return
	}
	if err := i.env.DB.Create(&Row{K: "zz-after", V: 2}).Error; err != nil {
		i.fail("follow-up write failed", "%v", err)
		return
	}
	if got2, err := keysOutside(i.env); err != nil || !sameKeys(got2, addKey(got, "zz-after")) {
		i.fail("follow-up write not stored", "table %s err=%v", keyList(got2), err)
	}
	if l := i.env.Leaks(); l != "" {
		i.broken = true
		i.fail("leak", "after the follow-up write: %s", l)
	}
}

// release ends the transaction (if still open) and empties the table.
func (i *inst) release() {
	i.armed = false
	i.env.Rec.Fault = nil
	if !i.done {
		i.done = true
		if _, panicked := guard(func() {
			if err := i.tx.Rollback().Error; err != nil {
				i.broken = true
			}
		}); panicked {
			i.broken = true
		}
	}
	if i.env.Leaks() != "" {
		i.broken = true
		return
	}
	i.env.Rec.Pause()
	_, err := i.env.SQL.Exec("DELETE FROM `rows`")
	i.env.Rec.Resume()
	if err != nil {
		i.broken = true
	}
	i.env.Rec.Reset()
}

// mworker owns one environment per configuration.
type mworker struct {
	cfg, dial int
	der       int
	// which call follows a failed Begin on the failed handle: 0 write,
	// 1 Commit, 2 Rollback, 3 all three in this order
	afterFailedBegin int
	env       *h.Env
	replays   int64
}

// start begins the transaction; faultBegin > 0 injects a fault into Begin.
func (w *mworker) start(faultBegin int) *inst {
	if w.env == nil {
		w.env = openEnv(w.cfg, w.dial)
	}
	w.replays++
	if p, ok := w.env.DB.ConnPool.(*gorm.PreparedStmtDB); ok {
		// with PrepareStmt the driver calls of an operation depend on the
		// statement cache: every replay starts with an empty cache so that a
		// (sequence, fault point) pair means the same thing in another process
		p.Reset()
	}
	i := &inst{env: w.env, noNested: w.cfg&cfgNoNested != 0, strict: w.dial == dialStrict, faultAt: faultBegin, der: w.der}
	i.m.cur = []string{}
	w.env.Rec.Fault = i.hook
	i.armed = faultBegin > 0
	if pv, panicked := guard(func() { i.tx = w.env.DB.Begin() }); panicked {
		i.armed = false
		i.done, i.broken = true, true
		i.everInjected = i.everInjected || faultBegin > 0
		i.fail("unexpected panic", "Begin panicked: %v", pv)
		return i
	}
	i.armed = false
	if i.injected {
		i.done = true // no transaction: the sequence ends here
		i.final = []string{}
		if !errors.Is(i.tx.Error, recsqlite.ErrInjected) {
			i.fail("BEGIN fault not returned", "Begin().Error = %v", i.tx.Error)
			return i
		}
		// what a caller may still do with the handle of a failed Begin: every
		// call must come back with an error, none may panic
		type call struct {
			name string
			f    func() error
		}
		calls := []call{
			{"write", func() error { return derive(i.tx, i.der).Create(&Row{K: "k0", V: 1}).Error }},
			{"Commit", func() error { return i.tx.Commit().Error }},
			{"Rollback", func() error { return i.tx.Rollback().Error }},
		}
		if w.afterFailedBegin < len(calls) {
			calls = calls[w.afterFailedBegin : w.afterFailedBegin+1]
		}
		for _, c := range calls {
			var err error
			pv, panicked := guard(func() { err = c.f() })
			i.log = append(i.log, fmt.Sprintf("   %s on the handle of the failed Begin: err=%v panic=%v", c.name, err, pv))
			switch {
			case panicked:
				i.broken = true
				i.fail("unexpected panic", "%s on the handle of a failed Begin panicked: %v", c.name, pv)
				return i
			case err == nil:
				i.fail("no error from a failed transaction handle", "%s on the handle of a failed Begin returned nil", c.name)
				return i
			}
		}
		if l := w.env.Leaks(); l != "" {
			i.broken = true
			i.fail("leak", "after a failed Begin: %s", l)
			return i
		}
		if err := w.env.DB.Create(&Row{K: "zz-after", V: 2}).Error; err != nil {
			i.fail("follow-up write failed", "after a failed Begin: %v", err)
		} else if got, err := keysOutside(w.env); err != nil || !sameKeys(got, []string{"zz-after"}) {
			i.fail("table differs from reference", "after a failed Begin and a follow-up write: %s err=%v", keyList(got), err)
		}
		return i
	}
	if i.tx.Error != nil {
		i.fail("Begin failed", "%v", i.tx.Error)
		i.done = true
	}
	i.h = derive(i.tx, i.der)
	return i
}

func (w *mworker) finish(i *inst) {
	i.release()
	if i.broken {
		w.env.Close()
		w.env = nil
	}
}

// run replays ops; the instance is returned still open unless a terminal op
// ran. fault > 0 injects a driver fault at the fault-th fault point of the last
// operation (of Begin when ops is empty); i.injected tells whether that point exists.
func (w *mworker) run(ops []int, fault int) *inst {
	if len(ops) == 0 {
		return w.start(fault)
	}
	i := w.start(0)
	for n, op := range ops {
		if i.kind != "" || i.done {
			break
		}
		i.log = append(i.log, opName[op])
		if n == len(ops)-1 && fault > 0 {
			i.faultAt = fault
			i.armNext = true
		}
		i.apply(op)
	}
	return i
}

// implSig computes the canonical form of the implementation state reached by
// ops: the table as seen inside the transaction plus, recursively, for each
// save point name what "ROLLBACK TO name; RELEASE name" leads to. Every probe
// runs on its own replay because probing destroys the state.
func (w *mworker) implSig(ops []int, fault int, probes []string) (string, error) {
	mk := func() (*inst, error) {
		i := w.run(ops, fault)
		if i.kind != "" {
			w.finish(i)
			return nil, fmt.Errorf("replay of an already validated path failed: %s: %s", i.kind, i.detail)
		}
		for _, p := range probes {
			if err := i.raw("ROLLBACK TO SAVEPOINT " + p); err != nil {
				w.finish(i)
				return nil, fmt.Errorf("probe replay: %v", err)
			}
			if err := i.raw("RELEASE SAVEPOINT " + p); err != nil {
				w.finish(i)
				return nil, fmt.Errorf("probe replay: %v", err)
			}
		}
		return i, nil
	}
	i, err := mk()
	if err != nil {
		return "", err
	}
	d, err := i.inTx()
	// the error stored on the transaction handle is read by every later
	// operation on it, so it belongs to the canonical state
	herr := fmt.Sprint(i.tx.Error)
	w.finish(i)
	if err != nil {
		return "", err
	}
	s := keyList(d) + "|err=" + herr
	for _, n := range spNames {
		i, err := mk()
		if err != nil {
			return "", err
		}
		perr := i.raw("ROLLBACK TO SAVEPOINT " + n)
		w.finish(i)
		if perr != nil {
			s += "|" + n + ":-"
			continue
		}
		sub, err := w.implSig(ops, fault, append(append([]string{}, probes...), n))
		if err != nil {
			return "", err
		}
		s += "|" + n + ":(" + sub + ")"
	}
	return s, nil
}

// ManualCase is the replay format of the manual part.
type ManualCase struct {
	Part     string `json:"part"`
	Ops      []int  `json:"ops"`
	Cfg      int    `json:"config_bits"`
	Dial     int    `json:"dialector"`
	Derive   int    `json:"derive,omitempty"` // writes go through derive(tx, kind), see deriveName
	AfterFailedBegin int `json:"after_failed_begin,omitempty"` // ops empty + fault: 0 write, 1 Commit, 2 Rollback, 3 all three on the failed handle
	Fault    int    `json:"fault_point_in_last_op"` // 0 = none, k = k-th fault point of the last operation (of Begin if ops is empty)
	Readable string `json:"readable,omitempty"`
}

type manualResult struct {
	states, transitions int
	faulted             int // additional transitions executed with an injected fault
	capped              bool
	replays             int64
	maxDepth            int
	statesPerDepth      []int
	viol                []manualViolation
	samples             []string
	harnessErr          string
	distinctSigs        map[string]bool
	withSavepoints      int // states with at least one live save point
	rollbackToUndid     int // transitions in which RollbackTo/nested failure removed rows
}

type manualViolation struct {
	c      ManualCase
	kind   string
	detail string
	log    []string
}

// step executes the transition (path, fault) and checks it completely:
// the operation itself (apply), the save point stack against the reference
// and, after an injected fault, that the transaction is still usable.
type stepResult struct {
	kind, detail string
	log          []string
	sig          string
	done         bool
	injected     bool
	nsp          int
	harnessErr   string
}

func (w *mworker) step(path []int, fault int) (r stepResult) {
	defer func() {
		// last line of defence: nothing inside gorm may take the run down
		if p := recover(); p != nil {
			r.kind, r.detail = "unexpected panic", fmt.Sprintf("while executing or probing the sequence: %v", p)
			r.injected = r.injected || fault > 0
			if w.env != nil {
				w.env.Close()
				w.env = nil
			}
		}
	}()
	i := w.run(path, fault)
	r.kind, r.detail, r.log = i.kind, i.detail, i.log
	msig := i.m.sig()
	r.nsp = len(i.m.stack)
	r.done = i.done
	r.injected = i.everInjected
	w.finish(i)
	if fault > 0 && !r.injected {
		return // no such fault point
	}
	if r.kind != "" || r.done {
		return
	}
	sig, err := w.implSig(path, fault, nil)
	if err != nil {
		r.harnessErr = err.Error()
		return
	}
	r.sig = sig
	if sig != msig {
		r.kind, r.detail = "save point stack differs from reference", fmt.Sprintf("implementation %s\nreference      %s", sig, msig)
		return
	}
	if fault > 0 {
		// the enclosing transaction must still be usable after the failed operation
		i := w.run(path, fault)
		i.log = append(i.log, "-- usability probe: write; Commit")
		if i.kind == "" {
			i.apply(opWrite)
		}
		if i.kind == "" {
			i.apply(opCommit)
		}
		if i.kind != "" {
			r.kind, r.detail, r.log = "transaction unusable after a failed operation: "+i.kind, i.detail, i.log
		}
		w.finish(i)
	}
	return
}

// bfs explores all sequences of at most depth operations for one
// configuration; every transition is additionally executed with a fault at
// each BEGIN / COMMIT / data statement of its last operation.
func bfs(cfg, dial, der, depth int, deadline time.Time) *manualResult {
	w := &mworker{cfg: cfg, dial: dial, der: der}
	res := &manualResult{distinctSigs: map[string]bool{}}
	type state struct{ path []int }
	rootSig, err := w.implSig(nil, 0, nil)
	if err != nil {
		res.harnessErr = err.Error()
		return res
	}
	faultVariants := func(path []int) bool {
		for k := 1; k < 10; k++ {
			r := w.step(path, k)
			if r.harnessErr != "" {
				res.harnessErr = r.harnessErr
				return false
			}
			if !r.injected {
				return true
			}
			res.faulted++
			if r.kind != "" {
				mc := ManualCase{Part: "manual", Ops: path, Cfg: cfg, Dial: dial, Derive: der, AfterFailedBegin: w.afterFailedBegin, Fault: k, Readable: fmt.Sprintf("%s  [fault at point %d of the last operation]", opsString(path), k)}
				res.viol = append(res.viol, manualViolation{mc, r.kind, r.detail, r.log})
			}
		}
		return true
	}
	for after := 0; after < 4; after++ { // Begin itself, then each use of the failed handle
		w.afterFailedBegin = after
		if !faultVariants(nil) {
			return res
		}
	}
	w.afterFailedBegin = 3
	seen := map[string]bool{rootSig: true}
	frontier := []state{{}}
	res.states = 1
	res.statesPerDepth = []int{1}
	for d := 0; d < depth && len(frontier) > 0; d++ {
		var next []state
		for _, s := range frontier {
			for op := 0; op < numOps; op++ {
				if time.Now().After(deadline) {
					res.capped = true
					res.replays = w.replays
					return res
				}
				path := append(append([]int{}, s.path...), op)
				r := w.step(path, 0)
				res.transitions++
				if r.harnessErr != "" {
					res.harnessErr = r.harnessErr
					return res
				}
				mc := ManualCase{Part: "manual", Ops: path, Cfg: cfg, Dial: dial, Derive: der, Readable: opsString(path)}
				if r.kind != "" {
					res.viol = append(res.viol, manualViolation{mc, r.kind, r.detail, r.log})
					continue
				}
				if !faultVariants(path) {
					return res
				}
				if r.done {
					continue // terminal: fully checked in apply
				}
				if seen[r.sig] {
					continue
				}
				seen[r.sig] = true
				res.states++
				if r.nsp > 0 {
					res.withSavepoints++
				}
				if len(res.samples) < 3 && r.nsp > 1 && d >= 3 {
					res.samples = append(res.samples, cfgString(cfg, dial)+", writes through "+deriveName[der]+" :: "+opsString(path)+" => "+r.sig)
				}
				next = append(next, state{path})
			}
		}
		res.statesPerDepth = append(res.statesPerDepth, len(next))
		if len(next) > 0 {
			res.maxDepth = d + 1
		}
		frontier = next
	}
	res.replays = w.replays
	if w.env != nil {
		w.env.Close()
	}
	return res
}
