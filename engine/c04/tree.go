package main

import (
	"errors"
	"fmt"
	"hash/fnv"
	"strings"

	"gorm.io/gorm"

	"verif/drivers/recsqlite"
	"verif/h"
	"verif/mc"
)

// ---------------------------------------------------------------------------
// programs: trees of nested Transaction blocks

const (
	outNil = iota
	outErr
	outPanic
)

var outName = []string{"nil", "err", "panic"}

// extra action of a block, executed on the block's own handle after its second
// write and before its outcome
const (
	actNone      = iota
	actAddError  // tx.AddError(marker): the error sits on the block's handle itself
	actFailStmt  // a statement that fails (duplicate key): the error sits on a derived instance only
	actManualSP  // tx.SavePoint(m); write; tx.RollbackTo(m) inside the block
	actRTUnknown // tx.RollbackTo(<unknown name>): changes nothing; reported only by dialectors that return the error
	numActs
)

var actName = []string{"", "AddError", "failing-statement", "SavePoint/write/RollbackTo", "RollbackTo(unknown)"}

// Block is one Transaction block:
//
//	write w<id>a; for each child { child; read }; write w<id>b; outcome
//
// Swallow says what the *parent* does when this block's Transaction call fails
// (returns an error or panics): swallow = ignore the error / recover the panic
// and go on; propagate = return the error / let the panic fly.
type Block struct {
	Outcome int      `json:"outcome"`
	Swallow bool     `json:"swallow,omitempty"`
	Kids    []*Block `json:"kids,omitempty"`
	Act     int      `json:"act,omitempty"`
	// From: the handle this (nested) block is opened from: 0 = the tx its
	// parent's callback received, k = the tx of the ancestor k levels above the
	// parent (still in scope, same sql.Tx). Only blocks at depth >= 2 can have k > 0.
	From    int      `json:"from,omitempty"`
	id      int
	tailDead bool // enumeration only: the part after the children can never run
}

func (b *Block) String() string {
	var sb strings.Builder
	b.render(&sb, true)
	return sb.String()
}

func (b *Block) render(sb *strings.Builder, root bool) {
	sb.WriteString("T[")
	for i, k := range b.Kids {
		if i > 0 {
			sb.WriteByte(' ')
		}
		k.render(sb, false)
	}
	sb.WriteString("]")
	if b.Act != actNone {
		sb.WriteString("+" + actName[b.Act] + ";")
	}
	sb.WriteString(outName[b.Outcome])
	if b.From > 0 {
		sb.WriteString(fmt.Sprintf("@up%d", b.From))
	}
	if !root {
		if b.Swallow {
			sb.WriteString("~") // failure swallowed by the parent
		} else {
			sb.WriteString("^") // failure propagated by the parent
		}
	}
}

func (b *Block) clone() *Block {
	n := &Block{Outcome: b.Outcome, Swallow: b.Swallow, Act: b.Act, From: b.From, tailDead: b.tailDead}
	for _, k := range b.Kids {
		n.Kids = append(n.Kids, k.clone())
	}
	return n
}

func (b *Block) number(next *int) {
	b.id = *next
	*next++
	for _, k := range b.Kids {
		k.number(next)
	}
}

func (b *Block) size() int {
	n := 1
	for _, k := range b.Kids {
		n += k.size()
	}
	return n
}

func (b *Block) depth() int {
	d := 0
	for _, k := range b.Kids {
		if kd := k.depth(); kd > d {
			d = kd
		}
	}
	return d + 1
}

func (b *Block) preorder(f func(*Block)) {
	f(b)
	for _, k := range b.Kids {
		k.preorder(f)
	}
}

// shapes(n) = all ordered rooted trees with exactly n nodes.
func shapes(n int) []*Block {
	var out []*Block
	for _, f := range forests(n - 1) {
		out = append(out, &Block{Kids: f})
	}
	return out
}

// forests(n) = all sequences of trees with n nodes in total.
func forests(n int) [][]*Block {
	if n == 0 {
		return [][]*Block{nil}
	}
	var out [][]*Block
	for first := 1; first <= n; first++ {
		for _, t := range shapes(first) {
			for _, rest := range forests(n - first) {
				f := []*Block{t.clone()}
				for _, r := range rest {
					f = append(f, r.clone())
				}
				out = append(out, f)
			}
		}
	}
	return out
}

// definitelyFails: the block's Transaction call fails in every execution
// (with or without faults: a fault can only add failures).
func definitelyFails(b *Block) bool {
	for _, k := range b.Kids {
		if !k.Swallow && definitelyFails(k) {
			return true
		}
	}
	return b.Outcome != outNil
}

// canon removes what can never execute: the siblings after a child that
// always fails and is propagated, and the parent's own outcome in that case
// (represented as nil).
func canon(b *Block) *Block {
	n := &Block{Outcome: b.Outcome, Swallow: b.Swallow}
	for _, k := range b.Kids {
		ck := canon(k)
		n.Kids = append(n.Kids, ck)
		if !ck.Swallow && definitelyFails(ck) {
			n.Outcome = outNil
			n.tailDead = true
			break
		}
	}
	return n
}

// allPrograms enumerates every labelled tree with <= maxBlocks blocks and
// depth <= maxDepth, canonicalised and de-duplicated. raw = labelled trees
// before de-duplication.
func allPrograms(maxBlocks, maxDepth int) (progs []*Block, raw int) {
	seen := map[string]bool{}
	for n := 1; n <= maxBlocks; n++ {
		for _, s := range shapes(n) {
			if s.depth() > maxDepth {
				continue
			}
			var nodes []*Block
			s.preorder(func(b *Block) { nodes = append(nodes, b) })
			var rec func(i int)
			rec = func(i int) {
				if i == len(nodes) {
					raw++
					c := canon(s)
					k := c.String()
					if !seen[k] {
						seen[k] = true
						id := 0
						c.number(&id)
						progs = append(progs, c)
					}
					return
				}
				for o := 0; o < 3; o++ {
					nodes[i].Outcome = o
					if i == 0 {
						rec(i + 1)
						continue
					}
					for sw := 0; sw < 2; sw++ {
						nodes[i].Swallow = sw == 1
						rec(i + 1)
					}
				}
			}
			rec(0)
		}
	}
	return
}

// withAncestorHandles returns every variant of the programs in which at least
// one nested block is opened from an ancestor's handle instead of its parent's.
func withAncestorHandles(progs []*Block, maxBlocks int) []*Block {
	var out []*Block
	for _, p := range progs {
		if p.size() > maxBlocks || p.depth() < 3 {
			continue
		}
		c := p.clone()
		type nd struct {
			b     *Block
			depth int
		}
		var deep []nd
		var walk func(b *Block, d int)
		walk = func(b *Block, d int) {
			if d >= 2 {
				deep = append(deep, nd{b, d})
			}
			for _, k := range b.Kids {
				walk(k, d+1)
			}
		}
		walk(c, 0)
		var rec func(i int, any bool)
		rec = func(i int, any bool) {
			if i == len(deep) {
				if any {
					v := c.clone()
					id := 0
					v.number(&id)
					out = append(out, v)
				}
				return
			}
			for f := 0; f < deep[i].depth; f++ {
				deep[i].b.From = f
				rec(i+1, any || f > 0)
			}
			deep[i].b.From = 0
		}
		rec(0, false)
	}
	return out
}

// withActions returns, for every program of at most maxBlocks blocks, the
// variants in which exactly one block (whose tail can run) carries one of the
// extra actions.
func withActions(progs []*Block, maxBlocks int) []*Block {
	var out []*Block
	for _, p := range progs {
		if p.size() > maxBlocks {
			continue
		}
		var nodes []*Block
		p.preorder(func(b *Block) { nodes = append(nodes, b) })
		for i, nb := range nodes {
			if nb.tailDead {
				continue
			}
			for act := 1; act < numActs; act++ {
				c := p.clone()
				var cn []*Block
				c.preorder(func(b *Block) { cn = append(cn, b) })
				cn[i].Act = act
				id := 0
				c.number(&id)
				out = append(out, c)
			}
		}
	}
	return out
}

// ---------------------------------------------------------------------------
// reference model: the table as a set of keys + a stack of snapshots

type model struct {
	cur   []string
	stack [][]string
}

func (m *model) push() { m.stack = append(m.stack, copyKeys(m.cur)) }
func (m *model) pop(restore bool) {
	top := m.stack[len(m.stack)-1]
	m.stack = m.stack[:len(m.stack)-1]
	if restore {
		m.cur = top
	}
}

// ---------------------------------------------------------------------------
// lock-step interpreter

type blockErr struct{ id int }

func (e *blockErr) Error() string { return fmt.Sprintf("block B%d returns an error", e.id) }

type panicVal struct{ id int }

type status struct {
	err      error
	panicked bool
	pv       interface{}
}

type treeObs struct {
	Kind      string // first violation kind ("" = none)
	Detail    string
	NViol     int
	Final     []string // reference final table
	Observed  []string
	AllWrites int
	Failed    int // blocks that failed
	Restored  int // snapshots restored
	NotEntered int
	Faults    []string // injected faults in program terms
	Act       int      // extra action present in the program
	HandleErrFailed int // blocks that failed while their own handle carried an error
	HandleErrSurfaced int // root blocks that returned nil, committed, and got their handle's error back
	SPFaultSwallowed bool // a SAVEPOINT fault hit a block whose failure the parent swallows
	Classes   []string // injected fault classes
	Trace     []string // reference trace (model events)
	Log       []string
	Outcome   string
}

func (o *treeObs) fingerprint() string {
	return o.Kind + "\n" + o.Detail + "\n" + keyList(o.Final) + keyList(o.Observed) + "\n" + strings.Join(o.Trace, ";") + "\n" + o.Outcome
}

type runner struct {
	env      *h.Env
	x        *mc.Exec
	noNested bool
	scope    string // "all" or "savepoint": which driver calls are fault points
	der      int    // handle derivation used by every block
	txs      []*gorm.DB // the tx handles of the blocks being executed, outermost first
	active   bool
	inj      []string
	where    string
	entering *Block
	m        model
	o        *treeObs
	errs     map[int]*blockErr
	pvs      map[int]*panicVal
	markers  map[int]*markerErr
	// handleErr[id] = an error the block left on its own handle (AddError, a
	// failed manual SavePoint/RollbackTo with a dialector that reports it)
	handleErr map[int]error
}

type markerErr struct{ id int }

func (e *markerErr) Error() string { return fmt.Sprintf("marker added to the handle of B%d", e.id) }

func (r *runner) fail(kind, format string, a ...interface{}) {
	r.o.NViol++
	if r.o.Kind == "" {
		r.o.Kind = kind
		r.o.Detail = fmt.Sprintf(format, a...)
	}
	r.logf("!! %s: %s", kind, fmt.Sprintf(format, a...))
}

func (r *runner) logf(format string, a ...interface{}) {
	r.o.Log = append(r.o.Log, fmt.Sprintf(format, a...))
}

func (r *runner) tracef(format string, a ...interface{}) {
	s := fmt.Sprintf(format, a...)
	r.o.Trace = append(r.o.Trace, s)
	r.o.Log = append(r.o.Log, "ref: "+s+"   table="+keyList(r.m.cur))
}

func (r *runner) fault(ev *recsqlite.Event) error {
	if !r.active {
		return nil
	}
	cls := faultClass(ev)
	if cls == "" {
		return nil
	}
	if r.scope == "savepoint" && cls != "savepoint" {
		return nil
	}
	if r.x.Choose(2, cls+" "+ev.Kind, 1) == 1 {
		r.inj = append(r.inj, cls)
		r.o.Classes = append(r.o.Classes, cls)
		if cls == "savepoint" && r.entering != nil && r.entering.Swallow {
			r.o.SPFaultSwallowed = true
		}
		r.o.Faults = append(r.o.Faults, fmt.Sprintf("%s: %s %s", r.where, ev.Kind, normSQL(ev.SQL)))
		r.logf("   FAULT injected at %s: %s %q", r.where, ev.Kind, normSQL(ev.SQL))
		return recsqlite.ErrInjected
	}
	return nil
}

func (r *runner) write(tx *gorm.DB, b *Block, suffix string) error {
	key := fmt.Sprintf("w%d%s", b.id, suffix)
	return r.writeKey(tx, b, key)
}

func (r *runner) writeKey(tx *gorm.DB, b *Block, key string) error {
	r.inj = r.inj[:0]
	r.where = fmt.Sprintf("B%d.write(%s)", b.id, key)
	err := tx.Create(&Row{K: key, V: 1}).Error
	if len(r.inj) > 0 {
		if !errors.Is(err, recsqlite.ErrInjected) {
			r.fail("statement fault not returned", "%s: driver call failed with the injected error, Create returned %v", r.where, err)
		}
		r.tracef("B%d write %s fails (fault)", b.id, key)
		return err
	}
	if err != nil {
		r.fail("write failed without fault", "%s: Create returned %v", r.where, err)
		return err
	}
	r.m.cur = addKey(r.m.cur, key)
	r.tracef("B%d write %s", b.id, key)
	return nil
}

func (r *runner) read(tx *gorm.DB, b *Block, n int) error {
	r.inj = r.inj[:0]
	r.where = fmt.Sprintf("B%d.read#%d", b.id, n)
	var rows []Row
	err := tx.Order("k").Find(&rows).Error
	if len(r.inj) > 0 {
		if !errors.Is(err, recsqlite.ErrInjected) {
			r.fail("statement fault not returned", "%s: driver call failed with the injected error, Find returned %v", r.where, err)
		}
		r.tracef("B%d read fails (fault)", b.id)
		return err
	}
	if err != nil {
		r.fail("read failed without fault", "%s: Find returned %v", r.where, err)
		return err
	}
	got := []string{}
	for _, x := range rows {
		got = append(got, x.K)
	}
	if !sameKeys(got, r.m.cur) {
		r.fail("read inside block differs from reference", "%s: read %s, reference %s", r.where, keyList(got), keyList(r.m.cur))
	}
	// the same through Row() (QueryRowContext), without fault injection
	act := r.active
	r.active = false
	cnt, rerr, pv, panicked := rowCount(tx)
	r.active = act
	switch {
	case panicked:
		r.fail("unexpected panic", "%s: Row() read panicked: %v", r.where, pv)
	case rerr != nil:
		r.fail("read failed without fault", "%s: Row() read returned %v", r.where, rerr)
	case cnt != len(r.m.cur):
		r.fail("read inside block differs from reference", "%s: Row() read counts %d rows, reference %s", r.where, cnt, keyList(r.m.cur))
	}
	r.tracef("B%d read", b.id)
	return nil
}

// body is the function handed to Transaction for block b.
func (r *runner) body(b *Block, tx *gorm.DB) error {
	// h: the handle the block's statements go through; nested Transaction
	// calls and the actions on "the block's own handle" stay on tx
	h := derive(tx, r.der)
	r.txs = append(r.txs, tx)
	defer func(n int) { r.txs = r.txs[:n] }(len(r.txs) - 1)
	if err := r.write(h, b, "a"); err != nil {
		return err
	}
	for i, k := range b.Kids {
		from := tx
		if k.From > 0 && k.From < len(r.txs) {
			// an ancestor's handle that is still in scope: same transaction
			from = r.txs[len(r.txs)-1-k.From]
			r.logf("   B%d is opened from the tx of the block %d level(s) above its parent", k.id, k.From)
		}
		st := r.callTx(from, k, false)
		if st.panicked {
			if !k.Swallow {
				panic(st.pv)
			}
			r.logf("   B%d recovers the panic of B%d", b.id, k.id)
		} else if st.err != nil {
			if !k.Swallow {
				return st.err
			}
			r.logf("   B%d ignores the error of B%d", b.id, k.id)
		}
		if err := r.read(h, b, i); err != nil {
			return err
		}
	}
	if err := r.write(h, b, "b"); err != nil {
		return err
	}
	if err := r.action(tx, h, b); err != nil {
		return err
	}
	switch b.Outcome {
	case outErr:
		return r.errs[b.id]
	case outPanic:
		panic(r.pvs[b.id])
	}
	return nil
}

// action performs the block's extra action on the block's own handle. A
// non-nil result is returned by the block at once (only a failed manual
// SavePoint or its write do that).
func (r *runner) action(tx, h *gorm.DB, b *Block) error {
	switch b.Act {
	case actAddError:
		tx.AddError(r.markers[b.id])
		r.handleErr[b.id] = r.markers[b.id]
		r.tracef("B%d AddError on its own handle", b.id)
	case actFailStmt:
		key := fmt.Sprintf("w%da", b.id) // exists: duplicate primary key
		r.inj = r.inj[:0]
		r.where = fmt.Sprintf("B%d.failing-insert(%s)", b.id, key)
		err := h.Create(&Row{K: key, V: 9}).Error
		if err == nil {
			r.fail("duplicate insert succeeded", "%s: Create returned nil", r.where)
		}
		if len(r.inj) > 0 && !errors.Is(err, recsqlite.ErrInjected) {
			r.fail("statement fault not returned", "%s: Create returned %v", r.where, err)
		}
		r.tracef("B%d statement fails, block goes on", b.id)
	case actManualSP:
		name := fmt.Sprintf("m%d", b.id)
		r.inj = r.inj[:0]
		r.where = fmt.Sprintf("B%d.SavePoint(%s)", b.id, name)
		err := tx.SavePoint(name).Error
		faulted := len(r.inj) > 0
		switch {
		case faulted && err == nil:
			r.fail("manual SavePoint fault not returned", "%s: the SAVEPOINT statement failed with the injected error, SavePoint().Error is nil", r.where)
		case faulted && !errors.Is(err, recsqlite.ErrInjected):
			r.fail("manual SavePoint fault not returned", "%s: SavePoint().Error = %v", r.where, err)
		case !faulted && err != nil:
			r.fail("manual SavePoint failed", "%s: %v", r.where, err)
		}
		if err != nil {
			r.handleErr[b.id] = err
			r.tracef("B%d manual SavePoint fails (fault), block returns the error", b.id)
			return err
		}
		snap := copyKeys(r.m.cur)
		r.tracef("B%d manual SavePoint", b.id)
		if err := r.writeKey(h, b, fmt.Sprintf("w%dm", b.id)); err != nil {
			return err
		}
		r.where = fmt.Sprintf("B%d.RollbackTo(%s)", b.id, name)
		// through the statement handle: another handle of the same transaction
		if err := h.RollbackTo(name).Error; err != nil {
			r.fail("manual RollbackTo failed", "%s: %v", r.where, err)
			r.handleErr[b.id] = err
		}
		r.m.cur = snap
		r.tracef("B%d manual RollbackTo", b.id)
	case actRTUnknown:
		r.where = fmt.Sprintf("B%d.RollbackTo(unknown)", b.id)
		err := tx.RollbackTo(fmt.Sprintf("nosuch%d", b.id)).Error
		if err != nil {
			r.handleErr[b.id] = err
		}
		r.logf("   B%d RollbackTo(unknown name): err=%v", b.id, err)
		r.tracef("B%d RollbackTo of an unknown name changes nothing", b.id)
	}
	return nil
}

// callTx runs db.Transaction for block b, keeps the reference model in step
// and checks what comes back against what went in.
func (r *runner) callTx(db *gorm.DB, b *Block, root bool) (st status) {
	r.inj = r.inj[:0]
	r.where = fmt.Sprintf("B%d.enter", b.id)
	r.entering = b
	var entered, bodyPanicked bool
	var bodyErr error
	var bodyPV interface{}
	preInj := 0
	func() {
		defer func() {
			if p := recover(); p != nil {
				st.panicked, st.pv = true, p
			}
		}()
		st.err = db.Transaction(func(tx *gorm.DB) (e error) {
			entered = true
			r.entering = nil
			preInj = len(r.inj)
			r.m.push()
			r.tracef("enter B%d", b.id)
			defer func() {
				p := recover()
				at := r.where
				r.inj = r.inj[:0]
				r.where = fmt.Sprintf("B%d.exit", b.id)
				if p != nil {
					if _, ours := p.(*panicVal); !ours {
						r.fail("unexpected panic", "inside B%d at %s: a panic the program did not throw: %v", b.id, at, p)
					}
					bodyPanicked, bodyPV = true, p
					panic(p)
				}
				bodyErr = e
			}()
			return r.body(b, tx)
		})
	}()
	r.entering = nil
	if !entered {
		faulted := len(r.inj) > 0
		switch {
		case st.panicked:
			r.fail("unexpected panic", "Transaction of B%d panicked before entering the block: %v", b.id, st.pv)
		case !faulted:
			r.fail("block not entered", "B%d: no fault at BEGIN/SAVEPOINT but the block function was not called (err=%v)", b.id, st.err)
		case !errors.Is(st.err, recsqlite.ErrInjected):
			r.fail("BEGIN/SAVEPOINT fault not returned", "B%d: Transaction returned %v", b.id, st.err)
		}
		r.o.NotEntered++
		r.tracef("B%d not entered (fault at BEGIN/SAVEPOINT)", b.id)
		return
	}
	if preInj > 0 {
		r.fail("block entered although SAVEPOINT/BEGIN failed", "B%d: the driver call opening the block failed with the injected error, the block function ran anyway", b.id)
	}
	commitFault := len(r.inj) > 0
	failed := bodyErr != nil || bodyPanicked || commitFault
	switch {
	case bodyPanicked:
		if !st.panicked {
			r.fail("panic swallowed", "B%d panicked with %v, Transaction returned err=%v", b.id, bodyPV, st.err)
		} else if !identical(st.pv, bodyPV) {
			r.fail("panic value changed", "B%d panicked with %v, recovered %v", b.id, bodyPV, st.pv)
		}
	case st.panicked:
		r.fail("unexpected panic", "Transaction of B%d panicked with %v although the block did not", b.id, st.pv)
	case bodyErr != nil:
		if !errors.Is(st.err, bodyErr) {
			r.fail("block error not returned", "B%d returned %v, Transaction returned %v", b.id, bodyErr, st.err)
		}
	case commitFault:
		if !errors.Is(st.err, recsqlite.ErrInjected) {
			r.fail("COMMIT fault not returned", "B%d: COMMIT failed with the injected error, Transaction returned %v", b.id, st.err)
		}
	default:
		he := r.handleErr[b.id]
		switch {
		case st.err == nil:
		case root && he != nil && errors.Is(st.err, he):
			// the block left an error on its own handle and returned nil: the
			// commit happened (the table is compared below); Commit().Error hands
			// the handle's error back. The property ties durability to what the
			// function returned, so this is recorded, not judged.
			r.o.HandleErrSurfaced++
			r.logf("   Transaction returned the error left on the handle (%v) after a successful commit", st.err)
		default:
			r.fail("error without cause", "B%d: block and commit succeeded, Transaction returned %v", b.id, st.err)
		}
	}
	if failed && r.handleErr[b.id] != nil {
		r.o.HandleErrFailed++
	}
	restore := failed && (root || !r.noNested)
	r.m.pop(restore)
	switch {
	case !failed:
		r.tracef("B%d ok", b.id)
	case restore:
		r.o.Failed++
		r.o.Restored++
		r.tracef("B%d fails -> its writes are undone", b.id)
	default:
		r.o.Failed++
		r.tracef("B%d fails -> nothing undone (nested transactions disabled)", b.id)
	}
	return
}

// TreeCase is the replay format of the block-tree part.
type TreeCase struct {
	Part     string   `json:"part"`
	Prog     *Block   `json:"program"`
	Cfg      int      `json:"config_bits"`
	Dial     int      `json:"dialector"`
	Scope    string   `json:"fault_scope"`
	Derive   int      `json:"derive,omitempty"` // how every block derives its statement handle from tx (see deriveName)
	Choices  []int    `json:"choices"`
	Readable string   `json:"readable,omitempty"`
	Faults   []string `json:"faults,omitempty"`
}

// execTreeSafe = execTree, with any panic that escapes it (none should: every
// call into gorm is guarded) turned into a violation of that execution.
func execTreeSafe(c *TreeCase, x *mc.Exec) (o *treeObs) {
	defer func() {
		if p := recover(); p != nil {
			o = &treeObs{Kind: "unexpected panic", Detail: fmt.Sprintf("escaped the execution: %v", p), NViol: 1, Outcome: "panic/escaped"}
		}
	}()
	return execTree(c, x)
}

// execTree runs one execution (program x configuration x fault choices).
func execTree(c *TreeCase, x *mc.Exec) (o *treeObs) {
	o = &treeObs{}
	env := openEnv(c.Cfg, c.Dial)
	defer env.Close()
	id := 0
	c.Prog.number(&id)
	r := &runner{env: env, x: x, noNested: c.Cfg&cfgNoNested != 0, scope: c.Scope, der: c.Derive, o: o,
		errs: map[int]*blockErr{}, pvs: map[int]*panicVal{}, markers: map[int]*markerErr{}, handleErr: map[int]error{}}
	c.Prog.preorder(func(b *Block) {
		r.errs[b.id] = &blockErr{b.id}
		r.pvs[b.id] = &panicVal{b.id}
		r.markers[b.id] = &markerErr{b.id}
		if b.Act != actNone {
			o.Act = b.Act
		}
	})
	o.AllWrites = 2 * id
	r.m.cur = []string{}
	env.Rec.Fault = r.fault
	r.active = true
	var st status
	func() {
		defer func() {
			if p := recover(); p != nil {
				// only a harness bug or a panic outside callTx' recover can land here
				r.fail("unexpected panic", "outside Transaction: %v", p)
			}
		}()
		st = r.callTx(env.DB, c.Prog, true)
	}()
	r.active = false
	switch {
	case st.panicked:
		o.Outcome = "panic"
	case st.err != nil:
		o.Outcome = "error"
	default:
		o.Outcome = "nil"
	}
	o.Final = copyKeys(r.m.cur)
	if fc := foreignConn(env.Rec.Events()); fc != "" {
		r.fail("statement outside the transaction's connection", "%s", fc)
	}
	leaks := env.Leaks()
	if leaks != "" {
		r.fail("leak", "after the outermost block: %s", leaks)
	}
	got, err := keysOutside(env)
	if err != nil {
		r.fail("table unreadable after block", "%v", err)
	} else {
		o.Observed = got
		if !sameKeys(got, r.m.cur) {
			r.fail("table differs from reference", "table %s, reference %s", keyList(got), keyList(r.m.cur))
		}
	}
	// the handle must still be usable
	env.Rec.Reset()
	var ferr error
	if pv, panicked := guard(func() { ferr = env.DB.Create(&Row{K: "zz-after", V: 2}).Error }); panicked {
		r.fail("unexpected panic", "follow-up Create on the same handle panicked: %v", pv)
	} else if ferr != nil {
		r.fail("follow-up write failed", "Create on the same handle after the block: %v", ferr)
	} else if got2, err := keysOutside(env); err != nil || !sameKeys(got2, addKey(got, "zz-after")) {
		r.fail("follow-up write not stored", "table %s err=%v", keyList(got2), err)
	}
	if l := env.Leaks(); l != "" && leaks == "" {
		r.fail("leak", "after the follow-up write: %s", l)
	}
	switch {
	case len(o.Final) == 0:
		o.Outcome += "/none"
	case len(o.Final) == o.AllWrites:
		o.Outcome += "/all"
	default:
		o.Outcome += "/partial"
	}
	return o
}

func hash64(s string) string {
	h := fnv.New64a()
	h.Write([]byte(s))
	return string(h.Sum(nil))
}

func treeTags(c *TreeCase, o *treeObs) []string {
	var tags []string
	tags = append(tags, "part:tree", "dialector:"+dialName[c.Dial])
	if c.Cfg&cfgPrepare != 0 {
		tags = append(tags, "cfg:PrepareStmt")
	}
	if c.Cfg&cfgNoNested != 0 {
		tags = append(tags, "cfg:DisableNestedTransaction")
	}
	if c.Cfg&cfgSkipDefault != 0 {
		tags = append(tags, "cfg:SkipDefaultTransaction")
	}
	seen := map[string]bool{}
	for _, cl := range o.Classes { // injected faults are part of the input (the choice list)
		if !seen[cl] {
			seen[cl] = true
			tags = append(tags, "fault:"+cl)
		}
	}
	if seen["savepoint"] && c.Dial == dialStock {
		// the shipped dialector drops the error of the SAVEPOINT statement
		tags = append(tags, "savepoint-fault/stock-sqlite-dialector")
	}
	if o.SPFaultSwallowed && c.Dial == dialStrict {
		// the error of a failed SavePoint sticks to the enclosing handle
		tags = append(tags, "savepoint-fault/strict-dialector/parent-continues")
	}
	if len(o.Classes) == 0 {
		tags = append(tags, "fault-free")
	}
	if o.Act != actNone {
		tags = append(tags, "act:"+actName[o.Act])
	}
	if c.Derive != derNone {
		tags = append(tags, "derive:"+deriveName[c.Derive])
	}
	anc := false
	c.Prog.preorder(func(b *Block) { anc = anc || b.From > 0 })
	if anc {
		tags = append(tags, "child-opened-from-ancestor-handle")
	}
	return tags
}
