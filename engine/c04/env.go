package main

import (
	"context"
	"database/sql"
	"fmt"
	"regexp"
	"sort"
	"strings"

	"gorm.io/driver/sqlite"
	"gorm.io/gorm"
	"gorm.io/gorm/logger"

	"verif/drivers/recsqlite"
	"verif/h"
)

// Row is the only model: a keyed table whose contents are a set of keys.
type Row struct {
	K string `gorm:"primaryKey"`
	V int
}

const table = "rows"

// configuration bits
const (
	cfgPrepare = 1 << iota
	cfgNoNested
	cfgSkipDefault
)

const (
	dialStock  = 0 // gorm.io/driver/sqlite as shipped
	dialStrict = 1 // same, but SavePoint/RollbackTo return the error of the statement (as the MySQL dialector does)
)

var dialName = []string{"stock", "strict-savepoint"}

// handle derivations: how a block obtains the handle it issues its statements
// through, from the tx it was given. Everything issued through such a handle
// belongs to tx's transaction.
const (
	derNone = iota
	derSessionPrepare
	derSession
	derSessionNewDB
	derWithContext
	derSkipHooks
	derDebug
	numDerive
)

var deriveName = []string{"tx", "tx.Session{PrepareStmt:true}", "tx.Session{}", "tx.Session{NewDB:true}", "tx.WithContext(ctx)", "tx.Session{SkipHooks:true}", "tx.Debug()"}

type ctxKey struct{}

func derive(tx *gorm.DB, kind int) *gorm.DB {
	switch kind {
	case derSessionPrepare:
		return tx.Session(&gorm.Session{PrepareStmt: true})
	case derSession:
		return tx.Session(&gorm.Session{})
	case derSessionNewDB:
		return tx.Session(&gorm.Session{NewDB: true})
	case derWithContext:
		return tx.WithContext(context.WithValue(context.Background(), ctxKey{}, "c04"))
	case derSkipHooks:
		return tx.Session(&gorm.Session{SkipHooks: true})
	case derDebug:
		return tx.Debug()
	}
	return tx
}

func cfgString(bits, dial int) string {
	on := func(b int) string {
		if bits&b != 0 {
			return "on"
		}
		return "off"
	}
	return fmt.Sprintf("PrepareStmt=%s DisableNestedTransaction=%s SkipDefaultTransaction=%s dialector=%s",
		on(cfgPrepare), on(cfgNoNested), on(cfgSkipDefault), dialName[dial])
}

// strictDialector is the SQLite dialector with the two save point methods
// reporting the error of the statement they send. The shipped dialector
// (v1.5.6) drops that error (`tx.Exec(..); return nil`), which makes the
// `err != nil` branch after db.SavePoint in DB.Transaction unreachable; this
// wrapper keeps that branch of /repo under test.
type strictDialector struct {
	*sqlite.Dialector
}

func (d strictDialector) SavePoint(tx *gorm.DB, name string) error {
	return tx.Exec("SAVEPOINT " + name).Error
}

func (d strictDialector) RollbackTo(tx *gorm.DB, name string) error {
	return tx.Exec("ROLLBACK TO SAVEPOINT " + name).Error
}

// openEnv = h.Open with the configuration bits and the dialector variant.
func openEnv(bits, dial int) *h.Env {
	rec := &recsqlite.Recorder{}
	sqldb := recsqlite.Open(rec)
	clock := new(int64)
	c := gorm.Config{
		PrepareStmt:              bits&cfgPrepare != 0,
		DisableNestedTransaction: bits&cfgNoNested != 0,
		SkipDefaultTransaction:   bits&cfgSkipDefault != 0,
		Logger:                   logger.Discard,
		NowFunc:                  h.CounterClock(clock),
	}
	rec.Pause()
	var d gorm.Dialector = sqlite.New(sqlite.Config{Conn: sqldb})
	if dial == dialStrict {
		d = strictDialector{d.(*sqlite.Dialector)}
	}
	db, err := gorm.Open(d, &c)
	rec.Resume()
	if err != nil {
		panic(fmt.Sprintf("c04 openEnv: %v", err))
	}
	e := &h.Env{DB: db, SQL: sqldb, Rec: rec, Clock: clock}
	e.MustExec("CREATE TABLE `rows` (`k` text PRIMARY KEY, `v` integer)")
	return e
}

// keysOutside reads the table through a pool connection (outside any transaction).
func keysOutside(e *h.Env) ([]string, error) {
	e.Rec.Pause()
	defer e.Rec.Resume()
	return keysOn(e.SQL)
}

type ctxQuerier interface {
	QueryContext(ctx context.Context, query string, args ...interface{}) (*sql.Rows, error)
}

func keysOn(q ctxQuerier) ([]string, error) {
	rows, err := q.QueryContext(context.Background(), "SELECT k FROM `rows` ORDER BY k")
	if err != nil {
		return nil, err
	}
	defer rows.Close()
	out := []string{}
	for rows.Next() {
		var k string
		if err := rows.Scan(&k); err != nil {
			return nil, err
		}
		out = append(out, k)
	}
	sort.Strings(out)
	return out, rows.Err()
}

// rawTx returns the *sql.Tx (or equivalent) below a gorm transaction handle.
func rawTx(tx *gorm.DB) gorm.ConnPool {
	p := tx.Statement.ConnPool
	if pt, ok := p.(*gorm.PreparedStmtTX); ok {
		return pt.Tx
	}
	return p
}

var spName = regexp.MustCompile(`sp[0-9]+`)

// normSQL replaces the random save point names by a fixed token.
func normSQL(s string) string {
	u := strings.ToUpper(s)
	if strings.HasPrefix(u, "SAVEPOINT ") || strings.HasPrefix(u, "ROLLBACK TO ") {
		return spName.ReplaceAllString(s, "sp#")
	}
	return s
}

// faultClass classifies a driver call as a fault point ("" = never faulted).
func faultClass(ev *recsqlite.Event) string {
	switch ev.Kind {
	case "begin":
		return "begin"
	case "commit":
		return "commit"
	case "prepare", "exec", "query", "stmt_exec", "stmt_query":
		u := strings.ToUpper(strings.TrimSpace(ev.SQL))
		switch {
		case strings.HasPrefix(u, "ROLLBACK"):
			return "" // faults on ROLLBACK / ROLLBACK TO are outside the property
		case strings.HasPrefix(u, "SAVEPOINT"):
			return "savepoint"
		}
		return "stmt"
	}
	return "" // rollback, stmt_close
}

func keyList(k []string) string { return "{" + strings.Join(k, ",") + "}" }

func copyKeys(k []string) []string { return append([]string{}, k...) }

func addKey(k []string, n string) []string {
	for _, x := range k {
		if x == n {
			return k
		}
	}
	out := append(copyKeys(k), n)
	sort.Strings(out)
	return out
}

func sameKeys(a, b []string) bool {
	if len(a) != len(b) {
		return false
	}
	for i := range a {
		if a[i] != b[i] {
			return false
		}
	}
	return true
}

// identical reports v == w without panicking on uncomparable dynamic types.
func identical(v, w interface{}) (same bool) {
	defer func() {
		if recover() != nil {
			same = false
		}
	}()
	return v == w
}

// guard runs f (a call into gorm) and reports a panic instead of letting it
// escape: a panic the program did not throw is a violation, never a crash of
// the run.
func guard(f func()) (pv interface{}, panicked bool) {
	defer func() {
		if p := recover(); p != nil {
			pv, panicked = p, true
		}
	}()
	f()
	return
}

// rowCount reads the number of rows through Row() (the QueryRowContext path of
// the connection pool interface). No fault is ever injected into it: what a
// failing Row() read hands to the caller is not part of this property.
func rowCount(h *gorm.DB) (n int, err error, pv interface{}, panicked bool) {
	pv, panicked = guard(func() {
		err = h.Model(&Row{}).Select("count(*)").Row().Scan(&n)
	})
	return
}

// foreignConn scans the recorded driver calls of one transaction (from its
// BEGIN to its COMMIT/ROLLBACK, or to the end of the log) and returns the first
// statement-level call that did not use the transaction's connection: every
// statement issued through a handle of the transaction runs on its sql.Tx.
func foreignConn(evs []recsqlite.Event) string {
	conn := -1
	for _, ev := range evs {
		switch {
		case conn < 0:
			if ev.Kind == "begin" && ev.Err == nil {
				conn = ev.Conn
			}
		case ev.Kind == "commit" || ev.Kind == "rollback":
			if ev.Conn == conn {
				return ""
			}
		case ev.IsStatement() && ev.Conn != conn:
			return fmt.Sprintf("%s %q on connection %d, the transaction runs on connection %d", ev.Kind, normSQL(ev.SQL), ev.Conn, conn)
		}
	}
	return ""
}
