// C04 — Transaction blocks commit everything on success and nothing on error
// or panic.
//
// Part 1 (E1, fault enumeration): every tree of nested Transaction blocks
// (<= 4 blocks, depth <= 4, outcome nil/error/panic per block, the parent
// propagating or swallowing each child's failure) x 8 configurations, executed
// fault-free and with every single (quick) / every pair (thorough) of injected
// driver faults at BEGIN / COMMIT / SAVEPOINT / data statements, in lock-step
// with a snapshot-stack reference model.
//
// Part 2 (E3, explicit-state BFS): the manual API — Begin followed by
// sequences over {write, SavePoint s1/s2, RollbackTo s1/s2, nested Transaction
// (nil/error/panic), Commit, Rollback} with canonical-state de-duplication.
package main

import (
	"encoding/json"
	"fmt"
	"os"
	"sort"
	"strings"
	"sync"
	"sync/atomic"
	"time"

	"verif/mc"
)

type job struct {
	prog  *Block
	pi    int
	cfg   int
	dial  int
	scope string
	bound int // highest fault bound this job takes part in
	base  bool // program without extra action (non-vacuity counters are taken on these)
	der   int  // handle derivation used by the blocks
}

type agg struct {
	executions, rawExecutions, points, maxDepth, overruns, diverged int64
	perLevel                                        [4]int64
	capped                                          int64
	minCompleted                                    int64
	faultFree, faultFreePartial                     int64
	partialExec                                     int64
	notEntered, restored, failedBlocks              int64
	faultsByClass                                   sync.Map
	unrecorded                                      int64
	actExec                                         [numActs]int64
	derExec                                         [numDerive]int64
	ancExec                                         int64
	handleErrFailed, handleErrSurfaced              int64
}

func replayMain(run *mc.Run, path string) {
	var probe struct {
		Part string `json:"part"`
	}
	if err := mc.LoadReplay(path, &probe); err != nil {
		fmt.Fprintln(os.Stderr, "HARNESS-ERROR:", err)
		os.Exit(3)
	}
	switch probe.Part {
	case "tree":
		var c TreeCase
		if err := mc.LoadReplay(path, &c); err != nil {
			fmt.Fprintln(os.Stderr, "HARNESS-ERROR:", err)
			os.Exit(3)
		}
		x := mc.NewExec(c.Choices)
		o := execTreeSafe(&c, x)
		fmt.Printf("program: %s\nconfig:  %s\nstatements through: %s\nfault scope: %s, choices %v\n", c.Prog, cfgString(c.Cfg, c.Dial), deriveName[c.Derive], c.Scope, c.Choices)
		fmt.Println(strings.Join(o.Log, "\n"))
		fmt.Printf("outcome %s; table after the outermost block %s, reference %s\n", o.Outcome, keyList(o.Observed), keyList(o.Final))
		if x.Diverged != "" {
			fmt.Fprintln(os.Stderr, "HARNESS-ERROR:", x.Diverged)
			os.Exit(3)
		}
		if o.Kind != "" {
			fmt.Printf("VIOLATION (still reproduces): %s\n  %s\n", o.Kind, o.Detail)
			os.Exit(1)
		}
		fmt.Println("no violation")
	case "manual":
		var c ManualCase
		if err := mc.LoadReplay(path, &c); err != nil {
			fmt.Fprintln(os.Stderr, "HARNESS-ERROR:", err)
			os.Exit(3)
		}
		w := &mworker{cfg: c.Cfg, dial: c.Dial, der: c.Derive, afterFailedBegin: c.AfterFailedBegin}
		r := w.step(c.Ops, c.Fault)
		fmt.Printf("sequence: %s\nfault point in last operation: %d (injected: %v)\nconfig:   %s\nwrites through: %s\n%s\n", opsString(c.Ops), c.Fault, r.injected, cfgString(c.Cfg, c.Dial), deriveName[c.Derive], strings.Join(r.log, "\n"))
		if r.harnessErr != "" {
			fmt.Fprintln(os.Stderr, "HARNESS-ERROR:", r.harnessErr)
			os.Exit(3)
		}
		if r.sig != "" {
			fmt.Printf("state: %s\n", r.sig)
		}
		if r.kind != "" {
			fmt.Printf("VIOLATION (still reproduces): %s\n  %s\n", r.kind, r.detail)
			os.Exit(1)
		}
		fmt.Println("no violation")
	default:
		fmt.Fprintf(os.Stderr, "HARNESS-ERROR: unknown replay part %q\n", probe.Part)
		os.Exit(3)
	}
	_ = run
}

func main() {
	args := mc.ParseArgs()
	run := mc.NewRun("C04", args.Tier, "fault_enumeration")
	if args.Replay != "" {
		replayMain(run, args.Replay)
		return
	}
	thorough := args.Tier == "thorough"
	start := time.Now()

	// ------------------------------------------------------------------ part 2 (runs beside part 1)
	manualDepth := 5
	if thorough {
		manualDepth = 6
	}
	type mkey struct{ cfg, der int }
	mres := map[mkey]*manualResult{}
	var mmu sync.Mutex
	var mwg sync.WaitGroup
	manualEnd := start
	manualDeadline := start.Add(150 * time.Second)
	if thorough {
		manualDeadline = start.Add(9 * time.Minute)
	}
	manualCapped := 0
	// the manual part injects no SAVEPOINT faults, so the strict dialector
	// would only differ for RollbackTo on a missing name (a caller error)
	// (shipped dialector only). Writes go through tx itself (full depth) or
	// through each derived handle (two operations less). 8 worker goroutines.
	type mjob struct{ cfg, der int }
	mjobs := make(chan mjob, 8*numDerive)
	for der := 0; der < numDerive; der++ {
		for cfg := 0; cfg < 8; cfg++ {
			mjobs <- mjob{cfg, der}
		}
	}
	close(mjobs)
	for wk := 0; wk < 8; wk++ {
		mwg.Add(1)
		go func() {
			defer mwg.Done()
			for j := range mjobs {
				d := manualDepth
				if j.der != derNone {
					d -= 2
				}
				r := bfs(j.cfg, dialStock, j.der, d, manualDeadline)
				mmu.Lock()
				mres[mkey{j.cfg, j.der}] = r
				manualEnd = time.Now()
				mmu.Unlock()
			}
		}()
	}
	// ------------------------------------------------------------------ part 1
	progs, raw := allPrograms(4, 4)
	bound := 1
	if thorough {
		bound = 2
	}
	var jobs []job
	for pi, p := range progs {
		for cfg := 0; cfg < 8; cfg++ {
			// the shipped dialector: every fault point
			jobs = append(jobs, job{p, pi, cfg, dialStock, "all", bound, true, derNone})
			// the strict dialector differs only when a SAVEPOINT statement
			// fails: quick enumerates exactly those faults, thorough everything
			if cfg&cfgNoNested == 0 && p.size() > 1 {
				if thorough {
					jobs = append(jobs, job{p, pi, cfg, dialStrict, "all", bound, true, derNone})
				} else {
					jobs = append(jobs, job{p, pi, cfg, dialStrict, "savepoint", bound, true, derNone})
				}
			}
		}
	}
	// programs in which one block performs an extra action on its own handle
	// (AddError / failing statement / manual SavePoint+RollbackTo / RollbackTo
	// of an unknown name). Fault bound by tree size: quick = <=3 blocks
	// fault-free, <=2 blocks with <=1 fault; thorough = <=4 blocks fault-free,
	// <=3 blocks <=1 fault, <=2 blocks <=2 faults. The strict dialector (which
	// reports the errors of the manual calls) runs the two manual actions.
	// These jobs are cheap and go first so that a deadline never drops them.
	actBlocks := 3
	if thorough {
		actBlocks = 4
	}
	actProgs := withActions(progs, actBlocks)
	var actJobs []job
	for ai, p := range actProgs {
		jb := actBlocks - p.size()
		if jb > bound {
			jb = bound
		}
		for cfg := 0; cfg < 8; cfg++ {
			actJobs = append(actJobs, job{p, len(progs) + ai, cfg, dialStock, "all", jb, false, derNone})
			var act int
			p.preorder(func(b *Block) { act += b.Act })
			if act == actManualSP || act == actRTUnknown {
				actJobs = append(actJobs, job{p, len(progs) + ai, cfg, dialStrict, "all", jb, false, derNone})
			}
		}
	}
	// handle derivations inside blocks: every block issues its statements
	// through a handle derived from its tx (deriveName). Fault bound by tree
	// size as for the block actions: quick = <=3 blocks fault-free, <=2 blocks
	// <=1 fault; thorough = <=4 blocks fault-free, <=3 blocks <=1 fault, <=2
	// blocks <=2 faults; plus the block-action programs of <=2 blocks, fault-free.
	var derJobs []job
	for der := 1; der < numDerive; der++ {
		for pi, p := range progs {
			jb := actBlocks - p.size()
			if jb < 0 {
				continue
			}
			if jb > bound {
				jb = bound
			}
			for cfg := 0; cfg < 8; cfg++ {
				derJobs = append(derJobs, job{p, pi, cfg, dialStock, "all", jb, false, der})
			}
		}
		for ai, p := range actProgs {
			if p.size() > 2 {
				continue
			}
			for cfg := 0; cfg < 8; cfg++ {
				derJobs = append(derJobs, job{p, len(progs) + ai, cfg, dialStrict, "all", 0, false, der})
			}
		}
	}
	// nested blocks opened from an ancestor's handle (root tx, grand-parent tx)
	// instead of the handle their parent's callback received: every combination
	// for the blocks at depth >= 2. quick = all trees fault-free, <=3 blocks
	// <=1 fault; thorough = all trees <=1 fault, <=3 blocks <=2 faults.
	ancProgs := withAncestorHandles(progs, 4)
	var ancJobs []job
	for ai, p := range ancProgs {
		jb := 0
		switch {
		case p.size() <= 3:
			jb = bound
		case thorough:
			jb = 1
		}
		for cfg := 0; cfg < 8; cfg++ {
			ancJobs = append(ancJobs, job{p, len(progs) + len(actProgs) + ai, cfg, dialStock, "all", jb, false, derNone})
			if cfg&cfgNoNested == 0 && jb > 0 {
				ancJobs = append(ancJobs, job{p, len(progs) + len(actProgs) + ai, cfg, dialStrict, "savepoint", jb, false, derNone})
			}
		}
	}
	jobs = append(append(append(actJobs, derJobs...), ancJobs...), jobs...)
	var deadline time.Time
	if thorough {
		deadline = start.Add(9 * time.Minute)
	} else {
		deadline = start.Add(150 * time.Second)
	}

	a := &agg{minCompleted: -1}
	distinct := &mc.Set{}
	outcomes := &mc.Set{}
	partialProgs := [2]*mc.Set{{}, {}}
	samples := &mc.Samples{N: 6}
	var rechecks int64
	var skipped int64

	// runPass explores every job up to passBound faults; executions with fewer
	// than minLevel faults were evaluated by an earlier pass and are only
	// re-executed (the explorer needs their choice points), not re-counted.
	// Passes are ordered by bound so that a deadline leaves a completed bound.
	runPass := func(passBound, minLevel int) bool {
		var next int64 = -1
		var passSkipped, passCapped int64
		var wg sync.WaitGroup
		for wk := 0; wk < 16; wk++ {
			wg.Add(1)
			go func() {
				defer wg.Done()
				for {
					n := atomic.AddInt64(&next, 1)
					if int(n) >= len(jobs) {
						return
					}
					j := jobs[n]
					if j.bound < minLevel {
						continue
					}
					eb := passBound
					if j.bound < eb {
						eb = j.bound
					}
					if time.Now().After(deadline) {
						atomic.AddInt64(&passSkipped, 1)
						continue
					}
					mk := func(x *mc.Exec) *TreeCase {
						return &TreeCase{Part: "tree", Prog: j.prog.clone(), Cfg: j.cfg, Dial: j.dial, Scope: j.scope, Derive: j.der}
					}
					e := &mc.Explorer{Bound: eb, Workers: 1, Deadline: deadline,
						Run: func(x *mc.Exec) interface{} { return execTreeSafe(mk(x), x) },
					}
					e.Check = func(x *mc.Exec, ob interface{}) {
						o := ob.(*treeObs)
						lvl := x.Deviations()
						if lvl < minLevel {
							return
						}
						atomic.AddInt64(&a.executions, 1)
						atomic.AddInt64(&a.points, int64(len(x.Points)))
						if lvl < len(a.perLevel) {
							atomic.AddInt64(&a.perLevel[lvl], 1)
						}
						for {
							m := atomic.LoadInt64(&a.maxDepth)
							if int64(len(x.Points)) <= m || atomic.CompareAndSwapInt64(&a.maxDepth, m, int64(len(x.Points))) {
								break
							}
						}
						if j.der != derNone {
							atomic.AddInt64(&a.derExec[j.der], 1)
						}
						if j.pi >= len(progs)+len(actProgs) {
							atomic.AddInt64(&a.ancExec, 1)
						}
						if o.Act != actNone {
							atomic.AddInt64(&a.actExec[o.Act], 1)
							atomic.AddInt64(&a.handleErrFailed, int64(o.HandleErrFailed))
							atomic.AddInt64(&a.handleErrSurfaced, int64(o.HandleErrSurfaced))
						}
						if len(o.Classes) == 0 && j.scope == "all" && j.base {
							atomic.AddInt64(&a.faultFree, 1)
							if len(o.Final) > 0 && len(o.Final) < o.AllWrites {
								atomic.AddInt64(&a.faultFreePartial, 1)
								partialProgs[(j.cfg&cfgNoNested)/cfgNoNested].Add(j.prog.String())
							}
						}
						if len(o.Final) > 0 && len(o.Final) < o.AllWrites {
							atomic.AddInt64(&a.partialExec, 1)
						}
						atomic.AddInt64(&a.notEntered, int64(o.NotEntered))
						atomic.AddInt64(&a.restored, int64(o.Restored))
						atomic.AddInt64(&a.failedBlocks, int64(o.Failed))
						for _, cl := range o.Classes {
							v, _ := a.faultsByClass.LoadOrStore(cl, new(int64))
							atomic.AddInt64(v.(*int64), 1)
						}
						if o.Failed > 0 || o.NotEntered > 0 {
							// non-trivial: something failed, so something had to be undone or passed on
							if distinct.Add(hash64(fmt.Sprintf("%d|%d|%d|%d|%s", j.pi, j.cfg, j.dial, j.der, strings.Join(o.Trace, ";")))) {
								if len(o.Classes) > 0 && o.Restored > 0 && len(o.Final) > 0 {
									samples.Add(map[string]interface{}{"program": j.prog.String(), "config": cfgString(j.cfg, j.dial),
										"faults": o.Faults, "reference_trace": o.Trace, "final_table": o.Final, "returned": o.Outcome})
								}
							}
						}
						k := o.Kind
						if k != "" {
							k = "VIOLATION"
						}
						outcomes.Add(fmt.Sprintf("%s|%s|failed=%d|notentered=%d", o.Outcome, k, o.Failed, o.NotEntered))
						if o.Kind == "" {
							return
						}
						c := mk(x)
						c.Choices = x.ChoiceInts()
						c.Readable = c.Prog.String() + " :: " + cfgString(c.Cfg, c.Dial) + " statements through " + deriveName[c.Derive]
						c.Faults = o.Faults
						if atomic.AddInt64(&rechecks, 1) <= 8 {
							fp := o.fingerprint()
							for i := 0; i < 4; i++ {
								x2 := mc.NewExec(c.Choices)
								o2 := execTreeSafe(mk(x2), x2)
								if o2.fingerprint() != fp || x2.Diverged != "" {
									run.HarnessError("nondeterministic execution: %s choices %v: %q vs %q %s", c.Readable, c.Choices, fp, o2.fingerprint(), x2.Diverged)
									return
								}
							}
						}
						if run.NumViolations() > 3000 {
							atomic.AddInt64(&a.unrecorded, 1)
							return
						}
						msg := fmt.Sprintf("%s\nprogram %s\n%s\nfaults: %s\n%s\nreturned %s; table %s, reference %s\nlog:\n  %s",
							o.Kind, c.Prog, cfgString(c.Cfg, c.Dial)+"; statements through "+deriveName[c.Derive], strings.Join(o.Faults, " + "), o.Detail, o.Outcome,
							keyList(o.Observed), keyList(o.Final), strings.Join(o.Log, "\n  "))
						run.Violation(treeTags(c, o), msg, c)
					}
					e.Explore()
					atomic.AddInt64(&a.rawExecutions, e.Executions)
					atomic.AddInt64(&a.overruns, e.Overruns)
					atomic.AddInt64(&a.diverged, e.Diverged)
					if e.Capped {
						atomic.AddInt64(&passCapped, 1)
					}
					if e.Diverged > 0 {
						run.HarnessError("replay divergence in %s %s: %s", j.prog, cfgString(j.cfg, j.dial), e.FirstDivergence)
					}
				}
			}()
		}
		wg.Wait()
		atomic.AddInt64(&a.capped, passCapped)
		atomic.AddInt64(&skipped, passSkipped)
		return passCapped == 0 && passSkipped == 0
	}
	if runPass(1, 0) {
		a.minCompleted = 1
		if thorough && runPass(2, 2) {
			a.minCompleted = 2
		}
	}

	mwg.Wait()
	manualWall := manualEnd.Sub(start).Seconds()
	var mStates, mTrans, mFaulted int
	var mReplays int64
	var mSamples []interface{}
	mPerCfg := map[string]interface{}{}
	for cfg := 0; cfg < 8; cfg++ {
		for der := 0; der < numDerive; der++ {
			dial := dialStock
			r := mres[mkey{cfg, der}]
			if r.harnessErr != "" {
				run.HarnessError("manual BFS (%s): %s", cfgString(cfg, dial), r.harnessErr)
			}
			mStates += r.states
			mTrans += r.transitions
			mFaulted += r.faulted
			if r.capped {
				manualCapped++
			}
			mReplays += r.replays
			for _, s := range r.samples {
				if len(mSamples) < 4 {
					mSamples = append(mSamples, s)
				}
			}
			mPerCfg[cfgString(cfg, dial)+" writes through "+deriveName[der]] = map[string]interface{}{"states": r.states, "transitions": r.transitions, "states_per_depth": r.statesPerDepth, "states_with_live_save_point": r.withSavepoints}
			for _, v := range r.viol {
				tags := []string{"part:manual", "dialector:" + dialName[dial]}
				if der != derNone {
					tags = append(tags, "derive:"+deriveName[der])
				}
				if v.c.Fault > 0 {
					tags = append(tags, "fault-in-last-op")
				}
				for _, o := range v.c.Ops {
					tags = append(tags, "op:"+opName[o])
				}
				run.Violation(dedup(tags), fmt.Sprintf("%s\n%s\n%s\n%s\nlog:\n  %s", v.kind, v.c.Readable, cfgString(cfg, dial)+"; writes through "+deriveName[der], v.detail, strings.Join(v.log, "\n  ")), v.c)
			}
		}
	}


	exhaustive := a.minCompleted == int64(bound) && manualCapped == 0
	nProg := len(progs)
	partialOn, partialOff := partialProgs[0].Len(), partialProgs[1].Len()
	// non-vacuity floors (see rule): measured on the fault-free executions
	if run.NumViolations() == 0 && a.minCompleted >= 1 {
		if a.faultFree == 0 || float64(a.faultFreePartial)/float64(a.faultFree) < 0.10 {
			run.HarnessError("vacuous: only %d of %d fault-free (program,configuration) executions end in a partial rollback", a.faultFreePartial, a.faultFree)
		}
		if float64(partialOn) < 0.20*float64(nProg) || partialOff < 30 {
			run.HarnessError("vacuous: programs with partial rollback: %d (nested on) %d (nested off)", partialOn, partialOff)
		}
		if manualCapped == 0 && (mStates < 8*100 || mTrans < 8*1000 || mFaulted < 8*500) {
			run.HarnessError("vacuous: manual BFS reached %d states / %d transitions", mStates, mTrans)
		}
		for act := 1; act < numActs; act++ {
			if a.actExec[act] < 1000 {
				run.HarnessError("vacuous: only %d executions with the block action %s", a.actExec[act], actName[act])
			}
		}
		for der := 1; der < numDerive; der++ {
			if a.derExec[der] < 1000 {
				run.HarnessError("vacuous: only %d executions with statements through %s", a.derExec[der], deriveName[der])
			}
		}
		if a.ancExec < 5000 {
			run.HarnessError("vacuous: only %d executions with a block opened from an ancestor's handle", a.ancExec)
		}
		if a.handleErrFailed < 500 {
			run.HarnessError("vacuous: only %d blocks failed while their own handle carried an error", a.handleErrFailed)
		}
		if a.notEntered == 0 || a.restored == 0 {
			run.HarnessError("vacuous: no block was kept out by a fault (%d) or no snapshot restored (%d)", a.notEntered, a.restored)
		}
	}
	fb := map[string]int64{}
	a.faultsByClass.Range(func(k, v interface{}) bool { fb[k.(string)] = *v.(*int64); return true })

	run.Assume("SQLite only (in-memory, shared cache) behind the recording driver; a fault on COMMIT rolls the database transaction back; faults on ROLLBACK / ROLLBACK TO SAVEPOINT are never injected")
	run.Assume("dialector 'strict-savepoint' = gorm.io/driver/sqlite v1.5.6 with SavePoint/RollbackTo returning the statement's error (as the MySQL dialector does); the shipped SQLite dialector drops it, so gorm's own handling of a failed SavePoint is only reachable through the wrapper")
	run.Assume("Transaction/Begin are called on the root *gorm.DB handle; writes are single-row Create calls, reads are Find; TxOptions and contexts with deadlines are outside the alphabet; SQLite's own SAVEPOINT stack is trusted")
	run.Assume("RollbackTo on a name without a live save point must change nothing; whether it reports an error is not checked; the manual part runs on the shipped dialector only and injects faults at BEGIN / COMMIT / data statements (not SAVEPOINT) of the last operation of each sequence")
	rule := fmt.Sprintf("part 1: all labelled trees of nested Transaction blocks with <=4 blocks, depth <=4 (%d labelled trees, %d after removing code that can never run), each block = write; {child; read}*; write; outcome nil/error/panic, parent propagates or swallows (recovers) each child's failure; x 8 configurations {PrepareStmt, DisableNestedTransaction, SkipDefaultTransaction}; each pair explored by the E1 explorer with every combination of <=%d injected driver faults over all BEGIN, COMMIT, SAVEPOINT, prepare/exec/query calls (shipped dialector) and additionally with the strict-savepoint dialector (quick: SAVEPOINT faults only); in addition programs in which one block performs an extra action on its own handle after its second write (tx.AddError(marker) | a statement failing on a duplicate key | tx.SavePoint(m); write; tx.RollbackTo(m) | tx.RollbackTo(unknown name)), both dialectors, trees of <=%d blocks (fault bound shrinking with tree size, see executions_with_block_action); and programs in which every block issues its statements through a handle derived from its tx (%v); and every variant of the trees in which blocks at depth >=2 are opened from an ancestor's tx handle (still in scope) instead of their parent's; oracle in lock-step: snapshot-stack model, errors.Is/identical panic value at every Transaction call, reads inside blocks, final table, leaks, follow-up write. distinct_nontrivial = distinct (program, configuration, reference trace) with at least one failing or fault-blocked block. part 2: BFS over Begin + sequences of <=%d operations from %v per configuration (shipped dialector) with the writes going through tx itself, and with two operations less through each derived handle, de-duplicated on the canonical implementation state (table inside the transaction + error stored on the handle + recursively probed save point stack), compared with the reference state at every transition; every transition is repeated with a fault at each BEGIN / COMMIT / data-statement driver call of its last operation, followed by a usability probe (write; Commit)", raw, nProg, bound, actBlocks, deriveName[1:], manualDepth, opName)
	cov := map[string]interface{}{
		"evaluations":         a.executions + int64(mTrans) + int64(mFaulted),
		"distinct_nontrivial": distinct.Len(),
		"rule":                rule,
		"samples":             append(samples.List(), mSamples...),
		"exhaustive":          exhaustive,
		"programs":            nProg,
		"labelled_trees_before_dedup": raw,
		"program_config_pairs":        len(jobs),
		"tree_executions":             a.executions,
		"tree_executions_incl_reexecuted_prefix_levels": a.rawExecutions,
		"executions_per_fault_count":  a.perLevel[:bound+1],
		"fault_bound_requested":       bound,
		"fault_bound_completed":       a.minCompleted,
		"choice_points_total":         a.points,
		"max_choice_points":           a.maxDepth,
		"explorations_capped":         a.capped,
		"jobs_skipped_by_deadline":    skipped,
		"faults_injected_by_class":    fb,
		"nv_fault_free_executions":    a.faultFree,
		"nv_fault_free_partial_rollback": a.faultFreePartial,
		"nv_programs_partial_rollback_nested_on":  partialOn,
		"nv_programs_partial_rollback_nested_off": partialOff,
		"nv_executions_partial_rollback":          a.partialExec,
		"executions_with_derived_handle": derMap(a.derExec[:]),
		"programs_with_block_opened_from_ancestor_handle":   len(ancProgs),
		"executions_with_block_opened_from_ancestor_handle": a.ancExec,
		"programs_with_block_action":    len(actProgs),
		"executions_with_block_action":  map[string]int64{actName[1]: a.actExec[1], actName[2]: a.actExec[2], actName[3]: a.actExec[3], actName[4]: a.actExec[4]},
		"nv_blocks_failed_with_error_on_own_handle": a.handleErrFailed,
		"root_blocks_returning_handle_error_after_commit": a.handleErrSurfaced,
		"blocks_failed":                 a.failedBlocks,
		"snapshots_restored":            a.restored,
		"blocks_kept_out_by_fault":      a.notEntered,
		"distinct_outcomes":             outcomes.Len(),
		"violations_not_recorded":       a.unrecorded,
		"states":                        mStates,
		"transitions":                   mTrans,
		"traces_validated_against_impl": mTrans,
		"manual_transitions_with_injected_fault": mFaulted,
		"manual_depth":                  manualDepth,
		"manual_bfs_capped_by_deadline": manualCapped,
		"manual_replays_incl_probes":    mReplays,
		"manual_per_configuration":      mPerCfg,
		"manual_wall_s":                 float64(int(manualWall*10)) / 10,
	}
	if b, err := json.Marshal(cov); err != nil || len(b) == 0 {
		run.HarnessError("coverage not serialisable: %v", err)
	}
	run.Finish(cov)
}

func derMap(c []int64) map[string]int64 {
	m := map[string]int64{}
	for d := 1; d < numDerive; d++ {
		m[deriveName[d]] = c[d]
	}
	return m
}

func dedup(in []string) []string {
	seen := map[string]bool{}
	var out []string
	for _, s := range in {
		if !seen[s] {
			seen[s] = true
			out = append(out, s)
		}
	}
	sort.Strings(out)
	return out
}
