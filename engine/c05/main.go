// C05 — each single write operation is all-or-nothing under any failure and
// reports it.
//
// E1 fault enumeration on the real gorm code: for every write operation of the
// shared catalogue (verif/opcat) the fault-free run fixes the driver calls (N)
// and hook invocations (H); then every execution with <= Bound injected faults
// (quick: 1, thorough: 3) is run on a fresh in-memory SQLite database behind the
// recording driver: each driver call (BEGIN, SAVEPOINT, every
// INSERT/UPDATE/DELETE/SELECT, COMMIT — never a ROLLBACK) fails instead of
// executing, each hook invocation returns an error.
//
// Oracle: whenever a fault fired the full dump of all tables equals the
// pre-state, the result error is non-nil and wraps the injected error, and no
// driver transaction / connection stays open. The fault-free run must be
// deterministic (differential: two fresh environments give the same dump) and
// its row counts must match the hand-written expectation of the catalogue.
package main

import (
	"context"
	"database/sql"
	"errors"
	"fmt"
	"os"
	"regexp"
	"runtime"
	"sort"
	"strings"
	"sync"
	"sync/atomic"
	"time"

	"gorm.io/gorm"

	"verif/drivers/recsqlite"
	"verif/mc"
	"verif/opcat"
)

// Case is the replay format: the input of one execution.
type Case struct {
	Op       string   `json:"op"`
	Dialect  string   `json:"dialect"` // returning | lastinsertid
	Choices  []int    `json:"choices"`
	Trace    []string `json:"trace,omitempty"`
	Readable string   `json:"readable,omitempty"`
}

var spName = regexp.MustCompile(`sp\d+`)

func normSQL(s string) string { return spName.ReplaceAllString(s, "sp#") }

func short(s string) string {
	s = normSQL(s)
	if len(s) > 70 {
		s = s[:70] + "…"
	}
	return s
}

// faultable: every driver call except rollbacks (ROLLBACK and ROLLBACK TO
// SAVEPOINT) and statement close.
func faultable(ev *recsqlite.Event) bool {
	switch ev.Kind {
	case "begin", "commit", "prepare", "exec", "query", "stmt_exec", "stmt_query":
		return !strings.HasPrefix(strings.ToUpper(strings.TrimSpace(ev.SQL)), "ROLLBACK")
	}
	return false
}

func isWriteSQL(s string) bool {
	u := strings.ToUpper(strings.TrimSpace(s))
	return strings.HasPrefix(u, "INSERT") || strings.HasPrefix(u, "UPDATE") || strings.HasPrefix(u, "DELETE")
}

type point struct {
	kind string // begin commit exec query … | hook
	key  string // content key (kind + normalised SQL / hook label + occurrence)
}

type obs struct {
	err       error
	errStr    string
	panicMsg  string
	leaks     string
	pre, dump string
	fired     []string // labels of the faults that fired, in order
	firedDrv  int
	firedHook int
	// firedCancel: the operation's context was cancelled at that many points
	firedCancel int
	nRowFired   int
	rowFaultSeq int // event index of the query whose result set was broken first (-1: none)
	// notJudged: a cancellation was not noticed by database/sql within the
	// bounded wait; the execution is counted, not judged.
	notJudged bool
	points    []point // every fault point met, in order
	nDrv      int
	nHook     int
	// lateFault: the first fired fault came after >= 1 successful
	// INSERT/UPDATE/DELETE of the operation.
	lateFault bool
	// commitsBeforeFirstFault counts successful commits before the first fault.
	commitsBeforeFirstFault int
	events                  []string
	hooks                   []string
	hung                    bool
}

func (o *obs) fingerprint() string {
	return strings.Join([]string{o.errStr, o.panicMsg, o.leaks, o.dump, strings.Join(o.fired, ",")}, "\x00")
}

func (o *obs) keys() []string {
	out := make([]string, len(o.points))
	for i, p := range o.points {
		out[i] = p.key
	}
	return out
}

// waitUntil polls cond a bounded number of times (about 20s of sleeping at
// most; normally it returns after a few iterations).
func waitUntil(cond func() bool) bool {
	for i := 0; i < 100000; i++ {
		if cond() {
			return true
		}
		if i < 100 {
			runtime.Gosched()
		} else {
			time.Sleep(200 * time.Microsecond)
		}
	}
	return cond()
}

// watchdog only separates "never returns" from "returns": it is far above any
// stall a loaded machine can cause (a 30s limit produced false alarms at load
// average > 100), and the tier deadline stops workers from starting new cases,
// so a real deadlock costs each worker at most one such wait.
const watchdog = 5 * time.Minute

// execute runs one operation on a fresh environment. In in-line mode every
// fault point asks x.Choose when it is reached; in up-front mode (operations
// whose nested statements are issued in map order) the faults are chosen before
// the operation starts, one binary choice per content key of the fault-free
// run, and a call fails iff its key was chosen.
// execute runs one execution under a watchdog: an operation that does not
// return (deadlock) is reported instead of hanging the run.
func execute(op opcat.Op, dialect string, x *mc.Exec, upfront []string) *obs {
	try := func(x *mc.Exec) *obs {
		done := make(chan *obs, 1)
		go func() { done <- executeRaw(op, dialect, x, upfront) }()
		select {
		case o := <-done:
			return o
		case <-time.After(watchdog):
			return nil
		}
	}
	if o := try(x); o != nil {
		return o
	}
	// the execution did not return: keep the goroutine stacks, then run the same
	// choice list once more. Only a hang that reproduces is a verdict; a single
	// one is counted as not judged (no wall-clock oracle).
	buf := make([]byte, 1<<20)
	buf = buf[:runtime.Stack(buf, true)]
	noteHang(fmt.Sprintf("%s [%s] choices %v", op.Name, dialect, x.ChoiceInts()), string(buf))
	x2 := mc.NewExec(x.ChoiceInts())
	if o := try(x2); o != nil {
		atomic.AddInt64(&hangsNotReproduced, 1)
		*x = *x2
		return o
	}
	return &obs{hung: true, fired: []string{"(unknown: execution hung twice)"}}
}

var (
	hangsNotReproduced int64
	hangMu             sync.Mutex
	hangSamples        []string
)

// noteHang keeps the gorm / database/sql related part of the goroutine dump of
// the first few executions that hit the watchdog.
func noteHang(what, stacks string) {
	var keep []string
	for _, g := range strings.Split(stacks, "\n\n") {
		if strings.Contains(g, "gorm.io/gorm") || strings.Contains(g, "database/sql") || strings.Contains(g, "go-sqlite3") {
			if len(g) > 1500 {
				g = g[:1500] + "…"
			}
			keep = append(keep, g)
		}
		if len(keep) >= 6 {
			break
		}
	}
	hangMu.Lock()
	if len(hangSamples) < 3 {
		hangSamples = append(hangSamples, what+"\n"+strings.Join(keep, "\n\n"))
	}
	hangMu.Unlock()
	fmt.Fprintf(os.Stderr, "WATCHDOG: execution did not return within %s: %s\n", watchdog, what)
}

func executeRaw(op opcat.Op, dialect string, x *mc.Exec, upfront []string) *obs {
	o := &obs{rowFaultSeq: -1}
	// configuration = dialector[|pre=<prelude>]
	preName := ""
	if i := strings.Index(dialect, "|pre="); i >= 0 {
		dialect, preName = dialect[:i], dialect[i+len("|pre="):]
	}
	var cfg *gorm.Config
	if dialect == "returning+preparestmt" {
		cfg = &gorm.Config{PrepareStmt: true}
	}
	env := opcat.Open(cfg, dialect == "lastinsertid")
	defer func() {
		// after a panic inside database/sql its mutex may be held: do not touch it
		if o.panicMsg == "" {
			env.Close()
		}
	}()
	ctl := opcat.Setup(env)
	ctl.Audit = true
	if preName != "" {
		// a harmless use of the shared handle before the operation (not recorded,
		// no faults); hook counter and clock are reset so that the operation's
		// run is comparable with the one without prelude
		pre, ok := preludeByName(preName)
		if !ok {
			o.panicMsg = "unknown prelude " + preName
			return o
		}
		func() {
			defer func() {
				if r := recover(); r != nil {
					o.panicMsg = "prelude: " + fmt.Sprint(r)
				}
			}()
			env.Quiet(func() { pre.run(env.DB) })
		}()
		if o.panicMsg != "" {
			return o
		}
		ctl.Reset()
		atomic.StoreInt64(env.Clock, 0)
	}
	o.pre = env.Dump(opcat.Tables...)
	// the operation is started from a handle bound to a cancellable context
	ctx, cancel := context.WithCancel(context.Background())
	defer cancel()

	// choice at every fault point: 0 = nothing, 1 = the call fails / the hook
	// returns an error, 2 = the operation's context is cancelled at this point
	var chosen map[string]int
	if upfront != nil {
		chosen = map[string]int{}
		for _, k := range upfront {
			if c := x.Choose(3, "fault "+k, 1); c != 0 {
				chosen[k] = c
			}
		}
	}
	occ := map[string]int{}
	keyOf := func(base string) string {
		occ[base]++
		return fmt.Sprintf("%s #%d", base, occ[base])
	}
	decide := func(kind, base, label string) int {
		key := keyOf(base)
		o.points = append(o.points, point{kind: kind, key: key})
		if upfront != nil {
			return chosen[key]
		}
		if kind == "row" {
			return x.Choose(2, label, 1)
		}
		return x.Choose(3, label, 1)
	}
	env.Rec.Fault = func(ev *recsqlite.Event) error {
		if !faultable(ev) {
			return nil
		}
		i := o.nDrv
		o.nDrv++
		label := fmt.Sprintf("drv#%d %s %s", i, ev.Kind, short(ev.SQL))
		switch decide(ev.Kind, ev.Kind+" "+normSQL(ev.SQL), label) {
		case 1:
			o.fired = append(o.fired, label)
			o.firedDrv++
			return recsqlite.ErrInjected
		case 2:
			// the context ends while this call is on its way: the driver notices
			// it and refuses the call (deterministic stand-in for an interrupted
			// statement); database/sql rolls the transaction back on its own.
			o.fired = append(o.fired, "CANCEL@"+label)
			o.firedCancel++
			cancel()
			return context.Canceled
		}
		return nil
	}
	// a result set breaks while it is iterated (before row n / at its end)
	env.Rec.RowFault = func(ev *recsqlite.Event, row int) error {
		label := fmt.Sprintf("row#%d of %s %s", row, ev.Kind, short(ev.SQL))
		if decide("row", fmt.Sprintf("row%d %s %s", row, ev.Kind, normSQL(ev.SQL)), label) == 1 {
			o.fired = append(o.fired, label)
			o.firedDrv++
			o.nRowFired++
			if o.rowFaultSeq < 0 {
				o.rowFaultSeq = ev.Seq
			}
			return recsqlite.ErrInjected
		}
		return nil
	}
	ctl.Fail = func(idx int, name string) error {
		o.nHook++
		label := fmt.Sprintf("hook#%d %s", idx, name)
		switch decide("hook", "hook "+name, label) {
		case 1:
			o.fired = append(o.fired, label)
			o.firedHook++
			return opcat.ErrHook
		case 2:
			// the context ends while the hook runs (no driver call in flight); the
			// hook itself succeeds. Cancellation is asynchronous: wait (bounded,
			// counted in iterations) until database/sql has rolled the open
			// transaction back; if that does not happen the execution is not judged.
			o.fired = append(o.fired, "CANCEL@"+label)
			o.firedCancel++
			cancel()
			if !waitUntil(func() bool { return atomic.LoadInt32(&env.Rec.OpenTx) == 0 }) {
				o.notJudged = true
			}
		}
		return nil
	}
	env.Rec.Reset()
	func() {
		defer func() {
			if r := recover(); r != nil {
				o.panicMsg = fmt.Sprint(r)
			}
		}()
		o.err = op.Run(env.DB.WithContext(ctx))
	}()
	if o.firedCancel > 0 && o.panicMsg == "" {
		// database/sql finishes a cancelled transaction in its own goroutine: let
		// it settle before looking for leaks (a real leak never settles)
		// … and if it has not settled within the bounded wait the execution is
		// not judged (a loaded machine must not turn into a leak / locked-table
		// verdict); leaks after ordinary faults are judged without any waiting.
		if !waitUntil(func() bool { return atomic.LoadInt32(&env.Rec.OpenTx) == 0 && env.SQL.Stats().InUse == 0 }) {
			o.notJudged = true
		}
	}
	env.Rec.Fault = nil
	env.Rec.RowFault = nil
	ctl.Fail = nil
	if o.err != nil {
		o.errStr = o.err.Error()
	}
	if o.panicMsg != "" {
		for _, ev := range env.Rec.Events() {
			o.events = append(o.events, normSQL(ev.String()))
		}
		o.hooks = ctl.Labels()
		return o
	}
	o.leaks = env.Leaks()
	sawFault := false
	for _, ev := range env.Rec.Events() {
		o.events = append(o.events, normSQL(ev.String()))
		if ev.Injected {
			sawFault = true
		}
		if !sawFault && ev.Seq == o.rowFaultSeq {
			// the statement itself ran (SQLite applies a multi-row INSERT … RETURNING
			// on the first step); its result set broke afterwards
			if isWriteSQL(ev.SQL) {
				o.lateFault = true
			}
			sawFault = true
			continue
		}
		if !sawFault && ev.Err == nil {
			if (ev.Kind == "exec" || ev.Kind == "query" || ev.Kind == "stmt_exec" || ev.Kind == "stmt_query") && isWriteSQL(ev.SQL) {
				o.lateFault = true
			}
			if ev.Kind == "commit" {
				o.commitsBeforeFirstFault++
			}
		}
	}
	o.hooks = ctl.Labels()
	if len(o.fired) == 0 {
		o.lateFault = false
		o.commitsBeforeFirstFault = 0
	} else if !sawFault {
		// the first fault was a hook: count the writes/commits that precede the end
		// of the log only if they precede the hook — hooks do not appear in the
		// driver log, so recompute from the point list.
		o.lateFault, o.commitsBeforeFirstFault = false, 0
	}
	o.dump = env.Dump(opcat.Tables...)
	return o
}

// hookOrderStats fills lateFault / commitsBeforeFirstFault for executions whose
// first fault is a hook, using the fault-free event list of the same operation
// (the prefix up to the first fault is identical to the fault-free run).
func prefixStats(o *obs, x *mc.Exec, upfront bool) {
	if len(o.fired) == 0 || upfront {
		return
	}
	// position of the first non-default choice
	first := -1
	for i, c := range x.Choices {
		if c != 0 {
			first = i
			break
		}
	}
	if first < 0 || first >= len(o.points) {
		return
	}
	if o.points[first].kind != "hook" {
		return
	}
	writes, commits := 0, 0
	for _, p := range o.points[:first] {
		switch p.kind {
		case "commit":
			commits++
		case "exec", "query", "stmt_exec", "stmt_query":
			sql := strings.SplitN(p.key, " ", 2)
			if len(sql) == 2 && isWriteSQL(sql[1]) {
				writes++
			}
		}
	}
	o.lateFault = writes > 0
	o.commitsBeforeFirstFault = commits
}

func rowCounts(dump string) map[string]int {
	m := map[string]int{}
	cur := ""
	for _, l := range strings.Split(dump, "\n") {
		if strings.HasPrefix(l, "## ") {
			cur = strings.TrimPrefix(l, "## ")
			m[cur] = 0
			continue
		}
		if l != "" && cur != "" {
			m[cur]++
		}
	}
	return m
}

func dumpDiff(a, b string) string {
	as, bs := strings.Split(a, "\n"), strings.Split(b, "\n")
	in := map[string]int{}
	for _, l := range as {
		in[l]++
	}
	var out []string
	for _, l := range bs {
		if in[l] > 0 {
			in[l]--
		} else {
			out = append(out, "+ "+l)
		}
	}
	in = map[string]int{}
	for _, l := range bs {
		in[l]++
	}
	for _, l := range as {
		if in[l] > 0 {
			in[l]--
		} else {
			out = append(out, "- "+l)
		}
	}
	sort.Strings(out)
	return strings.Join(out, "\n")
}

type baseline struct {
	op       opcat.Op
	dialect  string
	o        *obs
	keys     []string // in order of the fault-free run
	upfront  []string // sorted keys (only for unordered operations)
	complete string   // dump after the fault-free run
	// reference: complete state of the same operation without prelude ("" = same)
	reference string
}

func (b *baseline) refComplete() string {
	if b.reference != "" {
		return b.reference
	}
	return b.complete
}

type counters struct {
	evaluations, faultExecs, lateFaults, drvFaults, hookFaults, twoFaults int64
	opsNge4, ops, drvPoints, hookPoints                                  int64
	unfired                                                              int64
	cancelExecs, cancelHook, cancelLastHookJudged, notJudged, preludeJobs int64
	rowFaults, failingOpRuns                                             int64
}

type perOp struct {
	op, dialect       string
	n, h, bound       int
	capped            bool
	execs, late, viol int64
}

type harness struct {
	run      *mc.Run
	st       counters
	distinct mc.Set
	outcomes mc.Set
	samples  mc.Samples
	mu       sync.Mutex
	perOp    []perOp
	capped   int32
}

func tagsOf(b *baseline, o *obs, aspect string) []string {
	tags := []string{"op:" + b.op.Name, "kind:" + b.op.Kind, "config:" + b.dialect, "aspect:" + aspect}
	if o.firedCancel > 0 {
		tags = append(tags, "fault-kind:context-cancelled")
	}
	for _, t := range b.op.Tags {
		if t == opcat.TagSaveAbsent || t == opcat.TagSaveAbsentHooks {
			// the finding is about rows committed by the first implicit transaction
			// of Save staying behind when the second one fails: it covers only the
			// table-state part of the oracle, and only fault lists whose first
			// fault comes after the first (successful) commit (computed from the
			// fault positions, not from the outcome). Error reporting, leaks and
			// the fault-free expectations stay hard assertions for these inputs.
			if aspect == "state" && o.commitsBeforeFirstFault >= 1 {
				tags = append(tags, t)
			}
			continue
		}
		tags = append(tags, t)
	}
	return tags
}

// finding is one failed part of the oracle. The parts are evaluated
// independently of each other, and a known-finding tag is attached only to the
// part that the finding is about (aspect "state" for the Save fallback), so a
// listed finding can never hide a different failure on the same input.
type finding struct {
	aspect string // hang panic fault-free leak error-nil error-identity state
	msg    string
}

func verdicts(b *baseline, o *obs) []finding {
	if o.hung {
		return []finding{{"hang", "the operation did not return within 5 minutes, twice (deadlock)"}}
	}
	if o.panicMsg != "" {
		return []finding{{"panic", "panic inside gorm\n" + o.panicMsg}}
	}
	var out []finding
	if len(o.fired) == 0 && b.op.Fails {
		// a real constraint violation at a later row of a multi-row INSERT
		if o.err == nil {
			out = append(out, finding{"error-nil", "failure swallowed: the operation violates a constraint but its Error is nil"})
		}
		if o.leaks != "" {
			out = append(out, finding{"leak", "transaction or connection left open after a failed write\n" + o.leaks})
		}
		if o.dump != o.pre {
			out = append(out, finding{"state", "partial application: a write failed but the database is not in its pre-state\n" + dumpDiff(o.pre, o.dump)})
		}
		return out
	}
	if len(o.fired) == 0 {
		if o.err != nil {
			out = append(out, finding{"fault-free", "fault-free run returned an error\nerr=" + o.errStr})
		}
		if o.leaks != "" {
			out = append(out, finding{"fault-free", "fault-free run leaks a transaction or connection\n" + o.leaks})
		}
		if b.complete != "" && o.dump != b.complete {
			out = append(out, finding{"fault-free", "fault-free run is not deterministic (differential between two fresh environments)\n" + dumpDiff(b.complete, o.dump)})
		}
		return out
	}
	if o.leaks != "" {
		out = append(out, finding{"leak", "transaction or connection left open after a failed write\n" + o.leaks})
	}
	if o.notJudged {
		return out
	}
	onlyCancel := o.firedCancel > 0 && o.firedDrv == 0 && o.firedHook == 0
	if o.err == nil {
		if onlyCancel {
			// a cancellation may come too late to matter: success is acceptable iff
			// the complete result is there
			if o.dump != b.refComplete() {
				out = append(out, finding{"success-not-persisted", "the operation reported success (Error nil) after its context was cancelled, but its complete result is not in the database\n" + dumpDiff(b.refComplete(), o.dump)})
			}
			return out
		}
		out = append(out, finding{"error-nil", "failure swallowed: result Error is nil although a fault was injected"})
	} else {
		okDrv := o.firedDrv > 0 && errors.Is(o.err, recsqlite.ErrInjected)
		okHook := o.firedHook > 0 && errors.Is(o.err, opcat.ErrHook)
		okCancel := o.firedCancel > 0 && (errors.Is(o.err, context.Canceled) || errors.Is(o.err, sql.ErrTxDone) || strings.Contains(o.errStr, context.Canceled.Error()) || strings.Contains(o.errStr, sql.ErrTxDone.Error()))
		if !okDrv && !okHook && !okCancel {
			out = append(out, finding{"error-identity", "the returned error does not wrap the injected failure\nerr=" + o.errStr})
		}
	}
	if o.dump != o.pre {
		out = append(out, finding{"state", "partial application: a write failed but the database is not in its pre-state\n" + dumpDiff(o.pre, o.dump)})
	}
	return out
}

func kinds(fs []finding) string {
	if len(fs) == 0 {
		return "ok"
	}
	var ks []string
	for _, f := range fs {
		ks = append(ks, strings.SplitN(f.msg, "\n", 2)[0])
	}
	return strings.Join(ks, " + ")
}

func describe(b *baseline, c Case, o *obs) string {
	var sb strings.Builder
	fmt.Fprintf(&sb, "op %s [%s] dialect=%s\n", b.op.Name, b.op.Text, b.dialect)
	fmt.Fprintf(&sb, "faults: %s\n", strings.Join(o.fired, " ; "))
	fmt.Fprintf(&sb, "result error: %v\nleaks: %q\n", o.errStr, o.leaks)
	fmt.Fprintf(&sb, "driver log:\n  %s\n", strings.Join(o.events, "\n  "))
	fmt.Fprintf(&sb, "hooks: %s\n", strings.Join(o.hooks, " "))
	return sb.String()
}

func (hs *harness) baselineOf(op opcat.Op, dialect string) *baseline {
	b := &baseline{op: op, dialect: dialect}
	b.o = execute(op, dialect, mc.NewExec(nil), nil)
	b.keys = b.o.keys()
	b.complete = b.o.dump
	if i := strings.Index(dialect, "|pre="); i >= 0 {
		b.reference = execute(op, dialect[:i], mc.NewExec(nil), nil).dump
	}
	if op.Unordered {
		b.upfront = append([]string(nil), b.keys...)
		sort.Strings(b.upfront)
	}
	return b
}

// checkBaseline: fault-free run succeeds, matches the expected row counts and
// is reproducible (same dump; same call sequence, or same call multiset for
// unordered operations). Returns false when the operation cannot be explored.
func (hs *harness) checkBaseline(b *baseline) bool {
	c := Case{Op: b.op.Name, Dialect: b.dialect, Readable: b.op.Text}
	if fs := verdicts(&baseline{op: b.op, dialect: b.dialect}, b.o); len(fs) > 0 {
		for _, f := range fs {
			hs.run.Violation(tagsOf(b, b.o, f.aspect), f.msg+"\n"+describe(b, c, b.o), c)
		}
		return false
	}
	if b.reference != "" && b.complete != b.reference {
		hs.run.Violation(tagsOf(b, b.o, "fault-free"), "a harmless derivation from the shared handle before the operation changed the operation's fault-free result\n"+dumpDiff(b.reference, b.complete)+"\n"+describe(b, c, b.o), c)
		return false
	}
	got := rowCounts(b.o.dump)
	var bad []string
	for _, t := range opcat.Tables {
		if b.op.Fails {
			break // expected: unchanged database, judged by verdicts above
		}
		delta := b.op.Delta
		if strings.HasPrefix(b.dialect, "lastinsertid") && b.op.DeltaNoReturning != nil {
			delta = b.op.DeltaNoReturning
		}
		want := opcat.SeedCounts[t] + delta[t]
		if got[t] != want {
			bad = append(bad, fmt.Sprintf("%s: %d rows, expected %d", t, got[t], want))
		}
	}
	if len(bad) > 0 {
		hs.run.Violation(tagsOf(b, b.o, "fault-free"), "fault-free run does not produce the expected complete state (row counts)\n"+strings.Join(bad, "\n")+"\n"+dumpDiff(b.o.pre, b.o.dump)+"\n"+describe(b, c, b.o), c)
		return false
	}
	if b.o.dump == b.o.pre && len(b.op.Delta) > 0 && !b.op.Fails {
		hs.run.HarnessError("operation %s does not change the database", b.op.Name)
		return false
	}
	for i := 0; i < 2; i++ {
		again := execute(b.op, b.dialect, mc.NewExec(nil), nil)
		if again.dump != b.complete {
			hs.run.Violation(tagsOf(b, again, "fault-free"), "fault-free run is not deterministic (differential between two fresh environments)\n"+dumpDiff(b.complete, again.dump)+"\n"+describe(b, c, again), c)
			return false
		}
		k1, k2 := b.keys, again.keys()
		if b.op.Unordered {
			k1, k2 = append([]string(nil), k1...), append([]string(nil), k2...)
			sort.Strings(k1)
			sort.Strings(k2)
		}
		if strings.Join(k1, "\n") != strings.Join(k2, "\n") {
			hs.run.HarnessError("operation %s: the sequence of driver calls / hooks differs between two fault-free runs (unowned nondeterminism):\n%s\n--- vs ---\n%s", b.op.Name, strings.Join(k1, "\n"), strings.Join(k2, "\n"))
			return false
		}
	}
	return true
}

func (hs *harness) explore(b *baseline, bound int, deadline time.Time) {
	nDrv, nHook := 0, 0
	for _, p := range b.o.points {
		if p.kind == "hook" {
			nHook++
		} else {
			nDrv++
		}
	}
	atomic.AddInt64(&hs.st.ops, 1)
	if nDrv >= 4 {
		atomic.AddInt64(&hs.st.opsNge4, 1)
	}
	atomic.AddInt64(&hs.st.drvPoints, int64(nDrv))
	atomic.AddInt64(&hs.st.hookPoints, int64(nHook))

	var opExecs, opLate, opViol int64
	e := &mc.Explorer{Bound: bound, Workers: 2, Deadline: deadline}
	e.Run = func(x *mc.Exec) interface{} {
		o := execute(b.op, b.dialect, x, b.upfront)
		prefixStats(o, x, b.upfront != nil)
		return o
	}
	e.Check = func(x *mc.Exec, ob interface{}) {
		o := ob.(*obs)
		atomic.AddInt64(&hs.st.evaluations, 1)
		atomic.AddInt64(&opExecs, 1)
		c := Case{Op: b.op.Name, Dialect: b.dialect, Choices: x.ChoiceInts(), Trace: x.Trace(), Readable: b.op.Text}
		if x.Deviations() > 0 && len(o.fired) < x.Deviations() {
			// up-front mode: a chosen key was never reached (the operation stopped
			// earlier); the execution is still judged by what fired.
			atomic.AddInt64(&hs.st.unfired, 1)
		}
		if o.notJudged {
			atomic.AddInt64(&hs.st.notJudged, 1)
		}
		atomic.AddInt64(&hs.st.rowFaults, int64(o.nRowFired))
		if b.op.Fails && len(o.fired) == 0 {
			atomic.AddInt64(&hs.st.failingOpRuns, 1)
		}
		if o.firedCancel > 0 {
			atomic.AddInt64(&hs.st.cancelExecs, 1)
			if strings.HasPrefix(o.fired[0], "CANCEL@hook") && !o.notJudged {
				atomic.AddInt64(&hs.st.cancelHook, 1)
				if o.lateFault {
					atomic.AddInt64(&hs.st.cancelLastHookJudged, 1)
				}
			}
		}
		if len(o.fired) > 0 {
			atomic.AddInt64(&hs.st.faultExecs, 1)
			atomic.AddInt64(&hs.st.drvFaults, int64(o.firedDrv))
			atomic.AddInt64(&hs.st.hookFaults, int64(o.firedHook))
			if len(o.fired) >= 2 {
				atomic.AddInt64(&hs.st.twoFaults, 1)
			}
			if o.lateFault {
				atomic.AddInt64(&hs.st.lateFaults, 1)
				atomic.AddInt64(&opLate, 1)
				if hs.distinct.Add(fmt.Sprintf("%s|%s|%v", b.op.Name, b.dialect, strings.Join(o.fired, ","))) {
					hs.samples.Add(map[string]interface{}{"op": b.op.Text, "dialect": b.dialect, "faults": o.fired, "error": o.errStr})
				}
			}
		}
		fs := verdicts(b, o)
		state := "pre"
		if o.dump == b.complete {
			state = "complete"
		} else if o.dump != o.pre {
			state = "other"
		}
		hs.outcomes.Add(fmt.Sprintf("%s|%s|err=%v|%s", b.op.Kind, state, o.err != nil, kinds(fs)))
		if len(fs) == 0 {
			return
		}
		// determinism of the failing execution before it is reported
		fpOf := func(o *obs) string {
			if b.upfront != nil || o.firedCancel > 0 {
				// which of the chosen calls is reached first depends on map order;
				// after a cancellation gorm's own rollback races with database/sql's
				// (same state, possibly a different error text)
				return kinds(verdicts(b, o))
			}
			return o.fingerprint()
		}
		fp := fpOf(o)
		for i := 0; i < 3 && !o.hung; i++ {
			x2 := mc.NewExec(c.Choices)
			o2 := execute(b.op, b.dialect, x2, b.upfront)
			if fpOf(o2) != fp {
				hs.run.HarnessError("nondeterministic verdict for %s choices %v", b.op.Name, c.Choices)
				return
			}
		}
		for _, f := range fs {
			atomic.AddInt64(&opViol, 1)
			hs.run.Violation(tagsOf(b, o, f.aspect), f.msg+"\n"+describe(b, c, o), c)
		}
	}
	e.Explore()
	if e.Capped {
		atomic.StoreInt32(&hs.capped, 1)
	}
	if e.Diverged > 0 {
		hs.run.HarnessError("replay divergence in %s: %s", b.op.Name, e.FirstDivergence)
	}
	done := bound // no deeper level exists when no execution has further points
	if e.Capped {
		done = e.CompletedBound
	}
	hs.mu.Lock()
	hs.perOp = append(hs.perOp, perOp{op: b.op.Name, dialect: b.dialect, n: nDrv, h: nHook, execs: opExecs, late: opLate, viol: opViol, bound: done, capped: e.Capped})
	hs.mu.Unlock()
}

func replay(run *mc.Run, path string) {
	var c Case
	if err := mc.LoadReplay(path, &c); err != nil {
		fmt.Fprintln(os.Stderr, err)
		os.Exit(3)
	}
	op, ok := opcat.ByName(c.Op)
	if !ok {
		fmt.Fprintf(os.Stderr, "unknown operation %q\n", c.Op)
		os.Exit(3)
	}
	if c.Dialect == "" {
		c.Dialect = "returning"
	}
	hs := &harness{run: run}
	b := hs.baselineOf(op, c.Dialect)
	fmt.Printf("fault-free run of %s [%s]: %d driver calls, %d hooks, err=%v\n", op.Name, op.Text, b.o.nDrv, b.o.nHook, b.o.err)
	x := mc.NewExec(c.Choices)
	o := execute(op, c.Dialect, x, b.upfront)
	prefixStats(o, x, b.upfront != nil)
	fmt.Print(describe(b, c, o))
	fmt.Printf("difference to the pre-state:\n%s\n", dumpDiff(o.pre, o.dump))
	fs := verdicts(b, o)
	if len(fs) == 0 {
		fmt.Println("verdict: holds")
		os.Exit(0)
	}
	for _, f := range fs {
		fmt.Printf("verdict: VIOLATION — %s\ntags: %v\n", f.msg, tagsOf(b, o, f.aspect))
	}
	os.Exit(1)
}

func main() {
	args := mc.ParseArgs()
	run := mc.NewRun("C05", args.Tier, "fault_enumeration")
	if args.Replay != "" {
		replay(run, args.Replay)
		return
	}
	bound := 1
	budget := 80 * time.Second
	if args.Tier == "thorough" {
		bound = 3
		budget = 9 * time.Minute
	}
	deadline := time.Now().Add(budget)
	dialects := []string{"returning", "lastinsertid"}
	if args.Tier == "thorough" {
		// PrepareStmt adds prepare / stmt_exec / stmt_query fault points
		dialects = append(dialects, "returning+preparestmt")
	}
	ops := opcat.Writes()
	only := ""
	list := false
	for _, a := range args.Extra {
		if a == "list" {
			list = true
		} else {
			only = a
		}
	}

	hs := &harness{run: run}
	hs.samples.N = 8
	type job struct {
		op      opcat.Op
		dialect string
		bound   int
	}
	var jobs []job
	for _, dl := range dialects {
		for _, op := range ops {
			if only != "" && op.Name != only {
				continue
			}
			jb := bound
			if jb > 2 && dl != "returning" {
				jb = 2 // the third fault level only on the main dialector (budget)
			}
			jobs = append(jobs, job{op, dl, jb})
		}
	}
	// histories on the shared handle before the operation (bound 1): quick a
	// representative subset of operations, thorough every operation
	preOps := map[string]bool{}
	for _, n := range []string{"create-has-many", "create-full-graph", "batches-3x2-graph", "save-existing-with-associations",
		"updates-model-with-associations", "update-single-column", "delete-select-pets", "save-new-graph"} {
		if _, ok := opcat.ByName(n); !ok {
			run.HarnessError("prelude subset names an unknown operation %s", n)
		}
		preOps[n] = true
	}
	for _, op := range ops {
		if only != "" && op.Name != only {
			continue
		}
		if args.Tier != "thorough" && !preOps[op.Name] {
			continue
		}
		for _, p := range preludes {
			jobs = append(jobs, job{op, "returning|pre=" + p.name, 1})
			hs.st.preludeJobs++
		}
	}
	if list {
		for _, j := range jobs {
			b := hs.baselineOf(j.op, j.dialect)
			got := rowCounts(b.o.dump)
			var ds []string
			for _, t := range opcat.Tables {
				if dlt := got[t] - opcat.SeedCounts[t]; dlt != 0 {
					ds = append(ds, fmt.Sprintf("%s%+d", t, dlt))
				}
			}
			fmt.Printf("%-45s %-12s N=%d H=%d err=%v delta=[%s]\n", j.op.Name, j.dialect, b.o.nDrv, b.o.nHook, b.o.err, strings.Join(ds, " "))
			if only != "" {
				fmt.Printf("  %s\n  hooks: %s\n", strings.Join(b.o.events, "\n  "), strings.Join(b.o.hooks, " "))
			}
		}
		return
	}

	var next int64 = -1
	var wg sync.WaitGroup
	for w := 0; w < 16; w++ {
		wg.Add(1)
		go func() {
			defer wg.Done()
			for {
				n := int(atomic.AddInt64(&next, 1))
				if n >= len(jobs) {
					return
				}
				j := jobs[n]
				b := hs.baselineOf(j.op, j.dialect)
				if !hs.checkBaseline(b) {
					continue
				}
				hs.explore(b, j.bound, deadline)
			}
		}()
	}
	wg.Wait()

	sort.Slice(hs.perOp, func(i, k int) bool {
		a, b := hs.perOp[i], hs.perOp[k]
		if a.op != b.op {
			return a.op < b.op
		}
		return a.dialect < b.dialect
	})
	var perOpLines []string
	for _, p := range hs.perOp {
		perOpLines = append(perOpLines, fmt.Sprintf("%s/%s N=%d H=%d executions=%d late_faults=%d violations=%d", p.op, p.dialect, p.n, p.h, p.execs, p.late, p.viol))
	}
	exhaustive := atomic.LoadInt32(&hs.capped) == 0
	completed := bound
	for _, p := range hs.perOp {
		if p.capped && p.bound < completed {
			completed = p.bound
		}
	}
	st := &hs.st
	if run.NumViolations() == 0 && only == "" {
		if st.opsNge4 < 90 {
			run.HarnessError("vacuous: only %d (operation, dialect) pairs with >= 4 driver calls", st.opsNge4)
		}
		if st.lateFaults < 500 {
			run.HarnessError("vacuous: only %d faults landed after a successful write", st.lateFaults)
		}
		if st.cancelHook < 200 || st.cancelLastHookJudged < 100 {
			run.HarnessError("vacuous: only %d judged cancellations inside hooks (%d after a successful write)", st.cancelHook, st.cancelLastHookJudged)
		}
		if st.notJudged*10 > st.cancelExecs {
			run.HarnessError("%d of %d cancellation executions could not be judged (database/sql did not finish the transaction within the bounded wait)", st.notJudged, st.cancelExecs)
		}
		if st.rowFaults < 300 || st.failingOpRuns < 15 {
			run.HarnessError("vacuous: %d result-set faults fired, %d runs of operations with a real constraint violation", st.rowFaults, st.failingOpRuns)
		}
		if st.preludeJobs < 50 {
			run.HarnessError("vacuous: only %d (operation, prelude) pairs", st.preludeJobs)
		}
		if st.hookFaults < 200 {
			run.HarnessError("vacuous: only %d hook failures injected", st.hookFaults)
		}
		if int(st.ops) != len(jobs) {
			run.HarnessError("only %d of %d operations were explored", st.ops, len(jobs))
		}
	}
	run.Assume("SQLite only (RETURNING dialector and the LastInsertId dialector of verif/h); default settings (SkipDefaultTransaction off, no PrepareStmt)")
	run.Assume("cancellation is asynchronous in database/sql: after cancelling inside a hook the harness polls (bounded) until the open driver transaction is gone; executions where that does not happen are counted as not judged, never as violations")
	run.Assume("11 operations of the catalogue fail by themselves (CHECK / partial UNIQUE index violated by the 2nd or a later row of a multi-row INSERT; SQLite reports it while the statement is stepped): expected an error and the unchanged database; NOT NULL / foreign-key violations are not in the alphabet")
	run.Assume("a failing driver call returns an error instead of executing; a failing COMMIT has rolled the transaction back; ROLLBACK / ROLLBACK TO SAVEPOINT never fail")
	run.Assume("association-mode calls (Append/Replace/Delete/Clear) are outside the write set of the property; operations whose nested statements are issued in Go map order (Select(clause.Associations).Delete) get their faults chosen up-front by call content, so faults on calls that only appear after another fault are not enumerated for those two operations")
	run.Finish(map[string]interface{}{
		"evaluations":         st.evaluations,
		"distinct_nontrivial": hs.distinct.Len(),
		"rule":                fmt.Sprintf("for each of %d write operations x %d configurations (%s): every execution with <= %d injected faults, a fault point being every driver call (BEGIN, SAVEPOINT, INSERT/UPDATE/DELETE/SELECT, COMMIT; never ROLLBACK) and every hook invocation of the operation, plus every (query, row) point at which a result set (INSERT … RETURNING) hands out a row or reports its end, and a fault being either 'the call fails / the hook returns an error' or 'the operation's context is cancelled at this point' (inside a hook: the hook succeeds and the harness waits until database/sql has rolled the transaction back; at a driver call: the call is refused with context.Canceled); plus, for a subset of operations (thorough: all), the same single-fault enumeration after each of 13 harmless derivations from / uses of the shared handle (ToSQL, Session{SkipDefaultTransaction/DryRun/PrepareStmt/...}, WithContext, Debug, Begin+Rollback, failing Transaction block); enumerated by the E1 choice-tree explorer on a fresh database per execution; non-trivial = distinct (operation, dialector, fault list) executions in which the first fault fired after at least one INSERT/UPDATE/DELETE of the operation had succeeded (only those can reveal partial application)", len(ops), len(dialects), strings.Join(dialects, ", "), bound),
		"samples":             hs.samples.List(),
		"exhaustive":          exhaustive,
		"bound_requested":     bound,
		"bound_note":          "thorough: 3 faults on the RETURNING dialector, 2 on the LastInsertId and PrepareStmt configurations, 1 after each prelude; quick: 1 everywhere",
		"bound_completed":     completed,
		"operations":          len(ops),
		"operation_dialect_pairs_explored":      st.ops,
		"pairs_with_at_least_4_driver_calls":    st.opsNge4,
		"driver_fault_points_total":             st.drvPoints,
		"hook_fault_points_total":               st.hookPoints,
		"executions_with_fault":                 st.faultExecs,
		"executions_with_two_faults":            st.twoFaults,
		"driver_faults_fired":                   st.drvFaults,
		"hook_faults_fired":                     st.hookFaults,
		"faults_after_successful_write":         st.lateFaults,
		"upfront_choices_never_reached":         st.unfired,
		"executions_with_context_cancelled":     st.cancelExecs,
		"cancellations_inside_hooks_judged":     st.cancelHook,
		"cancellations_inside_hooks_after_successful_write": st.cancelLastHookJudged,
		"cancellation_executions_not_judged":    st.notJudged,
		"operation_prelude_pairs":               st.preludeJobs,
		"result_set_row_faults_fired":           st.rowFaults,
		"runs_of_operations_with_real_constraint_violation": st.failingOpRuns,
		"preludes":                              len(preludes),
		"watchdog_hangs_not_reproduced":         atomic.LoadInt64(&hangsNotReproduced),
		"watchdog_hang_stacks":                  hangSamples,
		"distinct_outcomes":                     hs.outcomes.Len(),
		"per_operation":                         strings.Join(perOpLines, "; "),
	})
}
