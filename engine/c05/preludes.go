package main

import (
	"context"
	"errors"

	"gorm.io/gorm"

	"verif/opcat"
)

// A prelude is a "should be harmless" derivation from / use of the shared
// handle that happens BEFORE the operation under test runs on that same
// handle. None of them may change the shared handle: the operation afterwards
// still runs with default settings, so the all-or-nothing oracle is unchanged
// and its fault-free result must equal the one without prelude.
type prelude struct {
	name string
	run  func(db *gorm.DB)
}

func readVia(db *gorm.DB) {
	var c opcat.Company
	db.First(&c, 1)
}

var errPrelude = errors.New("prelude: block fails on purpose")

var preludes = []prelude{
	{"ToSQL", func(db *gorm.DB) {
		db.ToSQL(func(tx *gorm.DB) *gorm.DB { var us []opcat.User; return tx.Where("id = ?", 1).Find(&us) })
	}},
	{"Session{SkipDefaultTransaction}-abandoned", func(db *gorm.DB) { db.Session(&gorm.Session{SkipDefaultTransaction: true}) }},
	{"Session{SkipDefaultTransaction}-read", func(db *gorm.DB) { readVia(db.Session(&gorm.Session{SkipDefaultTransaction: true})) }},
	{"Session{DryRun}-create", func(db *gorm.DB) {
		db.Session(&gorm.Session{DryRun: true}).Create(&opcat.Toy{Name: "dry"})
	}},
	{"Session{PrepareStmt}-read", func(db *gorm.DB) { readVia(db.Session(&gorm.Session{PrepareStmt: true})) }},
	{"Session{AllowGlobalUpdate,FullSaveAssociations,SkipHooks,CreateBatchSize}-abandoned", func(db *gorm.DB) {
		db.Session(&gorm.Session{AllowGlobalUpdate: true, FullSaveAssociations: true, SkipHooks: true, CreateBatchSize: 1, DisableNestedTransaction: true, QueryFields: true, PropagateUnscoped: true})
	}},
	{"Session{AllowGlobalUpdate,FullSaveAssociations,SkipHooks,CreateBatchSize}-read", func(db *gorm.DB) {
		readVia(db.Session(&gorm.Session{AllowGlobalUpdate: true, FullSaveAssociations: true, SkipHooks: true, CreateBatchSize: 1}))
	}},
	{"Session{NewDB,SkipDefaultTransaction,SkipHooks}-read", func(db *gorm.DB) {
		readVia(db.Session(&gorm.Session{NewDB: true, SkipDefaultTransaction: true, SkipHooks: true}))
	}},
	{"WithContext-read", func(db *gorm.DB) {
		ctx, cancel := context.WithCancel(context.Background())
		readVia(db.WithContext(ctx))
		cancel()
	}},
	{"Debug-read", func(db *gorm.DB) { readVia(db.Debug()) }},
	{"Begin-Rollback", func(db *gorm.DB) {
		tx := db.Begin()
		readVia(tx)
		tx.Rollback()
	}},
	{"Transaction-block-fails", func(db *gorm.DB) {
		db.Transaction(func(tx *gorm.DB) error {
			tx.Create(&opcat.Toy{Name: "rolled back"})
			return errPrelude
		})
	}},
	{"Omit-Select-chain-abandoned", func(db *gorm.DB) {
		db.Omit("Name").Select("Age").Where("id = ?", 1).Model(&opcat.User{})
	}},
}

func preludeByName(n string) (prelude, bool) {
	for _, p := range preludes {
		if p.name == n {
			return p, true
		}
	}
	return prelude{}, false
}
