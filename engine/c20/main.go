// C20 — AutoMigrate is idempotent and never loses data.
//
// Bounded-exhaustive enumeration (E3) of histories
//
//	migrate(v1) -> insert rows -> migrate(v1) -> migrate(v2) -> read back,
//	insert v2 records -> migrate(v2)
//
// over model types of the typegram grammar (key configuration x one field
// kind x tag variant index/uniqueIndex/unique/check/not null/size) and
// v2 = v1 + one added field (every kind x tag variant) / index / constraint,
// executed on the real gorm migrator on SQLite behind the recording driver.
// Oracle: a migration of an unchanged model sends no CREATE/ALTER/DROP; rows
// are preserved on the common columns; what was added exists (PRAGMA /
// behavioural probe); v2 records round-trip (typegram.CheckField).
package main

import (
	"fmt"
	"os"
	"reflect"
	"strings"
	"sync"
	"sync/atomic"
	"time"

	"gorm.io/gorm"

	"verif/h"
	"verif/mc"
	tg "verif/typegram"
)

const table = "t"

var debug = os.Getenv("C20_DEBUG") != ""

// Case is one history (also the replay format).
type Case struct {
	Key       string `json:"key"`
	Spec      string `json:"v1_field_kind"` // "" = no field under test
	Extra     string `json:"v1_field_tags"`
	MarkerTag string `json:"v1_marker_tags"`
	Change    string `json:"change"` // addfield | tagfield | tagmarker | alterfield (NewSpec = a v2 variant of the v1 field that alters an existing column)
	NewSpec   string `json:"added_field_kind,omitempty"`
	NewTag    string `json:"added_tags"`
	// Flags: migration-relevant gorm.Config flags: "" | "nofk"
	// (DisableForeignKeyConstraintWhenMigrating) | "norel"
	// (IgnoreRelationshipsWhenMigrating) | "nofk+norel"
	Flags    string `json:"config_flags,omitempty"`
	Readable string `json:"readable,omitempty"`
}

func (c Case) String() string {
	f := "-"
	if c.Spec != "" {
		f = c.Spec + "[" + c.Extra + "]"
	}
	ch := ""
	switch c.Change {
	case "addfield":
		ch = "add field " + c.NewSpec + "[" + c.NewTag + "]"
	case "tagfield":
		ch = "add tag [" + c.NewTag + "] to the field"
	case "tagmarker":
		ch = "add tag [" + c.NewTag + "] to Marker"
	case "alterfield":
		ch = "the field becomes " + c.NewSpec
		if c.NewTag != "" {
			ch += " and gains tag [" + c.NewTag + "]"
		}
	}
	fl := ""
	if c.Flags != "" {
		fl = " config=" + c.Flags
	}
	return fmt.Sprintf("v1=%s(marker[%s], %s) v2=v1 + %s%s", c.Key, c.MarkerTag, f, ch, fl)
}

func joinTags(a, b string) string {
	if a == "" {
		return b
	}
	if b == "" {
		return a
	}
	return a + ";" + b
}

func hasUnique(tag string) bool {
	for _, p := range strings.Split(tag, ";") {
		if strings.ToLower(strings.TrimSpace(p)) == "unique" {
			return true
		}
		if d, ok := readIndexTag(p); ok && d.unique {
			return true
		}
	}
	return false
}

// idxDecl is what one index / uniqueIndex element of a gorm tag declares, as
// read by THIS harness from the tag text (gorm's documented tag grammar:
// elements separated by ';', blanks around them insignificant, keys case
// insensitive, `index[:name][,option[:value]]...`) - deliberately not taken
// from schema.ParseIndexes.
type idxDecl struct {
	raw      string
	unique   bool
	name     string // "" = generated
	where    string
	sort     string
	collate  string
	expr     string
	priority int
}

func readIndexTag(part string) (idxDecl, bool) {
	d := idxDecl{raw: part, priority: 10}
	t := strings.TrimSpace(part)
	key, rest := t, ""
	if i := strings.Index(t, ":"); i >= 0 {
		key, rest = t[:i], t[i+1:]
	}
	switch strings.ToLower(strings.TrimSpace(key)) {
	case "index":
	case "uniqueindex":
		d.unique = true
	default:
		return d, false
	}
	opts := strings.Split(rest, ",")
	d.name = strings.TrimSpace(opts[0])
	for _, o := range opts[1:] {
		k, v := o, ""
		if i := strings.Index(o, ":"); i >= 0 {
			k, v = o[:i], o[i+1:]
		}
		switch strings.ToLower(strings.TrimSpace(k)) {
		case "unique":
			d.unique = true
		case "where":
			d.where = strings.TrimSpace(v)
		case "sort":
			d.sort = strings.ToLower(strings.TrimSpace(v))
		case "collate":
			d.collate = strings.TrimSpace(v)
		case "expression":
			d.expr = strings.TrimSpace(v)
		case "priority":
			fmt.Sscan(strings.TrimSpace(v), &d.priority)
		}
	}
	return d, true
}

func (c Case) models() (v1, v2 *tg.Model, err error) {
	key := tg.KeyByName(c.Key)
	if key == nil {
		return nil, nil, fmt.Errorf("unknown key %q", c.Key)
	}
	var specs []*tg.Spec
	var extra []string
	if c.Spec != "" {
		s := tg.SpecByName(c.Spec)
		if s == nil {
			return nil, nil, fmt.Errorf("unknown kind %q", c.Spec)
		}
		specs = []*tg.Spec{s}
		extra = []string{c.Extra}
	}
	v1 = tg.Build(key, specs, extra, c.MarkerTag)
	switch c.Change {
	case "addfield":
		ns := tg.SpecByName(c.NewSpec)
		if ns == nil {
			return nil, nil, fmt.Errorf("unknown kind %q", c.NewSpec)
		}
		if c.Spec == "" {
			// the new field takes slot 0
			v2 = tg.Build(key, []*tg.Spec{ns}, []string{c.NewTag}, c.MarkerTag)
		} else {
			v2 = tg.Build(key, append(append([]*tg.Spec{}, specs...), ns), append(append([]string{}, extra...), c.NewTag), c.MarkerTag)
		}
	case "tagfield":
		if c.Spec == "" {
			return nil, nil, fmt.Errorf("tagfield without a field")
		}
		v2 = tg.Build(key, specs, []string{joinTags(c.Extra, c.NewTag)}, c.MarkerTag)
	case "tagmarker":
		v2 = tg.Build(key, specs, extra, joinTags(c.MarkerTag, c.NewTag))
	case "alterfield":
		ns := tg.SpecByName(c.NewSpec)
		if ns == nil || c.Spec == "" {
			return nil, nil, fmt.Errorf("unknown variant %q", c.NewSpec)
		}
		// (NewTag, if any, is added to the same column at the same time)
		v2 = tg.Build(key, []*tg.Spec{ns}, []string{joinTags(c.Extra, c.NewTag)}, c.MarkerTag)
	default:
		return nil, nil, fmt.Errorf("unknown change %q", c.Change)
	}
	return
}

// newSlot: slot index of the added field in v2.
func (c Case) newSlot() int {
	if c.Spec == "" {
		return 0
	}
	return 1
}

// ---------------------------------------------------------------------------
// tags (input side)

const (
	tagAddUniqueCol = "added-column-with-unique-constraint"
)

func tags(c Case, step string) []string {
	var t []string
	if c.Change == "addfield" && hasPlainUnique(c.NewTag) && (step == "migrate-v2-again" || step == "present") {
		t = append(t, tagAddUniqueCol)
	}
	return t
}

func hasPlainUnique(tag string) bool {
	for _, p := range strings.Split(tag, ";") {
		if strings.ToLower(strings.TrimSpace(p)) == "unique" {
			return true
		}
	}
	return false
}

// ---------------------------------------------------------------------------

type worker struct {
	envs map[string]*h.Env // per config-flag combination
	used int
	cur  string
}

func config(flags string) *gorm.Config {
	return &gorm.Config{
		NamingStrategy:                           tg.Namer{},
		DisableForeignKeyConstraintWhenMigrating: strings.Contains(flags, "nofk"),
		IgnoreRelationshipsWhenMigrating:         strings.Contains(flags, "norel"),
	}
}

func (w *worker) fresh(flags string) *h.Env {
	// a gorm.DB caches one parsed schema per model type; every history has its
	// own types, so start over regularly to keep memory bounded
	if w.used++; w.used%100 == 0 {
		for k := range w.envs {
			w.envs[k].Close()
		}
		w.envs = nil
	}
	if w.envs == nil {
		w.envs = map[string]*h.Env{}
	}
	w.cur = flags
	for try := 0; ; try++ {
		e := w.envs[flags]
		if e == nil {
			e = h.Open(config(flags))
			w.envs[flags] = e
		}
		e.Rec.Pause()
		e.SQL.Exec("DROP TABLE IF EXISTS `" + table + "__temp`")
		e.SQL.Exec("DROP TABLE IF EXISTS `owners`")
		_, err := e.SQL.Exec("DROP TABLE IF EXISTS `" + table + "`")
		e.Rec.Resume()
		if err == nil || try > 0 {
			return e
		}
		e.Close()
		delete(w.envs, flags)
	}
}

// discard drops the env of the current history.
func (w *worker) discard() {
	if e := w.envs[w.cur]; e != nil {
		e.Close()
		delete(w.envs, w.cur)
	}
}

// tdb: the handle through which the model is used. StructOf types have no
// name: plain models go through db.Table(name); models with a relation
// cannot (AutoMigrate would migrate the related model into the same table)
// and rely on the config's typegram.Namer instead.
func tdb(e *h.Env, m *tg.Model) *gorm.DB {
	if m.Key.Relation {
		return e.DB
	}
	return e.DB.Table(table)
}

func catch(msg *string, f func()) {
	defer func() {
		if r := recover(); r != nil {
			*msg = fmt.Sprint(r)
		}
	}()
	f()
}

// ddlOf returns the schema-changing statements among the recorded events.
func ddlOf(e *h.Env) []string {
	var out []string
	for _, ev := range e.Rec.Events() {
		if !ev.IsStatement() {
			continue
		}
		s := strings.ToUpper(strings.TrimSpace(ev.SQL))
		if strings.HasPrefix(s, "CREATE") || strings.HasPrefix(s, "ALTER") || strings.HasPrefix(s, "DROP") {
			out = append(out, ev.SQL)
		}
	}
	return out
}

func migrate(e *h.Env, m *tg.Model) (err error, panicMsg string) {
	catch(&panicMsg, func() { err = tdb(e, m).AutoMigrate(m.New().Interface()) })
	return
}

func cols(m *tg.Model) []string {
	out := append([]string{}, m.Key.Cols...)
	out = append(out, m.Key.ExtraCols...)
	out = append(out, tg.MarkerCol)
	for s, sp := range m.Specs {
		out = append(out, sp.Cols(s)...)
	}
	return out
}

// dumpCols dumps the given columns of all rows, ordered by marker.
func dumpCols(e *h.Env, cs []string) []string {
	e.Rec.Pause()
	defer e.Rec.Resume()
	q := "SELECT `" + strings.Join(cs, "`,`") + "` FROM `" + table + "` ORDER BY `marker`"
	rows, err := e.SQL.Query(q)
	if err != nil {
		return []string{"ERROR " + err.Error()}
	}
	defer rows.Close()
	var out []string
	for rows.Next() {
		vals := make([]interface{}, len(cs))
		ptrs := make([]interface{}, len(cs))
		for i := range vals {
			ptrs[i] = &vals[i]
		}
		if err := rows.Scan(ptrs...); err != nil {
			return []string{"ERROR " + err.Error()}
		}
		var p []string
		for i, c := range cs {
			p = append(p, c+"="+cellText(vals[i]))
		}
		out = append(out, strings.Join(p, "|"))
	}
	return out
}

func cellText(v interface{}) string {
	switch t := v.(type) {
	case nil:
		return "NULL"
	case []byte:
		return fmt.Sprintf("b%q", string(t))
	case string:
		return fmt.Sprintf("%q", t)
	case time.Time:
		return "t" + t.UTC().Format(time.RFC3339Nano)
	case float64:
		return fmt.Sprintf("f%v", t)
	}
	return fmt.Sprintf("%v", v)
}

func tableColumns(e *h.Env) []string {
	e.Rec.Pause()
	defer e.Rec.Resume()
	rows, err := e.SQL.Query("SELECT name FROM pragma_table_info('" + table + "')")
	if err != nil {
		return nil
	}
	defer rows.Close()
	var out []string
	for rows.Next() {
		var n string
		rows.Scan(&n)
		out = append(out, n)
	}
	return out
}

// columnDefaults: column -> has a DEFAULT in the table definition.
func columnDefaults(e *h.Env) map[string]bool {
	e.Rec.Pause()
	defer e.Rec.Resume()
	out := map[string]bool{}
	rows, err := e.SQL.Query("SELECT name, dflt_value IS NOT NULL FROM pragma_table_info('" + table + "')")
	if err != nil {
		return out
	}
	defer rows.Close()
	for rows.Next() {
		var n string
		var d bool
		rows.Scan(&n, &d)
		out[strings.ToLower(n)] = d
	}
	return out
}

// ghosts: columns that exist although the model excludes them from migration.
func ghosts(e *h.Env, m *tg.Model) []string {
	have := map[string]bool{}
	for _, c := range tableColumns(e) {
		have[strings.ToLower(c)] = true
	}
	var out []string
	for s, sp := range m.Specs {
		for _, g := range sp.GhostCols(s) {
			if have[strings.ToLower(g)] {
				out = append(out, g)
			}
		}
	}
	return out
}

// declared lists (column, tag part) for everything the model declares on its
// single-column field of slot 0.., and on Marker.
type decl struct{ col, tag string }

func declaredOf(m *tg.Model, markerTag string) []decl {
	var out []decl
	add := func(col, tags string) {
		for _, p := range strings.Split(tags, ";") {
			if p = strings.TrimSpace(p); p != "" {
				out = append(out, decl{col, p})
			}
		}
	}
	add(tg.MarkerCol, markerTag)
	for s, sp := range m.Specs {
		if cs := sp.Cols(s); len(cs) == 1 && s < len(m.Extra) {
			add(cs[0], m.Extra[s])
		}
	}
	return out
}

type ixCol struct {
	name string // "" for an expression
	desc bool
	coll string
}
type ixFull struct {
	name    string
	unique  bool
	partial bool
	sql     string
	cols    []ixCol
}

// indexesFull reads every index of the table from PRAGMA index_list /
// index_xinfo and its CREATE INDEX text from sqlite_master.
func indexesFull(e *h.Env) []ixFull {
	e.Rec.Pause()
	defer e.Rec.Resume()
	rows, err := e.SQL.Query("SELECT il.name, il.\"unique\", il.partial, coalesce(m.sql,'') FROM pragma_index_list('" + table + "') il LEFT JOIN sqlite_master m ON m.type='index' AND m.name = il.name")
	if err != nil {
		return nil
	}
	var out []ixFull
	for rows.Next() {
		var x ixFull
		rows.Scan(&x.name, &x.unique, &x.partial, &x.sql)
		out = append(out, x)
	}
	rows.Close()
	for i := range out {
		r2, err := e.SQL.Query("SELECT coalesce(name,''), \"desc\", coalesce(coll,'') FROM pragma_index_xinfo(?) WHERE key = 1 ORDER BY seqno", out[i].name)
		if err != nil {
			continue
		}
		for r2.Next() {
			var c ixCol
			r2.Scan(&c.name, &c.desc, &c.coll)
			out[i].cols = append(out[i].cols, c)
		}
		r2.Close()
	}
	return out
}

func squash(s string) string { return strings.Join(strings.Fields(strings.ToLower(s)), " ") }

// verifyIndex: an index with everything the declaration says exists on the
// given key columns (in order); returns "" or what is wrong.
func verifyIndex(e *h.Env, d idxDecl, cols []string) string {
	var why []string
	for _, ix := range indexesFull(e) {
		if d.name != "" && ix.name != d.name {
			continue
		}
		if len(ix.cols) != len(cols) {
			continue
		}
		match := true
		for i, c := range cols {
			if d.expr != "" && len(cols) == 1 {
				if ix.cols[i].name != "" || !strings.Contains(squash(ix.sql), squash(d.expr)) {
					match = false
				}
			} else if !strings.EqualFold(ix.cols[i].name, c) {
				match = false
			}
		}
		if !match {
			continue
		}
		var bad []string
		if ix.unique != d.unique {
			bad = append(bad, fmt.Sprintf("unique=%v", ix.unique))
		}
		if (d.where != "") != ix.partial || (d.where != "" && !strings.Contains(squash(ix.sql), "where "+squash(d.where))) {
			bad = append(bad, fmt.Sprintf("partial=%v sql=%q", ix.partial, ix.sql))
		}
		if len(cols) == 1 && (d.sort == "desc") != ix.cols[0].desc {
			bad = append(bad, fmt.Sprintf("desc=%v", ix.cols[0].desc))
		}
		if len(cols) == 1 && d.collate != "" && !strings.EqualFold(ix.cols[0].coll, d.collate) {
			bad = append(bad, "collation="+ix.cols[0].coll)
		}
		if len(bad) == 0 {
			return ""
		}
		why = append(why, ix.name+": "+strings.Join(bad, ", "))
	}
	if len(why) == 0 {
		return "no index on " + strings.Join(cols, ",")
	}
	return "index differs from the declaration: " + strings.Join(why, "; ")
}

// checkDeclared verifies that every index / unique / uniqueIndex / check the
// model declares exists with its options (PRAGMA + sqlite_master) and, when
// rows are present (enforce), is enforced: giving row m1 the value of row m0
// in a unique column must fail (for a partial unique index `where marker <>
// 'm1'` that copy must succeed and the copy into m2 must fail), an UPDATE to
// the text a check forbids must fail.
func checkDeclared(e *h.Env, ds []decl, all []decl, enforce bool, fail func(kind, detail string)) {
	// fullUnique: the model declares an unconditional unique on the column
	fullUnique := func(col string) bool {
		for _, dc := range all {
			if dc.col != col {
				continue
			}
			if strings.ToLower(strings.TrimSpace(dc.tag)) == "unique" {
				return true
			}
			if d, ok := readIndexTag(dc.tag); ok && d.unique && d.where == "" {
				return true
			}
		}
		return false
	}
	// declarations that share an explicit index name form one composite index
	type member struct {
		col string
		d   idxDecl
		seq int
	}
	groups := map[string][]member{}
	var order []string
	for i, dc := range ds {
		lp := strings.ToLower(strings.TrimSpace(dc.tag))
		if d, ok := readIndexTag(dc.tag); ok {
			k := d.name
			if k == "" {
				k = fmt.Sprintf("\x00%d", i)
			}
			if _, seen := groups[k]; !seen {
				order = append(order, k)
			}
			groups[k] = append(groups[k], member{dc.col, d, i})
			continue
		}
		switch {
		case lp == "unique":
			atomic.AddInt64(&nvDeclChecks, 1)
			if !hasIndexOn(e, dc.col, true) {
				fail("unique index/constraint declared by the model is missing after AutoMigrate", "column "+dc.col)
			} else if enforce && atomic.AddInt64(&nvUniqueProbes, 1) > 0 && !duplicateRejected(e, dc.col) {
				fail("unique index/constraint declared by the model does not reject a duplicate", "column "+dc.col)
			}
		case strings.HasPrefix(lp, "check:"):
			if enforce {
				atomic.AddInt64(&nvDeclChecks, 1)
				forbidden := dc.tag[strings.LastIndex(dc.tag, "'")-2 : strings.LastIndex(dc.tag, "'")]
				if !checkEnforced(e, forbidden) {
					fail("check constraint declared by the model is not enforced after AutoMigrate", dc.tag)
				}
			}
		}
	}
	for _, k := range order {
		ms := groups[k]
		// key columns by priority, then declaration order (Marker precedes the fields)
		for i := 1; i < len(ms); i++ {
			for j := i; j > 0 && (ms[j].d.priority < ms[j-1].d.priority); j-- {
				ms[j], ms[j-1] = ms[j-1], ms[j]
			}
		}
		var cols []string
		d := ms[0].d
		for _, m := range ms {
			cols = append(cols, m.col)
			d.unique = d.unique || m.d.unique
		}
		atomic.AddInt64(&nvDeclChecks, 1)
		nvSpellings.Add(squash(ms[0].d.raw))
		kind := "index"
		if d.unique {
			kind = "unique index"
		}
		if msg := verifyIndex(e, d, cols); msg != "" {
			fail(kind+" declared by the model is missing or differs after AutoMigrate", fmt.Sprintf("tag %q on %s: %s", d.raw, strings.Join(cols, ","), msg))
			continue
		}
		if !enforce || !d.unique || len(cols) != 1 || d.expr != "" {
			continue
		}
		atomic.AddInt64(&nvUniqueProbes, 1)
		switch {
		case d.where == "":
			if !duplicateRejected(e, cols[0]) {
				fail("unique index declared by the model does not reject a duplicate", "column "+cols[0])
			}
		case cols[0] != tg.MarkerCol && squash(d.where) == "marker <> 'm1'" && !fullUnique(cols[0]):
			if msg := partialProbe(e, cols[0]); msg != "" {
				fail("partial unique index declared by the model is not enforced as declared", fmt.Sprintf("tag %q on %s: %s", d.raw, cols[0], msg))
			}
		}
	}
}

// partialProbe (unique index WHERE marker <> 'm1'): rows m0, m1, m2 hold
// distinct non-NULL values; copying m0's value into m1 (outside the index)
// must be accepted, copying it into m2 must be rejected. Both are undone.
func partialProbe(e *h.Env, col string) string {
	e.Rec.Pause()
	defer e.Rec.Resume()
	var n int
	if err := e.SQL.QueryRow("SELECT count(*) FROM `" + table + "` WHERE `marker` IN ('m0','m1','m2') AND `" + col + "` IS NOT NULL").Scan(&n); err != nil || n < 3 {
		return ""
	}
	atomic.AddInt64(&nvPartialProbes, 1)
	try := func(target string) error {
		tx, err := e.SQL.Begin()
		if err != nil {
			return nil
		}
		defer tx.Rollback()
		_, err = tx.Exec("UPDATE `"+table+"` SET `"+col+"` = (SELECT `"+col+"` FROM `"+table+"` WHERE `marker` = 'm0') WHERE `marker` = ?", target)
		return err
	}
	if err := try("m1"); err != nil {
		return "a duplicate in a row outside the partial condition was rejected: " + err.Error()
	}
	if err := try("m2"); err == nil || !strings.Contains(strings.ToLower(err.Error()), "constraint") {
		return fmt.Sprintf("a duplicate inside the partial condition was accepted (err=%v)", err)
	}
	return ""
}

// duplicateRejected: copying the (non-NULL) value of row m0 into row m1 must
// fail with a constraint error; true also when the probe is not applicable
// (fewer than two rows, NULL value).
func duplicateRejected(e *h.Env, col string) bool {
	e.Rec.Pause()
	defer e.Rec.Resume()
	var n int
	if err := e.SQL.QueryRow("SELECT count(*) FROM `" + table + "` WHERE `marker` IN ('m0','m1') AND `" + col + "` IS NOT NULL").Scan(&n); err != nil || n < 2 {
		return true
	}
	_, err := e.SQL.Exec("UPDATE `" + table + "` SET `" + col + "` = (SELECT `" + col + "` FROM `" + table + "` WHERE `marker` = 'm0') WHERE `marker` = 'm1'")
	return err != nil && strings.Contains(strings.ToLower(err.Error()), "constraint")
}

// non-vacuity counters of the declared-constraint and foreign-key checks
var nvFKPresent, nvFKAbsent, nvUniqueProbes, nvFlagged, nvDeclChecks, nvPartialProbes int64
var nvSpellings mc.Set

// foreignKeys: number of foreign key constraints of the table.
func foreignKeys(e *h.Env) int {
	e.Rec.Pause()
	defer e.Rec.Resume()
	var n int
	e.SQL.QueryRow("SELECT count(*) FROM pragma_foreign_key_list('" + table + "')").Scan(&n)
	return n
}

// checkFK: a model with a belongs-to relation has its foreign key constraint
// iff neither config flag is set.
func checkFK(e *h.Env, m *tg.Model, flags string, fail func(kind, detail string)) {
	if !m.Key.Relation {
		return
	}
	n := foreignKeys(e)
	if flags == "" {
		atomic.AddInt64(&nvFKPresent, 1)
	} else {
		atomic.AddInt64(&nvFKAbsent, 1)
	}
	if flags == "" && n == 0 {
		fail("foreign key constraint of the belongs-to relation is missing after AutoMigrate", "")
	}
	if flags != "" && n != 0 {
		fail("foreign key constraint created although the config disables it", flags)
	}
}

type indexInfo struct {
	unique bool
	cols   []string
}

func indexes(e *h.Env) []indexInfo {
	e.Rec.Pause()
	defer e.Rec.Resume()
	rows, err := e.SQL.Query("SELECT name, \"unique\" FROM pragma_index_list('" + table + "')")
	if err != nil {
		return nil
	}
	type nu struct {
		n string
		u bool
	}
	var names []nu
	for rows.Next() {
		var x nu
		rows.Scan(&x.n, &x.u)
		names = append(names, x)
	}
	rows.Close()
	var out []indexInfo
	for _, x := range names {
		r2, err := e.SQL.Query("SELECT name FROM pragma_index_info(?)", x.n)
		if err != nil {
			continue
		}
		ii := indexInfo{unique: x.u}
		for r2.Next() {
			var c string
			r2.Scan(&c)
			ii.cols = append(ii.cols, c)
		}
		r2.Close()
		out = append(out, ii)
	}
	return out
}

func hasIndexOn(e *h.Env, col string, unique bool) bool {
	for _, ix := range indexes(e) {
		if len(ix.cols) == 1 && strings.EqualFold(ix.cols[0], col) && (!unique || ix.unique) {
			return true
		}
	}
	return false
}

// checkEnforced: an UPDATE that sets marker to the forbidden text must fail.
func checkEnforced(e *h.Env, forbidden string) bool {
	e.Rec.Pause()
	defer e.Rec.Resume()
	_, err := e.SQL.Exec("UPDATE `"+table+"` SET `marker` = ? WHERE `marker` = 'm0'", forbidden)
	if err == nil {
		e.SQL.Exec("UPDATE `"+table+"` SET `marker` = 'm0' WHERE `marker` = ?", forbidden)
		return false
	}
	return strings.Contains(strings.ToLower(err.Error()), "constraint")
}

func setKey(m *tg.Model, rv reflect.Value, i int) {
	switch m.Key.Name {
	case "strkey":
		rv.FieldByName("Code").SetString(fmt.Sprintf("k%d", i))
	case "composite":
		rv.FieldByName("Code").SetString("c")
		rv.FieldByName("Seq").SetInt(int64(i))
	}
}

func marker(i int) string { return fmt.Sprintf("m%d", i) }

// distinctVals: indexes of catalogue values with predictable, pairwise
// distinct stored values (for unique columns).
func distinctVals(sp *tg.Spec, slot int) []int {
	seen := map[string]bool{}
	var out []int
	for i, v := range sp.Values {
		g := sp.GoValue(slot, v.Go).Interface()
		n := tg.StoredNorm(sp, slot, g)
		if n == "" || seen[n] {
			continue
		}
		seen[n] = true
		out = append(out, i)
	}
	return out
}

func allVals(sp *tg.Spec) []int {
	out := make([]int, len(sp.Values))
	for i := range out {
		out[i] = i
	}
	return out
}

type stats struct {
	histories, completed, v2records, idempotentChecks   int64
	alterHistories, alterWithDDL, ignoredFieldHistories int64
}

type checker struct {
	run      *mc.Run
	st       *stats
	distinct *mc.Set
	outcomes *mc.Set
	classes  *mc.Set
	samples  *mc.Samples
	sampled  mc.Set
	verbose  bool
	hmu      sync.Mutex
	hist     map[string]int
}

func (ck *checker) histAdd(k string) {
	ck.hmu.Lock()
	if ck.hist == nil {
		ck.hist = map[string]int{}
	}
	ck.hist[k]++
	ck.hmu.Unlock()
}

func (ck *checker) check(w *worker, c Case) {
	atomic.AddInt64(&ck.st.histories, 1)
	c.Readable = c.String()
	v1, v2, err := c.models()
	if err != nil {
		ck.run.HarnessError("bad case: %v", err)
		return
	}
	failed := false
	fail := func(step, kind, detail string) {
		failed = true
		tl := tags(c, step)
		if debug {
			fmt.Fprintf(os.Stderr, "DBG\t%s: %s\t%s[%s] mk[%s]\t%s %s[%s]\t%s\n", step, kind, c.Spec, c.Extra, c.MarkerTag, c.Change, c.NewSpec, c.NewTag, strings.SplitN(detail, "\n", 2)[0])
		}
		ck.histAdd(strings.Join(tl, "+") + " | " + step + ": " + kind)
		ck.run.Violation(tl, fmt.Sprintf("%s: %s\n%s\n%s", step, kind, c.String(), detail), c)
	}
	e := w.fresh(c.Flags)
	if c.Flags != "" {
		atomic.AddInt64(&nvFlagged, 1)
	}
	if ck.verbose {
		fmt.Println("case:", c.String())
	}
	say := func(step string) {
		if ck.verbose {
			fmt.Printf("--- after %s\n", step)
			for _, ev := range e.Rec.Events() {
				if ev.IsStatement() {
					fmt.Println("   ", ev.SQL)
				}
			}
		}
	}

	// 1. migrate(v1)
	e.Rec.Reset()
	if err, p := migrate(e, v1); err != nil || p != "" {
		fail("migrate-v1", "AutoMigrate failed", fmt.Sprintf("err=%v panic=%q", err, p))
		w.discard()
		return
	}
	say("migrate(v1)")
	v1cols := cols(v1)
	if miss := missing(tableColumns(e), v1cols); len(miss) > 0 {
		fail("migrate-v1", "columns missing after AutoMigrate", fmt.Sprint(miss))
		return
	}
	if g := ghosts(e, v1); len(g) > 0 {
		fail("migrate-v1", "a column excluded from migration was created", fmt.Sprint(g))
	}
	declV1 := declaredOf(v1, c.MarkerTag)
	checkDeclared(e, declV1, declV1, false, func(k, d string) { fail("declared-v1", k, d) })
	checkFK(e, v1, c.Flags, func(k, d string) { fail("declared-v1", k, d) })

	// 2. insert rows of v1
	uniq0 := len(v1.Specs) == 1 && (hasUnique(c.Extra) || ((c.Change == "tagfield" || c.Change == "alterfield") && hasUnique(c.NewTag)))
	var vals0, rest0 []int
	if len(v1.Specs) == 1 {
		sp := v1.Specs[0]
		if uniq0 {
			d := distinctVals(sp, 0)
			half := (len(d) + 1) / 2
			vals0, rest0 = d[:half], d[half:]
		} else {
			vals0 = allVals(sp)
			if len(vals0) > 3 {
				vals0 = vals0[:3]
			}
			rest0 = allVals(sp)
		}
	}
	nrows := 2
	if len(vals0) > 0 {
		nrows = len(vals0)
	}
	for i := 0; i < nrows; i++ {
		pr := v1.New()
		rv := pr.Elem()
		setKey(v1, rv, i)
		rv.FieldByName("Marker").SetString(marker(i))
		if len(v1.Specs) == 1 {
			sp := v1.Specs[0]
			rv.FieldByName(sp.GoFieldName(0)).Set(sp.GoValue(0, sp.Values[vals0[i]].Go))
		}
		var p string
		var err error
		catch(&p, func() { err = tdb(e, v1).Create(pr.Interface()).Error })
		if err != nil || p != "" {
			fail("insert-v1", "Create of a v1 row failed", fmt.Sprintf("row %d: err=%v panic=%q", i, err, p))
			w.discard()
			return
		}
	}
	before := dumpCols(e, v1cols)
	if len(before) != nrows {
		fail("insert-v1", "wrong number of rows stored", fmt.Sprintf("%d, want %d", len(before), nrows))
		return
	}
	checkDeclared(e, declV1, declV1, true, func(k, d string) { fail("declared-v1", k, d) })
	if after := dumpCols(e, v1cols); strings.Join(after, "\n") != strings.Join(before, "\n") {
		fail("declared-v1", "a constraint declared by the model did not stop a violating UPDATE", fmt.Sprintf("before:\n%s\nafter:\n%s", strings.Join(before, "\n"), strings.Join(after, "\n")))
		return
	}

	// 3. migrate(v1) again: no DDL, nothing changes
	e.Rec.Reset()
	if err, p := migrate(e, v1); err != nil || p != "" {
		fail("migrate-v1-again", "AutoMigrate failed", fmt.Sprintf("err=%v panic=%q", err, p))
		w.discard()
		return
	}
	say("migrate(v1) again")
	atomic.AddInt64(&ck.st.idempotentChecks, 1)
	if ddl := ddlOf(e); len(ddl) > 0 {
		fail("migrate-v1-again", "AutoMigrate of an unchanged model issued schema-changing statements", strings.Join(ddl, "\n"))
	}
	if g := ghosts(e, v1); len(g) > 0 {
		fail("migrate-v1-again", "a column excluded from migration was created", fmt.Sprint(g))
	}
	if after := dumpCols(e, v1cols); strings.Join(after, "\n") != strings.Join(before, "\n") {
		fail("migrate-v1-again", "rows changed by AutoMigrate of an unchanged model", fmt.Sprintf("before:\n%s\nafter:\n%s", strings.Join(before, "\n"), strings.Join(after, "\n")))
		return
	}

	// 4. migrate(v2)
	e.Rec.Reset()
	if err, p := migrate(e, v2); err != nil || p != "" {
		fail("migrate-v2", "AutoMigrate failed", fmt.Sprintf("err=%v panic=%q", err, p))
		w.discard()
		return
	}
	say("migrate(v2)")
	ck.outcomes.Add(fmt.Sprint(len(ddlOf(e))) + "|" + c.Change + "|" + c.NewTag)
	if c.Change == "alterfield" {
		atomic.AddInt64(&ck.st.alterHistories, 1)
		if len(ddlOf(e)) > 0 {
			atomic.AddInt64(&ck.st.alterWithDDL, 1)
		}
	}
	for _, sp := range v2.Specs {
		if sp.NoColumn {
			atomic.AddInt64(&ck.st.ignoredFieldHistories, 1)
			break
		}
	}
	if l := e.Leaks(); l != "" {
		fail("migrate-v2", "AutoMigrate leaked a transaction", l)
		w.discard()
		return
	}
	v2cols := cols(v2)
	if miss := missing(tableColumns(e), v2cols); len(miss) > 0 {
		fail("migrate-v2", "columns missing after AutoMigrate", fmt.Sprint(miss))
		return
	}
	if g := ghosts(e, v2); len(g) > 0 {
		fail("migrate-v2", "a column excluded from migration was created", fmt.Sprint(g))
	}
	if after := dumpCols(e, v1cols); strings.Join(after, "\n") != strings.Join(before, "\n") {
		fail("migrate-v2", "existing rows not preserved on the common columns", fmt.Sprintf("before:\n%s\nafter:\n%s", strings.Join(before, "\n"), strings.Join(after, "\n")))
		return
	}
	// what v1 declared is still there, the foreign key follows the config
	checkDeclared(e, declV1, declV1, true, func(k, d string) { fail("declared-after-v2", k, d) })
	checkFK(e, v2, c.Flags, func(k, d string) { fail("declared-after-v2", k, d) })
	// what was added is present
	{
		col := tg.MarkerCol
		switch c.Change {
		case "tagfield":
			col = v1.Specs[0].Cols(0)[0]
		case "addfield":
			if cs := v2.Specs[c.newSlot()].Cols(c.newSlot()); len(cs) > 0 {
				col = cs[0]
			}
		case "alterfield":
			if cs := v2.Specs[0].Cols(0); len(cs) == 1 {
				col = cs[0]
			}
			// the columns named by the variant carry a default now, the field's
			// other columns still carry none
			want := map[string]bool{}
			for _, dc := range v2.Specs[0].DefaultCols {
				want[strings.ToLower(strings.ReplaceAll(dc, "%d", "0"))] = true
			}
			have := columnDefaults(e)
			for _, fc := range v2.Specs[0].Cols(0) {
				lc := strings.ToLower(fc)
				if want[lc] && !have[lc] {
					fail("present", "default added to an existing column is missing after AutoMigrate", "column "+fc)
				}
				if !want[lc] && have[lc] {
					fail("present", "a column that has no default in the model received one", "column "+fc)
				}
			}
		}
		var added []decl
		for _, p := range strings.Split(c.NewTag, ";") {
			if p = strings.TrimSpace(p); p != "" {
				added = append(added, decl{col, p})
			}
		}
		checkDeclared(e, added, append(append([]decl{}, declV1...), added...), true, func(k, d string) { fail("present", k, d) })
	}

	// 5. read old rows into v2 structs; insert v2 records and read them back
	for i := 0; i < nrows; i++ {
		p := v2.New()
		var pm string
		var err error
		catch(&pm, func() { err = tdb(e, v2).First(p.Interface(), "marker = ?", marker(i)).Error })
		if err != nil || pm != "" {
			fail("read-old", "First of an existing row into the v2 model failed", fmt.Sprintf("err=%v panic=%q", err, pm))
			continue
		}
		if len(v1.Specs) == 1 {
			sp := v1.Specs[0]
			fn := sp.GoFieldName(0)
			// the value must be what a v1 read gives
			q := v1.New()
			if err := tdb(e, v1).First(q.Interface(), "marker = ?", marker(i)).Error; err != nil {
				fail("read-old", "First of an existing row into the v1 model failed", err.Error())
				continue
			}
			a, b := tg.Norm(p.Elem().FieldByName(fn).Interface()), tg.Norm(q.Elem().FieldByName(fn).Interface())
			if a != b {
				fail("read-old", "existing row reads differently through the v2 model", fmt.Sprintf("row %d field %s: v2 %s v1 %s", i, fn, a, b))
			}
		}
	}
	if c.Change == "alterfield" {
		// the variant has its own catalogue; with a unique column keep away
		// from the values the v1 rows hold
		ns := v2.Specs[0]
		taken := map[string]bool{}
		for _, vi := range vals0 {
			taken[tg.StoredNorm(v1.Specs[0], 0, v1.Specs[0].GoValue(0, v1.Specs[0].Values[vi].Go).Interface())] = true
		}
		rest0 = nil
		cand := allVals(ns)
		if uniq0 {
			cand = distinctVals(ns, 0)
		}
		for _, vi := range cand {
			if uniq0 && taken[tg.StoredNorm(ns, 0, ns.GoValue(0, ns.Values[vi].Go).Interface())] {
				continue
			}
			rest0 = append(rest0, vi)
		}
	}
	nrec := 1
	var vals1 []int
	if c.Change == "addfield" {
		ns := v2.Specs[c.newSlot()]
		if hasUnique(c.NewTag) {
			vals1 = distinctVals(ns, c.newSlot())
		} else {
			vals1 = allVals(ns)
		}
		nrec = len(vals1)
	}
	if len(v1.Specs) == 1 {
		if c.Change == "alterfield" {
			nrec = len(rest0) // one v2 record per catalogue value of the variant
		}
		if (uniq0 || len(rest0) == 0) && len(rest0) < nrec {
			nrec = len(rest0)
		}
	}
	for j := 0; j < nrec; j++ {
		idx := nrows + j
		p := v2.New()
		rv := p.Elem()
		setKey(v2, rv, idx)
		rv.FieldByName("Marker").SetString(marker(idx))
		given := make([]interface{}, len(v2.Specs))
		labels := make([]string, len(v2.Specs))
		for s, sp := range v2.Specs {
			var vi int
			if c.Change == "addfield" && s == c.newSlot() {
				vi = vals1[j]
			} else {
				vi = rest0[j%len(rest0)]
			}
			gv := sp.GoValue(s, sp.Values[vi].Go)
			rv.FieldByName(sp.GoFieldName(s)).Set(gv)
			given[s] = gv.Interface()
			labels[s] = sp.Values[vi].Label
		}
		lo := atomic.LoadInt64(e.Clock)
		var pm string
		var err error
		catch(&pm, func() { err = tdb(e, v2).Create(p.Interface()).Error })
		hi := atomic.LoadInt64(e.Clock)
		if err != nil || pm != "" {
			fail("insert-v2", "the migrated table does not accept a record of the new model", fmt.Sprintf("values %v: err=%v panic=%q", labels, err, pm))
			if e.Leaks() != "" {
				w.discard()
				return
			}
			continue
		}
		atomic.AddInt64(&ck.st.v2records, 1)
		q := v2.New()
		catch(&pm, func() { err = tdb(e, v2).First(q.Interface(), "marker = ?", marker(idx)).Error })
		if err != nil || pm != "" {
			fail("read-v2", "First of a v2 record failed", fmt.Sprintf("err=%v panic=%q", err, pm))
			continue
		}
		for s, sp := range v2.Specs {
			fn := sp.GoFieldName(s)
			class, kind, detail := tg.CheckField(sp, s, given[s], rv.FieldByName(fn).Interface(), q.Elem().FieldByName(fn).Interface(), tg.FieldCtx{
				HasMem:  true,
				ClockLo: h.Epoch.Add(time.Duration(lo+1) * time.Second),
				ClockHi: h.Epoch.Add(time.Duration(hi) * time.Second),
			})
			if kind != "" {
				fail("read-v2", kind, fmt.Sprintf("record %s field %s (%s=%s): %s", marker(idx), fn, sp.Name, labels[s], detail))
			} else {
				ck.classes.Add(sp.Name + "|" + class)
			}
		}
	}

	// 6. migrate(v2) again: the database matches the model now
	full := dumpCols(e, v2cols)
	e.Rec.Reset()
	if err, p := migrate(e, v2); err != nil || p != "" {
		fail("migrate-v2-again", "AutoMigrate failed", fmt.Sprintf("err=%v panic=%q", err, p))
		w.discard()
		return
	}
	say("migrate(v2) again")
	atomic.AddInt64(&ck.st.idempotentChecks, 1)
	if ddl := ddlOf(e); len(ddl) > 0 {
		fail("migrate-v2-again", "AutoMigrate of an unchanged model issued schema-changing statements", strings.Join(ddl, "\n"))
	}
	if g := ghosts(e, v2); len(g) > 0 {
		fail("migrate-v2-again", "a column excluded from migration was created", fmt.Sprint(g))
	}
	if after := dumpCols(e, v2cols); strings.Join(after, "\n") != strings.Join(full, "\n") {
		fail("migrate-v2-again", "rows changed by AutoMigrate of an unchanged model", fmt.Sprintf("before:\n%s\nafter:\n%s", strings.Join(full, "\n"), strings.Join(after, "\n")))
	}
	if l := e.Leaks(); l != "" {
		fail("migrate-v2-again", "leaked a transaction", l)
		w.discard()
	}
	atomic.AddInt64(&ck.st.completed, 1)
	if !failed {
		if ck.distinct.Add(c.String()) && ck.sampled.Add(c.Change+c.NewTag) {
			ck.samples.Add(c.String()) // one sample per kind of change
		}
	}
}

func missing(have, want []string) []string {
	h := map[string]bool{}
	for _, c := range have {
		h[strings.ToLower(c)] = true
	}
	var out []string
	for _, c := range want {
		if !h[strings.ToLower(c)] {
			out = append(out, c)
		}
	}
	return out
}

// ---------------------------------------------------------------------------
// alphabet

const (
	checkField  = "check:ck_fld,marker <> 'yy'"
	checkMarker = "check:marker <> 'zz'"
)

// multiCol: kinds without exactly one column (embedded structs, fields
// excluded from the table) take no per-column tags.
func multiCol(sp *tg.Spec) bool { return len(sp.ColTmpl) != 1 }

func nullable(sp *tg.Spec) bool {
	for _, v := range sp.Values {
		for _, c := range sp.CellsOf(sp.GoValue(0, v.Go).Interface()) {
			if c == nil {
				return true
			}
		}
	}
	return false
}

func textual(sp *tg.Spec) bool {
	switch sp.Name {
	case "string", "ptr_string", "null_string", "column_rename", "default_string", "dbdefault_string":
		return true
	}
	return false
}

// index tag spellings. basic = the two plain forms; full = the same
// declarations in other spellings (blank after ';', case) and with options.
var (
	idxBasic       = []string{"index"}
	uniqBasic      = []string{"uniqueIndex"}
	idxFull        = []string{"index", " index", "INDEX", "index:ix_fld", "index:,sort:desc", "index:,collate:NOCASE", "index:,where:marker <> 'm1'", "index:,expression:lower(marker)", "index:,priority:3"}
	uniqFull       = []string{"uniqueIndex", " uniqueIndex", "uniqueindex", "index:,unique", "index:ux_fld,unique", "uniqueIndex:,where:marker <> 'm1'", "uniqueIndex:,sort:desc"}
	idxMarkerFull  = []string{"index", " INDEX", "index:ix_mk,sort:desc", "index:,where:marker <> 'm1'"}
	uniqMarkerFull = []string{"uniqueIndex", " uniqueindex", "index:ux_mk,unique", "uniqueIndex:,where:marker <> 'm1'"}
)

func isIndexTag(t string) bool {
	for _, p := range strings.Split(t, ";") {
		if _, ok := readIndexTag(p); ok {
			return true
		}
	}
	return false
}

// fieldTagVariants: tag variants for a field of kind sp that exists in v1.
func fieldTagVariants(sp *tg.Spec, full bool) []string {
	if multiCol(sp) {
		return []string{""}
	}
	idx, uniq := idxBasic, uniqBasic
	if full {
		idx, uniq = idxFull, uniqFull
	}
	out := append([]string{""}, idx...)
	if len(distinctVals(sp, 0)) >= 2 {
		out = append(out, uniq...)
		out = append(out, "unique")
	}
	out = append(out, checkField)
	if !nullable(sp) || sp.Serializer == "json" {
		out = append(out, "not null", "not null;index")
		if full {
			out = append(out, "not null; index")
		}
	}
	if textual(sp) {
		out = append(out, "size:64", "size:64;uniqueIndex")
		if full {
			out = append(out, "size:64; uniqueIndex")
		}
	}
	return out
}

// addedTagVariants: tag variants for a field that v2 adds.
func addedTagVariants(sp *tg.Spec, full bool) []string {
	if multiCol(sp) {
		return []string{""}
	}
	idx, uniq := idxBasic, uniqBasic
	if full {
		idx, uniq = idxFull, uniqFull
	}
	out := append([]string{""}, idx...)
	out = append(out, checkField)
	if len(distinctVals(sp, 0)) >= 2 && sp.DefaultLit == nil {
		// (existing rows all receive the literal default: no unique there)
		out = append(out, uniq...)
		out = append(out, "unique")
	}
	if sp.DefaultLit != nil && !nullable(sp) {
		out = append(out, "not null") // SQLite can add a NOT NULL column only with a default
	}
	if textual(sp) {
		out = append(out, "size:64", "size:64; index")
	}
	return out
}

// tagChanges: tags that v2 adds to the existing field.
func tagChanges(sp *tg.Spec, extra string, full bool) []string {
	if multiCol(sp) {
		return nil
	}
	var out []string
	if textual(sp) && !strings.Contains(extra, "size:") {
		out = append(out, "size:32") // SQLite text has no length: nothing to alter, nothing may change
		// two tags at once on the existing column
		if !isIndexTag(extra) && !hasUnique(extra) {
			out = append(out, "size:32;index")
			if len(distinctVals(sp, 0)) >= 2 {
				out = append(out, "size:32;unique")
			}
		}
	}
	idx, uniq := idxBasic, uniqBasic
	if full {
		idx, uniq = idxFull, uniqFull
	}
	cands := append(append(append([]string{}, idx...), uniq...), "unique", checkField)
	for _, t := range cands {
		if isIndexTag(extra) && isIndexTag(t) {
			continue // one index per column in this alphabet
		}
		if strings.Contains(extra, t) || (t == "unique" && hasUnique(extra)) {
			continue
		}
		if hasUnique(t) && len(distinctVals(sp, 0)) < 2 {
			continue
		}
		out = append(out, t)
	}
	return out
}

func markerChangesFor(full bool) []string {
	if !full {
		return []string{"index", "uniqueIndex", "unique", checkMarker}
	}
	out := append(append([]string{}, idxMarkerFull...), uniqMarkerFull...)
	return append(out, "unique", checkMarker)
}

func conflict(a, b *tg.Spec) bool {
	return a != nil && a == b && a.OnlyOnce()
}

// v1Kinds / addedKinds: the kinds of the grammar minus the exclusions.
func usable(sp *tg.Spec, added bool) bool {
	if sp.Serializer == "unixtime" && sp.Unsigned {
		return false // cannot be created at all (C03 finding: UnixSecondSerializer panics)
	}
	if sp.DBDefault && !sp.DBDefaultNull {
		if added {
			return false // SQLite: "Cannot add a column with non-constant default"
		}
		if strings.Contains(sp.TagTmpl, "(") {
			return false // spurious ALTER caused by the SQLite driver's DDL parser, see excluded
		}
	}
	return true
}

// flagCombos: the non-default combinations of the migration-relevant config flags.
var flagCombos = []string{"nofk", "norel", "nofk+norel"}

// sliceKinds: the representative kinds of the quick tier's config-flag and
// relation slice.
var sliceKinds = map[string]bool{"int64": true, "string": true, "time": true, "default_string": true}

func enumerate(thorough bool) []Case {
	var out []Case
	seen := map[string]bool{}
	add := func(c Case) {
		k := fmt.Sprintf("%s|%s|%s|%s|%s|%s|%s|%s", c.Key, c.Spec, c.Extra, c.MarkerTag, c.Change, c.NewSpec, c.NewTag, c.Flags)
		if !seen[k] {
			seen[k] = true
			out = append(out, c)
		}
	}
	refAdded := []string{"int64", "string"}
	type v1f struct{ spec, extra, marker string }
	refV1 := []v1f{{"", "", ""}, {"", "", "uniqueIndex"}, {"int64", "", ""}, {"string", "index", ""}, {"default_string", "not null", ""}, {"time", "unique", ""},
		// one composite index declared on Marker and on the field (shared name),
		// key order by priority, then by declaration order
		{"int64", "index:ix_comp", "index:ix_comp"}, {"string", "index:ix_comp,priority:1", "index:ix_comp,priority:2"}, {"int64", "uniqueIndex:ux_comp", "uniqueIndex:ux_comp"}}

	// sweeps enumerates sweep A and sweep B for one key configuration and one
	// flag combination; kinds restricts the v1 kinds of sweep A, product makes
	// sweep A the full v1 x added-field product, sweepB switches sweep B on.
	// full(sp): the kind gets every index spelling / option, not only the basic two
	full := func(sp *tg.Spec) bool { return thorough || sp == nil || sp.Name == "int64" || sp.Name == "string" }
	sweeps := func(key, flags string, kinds func(*tg.Spec) bool, product, sweepB bool) {
		// sweep A: every v1 (kind x tag variant) x changes to the existing
		// columns + two reference added fields
		for _, sp := range tg.Specs {
			if !usable(sp, false) || !kinds(sp) {
				continue
			}
			for _, extra := range fieldTagVariants(sp, full(sp)) {
				base := Case{Key: key, Spec: sp.Name, Extra: extra, Flags: flags}
				for _, t := range tagChanges(sp, extra, full(sp)) {
					c := base
					c.Change, c.NewTag = "tagfield", t
					add(c)
				}
				for _, t := range markerChangesFor(full(sp) && extra == "") {
					c := base
					c.Change, c.NewTag = "tagmarker", t
					add(c)
				}
				for _, alt := range sp.Alters {
					c := base
					c.Change, c.NewSpec = "alterfield", alt.Name
					add(c)
					// pairs of simultaneous changes on the existing column: the
					// altering change (default) together with a constraint/index
					if multiCol(sp) {
						continue
					}
					for _, t := range []string{"unique", "uniqueIndex", "index", checkField} {
						if (isIndexTag(extra) && isIndexTag(t)) || strings.Contains(extra, t) || (t == "unique" && hasUnique(extra)) {
							continue
						}
						if hasUnique(t) && len(distinctVals(alt, 0)) < 3 {
							continue
						}
						c2 := c
						c2.NewTag = t
						add(c2)
					}
				}
				if product {
					for _, ns := range tg.Specs {
						if conflict(sp, ns) || !usable(ns, true) {
							continue
						}
						for _, t := range addedTagVariants(ns, false) {
							c := base
							c.Change, c.NewSpec, c.NewTag = "addfield", ns.Name, t
							add(c)
						}
					}
				} else {
					for _, n := range refAdded {
						c := base
						c.Change, c.NewSpec = "addfield", n
						add(c)
					}
				}
			}
		}
		if !sweepB {
			return
		}
		// sweep B: reference v1 types x every added field kind x tag variant
		for _, r := range refV1 {
			base := Case{Key: key, Spec: r.spec, Extra: r.extra, MarkerTag: r.marker, Flags: flags}
			for _, ns := range tg.Specs {
				if (r.spec != "" && conflict(tg.SpecByName(r.spec), ns)) || !usable(ns, true) {
					continue
				}
				for _, t := range addedTagVariants(ns, full(ns) && r.spec == "" && r.marker == "") {
					c := base
					c.Change, c.NewSpec, c.NewTag = "addfield", ns.Name, t
					add(c)
				}
			}
			for _, t := range markerChangesFor(r.spec == "") {
				if r.marker != "" {
					continue
				}
				c := base
				c.Change, c.NewTag = "tagmarker", t
				add(c)
			}
		}
	}
	all := func(*tg.Spec) bool { return true }
	slice := func(sp *tg.Spec) bool { return sliceKinds[sp.Name] }
	rel := tg.RelKeys[0].Name

	// default config: all plain key configurations (in thorough the large
	// product comes last so that an internal deadline cuts there)
	if thorough {
		// the relation model and every non-default flag combination: complete
		// sweeps A and B over every kind, for every key configuration
		sweeps(rel, "", all, false, true)
		for _, fl := range flagCombos {
			for ki := range tg.Keys {
				sweeps(tg.Keys[ki].Name, fl, all, false, true)
			}
			sweeps(rel, fl, all, false, true)
		}
		for ki := range tg.Keys {
			sweeps(tg.Keys[ki].Name, "", all, true, true)
		}
	} else {
		// quick: the representative slice (every tag variant x a few kinds x
		// every change of sweep A) for the relation model and for each flag
		// combination on a plain and on the relation model
		sweeps(rel, "", slice, false, false)
		for _, fl := range flagCombos {
			sweeps("autoid", fl, slice, false, false)
			sweeps(rel, fl, slice, false, false)
		}
		// default config: all plain key configurations (last: an internal
		// deadline on an overloaded machine then cuts the largest part)
		for ki := range tg.Keys {
			sweeps(tg.Keys[ki].Name, "", all, false, true)
		}
	}
	return out
}

func main() {
	args := mc.ParseArgs()
	tier := args.Tier
	if args.Replay != "" {
		tier = "replay" // keeps the files written while replaying apart from the recorded ones
	}
	run := mc.NewRun("C20", tier, "exploration")
	ck := &checker{run: run, st: &stats{}, distinct: &mc.Set{}, outcomes: &mc.Set{}, classes: &mc.Set{}, samples: &mc.Samples{N: 16}}
	if args.Replay != "" {
		var c Case
		if err := mc.LoadReplay(args.Replay, &c); err != nil {
			fmt.Fprintln(os.Stderr, err)
			os.Exit(3)
		}
		ck.verbose = true
		ck.check(&worker{}, c)
		if run.NumViolations() > 0 {
			os.Exit(1)
		}
		fmt.Println("no violation (or only known findings) on replay")
		return
	}
	cases := enumerate(args.Tier == "thorough")
	deadline := time.Now().Add(9 * time.Minute)
	var timedOut int32
	var next int64 = -1
	var wg sync.WaitGroup
	for i := 0; i < 16; i++ {
		wg.Add(1)
		go func() {
			defer wg.Done()
			w := &worker{}
			for {
				n := atomic.AddInt64(&next, 1)
				if int(n) >= len(cases) {
					return
				}
				if time.Now().After(deadline) {
					atomic.StoreInt32(&timedOut, 1)
					return
				}
				ck.check(w, cases[n])
			}
		}()
	}
	wg.Wait()
	st := ck.st
	if run.NumViolations() == 0 && atomic.LoadInt32(&timedOut) == 0 {
		if st.idempotentChecks < 1000 {
			run.HarnessError("vacuous: only %d idempotence checks", st.idempotentChecks)
		}
		if st.alterWithDDL < 50 {
			run.HarnessError("vacuous: only %d histories in which migrate(v2) altered an existing column", st.alterWithDDL)
		}
		if st.ignoredFieldHistories < 50 {
			run.HarnessError("vacuous: only %d histories with a field excluded from migration", st.ignoredFieldHistories)
		}
		if nvFKPresent < 20 || nvFKAbsent < 20 || nvFlagged < 100 || nvUniqueProbes < 100 {
			run.HarnessError("vacuous: fk-present checks %d, fk-absent checks %d, histories with a non-default config %d, unique enforcement probes %d", nvFKPresent, nvFKAbsent, nvFlagged, nvUniqueProbes)
		}
		if nvSpellings.Len() < 15 || nvPartialProbes < 20 {
			run.HarnessError("vacuous: %d index tag spellings verified, %d partial-index enforcement probes", nvSpellings.Len(), nvPartialProbes)
		}
		if ck.outcomes.Len() < 4 {
			run.HarnessError("vacuous: only %d distinct migration outcomes", ck.outcomes.Len())
		}
	}
	run.Assume("SQLite dialect only (gorm.io/driver/sqlite v1.5.6 migrator on mattn/go-sqlite3); schema-changing statement = recorded driver statement starting with CREATE/ALTER/DROP")
	run.Assume("NOT NULL is not added to existing columns and NOT NULL columns are added only with a literal default (SQLite restriction); tags on embedded structs are not varied")
	run.Assume("check constraints are verified behaviourally (an UPDATE violating the expression must fail), indexes and unique constraints through PRAGMA index_list/index_info")
	for _, x := range excluded {
		run.Assume("excluded from the alphabet: " + x)
	}
	run.Finish(map[string]interface{}{
		"evaluations":                           st.histories,
		"distinct_nontrivial":                   ck.distinct.Len(),
		"rule":                                  "histories migrate(v1) -> insert rows -> migrate(v1) -> migrate(v2) -> read old rows, insert+read v2 records (one per catalogue value of the added kind) -> migrate(v2); v1 = key configuration (4) x field kind x tag variant; quick: sweep A = every v1 x {tags added to the field, tags added to Marker, every v2 variant of the field that alters an existing column (default added; for the twice-embedded struct on the first, the second or both twins), two reference added fields}, sweep B = 6 reference v1 x every added field kind x tag variant; thorough: every v1 x every added kind x tag variant with the default config, plus complete sweeps A and B over every kind for the belongs-to model and for each non-default combination of DisableForeignKeyConstraintWhenMigrating / IgnoreRelationshipsWhenMigrating on all 5 key configurations; quick covers the flag combinations and the belongs-to model on a slice (every tag variant x 4 kinds x every sweep-A change). The set of indexes/constraints a model declares is read from the tag text by the harness itself (spellings: blank after the separator, upper/lower case, name, unique option, where, sort, collate, expression, priority, composite over Marker+field) and compared with PRAGMA index_list/index_xinfo and the CREATE INDEX text in sqlite_master. distinct_nontrivial = distinct histories that ran to the end with every oracle step evaluated and no violation",
		"samples":                               ck.samples.List(),
		"exhaustive":                            atomic.LoadInt32(&timedOut) == 0,
		"histories_altering_an_existing_column": st.alterHistories,
		"histories_with_non_default_config_flags":              nvFlagged,
		"foreign_key_present_checks_default_config":            nvFKPresent,
		"foreign_key_absent_checks_flagged_config":             nvFKAbsent,
		"unique_enforcement_probes":                            nvUniqueProbes,
		"declared_constraint_checks":                           nvDeclChecks,
		"distinct_index_tag_spellings_verified":                nvSpellings.Len(),
		"partial_unique_index_enforcement_probes":              nvPartialProbes,
		"of_which_migrate_v2_issued_ddl":                       st.alterWithDDL,
		"histories_with_field_excluded_from_migration":         st.ignoredFieldHistories,
		"histories_completed":                                  st.completed,
		"idempotence_checks":                                   st.idempotentChecks,
		"v2_records_round_tripped":                             st.v2records,
		"distinct_migration_outcomes (ddl count, change, tag)": ck.outcomes.Len(),
		"kind_class_pairs_verified_on_v2_records":              ck.classes.Len(),
		"failing_checks_by_tags_and_kind":                      ck.hist,
		"field_kinds":                                          len(tg.Specs),
	})
}

// excluded lists tag combinations removed from the alphabet because a
// spurious ALTER is caused by the SQLite driver (module cache, not /repo).
var excluded = []string{
	"a field with a parenthesised database-side default (default:(abs(-7)), default:(lower('ABC'))) in v1: every AutoMigrate recreates the table because gorm.io/driver/sqlite ddlmod.go defaultValueRegexp strips only the opening parenthesis (DefaultValue() = \"abs(-7))\" != \"(abs(-7))\"), i.e. the driver's column-type reporting, not gorm",
	"adding a field with a database-side default expression or CURRENT_TIMESTAMP: SQLite refuses (Cannot add a column with non-constant default)",
	"adding a field with a literal default together with unique/uniqueIndex: the existing rows all receive the default",
	"serializer:unixtime on an unsigned field: records cannot be created at all (C03 finding)",
}
