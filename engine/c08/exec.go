package main

import (
	"errors"
	"fmt"
	"reflect"
	"sort"
	"strings"

	"gorm.io/gorm"

	cg "verif/condgram"
	"verif/h"
)

// finisher descriptor
type finisher struct {
	name        string
	write       bool
	inline      bool   // accepts an inline condition
	unq         bool   // chain units must render unqualified (columns live in a joined table)
	noPK        bool   // chain units must not be primary-key value forms
	singleWhere bool   // chain must be exactly one Where call (its args are passed inline)
	ref         string // relation of the result to the reference id set: set first last count member none
	core        bool
	keyed       bool // the model value carries primary key modelKey
}

// modelKey: a live row whose soft-deleted twin is modelKey+twinOffset
const modelKey = 14

const (
	fFind = iota
	fFirst
	fTake
	fLast
	fCount
	fPluck
	fBatches
	fRowsScan
	fScan
	fUpdate
	fUpdatesMap
	fUpdatesStruct
	fUpdateColumn
	fSelectUpdates
	fDelete
	fDeleteTwice
	fJoinsMain
	fJoinsOn
	fPreloadFunc
	fPreloadInline
	fAssocFind
	fAssocCount
	fModelKeyDelete
	fKeyDelete
	fModelKeyUpdate
	fModelKeyUpdates
	nFin
)

var fins = [nFin]finisher{
	fFind:          {name: "Find", inline: true, ref: "set", core: true},
	fFirst:         {name: "First", inline: true, ref: "first"},
	fTake:          {name: "Take", inline: true, ref: "member"},
	fLast:          {name: "Last", inline: true, ref: "last"},
	fCount:         {name: "Count", ref: "count", core: true},
	fPluck:         {name: "Pluck", ref: "set"},
	fBatches:       {name: "FindInBatches", ref: "none"},
	fRowsScan:      {name: "Rows+ScanRows", ref: "set"},
	fScan:          {name: "Scan", ref: "set"},
	fUpdate:        {name: "Update", write: true, ref: "set", core: true},
	fUpdatesMap:    {name: "Updates(map)", write: true, ref: "set"},
	fUpdatesStruct: {name: "Updates(struct)", write: true, ref: "set"},
	fUpdateColumn:  {name: "UpdateColumn", write: true, ref: "set"},
	fSelectUpdates: {name: "Select.Updates", write: true, ref: "set"},
	fDelete:        {name: "Delete", write: true, inline: true, ref: "set", core: true},
	fDeleteTwice:   {name: "DeleteTwice", write: true, ref: "set"},
	fJoinsMain:     {name: "Joins(rel)+conds", unq: true, noPK: true, ref: "none"},
	fJoinsOn:       {name: "Joins(rel,conds)", noPK: true, ref: "none"},
	fPreloadFunc:   {name: "Preload(rel,func)", ref: "none"},
	fPreloadInline: {name: "Preload(rel,cond)", singleWhere: true, ref: "none"},
	fAssocFind:     {name: "Association.Find", inline: true, ref: "none"},
	fAssocCount:    {name: "Association.Count", ref: "none"},
	// the primary key sits in the Model() value / in the value handed to Delete
	fModelKeyDelete:  {name: "Model(key).Delete(keyless)", write: true, inline: true, ref: "set", keyed: true},
	fKeyDelete:       {name: "Delete(key)", write: true, inline: true, ref: "set", keyed: true},
	fModelKeyUpdate:  {name: "Model(key).Update", write: true, ref: "set", keyed: true},
	fModelKeyUpdates: {name: "Model(key).Updates(struct)", write: true, ref: "set", keyed: true},
}

func finByName(n string) int {
	for i, f := range fins {
		if f.name == n {
			return i
		}
	}
	return -1
}

// Case is one enumerated program; it is executed scoped and Unscoped on the
// soft-delete model and on the plain twins.
type Case struct {
	Chain  []cg.Call `json:"chain"`
	Inline int       `json:"inline"`
	Fin    string    `json:"finisher"`
	// PropagateUnscoped config value
	Prop bool `json:"propagate_unscoped"`
	// Nested: the handle is db.Unscoped().Session(&Session{NewDB:true}) - Unscoped
	// survives only with PropagateUnscoped
	Nested bool `json:"nested,omitempty"`
	// Shape: 0 = the soft-delete field is a plain value field; otherwise the
	// variant number of another shape of the soft-delete model (see shapeName)
	Shape    int      `json:"shape,omitempty"`
	Labels   []string `json:"unit_labels,omitempty"`
	Readable string   `json:"readable,omitempty"`
}

func (c Case) key() string {
	return fmt.Sprintf("%v|%d|%s|%v|%v|%d", c.Chain, c.Inline, c.Fin, c.Prop, c.Nested, c.Shape)
}

var units [nVariants][]*cg.Unit // per variant (only the model-struct units differ)

func (c Case) String() string {
	us := units[vSoft]
	ch := cg.ChainString(c.Chain, us)
	in := ""
	if c.Inline >= 0 {
		in = ", " + us[c.Inline].Label
	}
	dot := func(s string) string {
		if s == "" {
			return ""
		}
		return "." + s
	}
	var s string
	switch finByName(c.Fin) {
	case fFind:
		s = "db" + dot(ch) + ".Find(&[]Soft{}" + in + ")"
	case fFirst, fTake, fLast:
		s = "db" + dot(ch) + "." + c.Fin + "(&Soft{}" + in + ")"
	case fCount:
		s = "db.Model(&Soft{})" + dot(ch) + ".Count(&n)"
	case fPluck:
		s = "db.Model(&Soft{})" + dot(ch) + `.Pluck("id",&ids)`
	case fBatches:
		s = "db" + dot(ch) + ".FindInBatches(&[]Soft{},4,fn)"
	case fRowsScan:
		s = "db.Model(&Soft{})" + dot(ch) + ".Rows() + ScanRows"
	case fScan:
		s = "db.Model(&Soft{})" + dot(ch) + ".Scan(&[]Soft{})"
	case fUpdate:
		s = "db.Model(&Soft{})" + dot(ch) + `.Update("m",7)`
	case fUpdatesMap:
		s = "db.Model(&Soft{})" + dot(ch) + `.Updates(map{"m":7})`
	case fUpdatesStruct:
		s = "db.Model(&Soft{})" + dot(ch) + `.Updates(Soft{M:7})`
	case fUpdateColumn:
		s = "db.Model(&Soft{})" + dot(ch) + `.UpdateColumn("m",7)`
	case fSelectUpdates:
		s = "db.Model(&Soft{})" + dot(ch) + `.Select("m").Updates(map{"m":7,"holder_id":9})`
	case fDelete:
		s = "db" + dot(ch) + ".Delete(&Soft{}" + in + ")"
	case fDeleteTwice:
		s = "db" + dot(ch) + ".Delete(&Soft{}) twice"
	case fJoinsMain:
		s = `db.Joins("Soft")` + dot(ch) + ".Find(&[]Ref{})"
	case fJoinsOn:
		s = `db.Joins("Soft", db` + dot(ch) + ").Find(&[]Ref{})"
	case fPreloadFunc:
		s = `db.Preload("Softs", func(db){ return db` + dot(ch) + " }).Find(&[]Holder{})"
	case fPreloadInline:
		s = `db.Preload("Softs", ` + us[c.Chain[0].Unit].Label + ").Find(&[]Holder{})"
	case fAssocFind:
		s = "db.Model(&Holder{ID:1})" + dot(ch) + `.Association("Softs").Find(&[]Soft{}` + in + ")"
	case fAssocCount:
		s = "db.Model(&Holder{ID:1})" + dot(ch) + `.Association("Softs").Count()`
	case fModelKeyDelete:
		s = "db.Model(&Soft{ID:14})" + dot(ch) + ".Delete(&Soft{}" + in + ")"
	case fKeyDelete:
		s = "db" + dot(ch) + ".Delete(&Soft{ID:14}" + in + ")"
	case fModelKeyUpdate:
		s = "db.Model(&Soft{ID:14})" + dot(ch) + `.Update("m",7)`
	case fModelKeyUpdates:
		s = "db.Model(&Soft{ID:14})" + dot(ch) + `.Updates(Soft{M:7})`
	}
	if c.Prop {
		s += "  [PropagateUnscoped]"
	}
	if c.Nested {
		s += "  [handle = db.Unscoped().Session(NewDB)]"
	}
	if c.Shape != 0 {
		s += "  [Soft = " + vName[c.Shape] + ": " + shapeName[c.Shape] + "]"
	}
	return s
}

// applicable tells whether the case is inside the alphabet of its finisher.
func applicable(c Case) bool {
	f := fins[finByName(c.Fin)]
	us := units[vSoft]
	if c.Inline >= 0 && !f.inline {
		return false
	}
	if f.singleWhere && !(len(c.Chain) == 1 && c.Chain[0].Kind == cg.KWhere) {
		return false
	}
	chk := func(u *cg.Unit) bool {
		if f.unq && !u.Unqualified {
			return false
		}
		if f.noPK && u.Render == "pkval" {
			return false
		}
		return true
	}
	for _, call := range c.Chain {
		if !chk(us[call.Unit]) {
			return false
		}
	}
	if c.Inline >= 0 && !chk(us[c.Inline]) {
		return false
	}
	return true
}

// obs is what one execution showed.
type obs struct {
	ids      []int
	n        int64
	txt      string
	err      string // error class
	errMsg   string
	found    bool
	extra    []string // invariant breaches seen on this side alone
	panicMsg string
}

// canon is the part of the observation that must agree between the
// soft-delete model and its plain twin.
func (o obs) canon(f int) string {
	if f == fTake {
		return fmt.Sprintf("found=%v|%s", o.found, o.err)
	}
	return fmt.Sprintf("%v|%d|%s|%s", o.ids, o.n, o.txt, o.err)
}

var errAbort = errors.New("batch limit")

func classify(err error) (string, string) {
	switch {
	case err == nil:
		return "", ""
	case errors.Is(err, gorm.ErrRecordNotFound):
		return "notfound", ""
	case errors.Is(err, gorm.ErrMissingWhereClause):
		return "missing-where", ""
	case errors.Is(err, errAbort):
		return "aborted", ""
	}
	return "error", err.Error()
}

type worker struct {
	envs     [2]*h.Env // PropagateUnscoped off / on
	pristine [2][nVariants]map[int]string
}

func newWorker() *worker {
	w := &worker{}
	for i := 0; i < 2; i++ {
		e := h.Open(&gorm.Config{PropagateUnscoped: i == 1})
		e.Rec.Pause()
		for _, s := range strings.Split(schemaSQL, ";") {
			if strings.TrimSpace(s) != "" {
				e.MustExec(s)
			}
		}
		seed(e)
		w.envs[i] = e
		for v := 0; v < nVariants; v++ {
			snap, err := snapshotDel(e.SQL, vTable[v], vDelCol[v])
			if err != nil {
				panic(err)
			}
			w.pristine[i][v] = snap
		}
	}
	return w
}

type xctx struct {
	w        *worker
	ei       int
	v        int
	unscoped bool
	c        Case
	f        int
	root     *gorm.DB // env handle or transaction
	us       []*cg.Unit
}

// mk gives a fresh handle: scoped, Unscoped, or the nested form.
func (x *xctx) mk() *gorm.DB {
	if x.c.Nested {
		return x.root.Unscoped().Session(&gorm.Session{NewDB: true})
	}
	if x.unscoped {
		return x.root.Unscoped()
	}
	return x.root
}

func (x *xctx) base() *gorm.DB { return x.w.envs[x.ei].DB }

func (x *xctx) chain(db *gorm.DB) *gorm.DB {
	for _, call := range x.c.Chain {
		db = cg.Apply(db, x.base(), call, x.us)
	}
	return db
}

func (x *xctx) inline() []interface{} {
	if x.c.Inline < 0 {
		return nil
	}
	return x.us[x.c.Inline].Args(x.base())
}

func keys[M rowM](rows []M) []int {
	ids := make([]int, 0, len(rows))
	for _, r := range rows {
		ids = append(ids, r.key())
	}
	sort.Ints(ids)
	return ids
}

// keyed returns a pointer to a model value carrying the primary key id.
func keyed[M rowM](id int) interface{} {
	var m M
	switch any(m).(type) {
	case Soft:
		return &Soft{ID: id}
	case Plain:
		return &Plain{ID: id}
	case SoftPtr:
		return &SoftPtr{ID: id}
	case SoftEmb:
		return &SoftEmb{Base: Base{ID: id}}
	case SoftPre:
		return &SoftPre{ID: id}
	case SoftCol:
		return &SoftCol{ID: id}
	}
	return &PlainAll{ID: id}
}

func updStruct[M rowM]() interface{} {
	var m M
	switch any(m).(type) {
	case Soft:
		return Soft{M: 7}
	case Plain:
		return Plain{M: 7}
	case SoftPtr:
		return SoftPtr{M: 7}
	case SoftEmb:
		return SoftEmb{M: 7}
	case SoftPre:
		return SoftPre{M: 7}
	case SoftCol:
		return SoftCol{M: 7}
	}
	return PlainAll{M: 7}
}

func runRead[M rowM](x *xctx) (o obs) {
	set := func(tx *gorm.DB) {
		o.err, o.errMsg = classify(tx.Error)
	}
	switch x.f {
	case fFind:
		var d []M
		tx := x.chain(x.mk()).Find(&d, x.inline()...)
		set(tx)
		o.ids = keys(d)
	case fFirst, fTake, fLast:
		var m M
		var tx *gorm.DB
		switch x.f {
		case fFirst:
			tx = x.chain(x.mk()).First(&m, x.inline()...)
		case fTake:
			tx = x.chain(x.mk()).Take(&m, x.inline()...)
		default:
			tx = x.chain(x.mk()).Last(&m, x.inline()...)
		}
		set(tx)
		if tx.Error == nil {
			o.found = true
			o.ids = []int{m.key()}
		}
	case fCount:
		var n int64
		tx := x.chain(x.mk().Model(new(M))).Count(&n)
		set(tx)
		o.n = n
	case fPluck:
		var ids []int
		tx := x.chain(x.mk().Model(new(M))).Pluck("id", &ids)
		set(tx)
		sort.Ints(ids)
		o.ids = ids
	case fBatches:
		var d []M
		var got []int
		tx := x.chain(x.mk()).FindInBatches(&d, 4, func(tx *gorm.DB, batch int) error {
			for _, r := range d {
				got = append(got, r.key())
			}
			if batch > 40 {
				return errAbort
			}
			return nil
		})
		set(tx)
		sort.Ints(got)
		o.ids = got
	case fRowsScan:
		rows, err := x.chain(x.mk().Model(new(M))).Rows()
		o.err, o.errMsg = classify(err)
		if err == nil {
			for rows.Next() {
				var m M
				if err := x.base().ScanRows(rows, &m); err != nil {
					o.err, o.errMsg = classify(err)
					break
				}
				o.ids = append(o.ids, m.key())
			}
			rows.Close()
			sort.Ints(o.ids)
		}
	case fScan:
		var d []M
		tx := x.chain(x.mk().Model(new(M))).Scan(&d)
		set(tx)
		o.ids = keys(d)
	case fJoinsMain, fJoinsOn:
		var refs []Ref
		var tx *gorm.DB
		if x.f == fJoinsMain {
			tx = x.chain(x.mk().Joins(vName[x.v])).Find(&refs)
		} else {
			tx = x.mk().Joins(vName[x.v], x.chain(x.base())).Find(&refs)
		}
		set(tx)
		var ps []string
		for _, r := range refs {
			j := int(reflect.ValueOf(r).FieldByName(vName[x.v]).FieldByName("ID").Int())
			ps = append(ps, fmt.Sprintf("%03d>%d", r.ID, j))
			if j != 0 {
				o.ids = append(o.ids, j)
			}
		}
		sort.Strings(ps)
		sort.Ints(o.ids)
		o.txt = strings.Join(ps, " ")
	case fPreloadFunc, fPreloadInline:
		var hs []Holder
		var tx *gorm.DB
		if x.f == fPreloadFunc {
			tx = x.mk().Preload(vMany[x.v], func(db *gorm.DB) *gorm.DB { return x.chain(db) }).Find(&hs)
		} else {
			tx = x.mk().Preload(vMany[x.v], x.us[x.c.Chain[0].Unit].Args(x.base())...).Find(&hs)
		}
		set(tx)
		var ps []string
		for _, hd := range hs {
			var ids []int
			kids := reflect.ValueOf(hd).FieldByName(vMany[x.v])
			for i := 0; i < kids.Len(); i++ {
				ids = append(ids, int(kids.Index(i).FieldByName("ID").Int()))
			}
			sort.Ints(ids)
			o.ids = append(o.ids, ids...)
			ps = append(ps, fmt.Sprintf("h%d%v", hd.ID, ids))
		}
		sort.Strings(ps)
		sort.Ints(o.ids)
		o.txt = strings.Join(ps, " ")
	case fAssocFind:
		var d []M
		err := x.chain(x.mk().Model(&Holder{ID: 1})).Association(vMany[x.v]).Find(&d, x.inline()...)
		o.err, o.errMsg = classify(err)
		o.ids = keys(d)
	case fAssocCount:
		a := x.chain(x.mk().Model(&Holder{ID: 1})).Association(vMany[x.v])
		o.n = a.Count()
		o.err, o.errMsg = classify(a.Error)
	}
	return
}

func runWrite[M rowM](x *xctx) (o obs) {
	e := x.w.envs[x.ei]
	t := e.DB.Begin()
	if t.Error != nil {
		o.err, o.errMsg = "error", "begin: "+t.Error.Error()
		return
	}
	x.root = t
	before := x.w.pristine[x.ei][x.v]
	table := vTable[x.v]
	func() {
		defer func() {
			if r := recover(); r != nil {
				o.panicMsg = fmt.Sprint(r)
			}
			t.Rollback()
		}()
		q, ok := t.Statement.ConnPool.(queryer)
		if !ok {
			o.extra = append(o.extra, "transaction pool is not queryable")
			return
		}
		var res *gorm.DB
		switch x.f {
		case fUpdate:
			res = x.chain(x.mk().Model(new(M))).Update("m", 7)
		case fUpdatesMap:
			res = x.chain(x.mk().Model(new(M))).Updates(map[string]interface{}{"m": 7})
		case fUpdatesStruct:
			res = x.chain(x.mk().Model(new(M))).Updates(updStruct[M]())
		case fUpdateColumn:
			res = x.chain(x.mk().Model(new(M))).UpdateColumn("m", 7)
		case fSelectUpdates:
			res = x.chain(x.mk().Model(new(M))).Select("m").Updates(map[string]interface{}{"m": 7, "holder_id": 9})
		case fDelete, fDeleteTwice:
			res = x.chain(x.mk()).Delete(new(M), x.inline()...)
		case fModelKeyDelete:
			res = x.chain(x.mk().Model(keyed[M](modelKey))).Delete(new(M), x.inline()...)
		case fKeyDelete:
			res = x.chain(x.mk()).Delete(keyed[M](modelKey), x.inline()...)
		case fModelKeyUpdate:
			res = x.chain(x.mk().Model(keyed[M](modelKey))).Update("m", 7)
		case fModelKeyUpdates:
			res = x.chain(x.mk().Model(keyed[M](modelKey))).Updates(updStruct[M]())
		}
		o.err, o.errMsg = classify(res.Error)
		o.n = res.RowsAffected
		after, err := snapshotDel(q, table, vDelCol[x.v])
		if err != nil {
			o.extra = append(o.extra, "reading back failed: "+err.Error())
			return
		}
		d := diffSnap(before, after)
		softScoped := isSoft(x.v) && !x.unscoped && !(x.c.Nested && x.c.Prop)
		if len(d.other) > 0 {
			o.extra = append(o.extra, "rows changed in columns the operation must not touch: "+strings.Join(d.other, "; "))
		}
		if len(d.inserted) > 0 {
			o.extra = append(o.extra, fmt.Sprintf("rows inserted: %v", d.inserted))
		}
		if softScoped {
			// every soft-deleted row must be untouched, cell by cell
			for _, set := range [][]int{d.removed, d.marked, d.updated} {
				for _, id := range set {
					if id > twinOffset {
						o.extra = append(o.extra, fmt.Sprintf("soft-deleted row %d was touched: %q -> %q", id, before[id], after[id]))
					}
				}
			}
		}
		if x.f == fDelete || x.f == fDeleteTwice || x.f == fModelKeyDelete || x.f == fKeyDelete {
			if len(d.updated) > 0 {
				o.extra = append(o.extra, fmt.Sprintf("Delete changed the marker column of %v", d.updated))
			}
			if softScoped {
				o.ids = d.marked
				if len(d.removed) > 0 {
					o.extra = append(o.extra, fmt.Sprintf("scoped Delete removed rows physically: %v", d.removed))
				}
			} else {
				o.ids = d.removed
				if len(d.marked) > 0 {
					o.extra = append(o.extra, fmt.Sprintf("unscoped/plain Delete marked rows instead of removing them: %v", d.marked))
				}
			}
			if x.f == fDeleteTwice {
				res2 := x.chain(x.mk()).Delete(new(M))
				c2, m2 := classify(res2.Error)
				after2, err := snapshotDel(q, table, vDelCol[x.v])
				if err != nil {
					o.extra = append(o.extra, "reading back failed: "+err.Error())
					return
				}
				o.txt = fmt.Sprintf("second: rows=%d err=%s", res2.RowsAffected, c2)
				if m2 != "" {
					o.errMsg += " second: " + m2
				}
				d2 := diffSnap(after, after2)
				if len(d2.removed)+len(d2.marked)+len(d2.updated)+len(d2.other)+len(d2.inserted) > 0 {
					o.extra = append(o.extra, fmt.Sprintf("repeated Delete changed rows again: removed=%v marked=%v updated=%v other=%v", d2.removed, d2.marked, d2.updated, d2.other))
				}
			}
		} else {
			o.ids = d.updated
			if len(d.removed)+len(d.marked) > 0 {
				o.extra = append(o.extra, fmt.Sprintf("update removed %v / marked %v", d.removed, d.marked))
			}
		}
	}()
	// the rollback must have restored the table
	now, err := snapshotDel(e.SQL, table, vDelCol[x.v])
	restored := err == nil && len(now) == len(before)
	if restored {
		for id, r := range before {
			if now[id] != r {
				restored = false
				break
			}
		}
	}
	if !restored {
		seed(e)
		o.extra = append(o.extra, fmt.Sprintf("[table not restored after rollback (err=%v); re-seeded]", err))
	}
	return
}

// execOne runs the case's finisher on variant v, scoped or Unscoped.
func (w *worker) execOne(c Case, v int, unscoped bool) (o obs) {
	ei := 0
	if c.Prop {
		ei = 1
	}
	x := &xctx{w: w, ei: ei, v: v, unscoped: unscoped, c: c, f: finByName(c.Fin), us: units[v]}
	x.root = w.envs[ei].DB
	defer func() {
		if r := recover(); r != nil {
			o.panicMsg = fmt.Sprint(r)
		}
	}()
	wr := fins[x.f].write
	switch v {
	case vSoft:
		return dispatch[Soft](x, wr)
	case vPlain:
		return dispatch[Plain](x, wr)
	case vSoftPtr:
		return dispatch[SoftPtr](x, wr)
	case vSoftEmb:
		return dispatch[SoftEmb](x, wr)
	case vSoftPre:
		return dispatch[SoftPre](x, wr)
	case vSoftCol:
		return dispatch[SoftCol](x, wr)
	}
	return dispatch[PlainAll](x, wr)
}

func dispatch[M rowM](x *xctx, write bool) obs {
	if write {
		return runWrite[M](x)
	}
	return runRead[M](x)
}
