package main

import (
	"errors"
	"fmt"
	"sort"
	"strings"
	"sync"
	"sync/atomic"

	"gorm.io/gorm"

	"verif/h"
	"verif/mc"
)

// Part 2: histories of create / soft-delete / unscoped-delete / save(re-create)
// on 3 keys, checked against a model with 3 states per key.

type hop struct {
	Op  string `json:"op"` // create delete udelete save
	Key int    `json:"key"`
}

var hopOps = []string{"create", "delete", "udelete", "save"}

const (
	kAbsent = 0
	kLive   = 1
	kSoft   = 2
)

var kName = []string{"-", "L", "D"}

type histResult struct {
	States      int
	Transitions int
	Paths       int
	Steps       int
	Depth       int
	Probes      int64
	Complete    bool
}

type histEnv struct {
	e *h.Env
}

func newHistEnv() *histEnv {
	e := h.Open(nil)
	e.Rec.Pause()
	e.MustExec("CREATE TABLE softs (id integer primary key, a integer, b integer, s text, m integer not null default 0, holder_id integer, deleted_at datetime)")
	return &histEnv{e: e}
}

func hopsString(p []hop) string {
	var ps []string
	for _, x := range p {
		ps = append(ps, fmt.Sprintf("%s(%d)", x.Op, x.Key))
	}
	return strings.Join(ps, " ")
}

// runHistory executes the path from an empty table, checking every step
// against the model. It returns the canonical implementation state reached,
// the number of probe checks and the first failure ("" if none).
func (he *histEnv) runHistory(path []hop) (canon string, probes int64, failure string) {
	e := he.e
	e.MustExec("DELETE FROM softs")
	db := e.DB
	model := map[int]int{1: kAbsent, 2: kAbsent, 3: kAbsent}
	defer func() {
		if r := recover(); r != nil {
			failure = fmt.Sprintf("panic inside gorm: %v", r)
		}
	}()
	for step, x := range path {
		before, err := snapshot(e.SQL, "softs")
		if err != nil {
			return "", probes, "snapshot failed: " + err.Error()
		}
		k := x.Key
		was := model[k]
		var res *gorm.DB
		switch x.Op {
		case "create":
			res = db.Create(&Soft{ID: k, A: &k, M: step + 1, HolderID: 1})
		case "delete":
			res = db.Delete(&Soft{ID: k})
		case "udelete":
			res = db.Unscoped().Delete(&Soft{ID: k})
		case "save":
			res = db.Save(&Soft{ID: k, A: &k, M: step + 1, HolderID: 1})
		}
		// expected outcome
		wantRows, wantErr, next := int64(0), false, was
		switch x.Op {
		case "create":
			if was == kAbsent {
				wantRows, next = 1, kLive
			} else {
				wantErr = true // primary key taken (a soft-deleted row still occupies it)
			}
		case "delete":
			if was == kLive {
				wantRows, next = 1, kSoft
			}
		case "udelete":
			if was != kAbsent {
				wantRows, next = 1, kAbsent
			}
		case "save":
			wantRows, next = 1, kLive
		}
		where := fmt.Sprintf("step %d %s(%d) [key was %s]", step+1, x.Op, k, kName[was])
		if wantErr != (res.Error != nil) {
			return "", probes, fmt.Sprintf("%s: error=%v, expected error=%v", where, res.Error, wantErr)
		}
		if !wantErr && res.RowsAffected != wantRows {
			return "", probes, fmt.Sprintf("%s: RowsAffected=%d, expected %d", where, res.RowsAffected, wantRows)
		}
		model[k] = next
		after, err := snapshot(e.SQL, "softs")
		if err != nil {
			return "", probes, "snapshot failed: " + err.Error()
		}
		// rows of the other keys are untouched cell by cell; a row that stays
		// soft-deleted keeps its exact content (including its deleted_at)
		for id := 1; id <= 3; id++ {
			if id != k || (was == kSoft && next == kSoft) || (was == next && x.Op != "save") {
				if before[id] != after[id] {
					return "", probes, fmt.Sprintf("%s: row %d changed although the operation must not touch it: %q -> %q", where, id, before[id], after[id])
				}
			}
		}
		// physical content agrees with the model
		for id := 1; id <= 3; id++ {
			row, present := after[id]
			switch model[id] {
			case kAbsent:
				if present {
					return "", probes, fmt.Sprintf("%s: row %d still present physically: %q", where, id, row)
				}
			case kLive:
				if !present || field(row, "deleted_at") != "<nil>" {
					return "", probes, fmt.Sprintf("%s: row %d should be live: %q present=%v", where, id, row, present)
				}
			case kSoft:
				if !present || field(row, "deleted_at") == "<nil>" {
					return "", probes, fmt.Sprintf("%s: row %d should be kept and marked: %q present=%v", where, id, row, present)
				}
			}
		}
		// probes: scoped reads see exactly the live keys, Unscoped reads live+marked
		var liveKeys, allKeys []int
		for id := 1; id <= 3; id++ {
			if model[id] == kLive {
				liveKeys = append(liveKeys, id)
			}
			if model[id] != kAbsent {
				allKeys = append(allKeys, id)
			}
		}
		bad := func(what string, got, want interface{}) string {
			return fmt.Sprintf("%s: probe %s: observed %v, expected %v", where, what, got, want)
		}
		{
			var d []Soft
			if err := db.Find(&d).Error; err != nil {
				return "", probes, bad("Find", err, nil)
			}
			probes++
			if fmt.Sprint(keys(d)) != fmt.Sprint(nz(liveKeys)) {
				return "", probes, bad("Find", keys(d), liveKeys)
			}
			d = nil
			db.Where("id = 1 OR id = 2 OR id = 3").Find(&d)
			probes++
			if fmt.Sprint(keys(d)) != fmt.Sprint(nz(liveKeys)) {
				return "", probes, bad(`Where("id = 1 OR id = 2 OR id = 3").Find`, keys(d), liveKeys)
			}
			d = nil
			db.Where("id = ?", 1).Or("id = ?", 2).Or("id = ?", 3).Find(&d)
			probes++
			if fmt.Sprint(keys(d)) != fmt.Sprint(nz(liveKeys)) {
				return "", probes, bad(`Where(id=1).Or(id=2).Or(id=3).Find`, keys(d), liveKeys)
			}
			var n int64
			db.Model(&Soft{}).Count(&n)
			probes++
			if int(n) != len(liveKeys) {
				return "", probes, bad("Count", n, len(liveKeys))
			}
			d = nil
			db.Unscoped().Find(&d)
			probes++
			if fmt.Sprint(keys(d)) != fmt.Sprint(nz(allKeys)) {
				return "", probes, bad("Unscoped.Find", keys(d), allKeys)
			}
			for id := 1; id <= 3; id++ {
				var one Soft
				err := db.First(&one, id).Error
				probes++
				if (err == nil) != (model[id] == kLive) || (err != nil && !errors.Is(err, gorm.ErrRecordNotFound)) {
					return "", probes, bad(fmt.Sprintf("First(&s,%d)", id), err, kName[model[id]])
				}
			}
		}
	}
	final, _ := snapshot(e.SQL, "softs")
	var ps []string
	for id := 1; id <= 3; id++ {
		row, ok := final[id]
		switch {
		case !ok:
			ps = append(ps, fmt.Sprintf("%d:-", id))
		case field(row, "deleted_at") == "<nil>":
			ps = append(ps, fmt.Sprintf("%d:L", id))
		default:
			ps = append(ps, fmt.Sprintf("%d:D", id))
		}
	}
	return strings.Join(ps, " "), probes, ""
}

func nz(a []int) []int {
	if a == nil {
		return []int{}
	}
	return a
}

func allHops() []hop {
	var out []hop
	for _, op := range hopOps {
		for k := 1; k <= 3; k++ {
			out = append(out, hop{op, k})
		}
	}
	return out
}

func exploreHistories(run *mc.Run, tier string) histResult {
	res := histResult{Complete: true}
	depth := 3
	if tier == "thorough" {
		depth = 4
	}
	res.Depth = depth
	var failed int32
	report := func(path []hop, msg string) {
		if atomic.AddInt32(&failed, 1) > 50 {
			return
		}
		run.Violation(nil, "history: soft-delete state machine disagrees with the model\n"+hopsString(path)+"\n"+msg, map[string]interface{}{"history": path, "readable": hopsString(path)})
	}
	// (a) BFS with state de-duplication to closure: every transition out of
	// every reachable canonical state is executed on the implementation
	he := newHistEnv()
	hops := allHops()
	seen := map[string][]hop{}
	start, p0, f0 := he.runHistory(nil)
	res.Probes += p0
	if f0 != "" {
		report(nil, f0)
		return res
	}
	seen[start] = []hop{}
	frontier := []string{start}
	for len(frontier) > 0 {
		var next []string
		for _, st := range frontier {
			for _, x := range hops {
				path := append(append([]hop{}, seen[st]...), x)
				canon, probes, failure := he.runHistory(path)
				res.Transitions++
				res.Probes += probes
				if failure != "" {
					report(path, failure)
					continue
				}
				if _, ok := seen[canon]; !ok {
					seen[canon] = path
					next = append(next, canon)
				}
			}
		}
		sort.Strings(next)
		frontier = next
	}
	res.States = len(seen)
	// (b) every history up to the depth bound, without de-duplication (order
	// effects such as timestamps surviving repeated deletes)
	var paths [][]hop
	var gen func(prefix []hop, d int)
	gen = func(prefix []hop, d int) {
		if len(prefix) > 0 {
			paths = append(paths, append([]hop{}, prefix...))
		}
		if d == 0 {
			return
		}
		for _, x := range hops {
			gen(append(prefix, x), d-1)
		}
	}
	gen(nil, depth)
	res.Paths = len(paths)
	var wg sync.WaitGroup
	var idx int64 = -1
	var probesTotal int64
	for i := 0; i < 16; i++ {
		wg.Add(1)
		go func() {
			defer wg.Done()
			env := newHistEnv()
			for {
				n := atomic.AddInt64(&idx, 1)
				if int(n) >= len(paths) {
					return
				}
				_, probes, failure := env.runHistory(paths[n])
				atomic.AddInt64(&probesTotal, probes)
				if failure != "" {
					report(paths[n], failure)
				}
			}
		}()
	}
	wg.Wait()
	res.Probes += probesTotal
	res.Steps = func() int {
		t := 0
		for _, p := range paths {
			t += len(p)
		}
		return t
	}()
	return res
}

func replayHistory(run *mc.Run, path []hop) {
	he := newHistEnv()
	canon, probes, failure := he.runHistory(path)
	fmt.Printf("history: %s\nreached: %s (%d probe checks)\n", hopsString(path), canon, probes)
	if failure != "" {
		fmt.Println("failure:", failure)
		run.Violation(nil, "history: soft-delete state machine disagrees with the model\n"+hopsString(path)+"\n"+failure, map[string]interface{}{"history": path})
	}
}
