package main

import (
	"context"
	"database/sql"
	"fmt"
	"sort"
	"strings"

	"gorm.io/gorm"

	cg "verif/condgram"
	"verif/h"
)

// Soft is the soft-delete model. Table softs holds the 27 live rows (ids
// 1..27, all combinations of a,b,s) and for each of them a soft-deleted twin
// with identical column values (id+100).
type Soft struct {
	ID        int
	A         *int
	B         *int
	S         *string
	M         int
	HolderID  int
	DeletedAt gorm.DeletedAt
}

// Plain is the plain twin: table plains holds the live rows only - "as if the
// marked rows did not exist".
type Plain struct {
	ID       int
	A        *int
	B        *int
	S        *string
	M        int
	HolderID int
}

// PlainAll: table plain_alls holds live rows and twins - what Unscoped sees.
type PlainAll struct {
	ID       int
	A        *int
	B        *int
	S        *string
	M        int
	HolderID int
}

// Other shapes of the soft-delete model (same table content as softs):
// SoftPtr  pointer-typed field, SoftEmb  field promoted from an embedded
// gorm.Model-like struct, SoftPre  field inside an embedded struct with a
// column prefix, SoftCol  field with a renamed column.
type SoftPtr struct {
	ID        int
	A         *int
	B         *int
	S         *string
	M         int
	HolderID  int
	DeletedAt *gorm.DeletedAt
}

type Base struct {
	ID        int
	DeletedAt gorm.DeletedAt
}

type SoftEmb struct {
	Base
	A        *int
	B        *int
	S        *string
	M        int
	HolderID int
}

type Meta struct {
	DeletedAt gorm.DeletedAt
}

type SoftPre struct {
	ID       int
	A        *int
	B        *int
	S        *string
	M        int
	HolderID int
	Meta     Meta `gorm:"embedded;embeddedPrefix:meta_"`
}

type SoftCol struct {
	ID        int
	A         *int
	B         *int
	S         *string
	M         int
	HolderID  int
	DeletedAt gorm.DeletedAt `gorm:"column:removed_at"`
}

func (x Soft) key() int     { return x.ID }
func (x Plain) key() int    { return x.ID }
func (x PlainAll) key() int { return x.ID }
func (x SoftPtr) key() int  { return x.ID }
func (x SoftEmb) key() int  { return x.ID }
func (x SoftPre) key() int  { return x.ID }
func (x SoftCol) key() int  { return x.ID }

type rowM interface {
	Soft | Plain | PlainAll | SoftPtr | SoftEmb | SoftPre | SoftCol
	key() int
}

// Ref belongs to one row of each of the three tables (same key).
type Ref struct {
	ID       int
	TargetID int
	Soft     Soft     `gorm:"foreignKey:TargetID"`
	Plain    Plain    `gorm:"foreignKey:TargetID"`
	PlainAll PlainAll `gorm:"foreignKey:TargetID"`
	SoftPtr  SoftPtr  `gorm:"foreignKey:TargetID"`
	SoftEmb  SoftEmb  `gorm:"foreignKey:TargetID"`
	SoftPre  SoftPre  `gorm:"foreignKey:TargetID"`
	SoftCol  SoftCol  `gorm:"foreignKey:TargetID"`
}

// Holder has many rows of each of the three tables.
type Holder struct {
	ID        int
	Softs     []Soft     `gorm:"foreignKey:HolderID"`
	Plains    []Plain    `gorm:"foreignKey:HolderID"`
	PlainAlls []PlainAll `gorm:"foreignKey:HolderID"`
	SoftPtrs  []SoftPtr  `gorm:"foreignKey:HolderID"`
	SoftEmbs  []SoftEmb  `gorm:"foreignKey:HolderID"`
	SoftPres  []SoftPre  `gorm:"foreignKey:HolderID"`
	SoftCols  []SoftCol  `gorm:"foreignKey:HolderID"`
}

const (
	vSoft = iota
	vPlain
	vPlainAll
	vSoftPtr
	vSoftEmb
	vSoftPre
	vSoftCol
	nVariants
)

var vTable = []string{"softs", "plains", "plain_alls", "soft_ptrs", "soft_embs", "soft_pres", "soft_cols"}
var vName = []string{"Soft", "Plain", "PlainAll", "SoftPtr", "SoftEmb", "SoftPre", "SoftCol"}
var vMany = []string{"Softs", "Plains", "PlainAlls", "SoftPtrs", "SoftEmbs", "SoftPres", "SoftCols"}

// vDelCol: the column that carries the soft-delete mark ("" = plain model)
var vDelCol = []string{"deleted_at", "", "", "deleted_at", "deleted_at", "meta_deleted_at", "removed_at"}
var shapeName = map[int]string{0: "value field", vSoftPtr: "pointer field *gorm.DeletedAt", vSoftEmb: "field promoted from an embedded struct", vSoftPre: "embedded struct with embeddedPrefix:meta_", vSoftCol: "column:removed_at"}

func isSoft(v int) bool { return v == vSoft || v >= vSoftPtr }

const twinOffset = 100
const deletedStamp = "2019-01-01 00:00:00+00:00"

var live = cg.Rows27()
var all54 = func() []cg.Row {
	out := append([]cg.Row{}, live...)
	for _, r := range live {
		t := r
		t.ID += twinOffset
		out = append(out, t)
	}
	return out
}()

func holderOf(id int) int { return 1 + ((id-1)%twinOffset)%3 }

const schemaSQL = `
CREATE TABLE softs (id integer primary key, a integer, b integer, s text, m integer not null default 0, holder_id integer, deleted_at datetime);
CREATE TABLE plains (id integer primary key, a integer, b integer, s text, m integer not null default 0, holder_id integer);
CREATE TABLE plain_alls (id integer primary key, a integer, b integer, s text, m integer not null default 0, holder_id integer);
CREATE TABLE soft_ptrs (id integer primary key, a integer, b integer, s text, m integer not null default 0, holder_id integer, deleted_at datetime);
CREATE TABLE soft_embs (id integer primary key, a integer, b integer, s text, m integer not null default 0, holder_id integer, deleted_at datetime);
CREATE TABLE soft_pres (id integer primary key, a integer, b integer, s text, m integer not null default 0, holder_id integer, meta_deleted_at datetime);
CREATE TABLE soft_cols (id integer primary key, a integer, b integer, s text, m integer not null default 0, holder_id integer, removed_at datetime);
CREATE TABLE refs (id integer primary key, target_id integer);
CREATE TABLE holders (id integer primary key);
`

func seed(e *h.Env) {
	for _, t := range []string{"softs", "plains", "plain_alls", "soft_ptrs", "soft_embs", "soft_pres", "soft_cols", "refs", "holders"} {
		e.MustExec("DELETE FROM " + t)
	}
	for _, r := range all54 {
		var del interface{}
		if r.ID > twinOffset {
			del = deletedStamp
		}
		for v := 0; v < nVariants; v++ {
			if vDelCol[v] != "" {
				e.MustExec("INSERT INTO "+vTable[v]+" (id,a,b,s,m,holder_id,"+vDelCol[v]+") VALUES (?,?,?,?,0,?,?)", r.ID, r.A, r.B, r.S, holderOf(r.ID), del)
			}
		}
		e.MustExec("INSERT INTO plain_alls (id,a,b,s,m,holder_id) VALUES (?,?,?,?,0,?)", r.ID, r.A, r.B, r.S, holderOf(r.ID))
		if r.ID < twinOffset {
			e.MustExec("INSERT INTO plains (id,a,b,s,m,holder_id) VALUES (?,?,?,?,0,?)", r.ID, r.A, r.B, r.S, holderOf(r.ID))
		}
		e.MustExec("INSERT INTO refs (id,target_id) VALUES (?,?)", r.ID, r.ID)
	}
	for i := 1; i <= 3; i++ {
		e.MustExec("INSERT INTO holders (id) VALUES (?)", i)
	}
}

type queryer interface {
	QueryContext(ctx context.Context, query string, args ...interface{}) (*sql.Rows, error)
}

// snapshot reads a whole table, bypassing gorm: id -> canonical row text.
func snapshot(q queryer, table string) (map[int]string, error) {
	return snapshotDel(q, table, "deleted_at")
}

// snapshotDel: delCol is reported under the canonical name deleted_at.
func snapshotDel(q queryer, table, delCol string) (map[int]string, error) {
	rows, err := q.QueryContext(context.Background(), "SELECT * FROM "+table)
	if err != nil {
		return nil, err
	}
	defer rows.Close()
	cols, _ := rows.Columns()
	out := map[int]string{}
	for rows.Next() {
		vals := make([]interface{}, len(cols))
		ptrs := make([]interface{}, len(cols))
		for i := range vals {
			ptrs[i] = &vals[i]
		}
		if err := rows.Scan(ptrs...); err != nil {
			return nil, err
		}
		var sb strings.Builder
		id := 0
		for i, c := range cols {
			if c == "id" {
				switch t := vals[i].(type) {
				case int64:
					id = int(t)
				}
			}
			if c == delCol && delCol != "" {
				c = "deleted_at"
			}
			fmt.Fprintf(&sb, "%s=%v|", c, vals[i])
		}
		out[id] = sb.String()
	}
	return out, rows.Err()
}

// field extracts "col=value" from a canonical row text.
func field(row, col string) string {
	for _, p := range strings.Split(row, "|") {
		if strings.HasPrefix(p, col+"=") {
			return p[len(col)+1:]
		}
	}
	return ""
}

// without removes the named columns from a canonical row text.
func without(row string, cols ...string) string {
	var keep []string
	for _, p := range strings.Split(row, "|") {
		drop := false
		for _, c := range cols {
			if strings.HasPrefix(p, c+"=") {
				drop = true
			}
		}
		if !drop {
			keep = append(keep, p)
		}
	}
	return strings.Join(keep, "|")
}

// diff classifies the difference between two snapshots of one table.
type tableDiff struct {
	removed  []int // physically gone
	marked   []int // deleted_at NULL -> non-NULL, nothing else changed
	updated  []int // m changed, nothing else changed
	other    []string
	inserted []int
}

func diffSnap(before, after map[int]string) tableDiff {
	var d tableDiff
	for id, b := range before {
		a, ok := after[id]
		if !ok {
			d.removed = append(d.removed, id)
			continue
		}
		if a == b {
			continue
		}
		switch {
		case without(a, "deleted_at") == without(b, "deleted_at") && field(b, "deleted_at") == "<nil>" && field(a, "deleted_at") != "<nil>":
			d.marked = append(d.marked, id)
		case without(a, "m") == without(b, "m"):
			d.updated = append(d.updated, id)
		default:
			d.other = append(d.other, fmt.Sprintf("id %d: %s -> %s", id, b, a))
		}
	}
	for id := range after {
		if _, ok := before[id]; !ok {
			d.inserted = append(d.inserted, id)
		}
	}
	sort.Ints(d.removed)
	sort.Ints(d.marked)
	sort.Ints(d.updated)
	sort.Ints(d.inserted)
	sort.Strings(d.other)
	return d
}
