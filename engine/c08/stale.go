package main

import (
	"fmt"
	"sort"
	"strings"
	"sync"
	"sync/atomic"

	"gorm.io/gorm"
	"gorm.io/gorm/clause"

	"verif/h"
	"verif/mc"
)

// Part 4: destinations that are not fresh. A struct (or the elements of a
// slice) that already holds relation values - from an Unscoped load or from a
// load made before the related rows were soft-deleted - is read into again
// with Preload / Joins. Oracle: the relation values seen afterwards equal those
// of the same read into a fresh destination (and therefore contain no
// soft-deleted row without Unscoped).

type Acct struct {
	ID        int
	OwnerID   int
	DeletedAt gorm.DeletedAt
}
type Boss struct {
	ID        int
	DeletedAt gorm.DeletedAt
}
type Pet struct {
	ID        int
	OwnerID   int
	DeletedAt gorm.DeletedAt
}
type Owner struct {
	ID     int
	BossID int
	Boss   Boss  // belongs to
	Acct   Acct  // has one
	Pets   []Pet // has many
}

// owners 1..4: (acct live/deleted) x (boss live/deleted); every owner has one
// live and one soft-deleted pet.
func seedStale(e *h.Env) {
	for _, t := range []string{"accts", "bosses", "pets", "owners"} {
		e.MustExec("DELETE FROM " + t)
	}
	for i := 1; i <= 4; i++ {
		var acctDel, bossDel interface{}
		if i == 2 || i == 4 {
			acctDel = deletedStamp
		}
		if i >= 3 {
			bossDel = deletedStamp
		}
		e.MustExec("INSERT INTO owners (id,boss_id) VALUES (?,?)", i, 10+i)
		e.MustExec("INSERT INTO bosses (id,deleted_at) VALUES (?,?)", 10+i, bossDel)
		e.MustExec("INSERT INTO accts (id,owner_id,deleted_at) VALUES (?,?,?)", 20+i, i, acctDel)
		e.MustExec("INSERT INTO pets (id,owner_id,deleted_at) VALUES (?,?,NULL)", 30+i, i)
		e.MustExec("INSERT INTO pets (id,owner_id,deleted_at) VALUES (?,?,?)", 40+i, i, deletedStamp)
	}
}

func newStaleEnv() *h.Env {
	e := h.Open(nil)
	e.Rec.Pause()
	e.MustExec("CREATE TABLE owners (id integer primary key, boss_id integer)")
	e.MustExec("CREATE TABLE bosses (id integer primary key, deleted_at datetime)")
	e.MustExec("CREATE TABLE accts (id integer primary key, owner_id integer, deleted_at datetime)")
	e.MustExec("CREATE TABLE pets (id integer primary key, owner_id integer, deleted_at datetime)")
	seedStale(e)
	return e
}

// StaleCase is one program (also the replay format).
type StaleCase struct {
	Prime    string `json:"prime"`    // how the destination got its old content: unscoped | before-delete | none
	Dest     string `json:"dest"`     // struct | slice
	Read     string `json:"read"`     // the re-read form
	Unscoped bool   `json:"unscoped"` // the re-read is Unscoped
	Owner    int    `json:"owner"`    // for struct destinations
	Readable string `json:"readable,omitempty"`
}

var staleReads = []string{
	`Preload("Acct")`, `Preload("Boss")`, `Preload("Pets")`, `Preload("Boss").Preload("Acct")`, `Preload(clause.Associations)`,
	`Joins("Boss")`, `Joins("Acct")`, `Joins("Boss").Preload("Pets")`, `InnerJoins("Boss")`,
}
var staleFins = map[string][]string{"struct": {"First", "Take", "Find"}, "slice": {"Find"}}

func (c StaleCase) String() string {
	u := ""
	if c.Unscoped {
		u = ".Unscoped()"
	}
	d := fmt.Sprintf("&owner /* id %d */", c.Owner)
	if c.Dest == "slice" {
		d = "&owners"
	}
	return fmt.Sprintf("destination %s primed by [%s]; then db%s.%s (dest %s)", c.Dest, c.Prime, u, c.Read, d)
}

func applyStaleRead(db *gorm.DB, read string) *gorm.DB {
	// read = relation part + "|" + finisher, e.g. `Preload("Acct")|First`
	rel := strings.SplitN(read, "|", 2)[0]
	switch rel {
	case `Preload("Acct")`:
		return db.Preload("Acct")
	case `Preload("Boss")`:
		return db.Preload("Boss")
	case `Preload("Pets")`:
		return db.Preload("Pets")
	case `Preload("Boss").Preload("Acct")`:
		return db.Preload("Boss").Preload("Acct")
	case `Preload(clause.Associations)`:
		return db.Preload(clause.Associations)
	case `Joins("Boss")`:
		return db.Joins("Boss")
	case `Joins("Acct")`:
		return db.Joins("Acct")
	case `Joins("Boss").Preload("Pets")`:
		return db.Joins("Boss").Preload("Pets")
	case `InnerJoins("Boss")`:
		return db.InnerJoins("Boss")
	}
	panic("unknown read " + read)
}

// relations touched by a read form
func staleTouches(read string) (boss, acct, pets bool) {
	rel := strings.SplitN(read, "|", 2)[0]
	all := strings.Contains(rel, "Associations")
	return all || strings.Contains(rel, "Boss"), all || strings.Contains(rel, "Acct"), all || strings.Contains(rel, "Pets")
}

// ownerObs renders the relation values a read form loads. Values loaded by a
// JOIN are marked "j:" (see staleOracle).
func ownerObs(o Owner, read string) string {
	b, a, p := staleTouches(read)
	rel := strings.SplitN(read, "|", 2)[0]
	mark := func(name string) string {
		if strings.Contains(rel, `Joins("`+name+`")`) {
			return "j:"
		}
		return ""
	}
	var ps []string
	ps = append(ps, fmt.Sprintf("owner=%d", o.ID))
	if b {
		ps = append(ps, fmt.Sprintf("%sboss=%d", mark("Boss"), o.Boss.ID))
	}
	if a {
		ps = append(ps, fmt.Sprintf("%sacct=%d", mark("Acct"), o.Acct.ID))
	}
	if p {
		var ids []int
		for _, x := range o.Pets {
			ids = append(ids, x.ID)
		}
		sort.Ints(ids)
		ps = append(ps, fmt.Sprintf("pets=%v", ids))
	}
	return strings.Join(ps, " ")
}

// staleOracle merges the two reference runs: values loaded by Preload must
// equal a read into a FRESH destination (gorm clears old values before
// preloading); values loaded by a JOIN must equal the same re-read into the
// same used destination with the marked rows PHYSICALLY ABSENT - gorm never
// clears a joined relation whose join finds no row (NULL columns leave
// non-pointer fields as they are), whatever the reason the row is missing,
// so "as if the marked rows did not exist" is the exact requirement there.
func staleOracle(fresh, absent string) string {
	fo, ao := strings.Split(fresh, " | "), strings.Split(absent, " | ")
	if len(fo) != len(ao) {
		return fresh
	}
	var out []string
	for i := range fo {
		fp, ap := strings.Fields(fo[i]), strings.Fields(ao[i])
		if len(fp) != len(ap) {
			out = append(out, fo[i])
			continue
		}
		var ps []string
		for k := range fp {
			if strings.HasPrefix(fp[k], "j:") {
				ps = append(ps, ap[k])
			} else {
				ps = append(ps, fp[k])
			}
		}
		out = append(out, strings.Join(ps, " "))
	}
	return strings.Join(out, " | ")
}

// mode: "fresh" destination, "used" destination, "absent" = used destination and
// the marked relation rows physically removed before the re-read
func runStale(e *h.Env, c StaleCase, mode string) (obs string, errClass string) {
	fresh := mode == "fresh"
	defer func() {
		if r := recover(); r != nil {
			obs, errClass = fmt.Sprint(r), "panic"
		}
	}()
	seedStale(e)
	db := e.DB
	fin := strings.SplitN(c.Read, "|", 2)[1]
	var one Owner
	var many []Owner
	if !fresh {
		switch c.Prime {
		case "unscoped":
			// everything, including the soft-deleted relation rows
			if c.Dest == "struct" {
				db.Unscoped().Preload(clause.Associations).First(&one, c.Owner)
			} else {
				db.Unscoped().Preload(clause.Associations).Order("id").Find(&many)
			}
		case "before-delete":
			// make every relation row live, load, then soft-delete again through gorm
			e.MustExec("UPDATE accts SET deleted_at = NULL")
			e.MustExec("UPDATE bosses SET deleted_at = NULL")
			e.MustExec("UPDATE pets SET deleted_at = NULL")
			if c.Dest == "struct" {
				db.Preload(clause.Associations).First(&one, c.Owner)
			} else {
				db.Preload(clause.Associations).Order("id").Find(&many)
			}
			db.Delete(&Acct{}, "id IN ?", []int{22, 24})
			db.Delete(&Boss{}, "id IN ?", []int{13, 14})
			db.Delete(&Pet{}, "id > ?", 40)
		}
	} else if c.Prime == "before-delete" {
		// same database history, fresh destination
		e.MustExec("UPDATE accts SET deleted_at = NULL")
		e.MustExec("UPDATE bosses SET deleted_at = NULL")
		e.MustExec("UPDATE pets SET deleted_at = NULL")
		db.Delete(&Acct{}, "id IN ?", []int{22, 24})
		db.Delete(&Boss{}, "id IN ?", []int{13, 14})
		db.Delete(&Pet{}, "id > ?", 40)
	}
	if mode == "absent" && !c.Unscoped {
		for _, t := range []string{"accts", "bosses", "pets"} {
			e.MustExec("DELETE FROM " + t + " WHERE deleted_at IS NOT NULL")
		}
	}
	q := db
	if c.Unscoped {
		q = q.Unscoped()
	}
	q = applyStaleRead(q, c.Read)
	var err error
	if c.Dest == "struct" {
		switch fin {
		case "First":
			err = q.First(&one, c.Owner).Error
		case "Take":
			err = q.Take(&one, c.Owner).Error
		default:
			tx := q.Where("owners.id = ?", c.Owner).Find(&one)
			err = tx.Error
			if err == nil && tx.RowsAffected == 0 {
				// nothing found: Find leaves the destination alone (no error)
				return "no row", ""
			}
		}
		ec, _ := classify(err)
		if ec == "notfound" {
			return "not found", ec
		}
		return ownerObs(one, c.Read), ec
	}
	err = q.Order("owners.id").Find(&many).Error
	ec, _ := classify(err)
	var ps []string
	for _, o := range many {
		ps = append(ps, ownerObs(o, c.Read))
	}
	return strings.Join(ps, " | "), ec
}

type staleResult struct {
	Cases, Differing int
	Sensitive        int // cases whose primed content differs from the correct result (a stale value would show)
}

func staleCases() []StaleCase {
	var out []StaleCase
	for _, prime := range []string{"unscoped", "before-delete"} {
		for _, dest := range []string{"struct", "slice"} {
			for _, rel := range staleReads {
				for _, fin := range staleFins[dest] {
					for _, un := range []bool{false, true} {
						if dest == "slice" {
							out = append(out, StaleCase{Prime: prime, Dest: dest, Read: rel + "|" + fin, Unscoped: un})
							continue
						}
						for o := 1; o <= 4; o++ {
							out = append(out, StaleCase{Prime: prime, Dest: dest, Read: rel + "|" + fin, Unscoped: un, Owner: o})
						}
					}
				}
			}
		}
	}
	return out
}

func checkStale(run *mc.Run, e *h.Env, c StaleCase, res *staleResult) {
	res.Cases++
	freshObs, wc := runStale(e, c, "fresh")
	absentObs, _ := runStale(e, c, "absent")
	want := staleOracle(freshObs, absentObs)
	got, gc := runStale(e, c, "used")
	// what the destination held before the re-read
	primed := c
	primed.Unscoped = true
	held, _ := runStale(e, primed, "fresh")
	if c.Prime == "before-delete" {
		held = "(all relation rows live)"
	}
	if held != want {
		res.Sensitive++
	}
	if got != want || gc != wc {
		res.Differing++
		c.Readable = c.String()
		kind := "stale destination: re-read into a destination that already holds relation values differs from a read into a fresh one"
		if !c.Unscoped && strings.Contains(got, "=") {
			kind = "stale destination: soft-deleted relation rows stay attached after a scoped re-read"
		}
		if dumpFile != nil {
			dumpMu.Lock()
			fmt.Fprintf(dumpFile, "%v\t%s\t%s\n", staleTags(c), kind, c.String())
			dumpMu.Unlock()
		}
		run.Violation(staleTags(c), kind+"\n"+c.String()+"\nexpected (Preload values as in a fresh destination, JOIN values as with the marked rows physically absent): "+want+" err="+wc+"\nused  destination: "+got+" err="+gc, map[string]interface{}{"stale": c})
	}
}

func staleTags(c StaleCase) []string { return nil }

func exploreStale(run *mc.Run) *staleResult {
	res := &staleResult{}
	cases := staleCases()
	var mu sync.Mutex
	var wg sync.WaitGroup
	var idx int64 = -1
	for i := 0; i < 16; i++ {
		wg.Add(1)
		go func() {
			defer wg.Done()
			e := newStaleEnv()
			local := &staleResult{}
			for {
				n := atomic.AddInt64(&idx, 1)
				if int(n) >= len(cases) {
					break
				}
				checkStale(run, e, cases[n], local)
			}
			mu.Lock()
			res.Cases += local.Cases
			res.Differing += local.Differing
			res.Sensitive += local.Sensitive
			mu.Unlock()
		}()
	}
	wg.Wait()
	return res
}

func replayStale(run *mc.Run, c StaleCase) {
	e := newStaleEnv()
	want, wc := runStale(e, c, "fresh")
	absent, _ := runStale(e, c, "absent")
	got, gc := runStale(e, c, "used")
	fmt.Printf("case: %s\nfresh destination: %s err=%s\nused destination, marked rows physically absent: %s\nused  destination: %s err=%s\n", c.String(), want, wc, absent, got, gc)
	checkStale(run, e, c, &staleResult{})
}
