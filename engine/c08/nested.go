package main

import (
	"fmt"
	"reflect"
	"sort"
	"strings"
	"sync"
	"sync/atomic"

	"gorm.io/gorm"
	"gorm.io/gorm/clause"

	"verif/h"
	"verif/mc"
)

// Part 3: nested relation joins and nested preloads through soft-delete and
// plain models in every combination.
//
// Four levels of nodes (0 = root ... 3 = leaf). Every level exists in three
// kinds with identical ids and values:
//   S  soft-delete model, table holds live AND soft-deleted rows,
//   P  plain model, table holds the live rows only  ("as if the marked rows did not exist"),
//   A  plain model, table holds all rows                (what Unscoped sees).
// Every node belongs to one node of the next level through three relations
// named S, P and A, so a relation path such as "S.P.S" selects the kind of
// every level. Rows exist for every combination of (own status) x (child
// row), and every level has soft-deleted rows, so a filter missing at any
// level changes the result. Oracle: the same program with every S replaced
// by P (scoped) or by A (Unscoped) - plain models over twin tables.

type N3S struct {
	ID        int
	V         int
	DeletedAt gorm.DeletedAt
}
type N3P struct {
	ID int
	V  int
}
type N3A struct {
	ID int
	V  int
}
type N2S struct {
	ID        int
	V         int
	SID       int `gorm:"column:s_id"`
	PID       int `gorm:"column:p_id"`
	S         N3S `gorm:"foreignKey:SID;belongsTo:1"`
	P         N3P `gorm:"foreignKey:PID;belongsTo:1"`
	A         N3A `gorm:"foreignKey:SID;belongsTo:1"`
	DeletedAt gorm.DeletedAt
}
type N2P struct {
	ID  int
	V   int
	SID int `gorm:"column:s_id"`
	PID int `gorm:"column:p_id"`
	S   N3S `gorm:"foreignKey:SID;belongsTo:1"`
	P   N3P `gorm:"foreignKey:PID;belongsTo:1"`
	A   N3A `gorm:"foreignKey:SID;belongsTo:1"`
}
type N2A struct {
	ID  int
	V   int
	SID int `gorm:"column:s_id"`
	PID int `gorm:"column:p_id"`
	S   N3S `gorm:"foreignKey:SID;belongsTo:1"`
	P   N3P `gorm:"foreignKey:PID;belongsTo:1"`
	A   N3A `gorm:"foreignKey:SID;belongsTo:1"`
}
type N1S struct {
	ID        int
	V         int
	SID       int `gorm:"column:s_id"`
	PID       int `gorm:"column:p_id"`
	S         N2S `gorm:"foreignKey:SID;belongsTo:1"`
	P         N2P `gorm:"foreignKey:PID;belongsTo:1"`
	A         N2A `gorm:"foreignKey:SID;belongsTo:1"`
	DeletedAt gorm.DeletedAt
}
type N1P struct {
	ID  int
	V   int
	SID int `gorm:"column:s_id"`
	PID int `gorm:"column:p_id"`
	S   N2S `gorm:"foreignKey:SID;belongsTo:1"`
	P   N2P `gorm:"foreignKey:PID;belongsTo:1"`
	A   N2A `gorm:"foreignKey:SID;belongsTo:1"`
}
type N1A struct {
	ID  int
	V   int
	SID int `gorm:"column:s_id"`
	PID int `gorm:"column:p_id"`
	S   N2S `gorm:"foreignKey:SID;belongsTo:1"`
	P   N2P `gorm:"foreignKey:PID;belongsTo:1"`
	A   N2A `gorm:"foreignKey:SID;belongsTo:1"`
}
type N0S struct {
	ID        int
	V         int
	SID       int `gorm:"column:s_id"`
	PID       int `gorm:"column:p_id"`
	S         N1S `gorm:"foreignKey:SID;belongsTo:1"`
	P         N1P `gorm:"foreignKey:PID;belongsTo:1"`
	A         N1A `gorm:"foreignKey:SID;belongsTo:1"`
	DeletedAt gorm.DeletedAt
}
type N0P struct {
	ID  int
	V   int
	SID int `gorm:"column:s_id"`
	PID int `gorm:"column:p_id"`
	S   N1S `gorm:"foreignKey:SID;belongsTo:1"`
	P   N1P `gorm:"foreignKey:PID;belongsTo:1"`
	A   N1A `gorm:"foreignKey:SID;belongsTo:1"`
}
type N0A struct {
	ID  int
	V   int
	SID int `gorm:"column:s_id"`
	PID int `gorm:"column:p_id"`
	S   N1S `gorm:"foreignKey:SID;belongsTo:1"`
	P   N1P `gorm:"foreignKey:PID;belongsTo:1"`
	A   N1A `gorm:"foreignKey:SID;belongsTo:1"`
}

func (N3S) TableName() string { return "n3s" }
func (N3P) TableName() string { return "n3p" }
func (N3A) TableName() string { return "n3a" }
func (N2S) TableName() string { return "n2s" }
func (N2P) TableName() string { return "n2p" }
func (N2A) TableName() string { return "n2a" }
func (N1S) TableName() string { return "n1s" }
func (N1P) TableName() string { return "n1p" }
func (N1A) TableName() string { return "n1a" }
func (N0S) TableName() string { return "n0s" }
func (N0P) TableName() string { return "n0p" }
func (N0A) TableName() string { return "n0a" }

var rootType = map[string]reflect.Type{
	"S": reflect.TypeOf(N0S{}), "P": reflect.TypeOf(N0P{}), "A": reflect.TypeOf(N0A{}),
}

func seedNested(e *h.Env) {
	n := 4 // rows of the level below
	for level := 3; level >= 0; level-- {
		for _, k := range []string{"s", "p", "a"} {
			t := fmt.Sprintf("n%d%s", level, k)
			cols := "id integer primary key, v integer"
			if level < 3 {
				cols += ", s_id integer, p_id integer"
			}
			if k == "s" {
				cols += ", deleted_at datetime"
			}
			e.MustExec("CREATE TABLE " + t + " (" + cols + ")")
		}
		type row struct {
			id, child int
			deleted   bool
		}
		var rows []row
		if level == 3 {
			rows = []row{{1, 0, false}, {2, 0, false}, {3, 0, true}, {4, 0, true}}
		} else {
			id := 0
			for _, del := range []bool{false, true} {
				for c := 1; c <= n; c++ {
					id++
					rows = append(rows, row{id, c, del})
				}
			}
		}
		for _, r := range rows {
			var del interface{}
			if r.deleted {
				del = deletedStamp
			}
			v := r.id % 2
			if level == 3 {
				e.MustExec(fmt.Sprintf("INSERT INTO n%ds (id,v,deleted_at) VALUES (?,?,?)", level), r.id, v, del)
				e.MustExec(fmt.Sprintf("INSERT INTO n%da (id,v) VALUES (?,?)", level), r.id, v)
				if !r.deleted {
					e.MustExec(fmt.Sprintf("INSERT INTO n%dp (id,v) VALUES (?,?)", level), r.id, v)
				}
			} else {
				e.MustExec(fmt.Sprintf("INSERT INTO n%ds (id,v,s_id,p_id,deleted_at) VALUES (?,?,?,?,?)", level), r.id, v, r.child, r.child, del)
				e.MustExec(fmt.Sprintf("INSERT INTO n%da (id,v,s_id,p_id) VALUES (?,?,?,?)", level), r.id, v, r.child, r.child)
				if !r.deleted {
					e.MustExec(fmt.Sprintf("INSERT INTO n%dp (id,v,s_id,p_id) VALUES (?,?,?,?)", level), r.id, v, r.child, r.child)
				}
			}
		}
		n = len(rows)
	}
}

// NCase is one nested-relation program (also the replay format).
type NCase struct {
	Root     string   `json:"root"` // S or P
	Path     []string `json:"path"` // kinds of levels 1..d
	Form     string   `json:"form"`
	Cond     int      `json:"cond"`
	Fin      string   `json:"finisher"` // Find Count First
	Readable string   `json:"readable,omitempty"`
}

// join / preload forms
var nestedJoinForms = []string{"Joins(full)", "Joins(l1).Joins(full)", "InnerJoins(full)", "InnerJoins(l1).Joins(full)", "Joins(l2).Joins(full)", "Joins(full,on-eq)", "Joins(full,on-or)"}
var nestedPreloadForms = []string{"Preload(full)", "Preload(l1).Preload(full)", "Preload(full,cond)", "Joins(l1).Preload(full)", "Preload(full,func-or)"}

// condition templates on the joined tables; {1} {2} {3} = alias of that level, {d} = deepest
var nestedConds = []string{
	"",
	"{d}.v = 1",
	"{1}.v = 0",
	"{d}.id IS NULL",
	"{d}.id IS NOT NULL",
	"{d}.v = 1 OR {1}.v = 0",
	"{d}.v = 1 OR\n{1}.v = 0",
}

func minInt(a, b int) int {
	if a < b {
		return a
	}
	return b
}

func nestedAlias(path []string, k int) string { return strings.Join(path[:k], "__") }
func nestedName(path []string, k int) string  { return strings.Join(path[:k], ".") }

func nestedCond(tmpl string, path []string) string {
	s := strings.ReplaceAll(tmpl, "{d}", nestedAlias(path, len(path)))
	for k := 1; k <= len(path); k++ {
		s = strings.ReplaceAll(s, fmt.Sprintf("{%d}", k), nestedAlias(path, k))
	}
	return s
}

func (c NCase) String() string {
	full := nestedName(c.Path, len(c.Path))
	l1 := nestedName(c.Path, 1)
	l2 := nestedName(c.Path, minInt(2, len(c.Path)))
	s := "db"
	switch c.Fin {
	case "Count":
		s += ".Model(&N0" + c.Root + "{})"
	}
	q := func(x string) string { return fmt.Sprintf("%q", x) }
	switch c.Form {
	case "Joins(full)":
		s += ".Joins(" + q(full) + ")"
	case "Joins(l1).Joins(full)":
		s += ".Joins(" + q(l1) + ").Joins(" + q(full) + ")"
	case "InnerJoins(full)":
		s += ".InnerJoins(" + q(full) + ")"
	case "InnerJoins(l1).Joins(full)":
		s += ".InnerJoins(" + q(l1) + ").Joins(" + q(full) + ")"
	case "Joins(l2).Joins(full)":
		s += ".Joins(" + q(l2) + ").Joins(" + q(full) + ")"
	case "Joins(full,on-eq)":
		s += ".Joins(" + q(full) + ", db.Where(Eq{current.v,1}))"
	case "Joins(full,on-or)":
		s += ".Joins(" + q(full) + ", db.Where(Eq{current.v,1}).Or(Eq{current.v,0}))"
	case "Preload(full)":
		s += ".Preload(" + q(full) + ")"
	case "Preload(l1).Preload(full)":
		s += ".Preload(" + q(l1) + ").Preload(" + q(full) + ")"
	case "Preload(full,cond)":
		s += ".Preload(" + q(full) + `, "v = ?", 1)`
	case "Joins(l1).Preload(full)":
		s += ".Joins(" + q(l1) + ").Preload(" + q(full) + ")"
	case "Preload(full,func-or)":
		s += ".Preload(" + q(full) + `, func(db){ return db.Where("v = 1").Or("v = 0") })`
	}
	if cd := nestedCond(nestedConds[c.Cond], c.Path); cd != "" {
		s += ".Where(" + q(cd) + ")"
	}
	switch c.Fin {
	case "Find":
		s += ".Find(&[]N0" + c.Root + "{})"
	case "First":
		s += ".First(&N0" + c.Root + "{})"
	default:
		s += ".Count(&n)"
	}
	return s
}

func nestedTags(c NCase) []string {
	var tags []string
	if c.Form == "Joins(full,on-or)" {
		tags = append(tags, "joins-on-conds-with-or-call")
	}
	if strings.Contains(nestedConds[c.Cond], "OR\n") {
		tags = append(tags, "raw-unit-andor-nonspace-delimiter")
	}
	return tags
}

type nestedEnv struct{ e *h.Env }

func newNestedEnv() *nestedEnv {
	e := h.Open(nil)
	e.Rec.Pause()
	seedNested(e)
	return &nestedEnv{e: e}
}

// tuple renders the ids along the relation path of one root value.
func nestedTuple(v reflect.Value, path []string) string {
	ids := []string{fmt.Sprint(v.FieldByName("ID").Int())}
	cur := v
	for _, seg := range path {
		cur = cur.FieldByName(seg)
		ids = append(ids, fmt.Sprint(cur.FieldByName("ID").Int()))
	}
	return strings.Join(ids, ">")
}

// run executes the program with the given kinds (already substituted for twin
// runs) and returns a canonical observation.
func (ne *nestedEnv) run(c NCase, root string, path []string, unscoped bool) (out string, errClass string, errMsg string) {
	defer func() {
		if r := recover(); r != nil {
			errClass, errMsg = "panic", fmt.Sprint(r)
		}
	}()
	base := ne.e.DB
	db := base
	if unscoped {
		db = db.Unscoped()
	}
	rt := rootType[root]
	if c.Fin == "Count" {
		db = db.Model(reflect.New(rt).Interface())
	}
	d := len(path)
	full, l1, l2 := nestedName(path, d), nestedName(path, 1), nestedName(path, minInt(2, d))
	cur := clause.Column{Table: clause.CurrentTable, Name: "v"}
	switch c.Form {
	case "Joins(full)":
		db = db.Joins(full)
	case "Joins(l1).Joins(full)":
		db = db.Joins(l1).Joins(full)
	case "InnerJoins(full)":
		db = db.InnerJoins(full)
	case "InnerJoins(l1).Joins(full)":
		db = db.InnerJoins(l1).Joins(full)
	case "Joins(l2).Joins(full)":
		db = db.Joins(l2).Joins(full)
	case "Joins(full,on-eq)":
		db = db.Joins(full, base.Where(clause.Eq{Column: cur, Value: 1}))
	case "Joins(full,on-or)":
		db = db.Joins(full, base.Where(clause.Eq{Column: cur, Value: 1}).Or(clause.Eq{Column: cur, Value: 0}))
	case "Preload(full)":
		db = db.Preload(full)
	case "Preload(l1).Preload(full)":
		db = db.Preload(l1).Preload(full)
	case "Preload(full,cond)":
		db = db.Preload(full, "v = ?", 1)
	case "Joins(l1).Preload(full)":
		db = db.Joins(l1).Preload(full)
	case "Preload(full,func-or)":
		db = db.Preload(full, func(x *gorm.DB) *gorm.DB { return x.Where("v = 1").Or("v = 0") })
	default:
		return "", "error", "unknown form " + c.Form
	}
	if cd := nestedCond(nestedConds[c.Cond], path); cd != "" {
		db = db.Where(cd)
	}
	switch c.Fin {
	case "Find":
		dest := reflect.New(reflect.SliceOf(rt))
		tx := db.Find(dest.Interface())
		errClass, errMsg = classify(tx.Error)
		var ts []string
		sl := dest.Elem()
		for i := 0; i < sl.Len(); i++ {
			ts = append(ts, nestedTuple(sl.Index(i), path))
		}
		sort.Strings(ts)
		return strings.Join(ts, " "), errClass, errMsg
	case "First":
		dest := reflect.New(rt)
		tx := db.First(dest.Interface())
		errClass, errMsg = classify(tx.Error)
		if tx.Error == nil {
			return nestedTuple(dest.Elem(), path), errClass, errMsg
		}
		return "", errClass, errMsg
	default:
		var n int64
		tx := db.Count(&n)
		errClass, errMsg = classify(tx.Error)
		return fmt.Sprintf("count=%d", n), errClass, errMsg
	}
}

func substitute(root string, path []string, from, to string) (string, []string) {
	r := root
	if r == from {
		r = to
	}
	p := make([]string, len(path))
	for i, k := range path {
		if k == from {
			k = to
		}
		p[i] = k
	}
	return r, p
}

type nestedResult struct {
	Cases, Execs, InvalidBoth int64
	Sensitive                 int64 // scoped observation differs from Unscoped
	// level-sensitive[form][level]: cases in which dropping the filter of that
	// level alone (twin table with all rows at that level) changes the result
	LevelSensitive map[string][4]int64
	Outcomes       int
	Samples        []interface{}
}

func checkNested(run *mc.Run, ne *nestedEnv, c NCase, res *nestedResult, mu *sync.Mutex, outcomes *mc.Set, samples *mc.Samples) {
	tags := nestedTags(c)
	atomic.AddInt64(&res.Cases, 1)
	fail := func(kind, detail string) {
		c.Readable = c.String()
		if dumpFile != nil {
			dumpMu.Lock()
			fmt.Fprintf(dumpFile, "%v\t%s\t%s\n", tags, kind, c.String())
			dumpMu.Unlock()
		}
		run.Violation(tags, kind+"\n"+c.String()+"\n"+detail, map[string]interface{}{"nested": c})
	}
	short := func(s string) string {
		if len(s) > 700 {
			return s[:700] + "..."
		}
		return s
	}
	var scopedObs, unscopedObs string
	okBoth := true
	for _, unscoped := range []bool{false, true} {
		to, what := "P", "scoped"
		if unscoped {
			to, what = "A", "Unscoped"
		}
		got, ec, em := ne.run(c, c.Root, c.Path, unscoped)
		tr, tp := substitute(c.Root, c.Path, "S", to)
		want, wc, wm := ne.run(c, tr, tp, unscoped)
		atomic.AddInt64(&res.Execs, 2)
		if ec == "panic" {
			fail("nested "+c.Form+": panic inside gorm ("+what+")", em)
			okBoth = false
			continue
		}
		if (ec == "error" || ec == "panic") && (wc == "error" || wc == "panic") {
			atomic.AddInt64(&res.InvalidBoth, 1)
			if dumpFile != nil {
				dumpMu.Lock()
				fmt.Fprintf(dumpFile, "[invalid-for-both]\t%s\t%s\n", em, c.String())
				dumpMu.Unlock()
			}
			okBoth = false
			continue
		}
		if got != want || ec != wc {
			kind := "nested " + c.Form + " / " + c.Fin + ": " + what + " result differs from the plain twin tables"
			fail(kind, fmt.Sprintf("on %s path %s: %s err=%s %s\ntwin %s path %s: %s err=%s %s", c.Root, strings.Join(c.Path, "."), short(got), ec, em, tr, strings.Join(tp, "."), short(want), wc, wm))
			okBoth = false
			continue
		}
		if unscoped {
			unscopedObs = got
		} else {
			scopedObs = got
			outcomes.Add(got)
			// which levels is this case sensitive to? drop one level's filter in the twin
			kinds := append([]string{c.Root}, c.Path...)
			for lvl, k := range kinds {
				if k != "S" {
					continue
				}
				alt := make([]string, len(kinds))
				for i, kk := range kinds {
					switch {
					case i == lvl:
						alt[i] = "A"
					case kk == "S":
						alt[i] = "P"
					default:
						alt[i] = kk
					}
				}
				leak, lc, _ := ne.run(c, alt[0], alt[1:], false)
				atomic.AddInt64(&res.Execs, 1)
				if lc != "error" && leak != want {
					mu.Lock()
					a := res.LevelSensitive[c.Form]
					a[lvl]++
					res.LevelSensitive[c.Form] = a
					mu.Unlock()
				}
			}
		}
	}
	if okBoth && scopedObs != unscopedObs {
		atomic.AddInt64(&res.Sensitive, 1)
		samples.Add(c.String() + "  => scoped " + short(scopedObs))
	}
}

func nestedCases() []NCase {
	var paths [][]string
	var gen func(p []string, d int)
	gen = func(p []string, d int) {
		if len(p) >= 2 {
			paths = append(paths, append([]string{}, p...))
		}
		if d == 0 {
			return
		}
		for _, k := range []string{"S", "P"} {
			gen(append(p, k), d-1)
		}
	}
	gen(nil, 3)
	var out []NCase
	for _, root := range []string{"S", "P"} {
		for _, p := range paths {
			hasS := root == "S"
			for _, k := range p {
				if k == "S" {
					hasS = true
				}
			}
			if !hasS {
				continue
			}
			for _, f := range nestedJoinForms {
				for ci := range nestedConds {
					for _, fin := range []string{"Find", "Count", "First"} {
						out = append(out, NCase{Root: root, Path: p, Form: f, Cond: ci, Fin: fin})
					}
				}
			}
			for _, f := range nestedPreloadForms {
				out = append(out, NCase{Root: root, Path: p, Form: f, Cond: 0, Fin: "Find"})
				out = append(out, NCase{Root: root, Path: p, Form: f, Cond: 0, Fin: "First"})
			}
		}
	}
	return out
}

func exploreNested(run *mc.Run) *nestedResult {
	res := &nestedResult{LevelSensitive: map[string][4]int64{}}
	cases := nestedCases()
	outcomes := &mc.Set{}
	samples := &mc.Samples{N: 4}
	var mu sync.Mutex
	var wg sync.WaitGroup
	var idx int64 = -1
	for i := 0; i < 16; i++ {
		wg.Add(1)
		go func() {
			defer wg.Done()
			ne := newNestedEnv()
			for {
				n := atomic.AddInt64(&idx, 1)
				if int(n) >= len(cases) {
					return
				}
				checkNested(run, ne, cases[n], res, &mu, outcomes, samples)
			}
		}()
	}
	wg.Wait()
	res.Outcomes = outcomes.Len()
	res.Samples = samples.List()
	return res
}

// nestedVacuity returns a description of what the nested part failed to
// exercise ("" = fine): every form must be sensitive to the filter of every
// level it reaches.
func nestedVacuity(res *nestedResult) string {
	var missing []string
	for _, f := range append(append([]string{}, nestedJoinForms...), nestedPreloadForms...) {
		a := res.LevelSensitive[f]
		for lvl := 0; lvl <= 3; lvl++ {
			if a[lvl] == 0 {
				missing = append(missing, fmt.Sprintf("%s@level%d", f, lvl))
			}
		}
	}
	if len(missing) > 0 {
		return "no case is sensitive to a missing soft-delete filter at: " + strings.Join(missing, ", ")
	}
	if res.Cases < 1000 {
		return fmt.Sprintf("only %d nested cases", res.Cases)
	}
	return ""
}

func replayNested(run *mc.Run, c NCase) {
	ne := newNestedEnv()
	fmt.Printf("case: %s\n", c.String())
	for _, unscoped := range []bool{false, true} {
		to := "P"
		if unscoped {
			to = "A"
		}
		got, ec, em := ne.run(c, c.Root, c.Path, unscoped)
		tr, tp := substitute(c.Root, c.Path, "S", to)
		want, wc, wm := ne.run(c, tr, tp, unscoped)
		fmt.Printf("unscoped=%v\n  models %s/%s: %s err=%s %s\n  twin   %s/%s: %s err=%s %s\n", unscoped, c.Root, strings.Join(c.Path, "."), got, ec, em, tr, strings.Join(tp, "."), want, wc, wm)
	}
	res := &nestedResult{LevelSensitive: map[string][4]int64{}}
	var mu sync.Mutex
	checkNested(run, ne, c, res, &mu, &mc.Set{}, &mc.Samples{N: 1})
}
