// C08 — soft-deleted records are invisible and untouched unless Unscoped.
//
// Part 1 (exploration): every live row of the soft-delete table has a
// soft-deleted twin with identical column values, so any leak changes a result.
// Chains of Where/Or/Not calls (verif/condgram catalogue, including leading
// Or) x 22 read/write/relation finishers are executed
//   - scoped on the soft-delete model and on a plain twin table that holds the
//     live rows only ("as if the marked rows did not exist"),
//   - Unscoped on the soft-delete model and on a plain table holding all rows,
//
// and the observations must agree pairwise; inside C02's quantifier they must
// also equal the three-valued reference evaluation; soft-deleted rows must be
// unchanged cell by cell after every scoped write. No SQL text is inspected.
//
// Part 3 (nested.go): nested relation joins / preloads of depth 2-3 through
// soft-delete and plain models in every combination, against plain twins.
//
// Part 2 (histories): explicit-state BFS over create / soft-delete /
// unscoped-delete / restore on 3 keys against a 3-state-per-key model.
package main

import (
	"fmt"
	"os"
	"sort"
	"strings"
	"sync"
	"sync/atomic"
	"time"

	cg "verif/condgram"
	"verif/mc"
)

type stats struct {
	cases, execs, skippedNA, bothErr int64
	sensitive                        int64
	withOr, leadingOr, refChecked    int64
	byFin                            [nFin]int64
	tagged                           int64
	nested                           int64
	byShape                          [nVariants]int64
	pendingSkipped                   int64
}

// tags of findings that cases (not units) are known to trigger on the
// unchanged tree; such cases run in the quick tier only once the tag is listed
// in known_findings.json (thorough always runs them)
var pendingCaseTags = map[string]bool{"model-key-update-with-or-call": true}
var listedTags = map[string]bool{}

type sinks struct {
	run      *mc.Run
	st       *stats
	nontriv  *mc.Set
	outcomes *mc.Set
	samples  *mc.Samples
}

var dumpFile *os.File
var dumpMu sync.Mutex

func refTree(c Case) (tree *cg.Node, defined bool) {
	us := units[vSoft]
	var extra []*cg.Node
	if c.Inline >= 0 {
		extra = append(extra, us[c.Inline].Tree)
	}
	if f := finByName(c.Fin); f >= 0 && fins[f].keyed {
		extra = append(extra, cg.Atom("id", "=", modelKey))
	}
	ts, ok := cg.Terms(c.Chain, us, extra...)
	if !ok || cg.LeadingOr(c.Chain, us) {
		return nil, false
	}
	return cg.Combine(ts), true
}

func inputTags(c Case) []string {
	us := units[vSoft]
	tags := cg.Tags(c.Chain, c.Inline, us)
	f := finByName(c.Fin)
	// effective (condition-adding) calls
	var eff []cg.Call
	for _, call := range c.Chain {
		if us[call.Unit].Tree != nil {
			eff = append(eff, call)
		}
	}
	hasInline := c.Inline >= 0 && us[c.Inline].Tree != nil
	if len(eff) > 0 && eff[0].Kind == cg.KOr {
		u := us[eff[0].Unit]
		// FindInBatches, Preload and Association add an AND-joined condition of
		// their own (id > last, foreign key IN ...)
		andLater := hasInline || f == fBatches || f == fPreloadFunc || f == fAssocFind || f == fAssocCount || fins[f].keyed
		for _, call := range eff[1:] {
			if call.Kind != cg.KOr {
				andLater = true
			}
		}
		if andLater {
			// Or(x) first, then an AND-joined condition
			tags = append(tags, "leading-or-then-and-term")
		}
		if len(eff) == 1 && !hasInline && f != fModelKeyDelete && f != fKeyDelete && f != fJoinsOn && u.RawTop && (u.Conn == "or" || u.Conn == "mixed") {
			// a lone Or("... OR ...") with a raw SQL string
			tags = append(tags, "lone-leading-or-raw-unit-with-or")
		}
	}
	if (f == fModelKeyUpdate || f == fModelKeyUpdates) && len(eff) > 0 {
		for _, call := range eff {
			if call.Kind == cg.KOr {
				// Model(&rec) key + a chain with an Or call + Update on a soft-delete model
				tags = append(tags, "model-key-update-with-or-call")
				break
			}
		}
	}
	if f == fJoinsOn {
		// conditions handed to Joins(rel, db.Where(..)...) that contain an Or call
		for _, call := range eff {
			if call.Kind == cg.KOr {
				tags = append(tags, "joins-on-conds-with-or-call")
				break
			}
		}
	}
	return tags
}

// compareRef checks an observation against the reference id set.
func compareRef(f int, o obs, want []int) string {
	switch fins[f].ref {
	case "set":
		if cg.IDs(o.ids) != cg.IDs(want) {
			return fmt.Sprintf("expected ids %s, observed %s", cg.IDs(want), cg.IDs(o.ids))
		}
		if fins[f].write && int(o.n) != len(want) {
			return fmt.Sprintf("RowsAffected %d, expected %d", o.n, len(want))
		}
	case "count":
		if int(o.n) != len(want) {
			return fmt.Sprintf("expected count %d, observed %d", len(want), o.n)
		}
	case "first", "last", "member":
		if len(want) == 0 {
			if o.found {
				return fmt.Sprintf("expected no row, observed id %v", o.ids)
			}
			return ""
		}
		if !o.found {
			return fmt.Sprintf("expected a row of %s, observed none (%s)", cg.IDs(want), o.err)
		}
		switch fins[f].ref {
		case "first":
			if o.ids[0] != want[0] {
				return fmt.Sprintf("expected id %d, observed %d", want[0], o.ids[0])
			}
		case "last":
			if o.ids[0] != want[len(want)-1] {
				return fmt.Sprintf("expected id %d, observed %d", want[len(want)-1], o.ids[0])
			}
		default:
			i := sort.SearchInts(want, o.ids[0])
			if i >= len(want) || want[i] != o.ids[0] {
				return fmt.Sprintf("observed id %d is not in %s", o.ids[0], cg.IDs(want))
			}
		}
	}
	return ""
}

func describe(o obs) string {
	s := fmt.Sprintf("ids=%s n=%d", cg.IDs(o.ids), o.n)
	if o.txt != "" {
		t := o.txt
		if len(t) > 400 {
			t = t[:400] + "..."
		}
		s += " " + t
	}
	if o.err != "" {
		s += " err=" + o.err
		if o.errMsg != "" {
			s += "(" + o.errMsg + ")"
		}
	}
	if o.panicMsg != "" {
		s += " PANIC " + o.panicMsg
	}
	return s
}

func check(s *sinks, w *worker, c Case) {
	if !applicable(c) {
		atomic.AddInt64(&s.st.skippedNA, 1)
		return
	}
	f := finByName(c.Fin)
	us := units[vSoft]
	tags := inputTags(c)
	// case families whose finding is not listed yet are left out of the quick tier
	for _, t := range tags {
		if pendingCaseTags[t] && !listedTags[t] && s.run.Tier == "quick" {
			atomic.AddInt64(&s.st.pendingSkipped, 1)
			return
		}
	}
	atomic.AddInt64(&s.st.cases, 1)
	atomic.AddInt64(&s.st.byFin[f], 1)
	if len(tags) > 0 {
		atomic.AddInt64(&s.st.tagged, 1)
	}
	hasOr := false
	for _, call := range c.Chain {
		if call.Kind == cg.KOr || us[call.Unit].Conn == "or" || us[call.Unit].Conn == "mixed" {
			hasOr = true
		}
	}
	if hasOr {
		atomic.AddInt64(&s.st.withOr, 1)
	}
	if cg.LeadingOr(c.Chain, us) {
		atomic.AddInt64(&s.st.leadingOr, 1)
	}
	tree, defined := refTree(c)
	noCond := defined && tree == nil

	// the leading-Or finding is about which live rows a chain means, never about
	// soft-deleted rows: evidence of a leak is reported without that tag
	var leakTags []string
	for _, t := range tags {
		if t != "leading-or-then-and-term" {
			leakTags = append(leakTags, t)
		}
	}
	useTags := tags
	fail := func(kind, detail string) {
		c.Readable = c.String()
		c.Labels = nil
		for _, call := range c.Chain {
			c.Labels = append(c.Labels, us[call.Unit].Label)
		}
		if c.Inline >= 0 {
			c.Labels = append(c.Labels, us[c.Inline].Label)
		}
		if dumpFile != nil {
			dumpMu.Lock()
			fmt.Fprintf(dumpFile, "%v\t%s\t%s\n", useTags, kind, c.String())
			dumpMu.Unlock()
		}
		s.run.Violation(useTags, kind+"\n"+c.String()+"\n"+detail, c)
	}

	sv := vSoft
	if c.Shape != 0 {
		sv = c.Shape
		atomic.AddInt64(&s.st.byShape[c.Shape], 1)
	}
	// pair: the soft-delete model against its twin
	pair := func(unscoped bool, twin int, rows []cg.Row, what string) (soft obs, ok bool) {
		soft = w.execOne(c, sv, unscoped)
		tw := w.execOne(c, twin, unscoped)
		atomic.AddInt64(&s.st.execs, 2)
		if soft.panicMsg != "" {
			fail(fins[f].name+": panic inside gorm ("+what+")", soft.panicMsg)
			return soft, false
		}
		if tw.panicMsg != "" || len(tw.extra) > 0 {
			// the twin is only an oracle: its own trouble is not a C08 matter
			atomic.AddInt64(&s.st.bothErr, 1)
			return soft, false
		}
		if soft.err == "error" && tw.err == "error" {
			// the program is not valid SQL in this context for either model
			atomic.AddInt64(&s.st.bothErr, 1)
			return soft, false
		}
		useTags = tags
		if len(soft.extra) > 0 {
			useTags = leakTags
			fail(fins[f].name+": "+what+": rows touched that the operation must leave alone", strings.Join(soft.extra, "\n")+"\nsoft model: "+describe(soft)+"\ntwin      : "+describe(tw))
			return soft, false
		}
		if soft.canon(f) != tw.canon(f) {
			kind := fins[f].name + ": " + what + " result differs from the twin table"
			if twin == vPlain {
				for _, id := range soft.ids {
					if id > twinOffset {
						useTags = leakTags
						kind = fins[f].name + ": " + what + " result contains soft-deleted rows"
						break
					}
				}
			}
			fail(kind, "soft model ("+vTable[sv]+"): "+describe(soft)+"\ntwin ("+vTable[twin]+"): "+describe(tw))
			return soft, false
		}
		if defined && fins[f].ref != "none" && soft.err != "error" && !(noCond && fins[f].write) {
			atomic.AddInt64(&s.st.refChecked, 1)
			want := cg.Select(tree, rows)
			if msg := compareRef(f, soft, want); msg != "" {
				tr := "<no condition>"
				if tree != nil {
					tr = tree.String()
				}
				fail(fins[f].name+": "+what+" result differs from the reference evaluation", "reference meaning: "+tr+"\n"+msg+"\nsoft model: "+describe(soft))
				return soft, false
			}
		}
		return soft, true
	}

	if c.Nested {
		atomic.AddInt64(&s.st.nested, 1)
		// db.Unscoped().Session(NewDB): Unscoped must survive iff PropagateUnscoped
		if c.Prop {
			pair(false, vPlainAll, all54, "Unscoped+NewDB session with PropagateUnscoped")
		} else {
			pair(false, vPlain, live, "Unscoped+NewDB session without PropagateUnscoped")
		}
		return
	}
	oS, ok1 := pair(false, vPlain, live, "scoped")
	oU, ok2 := pair(true, vPlainAll, all54, "Unscoped")
	if ok1 && ok2 {
		s.outcomes.Add(oS.canon(f))
		s.outcomes.Add(oU.canon(f))
		if oS.canon(f) != oU.canon(f) || (f == fTake && cg.IDs(oS.ids) != cg.IDs(oU.ids)) {
			atomic.AddInt64(&s.st.sensitive, 1)
			if s.nontriv.Add(c.key()) {
				s.samples.Add(c.String() + "  => scoped " + describe(oS) + " / unscoped " + describe(oU))
			}
		}
	}
}

// ---------------------------------------------------------------- enumeration

func unitSet(pred func(*cg.Unit) bool) []int {
	var out []int
	for _, u := range units[vSoft] {
		if pred(u) && !u.Skip {
			out = append(out, u.Idx)
		}
	}
	return out
}

// chains of exactly n calls, any first call (leading Or included).
func chains(set []int, n int, emit func([]cg.Call)) {
	cur := make([]cg.Call, n)
	var rec func(i int)
	rec = func(i int) {
		if i == n {
			emit(append([]cg.Call{}, cur...))
			return
		}
		for _, k := range []int{cg.KWhere, cg.KOr, cg.KNot} {
			for _, u := range set {
				cur[i] = cg.Call{Kind: k, Unit: u}
				rec(i + 1)
			}
		}
	}
	rec(0)
}

func enumerate(tier string, emit func(Case) bool) bool {
	full := unitSet(func(*cg.Unit) bool { return true })
	rep1 := unitSet(func(u *cg.Unit) bool { return u.Rep == 1 })
	rep2 := unitSet(func(u *cg.Unit) bool { return u.Rep >= 1 })
	ok := true
	out := func(c Case) {
		if ok && !emit(c) {
			ok = false
		}
	}
	var allFins, coreFins, inlineFins []int
	for i, f := range fins {
		allFins = append(allFins, i)
		if f.core {
			coreFins = append(coreFins, i)
		}
		if f.inline {
			inlineFins = append(inlineFins, i)
		}
	}
	thorough := tier == "thorough"
	// tiny: one unit per main shape, for the 3-call chains
	var tiny []int
	for _, cl := range []string{"raw/atom", "raw/or", "map/and", "clause/or", "group/or"} {
		for _, i := range rep1 {
			if units[vSoft][i].Class() == cl {
				tiny = append(tiny, i)
				break
			}
		}
	}
	// A: chains of 0..1 calls over the full catalogue x every finisher
	for n := 0; n <= 1 && ok; n++ {
		chains(full, n, func(ch []cg.Call) {
			for _, f := range allFins {
				out(Case{Chain: ch, Inline: -1, Fin: fins[f].name})
			}
		})
	}
	// S: the other shapes of the soft-delete model: chains of 0..1 calls x every
	// finisher (quick: over the Rep>=1 units, thorough: over all units)
	setS := rep2
	if thorough {
		setS = full
	}
	for _, shape := range []int{vSoftPtr, vSoftEmb, vSoftPre, vSoftCol} {
		for n := 0; n <= 1 && ok; n++ {
			chains(setS, n, func(ch []cg.Call) {
				for _, f := range allFins {
					out(Case{Chain: ch, Inline: -1, Fin: fins[f].name, Shape: shape})
				}
			})
		}
	}
	// D: PropagateUnscoped on: chains of 0..1 calls over the representatives x
	// every finisher, and the nested-handle probe with both config values
	setD := rep1
	if thorough {
		setD = rep2
	}
	for n := 0; n <= 1 && ok; n++ {
		chains(setD, n, func(ch []cg.Call) {
			for _, f := range allFins {
				out(Case{Chain: ch, Inline: -1, Fin: fins[f].name, Prop: true})
			}
			for _, f := range []int{fFind, fCount, fFirst, fUpdate, fDelete, fPreloadFunc, fAssocFind} {
				out(Case{Chain: ch, Inline: -1, Fin: fins[f].name, Prop: true, Nested: true})
				out(Case{Chain: ch, Inline: -1, Fin: fins[f].name, Prop: false, Nested: true})
			}
		})
	}
	// C: inline conditions: chains of 0..1 calls x inline unit x inline finishers
	setC, inl := rep1, rep1
	if thorough {
		setC, inl = rep2, full
	}
	for n := 0; n <= 1 && ok; n++ {
		chains(setC, n, func(ch []cg.Call) {
			for _, in := range inl {
				for _, f := range inlineFins {
					out(Case{Chain: ch, Inline: in, Fin: fins[f].name})
				}
			}
		})
	}
	// B: chains of 2 calls: representatives x every finisher; thorough also
	// (all units x representatives, either order) x core finishers - see below
	setB := rep1
	if thorough {
		setB = rep2
	}
	chains(setB, 2, func(ch []cg.Call) {
		for _, f := range allFins {
			out(Case{Chain: ch, Inline: -1, Fin: fins[f].name})
		}
	})
	// E: chains of 3 calls x core finishers (quick: 5 shapes, thorough: the class representatives)
	setE := tiny
	if thorough {
		setE = rep1
	}
	if ok {
		chains(setE, 3, func(ch []cg.Call) {
			for _, f := range coreFins {
				out(Case{Chain: ch, Inline: -1, Fin: fins[f].name})
			}
		})
	}
	if thorough && ok {
		inB := map[int]bool{}
		for _, u := range setB {
			inB[u] = true
		}
		chains(full, 2, func(ch []cg.Call) {
			// one call over all units, the other over the representatives
			if inB[ch[0].Unit] == inB[ch[1].Unit] {
				return
			}
			for _, f := range coreFins {
				out(Case{Chain: ch, Inline: -1, Fin: fins[f].name})
			}
		})
	}
	return ok
}

func main() {
	if p := os.Getenv("C08_DUMP"); p != "" {
		dumpFile, _ = os.Create(p)
		defer dumpFile.Close()
	}
	args := mc.ParseArgs()
	run := mc.NewRun("C08", args.Tier, "exploration")
	units[vSoft] = cg.Catalogue(cg.Options{ModelName: "Soft", ModelStruct: func(a, b *int, s *string) interface{} { return &Soft{A: a, B: b, S: s} }})
	units[vPlain] = cg.Catalogue(cg.Options{ModelName: "Plain", ModelStruct: func(a, b *int, s *string) interface{} { return &Plain{A: a, B: b, S: s} }})
	units[vSoftPtr] = cg.Catalogue(cg.Options{ModelName: "SoftPtr", ModelStruct: func(a, b *int, s *string) interface{} { return &SoftPtr{A: a, B: b, S: s} }})
	units[vSoftEmb] = cg.Catalogue(cg.Options{ModelName: "SoftEmb", ModelStruct: func(a, b *int, s *string) interface{} { return &SoftEmb{A: a, B: b, S: s} }})
	units[vSoftPre] = cg.Catalogue(cg.Options{ModelName: "SoftPre", ModelStruct: func(a, b *int, s *string) interface{} { return &SoftPre{A: a, B: b, S: s} }})
	units[vSoftCol] = cg.Catalogue(cg.Options{ModelName: "SoftCol", ModelStruct: func(a, b *int, s *string) interface{} { return &SoftCol{A: a, B: b, S: s} }})
	units[vPlainAll] = cg.Catalogue(cg.Options{ModelName: "PlainAll", ModelStruct: func(a, b *int, s *string) interface{} { return &PlainAll{A: a, B: b, S: s} }})
	pendingSkipped := cg.MarkPending(units[vSoft], "C08", args.Tier)
	listedTags = cg.ListedTags("C08")

	s := &sinks{run: run, st: &stats{}, nontriv: &mc.Set{}, outcomes: &mc.Set{}, samples: &mc.Samples{N: 8}}

	if len(args.Extra) > 0 && args.Extra[0] == "units" {
		// print the unit catalogue (index, class, representative level, label)
		for _, u := range units[vSoft] {
			fmt.Printf("%3d  %-14s rep=%d  %s\n", u.Idx, u.Class(), u.Rep, u.Label)
		}
		return
	}
	if args.Replay != "" {
		replay(args, s)
		return
	}

	deadline := time.Now().Add(12 * time.Minute)
	if args.Tier == "quick" {
		deadline = time.Now().Add(150 * time.Second)
	}
	const nw = 16
	batches := make(chan []Case, 64)
	var wg sync.WaitGroup
	for i := 0; i < nw; i++ {
		wg.Add(1)
		go func() {
			defer wg.Done()
			w := newWorker()
			for b := range batches {
				for _, c := range b {
					check(s, w, c)
				}
			}
		}()
	}
	var batch []Case
	var generated int64
	complete := enumerate(args.Tier, func(c Case) bool {
		batch = append(batch, c)
		generated++
		if len(batch) == 256 {
			batches <- batch
			batch = nil
			if time.Now().After(deadline) {
				return false
			}
		}
		return true
	})
	if len(batch) > 0 {
		batches <- batch
	}
	close(batches)
	wg.Wait()

	// part 2: histories
	hs := exploreHistories(run, args.Tier)

	// part 3: nested relation joins / preloads through soft-delete and plain models
	ns := exploreNested(run)

	// part 4: destinations that already hold relation values
	ss := exploreStale(run)

	st := s.st
	frac := 0.0
	if st.cases > 0 {
		frac = float64(st.sensitive) / float64(st.cases-st.nested)
	}
	if run.NumViolations() == 0 {
		if st.cases < 5000 {
			run.HarnessError("vacuous: only %d cases", st.cases)
		}
		if frac < 0.35 {
			run.HarnessError("vacuous: only %.1f%% of the cases distinguish scoped from Unscoped (floor 35%%)", 100*frac)
		}
		if st.bothErr*5 > st.execs/2 {
			run.HarnessError("vacuous: %d of %d pair executions were invalid programs", st.bothErr, st.execs/2)
		}
		for i, f := range fins {
			if st.byFin[i] < 50 {
				run.HarnessError("vacuous: finisher %s executed only %d cases", f.name, st.byFin[i])
			}
		}
		for _, shape := range []int{vSoftPtr, vSoftEmb, vSoftPre, vSoftCol} {
			if st.byShape[shape] < 1000 {
				run.HarnessError("vacuous: model shape %s executed only %d cases", vName[shape], st.byShape[shape])
			}
		}
		if ss.Cases < 200 || ss.Sensitive*3 < ss.Cases {
			run.HarnessError("vacuous (stale destinations): %d cases, %d of them with old content that differs from the correct result", ss.Cases, ss.Sensitive)
		}
		if msg := nestedVacuity(ns); msg != "" {
			run.HarnessError("vacuous (nested relations): %s", msg)
		}
		if hs.States < 27 || hs.Transitions < 300 {
			run.HarnessError("vacuous: history exploration reached %d states / %d transitions", hs.States, hs.Transitions)
		}
	}
	byFin := map[string]int64{}
	for i, f := range fins {
		byFin[f.name] = st.byFin[i]
	}
	run.Assume("SQLite dialect only; the plain twin tables are the oracle for 'as if the marked rows did not exist' (the plain-model semantics of the same chains is C02's subject); FindInBatches with OR chains may revisit rows (C15): only agreement with the twin is required there")
	run.Assume("PropagateUnscoped=true is exercised on chains of 0-1 calls x all finishers plus the Unscoped+NewDB nested-handle probe (both config values); longer chains run with the default config; histories use create / soft-delete / unscoped-delete / Save (re-create) on 3 keys")
	run.Assume("Take returns an arbitrary member: compared on found/not-found plus membership in the reference set; programs that are invalid SQL for both the soft-delete model and its twin are skipped (counted in invalid_for_both)")
	run.Finish(map[string]interface{}{
		"evaluations":                        st.execs,
		"distinct_nontrivial":                s.nontriv.Len(),
		"rule":                               fmt.Sprintf("unit catalogue of %d units (verif/condgram); every chain of 0-1 Where/Or/Not calls (leading Or included) over all units x 22 finishers; chains of 2 calls over the class representatives (quick Rep=1, thorough Rep>=1) x 22 finishers, thorough also one call over all units + one over the representatives x Find/Count/Update/Delete; inline conditions; PropagateUnscoped on and the Unscoped+NewDB nested-handle probe; chains of 0-1 calls x 22 finishers on four more shapes of the soft-delete model (pointer field, field promoted from an embedded struct, embedded struct with column prefix, renamed column); chains of 3 calls over 5 shapes (quick) / the class representatives (thorough) x Find/Count/Update/Delete. Plus nested relation paths of depth 2-3 over {soft,plain}^depth from a soft or plain root (single nested Joins entry, step-wise, InnerJoins, ON conditions, conditions on the joined aliases, nested Preload with/without conditions, Joins+Preload) x Find/Count/First, with soft-deleted rows at every level, each compared with the same path over plain twin tables. Plus destinations that already hold relation values (struct / slice primed by an Unscoped load or by a load made before the relation rows were soft-deleted) re-read with Preload/Joins forms of belongs-to, has-one and has-many relations, compared with a read into a fresh destination; plus Delete/Update with the primary key in the Model() value or in the Delete value. Each case runs scoped on softs vs plains (live rows only) and Unscoped on softs vs plain_alls (all rows); evaluations = executions. Non-trivial = the scoped and the Unscoped observation of the case differ, i.e. a soft-deleted twin satisfies the condition and a leak would be visible; distinct by (chain, inline, finisher, config)", len(units[vSoft])),
		"samples":                            s.samples.List(),
		"exhaustive":                         complete && hs.Complete,
		"cases":                              st.cases,
		"generated":                          generated,
		"not_applicable_skipped":             st.skippedNA,
		"invalid_for_both":                   st.bothErr,
		"scoped_differs_from_unscoped":       st.sensitive,
		"sensitive_fraction_pct":             int(frac * 100),
		"cases_with_or":                      st.withOr,
		"cases_with_leading_or":              st.leadingOr,
		"reference_checked_executions":       st.refChecked,
		"nested_handle_cases":                st.nested,
		"cases_with_input_tag":               st.tagged,
		"distinct_outcomes":                  s.outcomes.Len(),
		"by_finisher":                        byFin,
		"states":                             hs.States,
		"transitions":                        hs.Transitions,
		"traces_validated_against_impl":      hs.Transitions + hs.Steps,
		"pending_cases_skipped_until_listed": st.pendingSkipped,
		"pending_units_skipped_until_listed": pendingSkipped,
		"cases_by_model_shape":               map[string]int64{"SoftPtr": st.byShape[vSoftPtr], "SoftEmb": st.byShape[vSoftEmb], "SoftPre": st.byShape[vSoftPre], "SoftCol": st.byShape[vSoftCol]},
		"stale_destination_cases":            ss.Cases,
		"stale_destination_cases_where_old_content_differs": ss.Sensitive,
		"nested_cases":                         ns.Cases,
		"nested_executions":                    ns.Execs,
		"nested_invalid_for_both":              ns.InvalidBoth,
		"nested_scoped_differs_from_unscoped":  ns.Sensitive,
		"nested_level_sensitive_cases_by_form": ns.LevelSensitive,
		"nested_distinct_outcomes":             ns.Outcomes,
		"nested_samples":                       ns.Samples,
		"history_paths":                        hs.Paths,
		"history_steps_validated":              hs.Steps,
		"history_depth":                        hs.Depth,
		"history_probe_checks":                 hs.Probes,
	})
}

func replay(args mc.Args, s *sinks) {
	pendingCaseTags = map[string]bool{} // a replay always judges the case itself
	// a replay file holds either a condition case or a history
	var sprobe struct {
		Stale *StaleCase `json:"stale"`
	}
	if err := mc.LoadReplay(args.Replay, &sprobe); err == nil && sprobe.Stale != nil {
		os.Setenv("VERIF_KNOWN_FINDINGS", "/nonexistent")
		run := mc.NewRun("C08", args.Tier, "exploration")
		replayStale(run, *sprobe.Stale)
		if run.NumViolations() > 0 {
			os.Exit(1)
		}
		fmt.Println("no violation")
		return
	}
	var nprobe struct {
		Nested *NCase `json:"nested"`
	}
	if err := mc.LoadReplay(args.Replay, &nprobe); err == nil && nprobe.Nested != nil {
		os.Setenv("VERIF_KNOWN_FINDINGS", "/nonexistent")
		run := mc.NewRun("C08", args.Tier, "exploration")
		replayNested(run, *nprobe.Nested)
		if run.NumViolations() > 0 {
			os.Exit(1)
		}
		fmt.Println("no violation")
		return
	}
	var probe struct {
		History []hop `json:"history"`
	}
	if err := mc.LoadReplay(args.Replay, &probe); err == nil && len(probe.History) > 0 {
		os.Setenv("VERIF_KNOWN_FINDINGS", "/nonexistent")
		run := mc.NewRun("C08", args.Tier, "exploration")
		replayHistory(run, probe.History)
		if run.NumViolations() > 0 {
			os.Exit(1)
		}
		fmt.Println("no violation")
		return
	}
	var c Case
	if err := mc.LoadReplay(args.Replay, &c); err != nil {
		fmt.Fprintln(os.Stderr, err)
		os.Exit(3)
	}
	us := units[vSoft]
	var labels []string
	for _, call := range c.Chain {
		labels = append(labels, us[call.Unit].Label)
	}
	if c.Inline >= 0 {
		labels = append(labels, us[c.Inline].Label)
	}
	if len(c.Labels) > 0 && strings.Join(labels, "|") != strings.Join(c.Labels, "|") {
		fmt.Fprintf(os.Stderr, "HARNESS-ERROR: unit catalogue changed since the replay was recorded:\n  recorded %q\n  now      %q\n", c.Labels, labels)
		os.Exit(3)
	}
	if finByName(c.Fin) < 0 {
		fmt.Fprintf(os.Stderr, "HARNESS-ERROR: unknown finisher %q\n", c.Fin)
		os.Exit(3)
	}
	w := newWorker()
	fmt.Printf("case: %s\n", c.String())
	if !c.Nested {
		sv := vSoft
		if c.Shape != 0 {
			sv = c.Shape
		}
		fmt.Printf("scoped   %-10s: %s\n", vTable[sv], describe(w.execOne(c, sv, false)))
		fmt.Printf("scoped   plains    : %s\n", describe(w.execOne(c, vPlain, false)))
		fmt.Printf("unscoped %-10s: %s\n", vTable[sv], describe(w.execOne(c, sv, true)))
		fmt.Printf("unscoped plain_alls: %s\n", describe(w.execOne(c, vPlainAll, true)))
	}
	os.Setenv("VERIF_KNOWN_FINDINGS", "/nonexistent")
	s.run = mc.NewRun("C08", args.Tier, "exploration")
	check(s, w, c)
	if s.run.NumViolations() > 0 {
		os.Exit(1)
	}
	fmt.Println("no violation")
}
