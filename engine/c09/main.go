// C09 — an Update or Delete without any condition never executes.
//
// Bounded-exhaustive enumeration (E3) of all chains of condition-free calls
// (length <= K) x every update/delete finisher x {plain, soft-delete} model x
// AllowGlobalUpdate {off, config, session}, executed on SQLite behind the
// recording driver; plus the positive half: the same chains with one real
// condition inserted at every position.
package main

import (
	"context"
	"database/sql"
	"errors"
	"fmt"
	"os"
	"sort"
	"strings"
	"sync"
	"sync/atomic"

	"gorm.io/gorm"
	"gorm.io/gorm/clause"

	"verif/h"
	"verif/mc"
)

type Plain struct {
	ID   uint
	Name string
	Age  int
}

type Soft struct {
	ID        uint
	Name      string
	Age       int
	DeletedAt gorm.DeletedAt
}

// SoftZ: soft-delete model whose live rows carry a zero VALUE instead of NULL
// (the automatic filter is deleted_at = '<time>', not IS NULL). Used in the
// condition-free half only.
type SoftZ struct {
	ID        uint
	Name      string
	Age       int
	DeletedAt gorm.DeletedAt `gorm:"zeroValue:1970-01-01 00:00:01"`
}

const (
	mPlain = 0
	mSoft  = 1
	mSoftZ = 2
)

var tableOf = []string{"plains", "softs", "soft_zs"}

func zeroPtr(m int) interface{} {
	if m == mPlain {
		return &Plain{}
	}
	if m == mSoftZ {
		return &SoftZ{}
	}
	return &Soft{}
}
func zeroVal(m int) interface{} {
	if m == mPlain {
		return Plain{}
	}
	if m == mSoftZ {
		return SoftZ{}
	}
	return Soft{}
}

// op is one chain call.
type op struct {
	Label    string
	Apply    func(db *gorm.DB, m int) *gorm.DB
	Unscoped bool
	// Reuse: the call runs a finisher first and hands out a Session/WithContext
	// copy of that used handle. Only the condition-free half is asserted for
	// such chains (what a reused statement selects is not defined by the property).
	Reuse bool
}

func noopScope(db *gorm.DB) *gorm.DB { return db }

// condition-free calls: none of them is an "effective condition".
var freeOps = []op{
	{Label: `Where("")`, Apply: func(db *gorm.DB, m int) *gorm.DB { return db.Where("") }},
	{Label: `Where(map{})`, Apply: func(db *gorm.DB, m int) *gorm.DB { return db.Where(map[string]interface{}{}) }},
	{Label: `Where(&T{})`, Apply: func(db *gorm.DB, m int) *gorm.DB { return db.Where(zeroPtr(m)) }},
	{Label: `Where([]int{})`, Apply: func(db *gorm.DB, m int) *gorm.DB { return db.Where([]int{}) }},
	{Label: `Not("")`, Apply: func(db *gorm.DB, m int) *gorm.DB { return db.Not("") }},
	{Label: `Or(map{})`, Apply: func(db *gorm.DB, m int) *gorm.DB { return db.Or(map[string]interface{}{}) }},
	{Label: `Order("id")`, Apply: func(db *gorm.DB, m int) *gorm.DB { return db.Order("id") }},
	{Label: `Limit(1)`, Apply: func(db *gorm.DB, m int) *gorm.DB { return db.Limit(1) }},
	// --- reduced alphabet ends here (first 8) ---
	{Label: `Scopes(noop)`, Apply: func(db *gorm.DB, m int) *gorm.DB { return db.Scopes(noopScope) }},
	{Label: `Unscoped()`, Unscoped: true, Apply: func(db *gorm.DB, m int) *gorm.DB { return db.Unscoped() }},
	{Label: `Select("name")`, Apply: func(db *gorm.DB, m int) *gorm.DB { return db.Select("name") }},
	{Label: `Omit("age")`, Apply: func(db *gorm.DB, m int) *gorm.DB { return db.Omit("age") }},
	{Label: `Table(own)`, Apply: func(db *gorm.DB, m int) *gorm.DB { return db.Table(tableOf[m]) }},
	{Label: `Model(&T{})`, Apply: func(db *gorm.DB, m int) *gorm.DB { return db.Model(zeroPtr(m)) }},
	{Label: `Where(T{})`, Apply: func(db *gorm.DB, m int) *gorm.DB { return db.Where(zeroVal(m)) }},
	{Label: `Where(map[string]string{})`, Apply: func(db *gorm.DB, m int) *gorm.DB { return db.Where(map[string]string{}) }},
	{Label: `Not(&T{})`, Apply: func(db *gorm.DB, m int) *gorm.DB { return db.Not(zeroPtr(m)) }},
	{Label: `Or("")`, Apply: func(db *gorm.DB, m int) *gorm.DB { return db.Or("") }},
	{Label: `Not(map{})`, Apply: func(db *gorm.DB, m int) *gorm.DB { return db.Not(map[string]interface{}{}) }},
	{Label: `Scopes(Where(""))`, Apply: func(db *gorm.DB, m int) *gorm.DB {
		return db.Scopes(func(d *gorm.DB) *gorm.DB { return d.Where("") })
	}},
	{Label: `Where([]string{})`, Apply: func(db *gorm.DB, m int) *gorm.DB { return db.Where([]string{}) }},
	{Label: `Offset(1)`, Apply: func(db *gorm.DB, m int) *gorm.DB { return db.Offset(1) }},
	// model values without any primary key: slices / arrays of zero-key records
	{Label: `Model(&[]T{{},{}})`, Apply: func(db *gorm.DB, m int) *gorm.DB { return db.Model(zeroSlice(m)) }},
	{Label: `Model(&[2]T{})`, Apply: func(db *gorm.DB, m int) *gorm.DB { return db.Model(zeroArray(m)) }},
	// reuse of a handle that already ran a finisher (the documented way: Session / WithContext)
	{Label: `Model(&T{}).Find(&rows);Session()`, Reuse: true, Apply: func(db *gorm.DB, m int) *gorm.DB {
		tx := db.Model(zeroPtr(m))
		tx.Find(zeroSlice(m))
		return tx.Session(&gorm.Session{})
	}},
	{Label: `Model(&T{}).Count(&n);WithContext()`, Reuse: true, Apply: func(db *gorm.DB, m int) *gorm.DB {
		tx := db.Model(zeroPtr(m))
		var n int64
		tx.Count(&n)
		return tx.WithContext(context.Background())
	}},
	{Label: `Model(&T{}).First(&row);Session()`, Reuse: true, Apply: func(db *gorm.DB, m int) *gorm.DB {
		tx := db.Model(zeroPtr(m))
		tx.First(zeroPtr(m))
		return tx.Session(&gorm.Session{})
	}},
	{Label: `Model(&T{}).Updates(map{});Session()`, Reuse: true, Apply: func(db *gorm.DB, m int) *gorm.DB {
		tx := db.Model(zeroPtr(m))
		tx.Updates(map[string]interface{}{})
		return tx.Session(&gorm.Session{})
	}},
	// clauses that change the executor branch (query-with-scan instead of exec) but are no condition
	{Label: `Clauses(Returning{})`, Apply: func(db *gorm.DB, m int) *gorm.DB { return db.Clauses(clause.Returning{}) }},
	{Label: `Clauses(Returning{name})`, Apply: func(db *gorm.DB, m int) *gorm.DB {
		return db.Clauses(clause.Returning{Columns: []clause.Column{{Name: "name"}}})
	}},
	{Label: `Clauses(Locking)`, Apply: func(db *gorm.DB, m int) *gorm.DB { return db.Clauses(clause.Locking{Strength: "UPDATE"}) }},
	{Label: `Session()`, Apply: func(db *gorm.DB, m int) *gorm.DB { return db.Session(&gorm.Session{}) }},
	{Label: `WithContext()`, Apply: func(db *gorm.DB, m int) *gorm.DB { return db.WithContext(context.Background()) }},
}

func zeroSlice(m int) interface{} {
	if m == mPlain {
		return &[]Plain{{}, {}}
	}
	if m == mSoftZ {
		return &[]SoftZ{{}, {}}
	}
	return &[]Soft{{}, {}}
}
func zeroArray(m int) interface{} {
	if m == mPlain {
		return &[2]Plain{}
	}
	if m == mSoftZ {
		return &[2]SoftZ{}
	}
	return &[2]Soft{}
}

// real conditions with the id predicate they denote (ids 1..3 live, 4 soft-deleted).
type cond struct {
	Label string
	Apply func(db *gorm.DB, m int) *gorm.DB
	Match func(id int) bool
}

func withID(m int, id uint) interface{} {
	if m == mPlain {
		return &Plain{ID: id}
	}
	if m == mSoftZ {
		return &SoftZ{ID: id}
	}
	return &Soft{ID: id}
}
func withName(m int, n string) interface{} {
	if m == mPlain {
		return &Plain{Name: n}
	}
	if m == mSoftZ {
		return &SoftZ{Name: n}
	}
	return &Soft{Name: n}
}

var is1 = func(id int) bool { return id == 1 }
var not1 = func(id int) bool { return id != 1 }

var realConds = []cond{
	{`Where("id = ?",1)`, func(db *gorm.DB, m int) *gorm.DB { return db.Where("id = ?", 1) }, is1},
	{`Where("id = 1")`, func(db *gorm.DB, m int) *gorm.DB { return db.Where("id = 1") }, is1},
	{`Where(map{id:1})`, func(db *gorm.DB, m int) *gorm.DB { return db.Where(map[string]interface{}{"id": 1}) }, is1},
	{`Where(&T{ID:1})`, func(db *gorm.DB, m int) *gorm.DB { return db.Where(withID(m, 1)) }, is1},
	{`Where(&T{Name:"n1"})`, func(db *gorm.DB, m int) *gorm.DB { return db.Where(withName(m, "n1")) }, func(id int) bool { return id == 1 || id == 4 }},
	{`Where(clause.Eq)`, func(db *gorm.DB, m int) *gorm.DB { return db.Where(clause.Eq{Column: "id", Value: 1}) }, is1},
	{`Where(db.Where("id = 1"))`, func(db *gorm.DB, m int) *gorm.DB {
		return db.Where(db.Session(&gorm.Session{NewDB: true}).Where("id = 1"))
	}, is1},
	{`Where("id = @id",Named)`, func(db *gorm.DB, m int) *gorm.DB { return db.Where("id = @id", sql.Named("id", 1)) }, is1},
	{`Where([]int{1})`, func(db *gorm.DB, m int) *gorm.DB { return db.Where([]int{1}) }, is1},
	{`Where("id",1)`, func(db *gorm.DB, m int) *gorm.DB { return db.Where("id", 1) }, is1},
	{`Not("id = ?",1)`, func(db *gorm.DB, m int) *gorm.DB { return db.Not("id = ?", 1) }, not1},
	{`Not(map{id:1})`, func(db *gorm.DB, m int) *gorm.DB { return db.Not(map[string]interface{}{"id": 1}) }, not1},
	{`Or("id = 1")`, func(db *gorm.DB, m int) *gorm.DB { return db.Or("id = 1") }, is1},
	{`Or(map{id:1})`, func(db *gorm.DB, m int) *gorm.DB { return db.Or(map[string]interface{}{"id": 1}) }, is1},
	{`Where("id = 1 OR id = 2")`, func(db *gorm.DB, m int) *gorm.DB { return db.Where("id = 1 OR id = 2") }, func(id int) bool { return id == 1 || id == 2 }},
	{`Where("id > ?",0)`, func(db *gorm.DB, m int) *gorm.DB { return db.Where("id > ?", 0) }, func(id int) bool { return true }},
}

// finishers
type fin struct {
	Label    string
	IsDelete bool
	// Run executes the finisher on a chain; needModel tells whether the chain
	// must be given Model(&T{}) first.
	Run func(db *gorm.DB, m int) *gorm.DB
	// inline real-condition variants are separate finishers with a Match.
	Match func(id int) bool
}

func updStruct(m int) interface{} {
	if m == mPlain {
		return Plain{Name: "changed"}
	}
	if m == mSoftZ {
		return SoftZ{Name: "changed"}
	}
	return Soft{Name: "changed"}
}

var finishers = []fin{
	{Label: `Update("name","changed")`, Run: func(db *gorm.DB, m int) *gorm.DB { return db.Update("name", "changed") }},
	{Label: `Updates(map)`, Run: func(db *gorm.DB, m int) *gorm.DB {
		return db.Updates(map[string]interface{}{"name": "changed"})
	}},
	{Label: `Updates(struct)`, Run: func(db *gorm.DB, m int) *gorm.DB { return db.Updates(updStruct(m)) }},
	{Label: `UpdateColumn("name","changed")`, Run: func(db *gorm.DB, m int) *gorm.DB { return db.UpdateColumn("name", "changed") }},
	{Label: `UpdateColumns(map)`, Run: func(db *gorm.DB, m int) *gorm.DB {
		return db.UpdateColumns(map[string]interface{}{"name": "changed"})
	}},
	{Label: `Delete(&T{})`, IsDelete: true, Run: func(db *gorm.DB, m int) *gorm.DB { return db.Delete(zeroPtr(m)) }},
	{Label: `Delete(&T{},"")`, IsDelete: true, Run: func(db *gorm.DB, m int) *gorm.DB { return db.Delete(zeroPtr(m), "") }},
	{Label: `Delete(&T{},map{})`, IsDelete: true, Run: func(db *gorm.DB, m int) *gorm.DB {
		return db.Delete(zeroPtr(m), map[string]interface{}{})
	}},
	{Label: `Delete(&T{},[]int{})`, IsDelete: true, Run: func(db *gorm.DB, m int) *gorm.DB { return db.Delete(zeroPtr(m), []int{}) }},
	{Label: `Delete(&[]T{{},{}})`, IsDelete: true, Run: func(db *gorm.DB, m int) *gorm.DB { return db.Delete(zeroSlice(m)) }},
}

// finishers that themselves carry a real condition (inline / model key)
var condFinishers = []fin{
	{Label: `Delete(&T{},1)`, IsDelete: true, Match: is1, Run: func(db *gorm.DB, m int) *gorm.DB { return db.Delete(zeroPtr(m), 1) }},
	{Label: `Delete(&T{},"id = ?",1)`, IsDelete: true, Match: is1, Run: func(db *gorm.DB, m int) *gorm.DB { return db.Delete(zeroPtr(m), "id = ?", 1) }},
	{Label: `Delete(&T{ID:1})`, IsDelete: true, Match: is1, Run: func(db *gorm.DB, m int) *gorm.DB { return db.Delete(withID(m, 1)) }},
	{Label: `Delete(&[]T{{ID:1},{ID:2}})`, IsDelete: true, Match: func(id int) bool { return id == 1 || id == 2 }, Run: func(db *gorm.DB, m int) *gorm.DB {
		if m == mPlain {
			return db.Delete(&[]Plain{{ID: 1}, {ID: 2}})
		}
		if m == mSoftZ {
			return db.Delete(&[]SoftZ{{ID: 1}, {ID: 2}})
		}
		return db.Delete(&[]Soft{{ID: 1}, {ID: 2}})
	}},
	{Label: `Model(&T{ID:1}).Update`, Match: is1, Run: func(db *gorm.DB, m int) *gorm.DB {
		return db.Model(withID(m, 1)).Update("name", "changed")
	}},
	{Label: `Model(&T{ID:1}).UpdateColumn`, Match: is1, Run: func(db *gorm.DB, m int) *gorm.DB {
		return db.Model(withID(m, 1)).UpdateColumn("name", "changed")
	}},
	{Label: `Model(&T{ID:1}).Updates(struct)`, Match: is1, Run: func(db *gorm.DB, m int) *gorm.DB {
		return db.Model(withID(m, 1)).Updates(updStruct(m))
	}},
	{Label: `Model(&T{ID:1}).Updates(map)`, Match: is1, Run: func(db *gorm.DB, m int) *gorm.DB {
		return db.Model(withID(m, 1)).Updates(map[string]interface{}{"name": "changed"})
	}},
	{Label: `Model(&T{ID:1}).UpdateColumns(map)`, Match: is1, Run: func(db *gorm.DB, m int) *gorm.DB {
		return db.Model(withID(m, 1)).UpdateColumns(map[string]interface{}{"name": "changed"})
	}},
	// the key is only in the Model() value, the finisher's own value has none
	{Label: `Model(&T{ID:1}).Delete(&T{})`, IsDelete: true, Match: is1, Run: func(db *gorm.DB, m int) *gorm.DB {
		return db.Model(withID(m, 1)).Delete(zeroPtr(m))
	}},
	{Label: `Model(&T{ID:1}).Delete(&[]T{{},{}})`, IsDelete: true, Match: is1, Run: func(db *gorm.DB, m int) *gorm.DB {
		return db.Model(withID(m, 1)).Delete(zeroSlice(m))
	}},
}

const (
	aguOff = iota
	aguConfig
	aguSession
)

var aguName = []string{"off", "config", "session"}

// Case is one enumerated program (also the replay format).
type Case struct {
	Model    int    `json:"model"`
	AGU      int    `json:"allow_global_update"`
	Chain    []int  `json:"chain"`    // indexes into freeOps
	Cond     int    `json:"cond"`     // index into realConds or -1
	CondPos  int    `json:"cond_pos"` // position of the real condition in the chain
	Fin      int    `json:"finisher"` // index into finishers (or condFinishers when FinCond)
	FinCond  bool   `json:"finisher_has_condition"`
	Readable string `json:"readable,omitempty"`
}

func (c Case) String() string {
	var parts []string
	parts = append(parts, fmt.Sprintf("model=%s agu=%s", tableOf[c.Model], aguName[c.AGU]))
	var calls []string
	for i, o := range c.Chain {
		if c.Cond >= 0 && c.CondPos == i {
			calls = append(calls, realConds[c.Cond].Label)
		}
		calls = append(calls, freeOps[o].Label)
	}
	if c.Cond >= 0 && c.CondPos >= len(c.Chain) {
		calls = append(calls, realConds[c.Cond].Label)
	}
	f := finishers
	if c.FinCond {
		f = condFinishers
	}
	calls = append(calls, f[c.Fin].Label)
	return strings.Join(parts, " ") + " :: " + strings.Join(calls, ".")
}

type worker struct {
	envs     [2]*h.Env // per AllowGlobalUpdate config value (off / config)
	pristine [2]string
}

const schemaSQL = `
CREATE TABLE plains (id integer primary key autoincrement, name text, age integer);
CREATE TABLE softs (id integer primary key autoincrement, name text, age integer, deleted_at datetime);
CREATE TABLE soft_zs (id integer primary key autoincrement, name text, age integer, deleted_at datetime);
`

func seed(e *h.Env) {
	e.MustExec("DELETE FROM plains")
	e.MustExec("DELETE FROM softs")
	e.MustExec("DELETE FROM soft_zs")
	for i := 1; i <= 3; i++ {
		e.MustExec("INSERT INTO plains (id,name,age) VALUES (?,?,?)", i, fmt.Sprintf("n%d", i), 10*i)
		e.MustExec("INSERT INTO softs (id,name,age,deleted_at) VALUES (?,?,?,NULL)", i, fmt.Sprintf("n%d", i), 10*i)
		e.MustExec("INSERT INTO soft_zs (id,name,age,deleted_at) VALUES (?,?,?,'1970-01-01 00:00:01')", i, fmt.Sprintf("n%d", i), 10*i)
	}
	// soft-deleted twin of row 1
	e.MustExec("INSERT INTO softs (id,name,age,deleted_at) VALUES (4,'n1',10,'2019-01-01 00:00:00+00:00')")
	e.MustExec("INSERT INTO soft_zs (id,name,age,deleted_at) VALUES (4,'n1',10,'2019-01-01 00:00:00+00:00')")
}

func newWorker() *worker {
	w := &worker{}
	for i := 0; i < 2; i++ {
		e := h.Open(&gorm.Config{AllowGlobalUpdate: i == 1})
		for _, s := range strings.Split(schemaSQL, ";") {
			if strings.TrimSpace(s) != "" {
				e.MustExec(s)
			}
		}
		seed(e)
		w.envs[i] = e
		w.pristine[i] = e.Dump("plains", "softs", "soft_zs")
	}
	return w
}

type result struct {
	err       error
	rows      int64
	events    []string
	stmts     int
	dumpAfter string
	changed   bool
	panicMsg  string
}

func (w *worker) exec(c Case) (res result) {
	ei := 0
	if c.AGU == aguConfig {
		ei = 1
	}
	e := w.envs[ei]
	e.Rec.Reset()
	db := e.DB
	if c.AGU == aguSession {
		db = db.Session(&gorm.Session{AllowGlobalUpdate: true})
	}
	f := finishers
	if c.FinCond {
		f = condFinishers
	}
	fn := f[c.Fin]
	func() {
		defer func() {
			if r := recover(); r != nil {
				res.panicMsg = fmt.Sprint(r)
			}
		}()
		hasModelOrTable := false
		chain := db
		apply := func(i int) {
			o := freeOps[i]
			if strings.HasPrefix(o.Label, "Model(") {
				hasModelOrTable = true
			}
			chain = o.Apply(chain, c.Model)
			if o.Reuse {
				e.Rec.Reset() // the prefix finisher's own statements are not under test
			}
		}
		for i, o := range c.Chain {
			if c.Cond >= 0 && c.CondPos == i {
				chain = realConds[c.Cond].Apply(chain, c.Model)
			}
			apply(o)
		}
		if c.Cond >= 0 && c.CondPos >= len(c.Chain) {
			chain = realConds[c.Cond].Apply(chain, c.Model)
		}
		if !fn.IsDelete && !hasModelOrTable && !strings.HasPrefix(fn.Label, "Model(") {
			// updates need a model: put it last so that it cannot be overridden
			chain = chain.Model(zeroPtr(c.Model))
		}
		tx := fn.Run(chain, c.Model)
		res.err = tx.Error
		res.rows = tx.RowsAffected
	}()
	for _, ev := range e.Rec.Events() {
		res.events = append(res.events, ev.String())
		if ev.IsStatement() && !strings.HasPrefix(strings.ToUpper(strings.TrimSpace(ev.SQL)), "SELECT") {
			res.stmts++
		}
	}
	if l := e.Leaks(); l != "" {
		res.panicMsg += " LEAK: " + l
	}
	res.dumpAfter = e.Dump("plains", "softs", "soft_zs")
	if res.dumpAfter != w.pristine[ei] {
		res.changed = true
		seed(e)
	}
	return
}

func chainReuses(ch []int) bool {
	for _, o := range ch {
		if freeOps[o].Reuse {
			return true
		}
	}
	return false
}

func chainUnscoped(c Case) bool {
	for _, o := range c.Chain {
		if freeOps[o].Unscoped {
			return true
		}
	}
	return false
}

// expectedDump computes the table contents after an update/delete of the rows
// selected by match (nil = all rows in scope).
func expectedAffected(c Case, match func(int) bool) []int {
	var ids []int
	max := 3
	if c.Model == mSoft && chainUnscoped(c) {
		max = 4
	}
	for id := 1; id <= max; id++ {
		if match == nil || match(id) {
			ids = append(ids, id)
		}
	}
	return ids
}

// affectedFromDump derives which ids changed, by comparing the dump with pristine.
func affected(pristine, after string, table string) []int {
	rowsOf := func(d string) map[string]string {
		m := map[string]string{}
		in := false
		for _, l := range strings.Split(d, "\n") {
			if strings.HasPrefix(l, "## ") {
				in = l == "## "+table
				continue
			}
			if in && l != "" {
				id := strings.SplitN(strings.TrimPrefix(l, "id="), "|", 2)[0]
				m[id] = l
			}
		}
		return m
	}
	p, a := rowsOf(pristine), rowsOf(after)
	var ids []int
	for id, row := range p {
		if a[id] != row {
			var n int
			fmt.Sscan(id, &n)
			ids = append(ids, n)
		}
	}
	sort.Ints(ids)
	return ids
}

func otherTableUnchanged(pristine, after string, table string) bool {
	return len(affected(pristine, after, table)) == 0
}

type stats struct {
	total, negative, positive, agu int64
	negOK                          int64
	posExecuted                    int64
}

func check(run *mc.Run, w *worker, c Case, st *stats, distinct *mc.Set, samples *mc.Samples) {
	res := w.exec(c)
	atomic.AddInt64(&st.total, 1)
	ei := 0
	if c.AGU == aguConfig {
		ei = 1
	}
	pr := w.pristine[ei]
	fail := func(msg string) {
		c.Readable = c.String()
		run.Violation(tags(c), fmt.Sprintf("%s\n%s\nerr=%v rows=%d stmts=%d\nevents:\n  %s", msg, c.String(), res.err, res.rows, res.stmts, strings.Join(res.events, "\n  ")), c)
	}
	if res.panicMsg != "" {
		fail("panic or leak: " + res.panicMsg)
		return
	}
	f := finishers
	if c.FinCond {
		f = condFinishers
	}
	fn := f[c.Fin]
	var match func(int) bool
	hasCond := false
	if c.Cond >= 0 {
		match = realConds[c.Cond].Match
		hasCond = true
	}
	if fn.Match != nil {
		if match != nil {
			m1, m2 := match, fn.Match
			// an Or unit followed by an AND unit: (or-unit) OR/AND … — single real
			// conditions combine with AND unless the chain unit is Or
			if strings.HasPrefix(realConds[c.Cond].Label, "Or(") {
				match = func(id int) bool { return m1(id) || m2(id) }
			} else {
				match = func(id int) bool { return m1(id) && m2(id) }
			}
		} else {
			match = fn.Match
		}
		hasCond = true
	}
	table := tableOf[c.Model]
	for mi, other := range tableOf {
		if mi != c.Model && !otherTableUnchanged(pr, res.dumpAfter, other) {
			fail("a table that was not addressed changed")
			return
		}
	}
	switch {
	case !hasCond && c.AGU == aguOff:
		atomic.AddInt64(&st.negative, 1)
		if !errors.Is(res.err, gorm.ErrMissingWhereClause) {
			// a reused handle carries the error of its earlier finisher (e.g.
			// ErrRecordNotFound) and refuses to run: still "no statement, an error, no change"
			if !(chainReuses(c.Chain) && res.err != nil) {
				fail("condition-free update/delete did not return ErrMissingWhereClause")
				return
			}
		}
		if res.stmts != 0 {
			fail("condition-free update/delete sent a statement to the driver")
			return
		}
		if res.changed {
			fail("condition-free update/delete changed rows")
			return
		}
		for _, ev := range res.events {
			if strings.HasPrefix(ev, "commit") {
				fail("condition-free update/delete committed a transaction")
				return
			}
		}
		atomic.AddInt64(&st.negOK, 1)
		if distinct.Add(fmt.Sprintf("%v|%d|%d", c.Chain, c.Fin, c.Model)) {
			samples.Add(c.String())
		}
	default:
		if hasCond {
			atomic.AddInt64(&st.positive, 1)
		} else {
			atomic.AddInt64(&st.agu, 1)
		}
		if errors.Is(res.err, gorm.ErrMissingWhereClause) {
			fail("chain with an effective condition / AllowGlobalUpdate was rejected with ErrMissingWhereClause")
			return
		}
		if res.err != nil {
			fail("unexpected error")
			return
		}
		if res.stmts == 0 {
			fail("no statement executed although the chain is permitted")
			return
		}
		atomic.AddInt64(&st.posExecuted, 1)
		want := expectedAffected(c, match)
		got := affected(pr, res.dumpAfter, table)
		if fmt.Sprint(want) != fmt.Sprint(got) {
			fail(fmt.Sprintf("rows changed %v, expected %v", got, want))
			return
		}
		distinct.Add(fmt.Sprintf("P%v|%d|%d|%d|%v|%d", c.Chain, c.Fin, c.Model, c.Cond, c.FinCond, c.CondPos))
	}
}

func tags(c Case) []string { return nil }

// enumerate all chains over `alphabet` (indexes into freeOps) up to length k.
func chains(alphabet []int, k int) [][]int {
	out := [][]int{{}}
	prev := [][]int{{}}
	for l := 1; l <= k; l++ {
		var next [][]int
		for _, p := range prev {
			for _, a := range alphabet {
				n := append(append([]int{}, p...), a)
				next = append(next, n)
			}
		}
		out = append(out, next...)
		prev = next
	}
	return out
}

func main() {
	args := mc.ParseArgs()
	run := mc.NewRun("C09", args.Tier, "exploration")
	if args.Replay != "" {
		var c Case
		if err := mc.LoadReplay(args.Replay, &c); err != nil {
			fmt.Fprintln(os.Stderr, err)
			os.Exit(3)
		}
		w := newWorker()
		res := w.exec(c)
		fmt.Printf("case: %s\nerr=%v rows=%d stmts=%d changed=%v\nevents:\n  %s\ndump after:\n%s", c.String(), res.err, res.rows, res.stmts, res.changed, strings.Join(res.events, "\n  "), res.dumpAfter)
		st := &stats{}
		check(run, w, c, st, &mc.Set{}, &mc.Samples{N: 1})
		if run.NumViolations() > 0 {
			os.Exit(1)
		}
		return
	}

	all := make([]int, len(freeOps))
	for i := range all {
		all[i] = i
	}
	reduced := all[:8]
	var chainSet [][]int
	seen := map[string]bool{}
	add := func(cs [][]int) {
		for _, c := range cs {
			k := fmt.Sprint(c)
			if !seen[k] {
				seen[k] = true
				chainSet = append(chainSet, c)
			}
		}
	}
	var posChains [][]int
	if args.Tier == "thorough" {
		add(chains(all, 3))
		add(chains(reduced, 4))
		posChains = chains(all, 2)
	} else {
		add(chains(all, 2))
		add(chains(reduced, 3))
		posChains = chains(all, 1)
	}

	var cases []Case
	for m := 0; m < 3; m++ {
		for agu := 0; agu < 3; agu++ {
			if m == mSoftZ && agu != aguOff {
				continue // zero-value soft delete: condition-free half with the guard on
			}
			for _, ch := range chainSet {
				if agu != aguOff && (len(ch) > 2 || chainReuses(ch)) {
					continue
				}
				for fi := range finishers {
					cases = append(cases, Case{Model: m, AGU: agu, Chain: ch, Cond: -1, Fin: fi})
				}
			}
			if agu != aguOff || m == mSoftZ {
				continue
			}
			// positive half: a real condition at every position
			for _, ch := range posChains {
				if chainReuses(ch) {
					continue
				}
				for ci := range realConds {
					for pos := 0; pos <= len(ch); pos++ {
						for fi := range finishers {
							cases = append(cases, Case{Model: m, AGU: agu, Chain: ch, Cond: ci, CondPos: pos, Fin: fi})
						}
					}
				}
				for fi := range condFinishers {
					cases = append(cases, Case{Model: m, AGU: agu, Chain: ch, Cond: -1, Fin: fi, FinCond: true})
				}
			}
		}
	}

	st := &stats{}
	distinct := &mc.Set{}
	samples := &mc.Samples{N: 6}
	nw := 16
	var wg sync.WaitGroup
	var next int64 = -1
	for i := 0; i < nw; i++ {
		wg.Add(1)
		go func() {
			defer wg.Done()
			w := newWorker()
			for {
				n := atomic.AddInt64(&next, 1)
				if int(n) >= len(cases) {
					return
				}
				check(run, w, cases[n], st, distinct, samples)
			}
		}()
	}
	wg.Wait()

	if st.negOK < 100 && run.NumViolations() == 0 {
		run.HarnessError("vacuous: only %d condition-free executions verified", st.negOK)
	}
	run.Assume("SQLite dialect only; models without hooks/associations; Clauses(clause.Where{}) and other hand-built clause values are outside the alphabet")
	run.Finish(map[string]interface{}{
		"evaluations":          st.total,
		"distinct_nontrivial":  distinct.Len(),
		"rule":                 "every chain of <=K condition-free calls (K=2 over 30 calls incl. zero-key slice/array models and reuse of a handle that already ran a finisher via Session/WithContext, K=3 over 8 calls in quick; K=3/4 in thorough) x 9 update/delete finishers x {plain,soft-delete} x AllowGlobalUpdate{off,config,session}, plus every such chain (shorter) with one of 16 real conditions at every position and 11 finishers carrying an inline/model-key condition (incl. the key only in the Model() value of a Delete); distinct = distinct (chain,finisher,model[,condition,position]) programs whose oracle was fully evaluated (error identity, driver log, cell-level table diff)",
		"samples":              samples.List(),
		"exhaustive":           true,
		"condition_free_cases": st.negative,
		"condition_free_verified_rejected_without_statement": st.negOK,
		"with_condition_cases":                               st.positive,
		"allow_global_cases":                                 st.agu,
		"permitted_and_executed":                             st.posExecuted,
		"free_calls":                                         len(freeOps),
		"real_conditions":                                    len(realConds),
	})
}
