package main

import (
	"context"
	"encoding/json"
	"fmt"
	"reflect"
	"strings"

	"gorm.io/gorm"
	"gorm.io/gorm/clause"
	"gorm.io/gorm/schema"
)

// Item is the model every read path works on (table "items").
type Item struct {
	ID uint `gorm:"primaryKey"`
	A  int
	B  string
	C  *int
	S  string // non-pointer column that holds NULL in some stored rows (inserted by raw SQL)
	K  int    // likewise
	L  Labels // self-serializing field of reference kind (field type T, serializer *T)
	P  *Meta  // self-serializing pointer-to-struct field (field type *T is the serializer itself)
}

// Labels is its own serializer; Scan decodes into the receiver (json.Unmarshal
// keeps the entries a map already has), so a scratch value that survives from
// one row to the next shows up as rows sharing their entries.
type Labels map[string]string

func dbBytes(v interface{}) ([]byte, bool) {
	switch t := v.(type) {
	case []byte:
		return t, true
	case string:
		return []byte(t), true
	}
	return nil, false
}

func (l *Labels) Scan(ctx context.Context, field *schema.Field, dst reflect.Value, dbValue interface{}) error {
	b, ok := dbBytes(dbValue)
	if !ok {
		return nil // NULL
	}
	return json.Unmarshal(b, l)
}

func (l Labels) Value(ctx context.Context, field *schema.Field, dst reflect.Value, fieldValue interface{}) (interface{}, error) {
	b, err := json.Marshal(l)
	return string(b), err
}

// Meta is a struct that is its own serializer; the field holds a pointer to it.
type Meta struct {
	Tag  string `json:"tag"`
	Nums []int  `json:"nums"`
}

func (m *Meta) Scan(ctx context.Context, field *schema.Field, dst reflect.Value, dbValue interface{}) error {
	b, ok := dbBytes(dbValue)
	if !ok {
		return nil
	}
	return json.Unmarshal(b, m)
}

func (m *Meta) Value(ctx context.Context, field *schema.Field, dst reflect.Value, fieldValue interface{}) (interface{}, error) {
	b, err := json.Marshal(m)
	return string(b), err
}

func labelsText(l Labels) string {
	if l == nil {
		return "NULL"
	}
	b, _ := json.Marshal(l) // keys sorted
	return string(b)
}

func metaText(m *Meta) string {
	if m == nil {
		return "NULL"
	}
	b, _ := json.Marshal(m)
	return string(b)
}

// Partial is a smaller struct over the same table (Find/Scan with Model(&Item{})).
type Partial struct {
	ID uint
	B  string
}

const schemaSQL = `CREATE TABLE items (id integer primary key, a integer, b text, c integer, s text, k integer, l text, p text)`

// idOf gives the key of the i-th row in key order: keys are not contiguous, so
// "id > k" cuts between rows and a cursor off by one row is visible.
func idOf(i int) uint { return uint(3*i + 2) }

// tableRows returns the rows of the table of size n, in key order (a copy of
// the slice; the rows themselves are shared and never modified).
func tableRows(n int) []Item {
	return append([]Item(nil), allRows[:n]...)
}

const maxRows = 32

var (
	allRows   = buildRows(maxRows)
	expKeyOf  = map[uint]string{} // canonical form of every table row, by key
	zeroKeyOf = rowKey(Item{})
)

func init() {
	for _, it := range allRows {
		expKeyOf[it.ID] = rowKey(it)
	}
}

// expKey is rowKey for rows of the reference table (memoised).
func expKey(it Item) string {
	if it.ID == 0 {
		return zeroKeyOf
	}
	return expKeyOf[it.ID]
}

func buildRows(n int) []Item {
	out := make([]Item, n)
	for i := 0; i < n; i++ {
		it := Item{ID: idOf(i), A: i % 3, B: fmt.Sprintf("b%d", idOf(i))}
		if i%4 != 2 {
			v := 10 * i
			it.C = &v
		}
		// s / k: non-pointer fields; the stored cell is NULL for some rows, the struct
		// then holds the zero value, a map nil
		if !sNull(it.ID) {
			it.S = fmt.Sprintf("s%d", it.ID)
		}
		if !kNull(it.ID) {
			it.K = 7 * int(it.ID)
		}
		// every row has its own label keys (and some share a key with another value)
		it.L = Labels{fmt.Sprintf("k%d", i): fmt.Sprintf("v%d", it.ID)}
		if i%2 == 1 {
			it.L["env"] = fmt.Sprintf("e%d", i%4)
		}
		it.P = &Meta{Tag: fmt.Sprintf("t%d", it.ID), Nums: seqN(i % 3)}
		out[i] = it
	}
	return out
}

// which stored cells of the non-pointer columns are NULL (by key; row index = (id-2)/3)
func sNull(id uint) bool { return id != 0 && ((id-2)/3)%3 == 1 }
func kNull(id uint) bool { return id != 0 && ((id-2)/3)%4 == 3 }

func seqN(n int) []int {
	out := []int{}
	for i := 0; i < n; i++ {
		out = append(out, 100*n+i)
	}
	return out
}

// insertOrder is a fixed permutation of 0..n-1 different from key order, so the
// order rows were inserted in is never the order a correct read returns.
func insertOrder(n int) []int {
	out := make([]int, 0, n)
	for i := n - 1; i >= 0; i -= 2 {
		out = append(out, i)
	}
	for i := n - 2; i >= 0; i -= 2 {
		out = append(out, i)
	}
	return out
}

// ---------------------------------------------------------------------------
// chain grammar

// Op is one Limit(v) / Offset(v) call.
type Op struct {
	K string `json:"k"` // "limit" | "offset"
	V int    `json:"v"`
}

// Chain is the part of the program that all read paths share.
type Chain struct {
	N     int  `json:"table_size"`
	Cond  int  `json:"cond"`  // index into conds
	Order int  `json:"order"` // index into orders
	Ops   []Op `json:"ops"`   // Limit/Offset calls in call order
}

type condDef struct {
	Label string
	// Arg gives the bound value for a table of size n.
	Arg   func(n int) int
	Match func(it Item, arg int) bool
	Where func(db *gorm.DB, arg int) *gorm.DB
	// Inline gives the conds arguments for finishers that accept them (nil = none).
	Inline func(arg int) []interface{}
	// Thorough marks conditions enumerated only in the thorough tier.
	Thorough bool
	// OrGrid marks the Or-chain conditions: they are enumerated in their own grid (E).
	OrGrid bool
	// TopOr: the chain's WHERE has an OR term at its top level (not inside a group).
	TopOr bool
}

func idAt(n, i int) int {
	if n == 0 {
		return 0
	}
	if i >= n {
		i = n - 1
	}
	return int(idOf(i))
}

var conds = []condDef{
	{Label: "none"},
	{Label: "id > lo", Arg: func(n int) int { return idAt(n, n/3) },
		Match:  func(it Item, k int) bool { return int(it.ID) > k },
		Where:  func(db *gorm.DB, k int) *gorm.DB { return db.Where("id > ?", k) },
		Inline: func(k int) []interface{} { return []interface{}{"id > ?", k} }},
	{Label: "id > max", Arg: func(n int) int { return idAt(n, n-1) },
		Match:  func(it Item, k int) bool { return int(it.ID) > k },
		Where:  func(db *gorm.DB, k int) *gorm.DB { return db.Where("id > ?", k) },
		Inline: func(k int) []interface{} { return []interface{}{"id > ?", k} }},
	{Label: "a = 1", Arg: func(n int) int { return 1 },
		Match:  func(it Item, v int) bool { return it.A == v },
		Where:  func(db *gorm.DB, v int) *gorm.DB { return db.Where("a = ?", v) },
		Inline: func(v int) []interface{} { return []interface{}{"a = ?", v} }},
	// thorough only
	{Label: "id > first", Thorough: true, Arg: func(n int) int { return idAt(n, 0) },
		Match:  func(it Item, k int) bool { return int(it.ID) > k },
		Where:  func(db *gorm.DB, k int) *gorm.DB { return db.Where(clause.Gt{Column: "id", Value: k}) },
		Inline: func(k int) []interface{} { return []interface{}{"id > ?", k} }},
	{Label: "a = 0 (map)", Thorough: true, Arg: func(n int) int { return 0 },
		Match:  func(it Item, v int) bool { return it.A == v },
		Where:  func(db *gorm.DB, v int) *gorm.DB { return db.Where(map[string]interface{}{"a": v}) },
		Inline: func(v int) []interface{} { return []interface{}{map[string]interface{}{"a": v}} }},
	{Label: "a = 2 (struct)", Thorough: true, Arg: func(n int) int { return 2 },
		Match:  func(it Item, v int) bool { return it.A == v },
		Where:  func(db *gorm.DB, v int) *gorm.DB { return db.Where(&Item{A: v}) },
		Inline: func(v int) []interface{} { return []interface{}{&Item{A: v}} }},
	// ---- Or-chains (grid E). Reference: u1 op u2 op u3 with SQL precedence (AND binds tighter).
	{Label: `Where("a = 0").Or("a = 2")`, OrGrid: true, TopOr: true, Arg: func(n int) int { return 0 },
		Match: func(it Item, _ int) bool { return it.A == 0 || it.A == 2 },
		Where: func(db *gorm.DB, _ int) *gorm.DB { return db.Where("a = ?", 0).Or("a = ?", 2) }},
	{Label: `Or("a = 1")`, OrGrid: true, TopOr: true, Arg: func(n int) int { return 1 },
		Match: func(it Item, v int) bool { return it.A == v },
		Where: func(db *gorm.DB, v int) *gorm.DB { return db.Or("a = ?", v) }},
	{Label: `Where("a = 0").Or("a = 1").Where("id > lo")`, OrGrid: true, TopOr: true, Arg: func(n int) int { return idAt(n, n/3) },
		Match: func(it Item, k int) bool { return it.A == 0 || (it.A == 1 && int(it.ID) > k) },
		Where: func(db *gorm.DB, k int) *gorm.DB { return db.Where("a = ?", 0).Or("a = ?", 1).Where("id > ?", k) }},
	{Label: `Not("a = 0").Or("id = first")`, OrGrid: true, TopOr: true, Arg: func(n int) int { return idAt(n, 0) },
		Match: func(it Item, k int) bool { return it.A != 0 || int(it.ID) == k },
		Where: func(db *gorm.DB, k int) *gorm.DB { return db.Not("a = ?", 0).Or("id = ?", k) }},
	{Label: `Where(db.Where("a = 0").Or("a = 2"))`, OrGrid: true, Arg: func(n int) int { return 0 },
		Match: func(it Item, _ int) bool { return it.A == 0 || it.A == 2 },
		Where: func(db *gorm.DB, _ int) *gorm.DB {
			return db.Where(db.Session(&gorm.Session{NewDB: true}).Where("a = ?", 0).Or("a = ?", 2))
		}},
}

type orderDef struct {
	Label string
	Apply func(db *gorm.DB) *gorm.DB
	// Ties: the orderings are equal for every row, so they say nothing about the
	// row order; only finishers that add the key ordering themselves (First,
	// Last, FindInBatches) and Count are run under such a chain.
	Ties bool
}

var orders = []orderDef{
	{Label: "none"},
	{Label: `Order("id")`, Apply: func(db *gorm.DB) *gorm.DB { return db.Order("id") }},
	{Label: `Order(OrderByColumn{pk})`, Apply: func(db *gorm.DB) *gorm.DB {
		return db.Order(clause.OrderByColumn{Column: clause.Column{Table: clause.CurrentTable, Name: clause.PrimaryKey}})
	}},
	// three orderings (a column slice of length 3, capacity 4) on which all rows tie
	{Label: `Order("a >= 0").Order("length(b) > 0").Order("id > 0")`, Ties: true, Apply: func(db *gorm.DB) *gorm.DB {
		return db.Order("a >= 0").Order("length(b) > 0").Order("id > 0")
	}},
}

const orderTies = 3

func (c Chain) String() string {
	var calls []string
	if c.Cond != 0 {
		cd := conds[c.Cond]
		calls = append(calls, fmt.Sprintf("Where[%s, arg=%d]", cd.Label, cd.Arg(c.N)))
	}
	if c.Order != 0 {
		calls = append(calls, orders[c.Order].Label)
	}
	for _, o := range c.Ops {
		if o.K == "limit" {
			calls = append(calls, fmt.Sprintf("Limit(%d)", o.V))
		} else {
			calls = append(calls, fmt.Sprintf("Offset(%d)", o.V))
		}
	}
	if len(calls) == 0 {
		calls = append(calls, "(no chain calls)")
	}
	return fmt.Sprintf("rows=%d :: %s", c.N, strings.Join(calls, "."))
}

// apply builds the chain on a handle. When inline is true the condition
// is left out (the finisher carries it).
func (c Chain) apply(db *gorm.DB, inline bool) *gorm.DB {
	return c.applyOps(c.applyHead(db, inline))
}

// applyHead applies condition and ordering only.
func (c Chain) applyHead(db *gorm.DB, inline bool) *gorm.DB {
	if c.Cond != 0 && !inline {
		cd := conds[c.Cond]
		db = cd.Where(db, cd.Arg(c.N))
	}
	if c.Order != 0 {
		db = orders[c.Order].Apply(db)
	}
	return db
}

// applyOps applies the Limit/Offset calls.
func (c Chain) applyOps(db *gorm.DB) *gorm.DB {
	for _, o := range c.Ops {
		if o.K == "limit" {
			db = db.Limit(o.V)
		} else {
			db = db.Offset(o.V)
		}
	}
	return db
}

// withoutOps is the chain before any Limit/Offset call.
func (c Chain) withoutOps() Chain {
	c.Ops = nil
	return c
}

func (c Chain) inlineArgs() []interface{} {
	if c.Cond == 0 {
		return nil
	}
	cd := conds[c.Cond]
	return cd.Inline(cd.Arg(c.N))
}

// ---------------------------------------------------------------------------
// reference model

// effective folds the Limit/Offset calls by the rule of the property: a later
// positive value overrides an earlier one, a negative value cancels it. A zero
// is only in the alphabet as the sole value of its kind (Limit(0) = no rows,
// Offset(0) = skip nothing).
func (c Chain) effective() (limit int, hasLimit bool, offset int) {
	for _, o := range c.Ops {
		switch o.K {
		case "limit":
			switch {
			case o.V > 0:
				limit, hasLimit = o.V, true
			case o.V < 0:
				limit, hasLimit = 0, false
			default:
				limit, hasLimit = 0, true
			}
		case "offset":
			switch {
			case o.V > 0:
				offset = o.V
			case o.V < 0:
				offset = 0
			}
		}
	}
	return
}

// matching returns the rows selected by the condition, in key order.
func (c Chain) matching() []Item {
	all := tableRows(c.N)
	if c.Cond == 0 {
		return all
	}
	cd := conds[c.Cond]
	arg := cd.Arg(c.N)
	var out []Item
	for _, it := range all {
		if cd.Match(it, arg) {
			out = append(out, it)
		}
	}
	return out
}

func window(rows []Item, offset int, limit int, hasLimit bool) []Item {
	if offset >= len(rows) {
		return nil
	}
	rows = rows[offset:]
	if hasLimit && limit < len(rows) {
		rows = rows[:limit]
	}
	return rows
}

// expectFind is what every multi-row path must deliver.
func (c Chain) expectFind() []Item {
	l, has, off := c.effective()
	return window(c.matching(), off, l, has)
}

// expectFinder is the record First/Take/Last must deliver (nil = not found):
// the finisher's own Limit(1) overrides any earlier limit, the offset stays.
func (c Chain) expectFinder(last bool) []Item {
	_, _, off := c.effective()
	m := c.matching()
	if last && (c.Order == 0 || orders[c.Order].Ties) {
		rev := make([]Item, len(m))
		for i := range m {
			rev[len(m)-1-i] = m[i]
		}
		m = rev
	}
	return window(m, off, 1, true)
}

func rowKey(it Item) string {
	cs := "NULL"
	if it.C != nil {
		cs = fmt.Sprint(*it.C)
	}
	return fmt.Sprintf("%d|%d|%s|%s|%q|%d|%s|%s", it.ID, it.A, it.B, cs, it.S, it.K, labelsText(it.L), metaText(it.P))
}

// mapKey is the canonical form of a table row read into a map: NULL cells of the
// non-pointer columns are nil there (the struct form holds the zero value).
func mapKey(it Item) string {
	cs := "NULL"
	if it.C != nil {
		cs = fmt.Sprint(*it.C)
	}
	ss, ks := fmt.Sprintf("%q", it.S), fmt.Sprint(it.K)
	if sNull(it.ID) {
		ss = "NULL"
	}
	if kNull(it.ID) {
		ks = "NULL"
	}
	return fmt.Sprintf("%d|%d|%s|%s|%s|%s|%s|%s", it.ID, it.A, it.B, cs, ss, ks, labelsText(it.L), metaText(it.P))
}

func rowKeys(items []Item) []string {
	out := make([]string, len(items))
	for i, it := range items {
		out[i] = rowKey(it)
	}
	return out
}

func ids(items []Item) string {
	var sb strings.Builder
	for i, it := range items {
		if i > 0 {
			sb.WriteByte(',')
		}
		fmt.Fprint(&sb, it.ID)
	}
	return sb.String()
}
