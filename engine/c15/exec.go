package main

import (
	"context"
	"fmt"
	"strings"

	"gorm.io/gorm"

	"verif/h"
)

// Handle kinds: what the finisher is called on.
const (
	hFresh   = ""        // a fresh chain (clone == 0 statement, used once)
	hSession = "session" // chain.Session(&gorm.Session{}) — a reusable handle
	hCtx     = "ctx"     // chain.WithContext(ctx) — a reusable handle
)

// Modes of a case.
const (
	mSingle = ""             // one read path on its own handle
	mSeq    = "seq-base"     // base := chain.<handle>; base.<first>; base.<second> — both judged
	mChain  = "chain-return" // tx := chain.<handle>.<first>; tx[.ops].<second> — both judged
	mInCB   = "in-callback"  // base := chain.<handle>; base.FindInBatches(.., func(){ base.<inner> }) — batches and every inner read judged
)

// Case is one execution — also the replay format.
type Case struct {
	Chain  Chain  `json:"chain"`
	Path   string `json:"path"`
	Batch  int    `json:"batch_size,omitempty"`
	Handle string `json:"handle,omitempty"`
	Mode   string `json:"mode,omitempty"`
	// First is the read path executed before Path (modes seq-base and chain-return).
	First      string `json:"first,omitempty"`
	FirstBatch int    `json:"first_batch_size,omitempty"`
	// Inner (in-callback only): the read issued on the same base handle from
	// inside every FindInBatches callback.
	Inner string `json:"inner,omitempty"`
	// cursor-fault only: the result-set iteration of query #FaultQuery (0-based,
	// in execution order) fails at row FaultRow (rows already delivered).
	FaultQuery int `json:"fault_query,omitempty"`
	FaultRow   int `json:"fault_row,omitempty"`
	// Page (chain-return only): the Limit/Offset calls are made after the first
	// finisher, on the handle it returned ("total + page"), instead of before it.
	Page     bool   `json:"page,omitempty"`
	Readable string `json:"readable,omitempty"`
}

func handleCall(h string) string {
	switch h {
	case hSession:
		return ".Session(&gorm.Session{})"
	case hCtx:
		return ".WithContext(ctx)"
	}
	return ""
}

func withBatch(name string, b int) string {
	if b > 0 {
		return fmt.Sprintf("%s batchSize=%d", name, b)
	}
	return name
}

func (c Case) String() string {
	switch c.Mode {
	case mFault:
		return fmt.Sprintf("%s :: %s  [cursor fault: query #%d fails at row %d]", c.Chain.String(), withBatch(c.Path, c.Batch), c.FaultQuery+1, c.FaultRow)
	case mInCB:
		return fmt.Sprintf("%s :: base := chain%s; base -> %s with callback { base -> %s }", c.Chain.String(), handleCall(c.Handle), withBatch(c.Path, c.Batch), c.Inner)
	case mSeq:
		return fmt.Sprintf("%s :: base := chain%s; base -> %s; base -> %s", c.Chain.String(), handleCall(c.Handle), withBatch(c.First, c.FirstBatch), withBatch(c.Path, c.Batch))
	case mChain:
		if c.Page {
			return fmt.Sprintf("%s :: tx := (chain without Limit/Offset)%s -> %s; tx.<Limit/Offset calls> -> %s", c.Chain.String(), handleCall(c.Handle), withBatch(c.First, c.FirstBatch), withBatch(c.Path, c.Batch))
		}
		return fmt.Sprintf("%s :: tx := chain%s -> %s; tx -> %s", c.Chain.String(), handleCall(c.Handle), withBatch(c.First, c.FirstBatch), withBatch(c.Path, c.Batch))
	}
	s := c.Chain.String() + " :: "
	if c.Handle != hFresh {
		s += "chain" + handleCall(c.Handle) + " -> "
	}
	return s + withBatch(c.Path, c.Batch)
}

func rootOf(db *gorm.DB, root int) *gorm.DB {
	switch root {
	case rootModel:
		return db.Model(&Item{})
	case rootTable:
		return db.Table("items")
	}
	return db
}

func asHandle(q *gorm.DB, handle string) *gorm.DB {
	switch handle {
	case hSession:
		return q.Session(&gorm.Session{})
	case hCtx:
		return q.WithContext(context.Background())
	}
	return q
}

// outcome of one case.
type outcome struct {
	first    *obs  // nil in mode single
	inner    []obs // in-callback: one per callback
	o        obs
	events   []string
	panicMsg string
}

// execCase executes one case; a panic inside gorm is caught.
func execCase(e *h.Env, cs Case, record bool) (out outcome) {
	p := paths[pathIndex(cs.Path)]
	if record {
		e.Rec.Reset()
	} else {
		e.Rec.Pause()
	}
	func() {
		defer func() {
			if r := recover(); r != nil {
				out.panicMsg = fmt.Sprint(r)
			}
		}()
		out.o.root = e.DB
		switch cs.Mode {
		case mSingle:
			q := asHandle(cs.Chain.apply(rootOf(e.DB, p.Root), p.Inline), cs.Handle)
			p.Run(q, cs.Chain, cs.Batch, &out.o)
		case mSeq:
			f := paths[pathIndex(cs.First)]
			base := asHandle(cs.Chain.apply(rootOf(e.DB, rootModel), false), cs.Handle)
			out.first = &obs{root: e.DB}
			f.Run(base, cs.Chain, cs.FirstBatch, out.first)
			p.Run(base, cs.Chain, cs.Batch, &out.o)
		case mInCB:
			in := paths[pathIndex(cs.Inner)]
			base := asHandle(cs.Chain.apply(rootOf(e.DB, rootModel), false), cs.Handle)
			out.o.hook = func() {
				io := obs{root: e.DB}
				in.Run(base, cs.Chain, 0, &io)
				out.inner = append(out.inner, io)
			}
			p.Run(base, cs.Chain, cs.Batch, &out.o)
		case mChain:
			f := paths[pathIndex(cs.First)]
			q := cs.Chain.applyHead(rootOf(e.DB, rootModel), false)
			if !cs.Page {
				q = cs.Chain.applyOps(q)
			}
			q = asHandle(q, cs.Handle)
			out.first = &obs{root: e.DB}
			f.Run(q, cs.Chain, cs.FirstBatch, out.first)
			tx := out.first.tx
			if tx == nil {
				panic("first finisher returned no handle")
			}
			if cs.Page {
				tx = cs.Chain.applyOps(tx)
			}
			p.Run(tx, cs.Chain, cs.Batch, &out.o)
		}
	}()
	if record {
		for _, ev := range e.Rec.Events() {
			if ev.IsStatement() {
				out.events = append(out.events, ev.String())
			}
		}
	} else {
		e.Rec.Resume()
	}
	if l := e.Leaks(); l != "" {
		out.panicMsg += "LEAK: " + l
	}
	return
}

// firstChain is the chain the first finisher of a case ran under.
func (c Case) firstChain() Chain {
	if c.Mode == mChain && c.Page {
		return c.Chain.withoutOps()
	}
	return c.Chain
}

// judge evaluates the oracle for a whole case. ex is the expectation for
// cs.Chain (computed once per chain by the caller).
func judge(cs Case, ex *expect, out outcome, ref []string, refOK bool) (fails []string) {
	if out.panicMsg != "" {
		return []string{"panic or leak in a read path\n" + out.panicMsg}
	}
	p := paths[pathIndex(cs.Path)]
	if out.first != nil {
		f := paths[pathIndex(cs.First)]
		fc := cs.firstChain()
		fex := ex
		if cs.Mode == mChain && cs.Page {
			fex = expectOf(fc)
		}
		for _, m := range verdict(f, fc, fex, cs.FirstBatch, *out.first, nil, false) {
			fails = append(fails, "first of two reads: "+m)
		}
	}
	if cs.Mode == mInCB {
		in := paths[pathIndex(cs.Inner)]
		for i, io := range out.inner {
			ms := verdict(in, cs.Chain, ex, 0, io, nil, false)
			for _, m := range ms {
				fails = append(fails, fmt.Sprintf("read issued inside the FindInBatches callback: %s\n(callback #%d)", m, i+1))
			}
			if len(ms) > 0 {
				break // one report per case is enough
			}
		}
	}
	for _, m := range verdict(p, cs.Chain, ex, cs.Batch, out.o, ref, refOK) {
		if cs.Mode == mInCB {
			m = "FindInBatches with a read on the same handle inside the callback: " + m
		} else if cs.Mode == mSeq {
			m = "second read on the same reusable handle: " + m
		} else if cs.Mode == mChain {
			m = "read chained on the handle a finisher returned: " + m
		}
		fails = append(fails, m)
	}
	return
}

func describeOutcome(cs Case, out outcome) string {
	p := paths[pathIndex(cs.Path)]
	s := describe(p, out.o)
	if out.first != nil {
		s = "first{" + describe(paths[pathIndex(cs.First)], *out.first) + "} then " + s
	}
	if cs.Mode == mInCB {
		in := paths[pathIndex(cs.Inner)]
		for i, io := range out.inner {
			s += fmt.Sprintf(" inner#%d{%s}", i+1, describe(in, io))
		}
	}
	return s
}

// tags are computed from the input only.
func tags(c Case) []string {
	var t []string
	pi := pathIndex(c.Path)
	if pi < 0 {
		return nil
	}
	p := paths[pi]
	nl, no := 0, 0
	zeroLimit, negLimit, negOffset := false, false, false
	for _, o := range c.Chain.Ops {
		if o.K == "limit" {
			nl++
			if o.V == 0 {
				zeroLimit = true
			}
			if o.V < 0 {
				negLimit = true
			}
		} else {
			no++
			if o.V < 0 {
				negOffset = true
			}
		}
	}
	kind := kindNames[p.Kind]
	if zeroLimit {
		t = append(t, kind+"+limit-zero")
	}
	if negLimit {
		t = append(t, kind+"+limit-negative")
	}
	if negOffset {
		t = append(t, kind+"+offset-negative")
	}
	if nl > 1 {
		t = append(t, kind+"+limit-override")
	}
	if no > 1 {
		t = append(t, kind+"+offset-override")
	}
	if c.Mode == mFault {
		t = append(t, "cursor-fault:"+kind)
	}
	if conds[c.Chain.Cond].TopOr {
		t = append(t, kind+"+top-level-or")
		if p.Kind == kFIB && fibIssuesSecondQuery(c.Chain, c.Batch) {
			t = append(t, "fib+top-level-or+key-cursor-used")
		}
	}
	if c.Mode == mInCB {
		in := paths[pathIndex(c.Inner)]
		t = append(t, "in-callback:"+kindNames[in.Kind])
	}
	if p.Last && c.Chain.Order != 0 && !orders[c.Chain.Order].Ties {
		t = append(t, "last+explicit-order")
	}
	if p.PadTo > 0 {
		t = append(t, "array-destination")
	}
	ptrPrim, ptrPrimS := p.PtrPrim, p.PtrPrimS
	if c.First != "" {
		f := paths[pathIndex(c.First)]
		ptrPrim, ptrPrimS = ptrPrim || f.PtrPrim, ptrPrimS || f.PtrPrimS
		t = append(t, fmt.Sprintf("%s:%s->%s", c.Mode, kindNames[f.Kind], kind))
	}
	if c.Handle != hFresh {
		t = append(t, "handle="+c.Handle+"+"+kind)
	}
	if ptrPrim || ptrPrimS {
		// input-side: the window the chain selects (by the reference model) holds a
		// NULL in the plucked column
		for _, it := range c.Chain.expectFind() {
			if (ptrPrim && it.C == nil) || (ptrPrimS && sNull(it.ID)) {
				t = append(t, "pluck-null-into-pointer-slice")
				break
			}
		}
	}
	return t
}

var kindNames = []string{"multi", "single", "finder", "primitive", "count", "fib"}

func joinEvents(ev []string) string { return strings.Join(ev, "\n  ") }

// fibIssuesSecondQuery tells (from the input and the reference model only)
// whether FindInBatches needs its key cursor for this chain: the first batch
// comes back full and the limit is not exhausted by it, so a second query
// "... AND id > <last key>" is issued.
func fibIssuesSecondQuery(c Chain, batch int) bool {
	limit, hasLimit, _ := c.effective()
	if hasLimit && limit == 0 {
		return false
	}
	size := batch
	if hasLimit && limit > 0 && size > limit {
		size = limit
	}
	first := len(c.expectFind())
	if first > size {
		first = size
	}
	if first < size {
		return false
	}
	if hasLimit && limit > 0 && limit <= first {
		return false
	}
	return true
}
