package main

import (
	"database/sql"
	"errors"
	"fmt"
	"reflect"
	"strings"

	"gorm.io/gorm"
)

// obs is what one read path reported, in canonical form.
type obs struct {
	rows    []string // canonical rows (or column values), in delivery order
	ra      int64    // RowsAffected (-1 = the path has none)
	err     error
	count   int64      // Count only
	batches [][]string // FindInBatches only
	nums    []int      // callback batch numbers
	cbRA    []int64    // RowsAffected seen inside each callback
	runaway bool       // FindInBatches was stopped by the harness after more callbacks than the table has rows + 3
	prim    string     // primitive destination value
	tx      *gorm.DB   // the handle the finisher returned (nil for Rows)
	root    *gorm.DB   // the plain gorm handle of the environment (ScanRows)
	hook    func()     // FindInBatches only: called inside the callback after the batch was recorded
}

const (
	kMulti  = iota // every row of the window, in order
	kSingle        // single-record destination filled by Find/Scan: first row of the window, no error when empty
	kFinder        // First/Take/Last
	kPrim          // primitive destination
	kCount
	kFIB
)

type pathDef struct {
	Name     string
	Root     int // what the chain starts from: the plain handle, Model(&Item{}) or Table("items")
	Kind     int
	Inline   bool // condition passed to the finisher instead of Where (skipped for chains without condition)
	Last     bool
	Proj     func(Item) string // projection of an expected row (nil = whole row)
	TruncAt  int               // array destinations shorter than the result
	PadTo    int               // array destinations: zero rows expected up to this length
	Thorough bool
	PtrPrim  bool // destination is a slice of pointers to a primitive (column c)
	PtrPrimS bool // likewise, column s
	LiteSkip bool // not executed for the override-pair grids (B, C)
	NoSchema bool // the path has no model: orderings that need the schema (clause.PrimaryKey) are skipped
	Run      func(db *gorm.DB, c Chain, batch int, o *obs)
}

const (
	rootPlain = iota
	rootModel
	rootTable
)

const arrayLen = 16

var errRunaway = errors.New("verif: FindInBatches stopped by the harness (more batches than rows + 3)")

func normVal(v interface{}) string {
	rv := reflect.ValueOf(v)
	for rv.IsValid() && (rv.Kind() == reflect.Ptr || rv.Kind() == reflect.Interface) {
		if rv.IsNil() {
			return "NULL"
		}
		rv = rv.Elem()
	}
	if !rv.IsValid() {
		return "NULL"
	}
	switch t := rv.Interface().(type) {
	case []byte:
		return string(t)
	case sql.NullInt64:
		if !t.Valid {
			return "NULL"
		}
		return fmt.Sprint(t.Int64)
	}
	return fmt.Sprint(rv.Interface())
}

func mapRow(m map[string]interface{}) string {
	ss := normVal(m["s"])
	if ss != "NULL" {
		ss = fmt.Sprintf("%q", ss)
	}
	s := fmt.Sprintf("%s|%s|%s|%s|%s|%s|%s|%s", normVal(m["id"]), normVal(m["a"]), normVal(m["b"]), normVal(m["c"]), ss, normVal(m["k"]), normVal(m["l"]), normVal(m["p"]))
	if len(m) != 8 {
		s += fmt.Sprintf(" (map has %d keys)", len(m))
	}
	return s
}

var mapKeyOf = map[uint]string{}

func init() {
	for _, it := range allRows {
		mapKeyOf[it.ID] = mapKey(it)
	}
}

// projMap: the expected form of a row read into a map (memoised).
func projMap(it Item) string { return mapKeyOf[it.ID] }

func projS(it Item) string {
	if sNull(it.ID) {
		return "NULL"
	}
	return it.S
}

func projK(it Item) string {
	if kNull(it.ID) {
		return "NULL"
	}
	return fmt.Sprint(it.K)
}

func mapRows(ms []map[string]interface{}) []string {
	out := make([]string, len(ms))
	for i, m := range ms {
		out[i] = mapRow(m)
	}
	return out
}

func partialKey(p Partial) string { return fmt.Sprintf("%d|%s", p.ID, p.B) }

func projPartial(it Item) string { return fmt.Sprintf("%d|%s", it.ID, it.B) }
func projID(it Item) string      { return fmt.Sprint(it.ID) }
func projA(it Item) string       { return fmt.Sprint(it.A) }
func projB(it Item) string       { return it.B }
func projL(it Item) string       { return labelsText(it.L) }
func projC(it Item) string {
	if it.C == nil {
		return "NULL"
	}
	return fmt.Sprint(*it.C)
}

func singleItem(it Item, o *obs) {
	if !reflect.DeepEqual(it, Item{}) {
		o.rows = []string{rowKey(it)}
	}
}

func singleMap(m map[string]interface{}, o *obs) {
	if len(m) != 0 {
		o.rows = []string{mapRow(m)}
	}
}

var paths = []pathDef{
	// ---- every row of the window -------------------------------------------
	{Name: "Find(&[]Item)", Kind: kMulti, Run: func(q *gorm.DB, c Chain, _ int, o *obs) {
		var d []Item
		tx := q.Find(&d)
		o.rows, o.ra, o.err = rowKeys(d), tx.RowsAffected, tx.Error
		o.tx = tx
	}},
	{Name: "Find(&[]Item, cond)", Kind: kMulti, Inline: true, Run: func(q *gorm.DB, c Chain, _ int, o *obs) {
		var d []Item
		tx := q.Find(&d, c.inlineArgs()...)
		o.rows, o.ra, o.err = rowKeys(d), tx.RowsAffected, tx.Error
		o.tx = tx
	}},
	{Name: "Find(&[]*Item)", Kind: kMulti, Run: func(q *gorm.DB, c Chain, _ int, o *obs) {
		var d []*Item
		tx := q.Find(&d)
		for _, p := range d {
			if p == nil {
				o.rows = append(o.rows, "<nil element>")
			} else {
				o.rows = append(o.rows, rowKey(*p))
			}
		}
		o.ra, o.err = tx.RowsAffected, tx.Error
		o.tx = tx
	}},
	{Name: fmt.Sprintf("Find(&[%d]Item)", arrayLen), Kind: kMulti, PadTo: arrayLen, Run: func(q *gorm.DB, c Chain, _ int, o *obs) {
		var d [arrayLen]Item
		tx := q.Find(&d)
		o.rows, o.ra, o.err = rowKeys(d[:]), tx.RowsAffected, tx.Error
		o.tx = tx
	}},
	{Name: "Find(&[2]Item)", Kind: kMulti, PadTo: 2, TruncAt: 2, Run: func(q *gorm.DB, c Chain, _ int, o *obs) {
		var d [2]Item
		tx := q.Find(&d)
		o.rows, o.ra, o.err = rowKeys(d[:]), tx.RowsAffected, tx.Error
		o.tx = tx
	}},
	{Name: "Model.Find(&[]map)", Proj: projMap, Root: rootModel, Kind: kMulti, Run: func(q *gorm.DB, c Chain, _ int, o *obs) {
		var d []map[string]interface{}
		tx := q.Find(&d)
		o.rows, o.ra, o.err = mapRows(d), tx.RowsAffected, tx.Error
		o.tx = tx
	}},
	{Name: `Table("items").Find(&[]map)`, Proj: projMap, Root: rootTable, Kind: kMulti, NoSchema: true, Run: func(q *gorm.DB, c Chain, _ int, o *obs) {
		var d []map[string]interface{}
		tx := q.Find(&d)
		o.rows, o.ra, o.err = mapRows(d), tx.RowsAffected, tx.Error
		o.tx = tx
	}},
	{Name: "Model.Find(&[]Partial)", Root: rootModel, Kind: kMulti, Proj: projPartial, Run: func(q *gorm.DB, c Chain, _ int, o *obs) {
		var d []Partial
		tx := q.Find(&d)
		for _, p := range d {
			o.rows = append(o.rows, partialKey(p))
		}
		o.ra, o.err = tx.RowsAffected, tx.Error
		o.tx = tx
	}},
	{Name: "Model.Rows+ScanRows(&Item)", Root: rootModel, Kind: kMulti, Run: func(q *gorm.DB, c Chain, _ int, o *obs) {
		o.ra = -1
		rows, err := q.Rows()
		if err != nil {
			o.err = err
			return
		}
		defer rows.Close()
		for rows.Next() {
			var it Item
			if err := o.root.ScanRows(rows, &it); err != nil {
				o.err = err
				return
			}
			o.rows = append(o.rows, rowKey(it))
		}
		o.err = rows.Err()
	}},
	{Name: "Model.Rows+ScanRows(&map)", Proj: projMap, Root: rootModel, Kind: kMulti, Run: func(q *gorm.DB, c Chain, _ int, o *obs) {
		o.ra = -1
		rows, err := q.Rows()
		if err != nil {
			o.err = err
			return
		}
		defer rows.Close()
		for rows.Next() {
			m := map[string]interface{}{}
			if err := o.root.ScanRows(rows, &m); err != nil {
				o.err = err
				return
			}
			o.rows = append(o.rows, mapRow(m))
		}
		o.err = rows.Err()
	}},
	{Name: "Model.Scan(&[]Item)", Root: rootModel, Kind: kMulti, Run: func(q *gorm.DB, c Chain, _ int, o *obs) {
		var d []Item
		tx := q.Scan(&d)
		o.rows, o.ra, o.err = rowKeys(d), tx.RowsAffected, tx.Error
		o.tx = tx
	}},
	{Name: "Model.Scan(&[]*Item)", Root: rootModel, Kind: kMulti, Thorough: true, Run: func(q *gorm.DB, c Chain, _ int, o *obs) {
		var d []*Item
		tx := q.Scan(&d)
		for _, p := range d {
			if p == nil {
				o.rows = append(o.rows, "<nil element>")
			} else {
				o.rows = append(o.rows, rowKey(*p))
			}
		}
		o.ra, o.err = tx.RowsAffected, tx.Error
		o.tx = tx
	}},
	{Name: "Model.Scan(&[]map)", Proj: projMap, Root: rootModel, Kind: kMulti, Run: func(q *gorm.DB, c Chain, _ int, o *obs) {
		var d []map[string]interface{}
		tx := q.Scan(&d)
		o.rows, o.ra, o.err = mapRows(d), tx.RowsAffected, tx.Error
		o.tx = tx
	}},
	{Name: "Model.Scan(&[]Partial)", Root: rootModel, Kind: kMulti, Proj: projPartial, Run: func(q *gorm.DB, c Chain, _ int, o *obs) {
		var d []Partial
		tx := q.Scan(&d)
		for _, p := range d {
			o.rows = append(o.rows, partialKey(p))
		}
		o.ra, o.err = tx.RowsAffected, tx.Error
		o.tx = tx
	}},
	{Name: `Model.Pluck("id", &[]uint)`, Root: rootModel, Kind: kMulti, Proj: projID, Run: func(q *gorm.DB, c Chain, _ int, o *obs) {
		var d []uint
		tx := q.Pluck("id", &d)
		for _, v := range d {
			o.rows = append(o.rows, fmt.Sprint(v))
		}
		o.ra, o.err = tx.RowsAffected, tx.Error
		o.tx = tx
	}},
	{Name: `Model.Pluck("a", &[]int64)`, Root: rootModel, Kind: kMulti, Proj: projA, Run: func(q *gorm.DB, c Chain, _ int, o *obs) {
		var d []int64
		tx := q.Pluck("a", &d)
		for _, v := range d {
			o.rows = append(o.rows, fmt.Sprint(v))
		}
		o.ra, o.err = tx.RowsAffected, tx.Error
		o.tx = tx
	}},
	{Name: `Model.Pluck("B", &[]string)`, Root: rootModel, Kind: kMulti, Proj: projB, Run: func(q *gorm.DB, c Chain, _ int, o *obs) {
		var d []string
		tx := q.Pluck("B", &d) // field name, resolved through the schema
		o.rows, o.ra, o.err = append([]string{}, d...), tx.RowsAffected, tx.Error
		o.tx = tx
	}},
	{Name: `Model.Pluck("c", &[]*int)`, Root: rootModel, Kind: kMulti, Proj: projC, PtrPrim: true, Run: func(q *gorm.DB, c Chain, _ int, o *obs) {
		var d []*int
		tx := q.Pluck("c", &d)
		for _, v := range d {
			o.rows = append(o.rows, normVal(v))
		}
		o.ra, o.err = tx.RowsAffected, tx.Error
		o.tx = tx
	}},
	{Name: `Model.Pluck("l", &[]string)`, Root: rootModel, Kind: kMulti, Proj: projL, Run: func(q *gorm.DB, c Chain, _ int, o *obs) {
		var d []string
		tx := q.Pluck("l", &d) // raw stored text of the serialized column
		o.rows, o.ra, o.err = append([]string{}, d...), tx.RowsAffected, tx.Error
		o.tx = tx
	}},
	{Name: `Model.Pluck("s", &[]sql.NullString)`, Root: rootModel, Kind: kMulti, Proj: projS, Run: func(q *gorm.DB, c Chain, _ int, o *obs) {
		var d []sql.NullString
		tx := q.Pluck("s", &d)
		for _, v := range d {
			if v.Valid {
				o.rows = append(o.rows, v.String)
			} else {
				o.rows = append(o.rows, "NULL")
			}
		}
		o.ra, o.err = tx.RowsAffected, tx.Error
		o.tx = tx
	}},
	{Name: `Model.Pluck("k", &[]sql.NullInt64)`, Root: rootModel, Kind: kMulti, Proj: projK, Run: func(q *gorm.DB, c Chain, _ int, o *obs) {
		var d []sql.NullInt64
		tx := q.Pluck("k", &d)
		for _, v := range d {
			o.rows = append(o.rows, normVal(v))
		}
		o.ra, o.err = tx.RowsAffected, tx.Error
		o.tx = tx
	}},
	{Name: `Model.Pluck("s", &[]*string)`, Root: rootModel, Kind: kMulti, Proj: projS, PtrPrimS: true, Run: func(q *gorm.DB, c Chain, _ int, o *obs) {
		var d []*string
		tx := q.Pluck("s", &d)
		for _, v := range d {
			o.rows = append(o.rows, normVal(v))
		}
		o.ra, o.err = tx.RowsAffected, tx.Error
		o.tx = tx
	}},
	{Name: `Model.Pluck("c", &[]sql.NullInt64)`, Root: rootModel, Kind: kMulti, Proj: projC, Run: func(q *gorm.DB, c Chain, _ int, o *obs) {
		var d []sql.NullInt64
		tx := q.Pluck("c", &d)
		for _, v := range d {
			o.rows = append(o.rows, normVal(v))
		}
		o.ra, o.err = tx.RowsAffected, tx.Error
		o.tx = tx
	}},
	{Name: `Table("items").Pluck("id", &[]int)`, Root: rootTable, Kind: kMulti, Proj: projID, Thorough: true, NoSchema: true, Run: func(q *gorm.DB, c Chain, _ int, o *obs) {
		var d []int
		tx := q.Pluck("id", &d)
		for _, v := range d {
			o.rows = append(o.rows, fmt.Sprint(v))
		}
		o.ra, o.err = tx.RowsAffected, tx.Error
		o.tx = tx
	}},

	// ---- single-record destinations filled by Find / Scan -------------------
	{Name: "Find(&Item)", Kind: kSingle, Run: func(q *gorm.DB, c Chain, _ int, o *obs) {
		var d Item
		tx := q.Find(&d)
		singleItem(d, o)
		o.ra, o.err = tx.RowsAffected, tx.Error
		o.tx = tx
	}},
	{Name: "Find(&*Item)", Kind: kSingle, Run: func(q *gorm.DB, c Chain, _ int, o *obs) {
		var d *Item
		tx := q.Find(&d)
		if d != nil {
			singleItem(*d, o)
		}
		o.ra, o.err = tx.RowsAffected, tx.Error
		o.tx = tx
	}},
	{Name: "Model.Find(&map)", Proj: projMap, Root: rootModel, Kind: kSingle, Run: func(q *gorm.DB, c Chain, _ int, o *obs) {
		d := map[string]interface{}{}
		tx := q.Find(&d)
		singleMap(d, o)
		o.ra, o.err = tx.RowsAffected, tx.Error
		o.tx = tx
	}},
	{Name: "Model.Scan(&Item)", Root: rootModel, Kind: kSingle, Run: func(q *gorm.DB, c Chain, _ int, o *obs) {
		var d Item
		tx := q.Scan(&d)
		singleItem(d, o)
		o.ra, o.err = tx.RowsAffected, tx.Error
		o.tx = tx
	}},
	{Name: "Model.Scan(&map)", Proj: projMap, Root: rootModel, Kind: kSingle, Run: func(q *gorm.DB, c Chain, _ int, o *obs) {
		d := map[string]interface{}{}
		tx := q.Scan(&d)
		singleMap(d, o)
		o.ra, o.err = tx.RowsAffected, tx.Error
		o.tx = tx
	}},

	// ---- primitive destinations ---------------------------------------------
	{Name: `Model.Select("a").Scan(&int)`, Root: rootModel, Kind: kPrim, Proj: projA, Run: func(q *gorm.DB, c Chain, _ int, o *obs) {
		d := -777
		tx := q.Select("a").Scan(&d)
		o.prim, o.ra, o.err = fmt.Sprint(d), tx.RowsAffected, tx.Error
		o.tx = tx
	}},
	{Name: `Model.Pluck("id", &uint)`, Root: rootModel, Kind: kPrim, Proj: projID, Run: func(q *gorm.DB, c Chain, _ int, o *obs) {
		var d uint = 777
		tx := q.Pluck("id", &d)
		o.prim, o.ra, o.err = fmt.Sprint(d), tx.RowsAffected, tx.Error
		o.tx = tx
	}},
	{Name: `Model.Select("b").Find(&string)`, Root: rootModel, Kind: kPrim, Proj: projB, Run: func(q *gorm.DB, c Chain, _ int, o *obs) {
		d := "unset"
		tx := q.Select("b").Find(&d)
		o.prim, o.ra, o.err = d, tx.RowsAffected, tx.Error
		o.tx = tx
	}},

	// ---- Count -----------------------------------------------------------------
	{Name: "Model.Count", Root: rootModel, Kind: kCount, Run: func(q *gorm.DB, c Chain, _ int, o *obs) {
		var n int64 = -1
		tx := q.Count(&n)
		o.count, o.ra, o.err = n, -1, tx.Error
		o.tx = tx
	}},
	{Name: `Table("items").Count`, Root: rootTable, Kind: kCount, Thorough: true, NoSchema: true, Run: func(q *gorm.DB, c Chain, _ int, o *obs) {
		var n int64 = -1
		tx := q.Count(&n)
		o.count, o.ra, o.err = n, -1, tx.Error
		o.tx = tx
	}},

	// ---- single-record finders -------------------------------------------------
	{Name: "First(&Item)", Kind: kFinder, Run: func(q *gorm.DB, c Chain, _ int, o *obs) {
		var d Item
		tx := q.First(&d)
		singleItem(d, o)
		o.ra, o.err = tx.RowsAffected, tx.Error
		o.tx = tx
	}},
	{Name: "First(&Item, cond)", Kind: kFinder, Inline: true, Run: func(q *gorm.DB, c Chain, _ int, o *obs) {
		var d Item
		tx := q.First(&d, c.inlineArgs()...)
		singleItem(d, o)
		o.ra, o.err = tx.RowsAffected, tx.Error
		o.tx = tx
	}},
	{Name: "First(&*Item)", Kind: kFinder, Run: func(q *gorm.DB, c Chain, _ int, o *obs) {
		var d *Item
		tx := q.First(&d)
		if d != nil {
			singleItem(*d, o)
		}
		o.ra, o.err = tx.RowsAffected, tx.Error
		o.tx = tx
	}},
	{Name: "Model.First(&map)", Proj: projMap, Root: rootModel, Kind: kFinder, Run: func(q *gorm.DB, c Chain, _ int, o *obs) {
		d := map[string]interface{}{}
		tx := q.First(&d)
		singleMap(d, o)
		o.ra, o.err = tx.RowsAffected, tx.Error
		o.tx = tx
	}},
	{Name: "Take(&Item)", Kind: kFinder, Run: func(q *gorm.DB, c Chain, _ int, o *obs) {
		var d Item
		tx := q.Take(&d)
		singleItem(d, o)
		o.ra, o.err = tx.RowsAffected, tx.Error
		o.tx = tx
	}},
	{Name: "Take(&Item, cond)", Kind: kFinder, Inline: true, Run: func(q *gorm.DB, c Chain, _ int, o *obs) {
		var d Item
		tx := q.Take(&d, c.inlineArgs()...)
		singleItem(d, o)
		o.ra, o.err = tx.RowsAffected, tx.Error
		o.tx = tx
	}},
	{Name: "Model.Take(&map)", Proj: projMap, Root: rootModel, Kind: kFinder, Run: func(q *gorm.DB, c Chain, _ int, o *obs) {
		d := map[string]interface{}{}
		tx := q.Take(&d)
		singleMap(d, o)
		o.ra, o.err = tx.RowsAffected, tx.Error
		o.tx = tx
	}},
	{Name: "Last(&Item)", Kind: kFinder, Last: true, Run: func(q *gorm.DB, c Chain, _ int, o *obs) {
		var d Item
		tx := q.Last(&d)
		singleItem(d, o)
		o.ra, o.err = tx.RowsAffected, tx.Error
		o.tx = tx
	}},
	{Name: "Last(&Item, cond)", Kind: kFinder, Last: true, Inline: true, Run: func(q *gorm.DB, c Chain, _ int, o *obs) {
		var d Item
		tx := q.Last(&d, c.inlineArgs()...)
		singleItem(d, o)
		o.ra, o.err = tx.RowsAffected, tx.Error
		o.tx = tx
	}},
	{Name: "Model.Last(&map)", Proj: projMap, Root: rootModel, Kind: kFinder, Last: true, Run: func(q *gorm.DB, c Chain, _ int, o *obs) {
		d := map[string]interface{}{}
		tx := q.Last(&d)
		singleMap(d, o)
		o.ra, o.err = tx.RowsAffected, tx.Error
		o.tx = tx
	}},

	// ---- FindInBatches -----------------------------------------------------------
	{Name: "FindInBatches(&[]Item)", Kind: kFIB, Run: func(q *gorm.DB, c Chain, batch int, o *obs) {
		var d []Item
		tx := q.FindInBatches(&d, batch, func(tx *gorm.DB, n int) error {
			o.batches = append(o.batches, rowKeys(d))
			o.nums = append(o.nums, n)
			o.cbRA = append(o.cbRA, tx.RowsAffected)
			if len(o.batches) > c.N+3 {
				o.runaway = true // hard cap: a correct run has at most N callbacks
				return errRunaway
			}
			if o.hook != nil {
				o.hook()
			}
			return nil
		})
		o.ra, o.err = tx.RowsAffected, tx.Error
		o.tx = tx
	}},
	{Name: "FindInBatches(&[]*Item)", Kind: kFIB, LiteSkip: true, Run: func(q *gorm.DB, c Chain, batch int, o *obs) {
		var d []*Item
		tx := q.FindInBatches(&d, batch, func(tx *gorm.DB, n int) error {
			var b []string
			for _, p := range d {
				if p == nil {
					b = append(b, "<nil element>")
				} else {
					b = append(b, rowKey(*p))
				}
			}
			o.batches = append(o.batches, b)
			o.nums = append(o.nums, n)
			o.cbRA = append(o.cbRA, tx.RowsAffected)
			if len(o.batches) > c.N+3 {
				o.runaway = true // hard cap: a correct run has at most N callbacks
				return errRunaway
			}
			if o.hook != nil {
				o.hook()
			}
			return nil
		})
		o.ra, o.err = tx.RowsAffected, tx.Error
		o.tx = tx
	}},
}

func pathIndex(name string) int {
	for i, p := range paths {
		if p.Name == name {
			return i
		}
	}
	return -1
}

// expect holds what the reference model says about one chain (computed once per chain).
type expect struct {
	window []Item // what every multi-row path must deliver
	first  []Item // First/Take (and Last after an explicit ascending ordering)
	last   []Item // Last
}

func expectOf(c Chain) *expect {
	return &expect{window: c.expectFind(), first: c.expectFinder(false), last: c.expectFinder(true)}
}

func eqStrings(a, b []string) bool {
	if len(a) != len(b) {
		return false
	}
	for i := range a {
		if a[i] != b[i] {
			return false
		}
	}
	return true
}

func show(rows []string) string {
	if len(rows) == 0 {
		return "[]"
	}
	return "[" + strings.Join(rows, " ; ") + "]"
}

func project(items []Item, proj func(Item) string) []string {
	if proj == nil {
		proj = expKey
	}
	out := make([]string, len(items))
	for i, it := range items {
		out[i] = proj(it)
	}
	return out
}

// verdict evaluates the oracle for one observation. refFind is the result the
// real Find(&[]Item) with Order(pk) gave for the same chain (FindInBatches is
// additionally compared with it — a differential check that does not depend on
// the reference model); nil when not available.
func verdict(p pathDef, c Chain, ex *expect, batch int, o obs, refFind []string, refOK bool) (fails []string) {
	failf := func(kind, f string, a ...interface{}) {
		fails = append(fails, kind+"\n"+fmt.Sprintf(f, a...))
	}
	window := ex.window
	switch p.Kind {
	case kMulti:
		want := project(window, p.Proj)
		full := len(want)
		if p.PadTo > 0 {
			if p.TruncAt > 0 && len(want) > p.TruncAt {
				want = want[:p.TruncAt]
			}
			for len(want) < p.PadTo {
				want = append(want, zeroKeyOf)
			}
		}
		if o.err != nil {
			failf("multi-row path returned an error", "err=%v", o.err)
			return
		}
		if !eqStrings(o.rows, want) {
			failf("multi-row path delivered other rows than the table window", "expected %s\nobserved %s", show(want), show(o.rows))
		}
		if o.ra >= 0 && o.ra != int64(full) {
			failf("RowsAffected differs from the rows returned", "RowsAffected=%d rows=%d", o.ra, full)
		}
	case kSingle:
		var want []string
		if len(window) > 0 {
			want = project(window[:1], p.Proj)
		}
		if o.err != nil {
			failf("single-record Find/Scan returned an error", "err=%v", o.err)
			return
		}
		if !eqStrings(o.rows, want) {
			failf("single-record Find/Scan delivered another row than the first of the window", "expected %s\nobserved %s", show(want), show(o.rows))
		}
		if o.ra != int64(len(want)) {
			failf("RowsAffected differs from the rows returned", "RowsAffected=%d rows=%d", o.ra, len(want))
		}
	case kFinder:
		wantItems := ex.first
		if p.Last {
			wantItems = ex.last
		}
		want := project(wantItems, p.Proj)
		if len(want) == 0 {
			if !errors.Is(o.err, gorm.ErrRecordNotFound) {
				failf("finder matching nothing did not return ErrRecordNotFound", "err=%v observed %s", o.err, show(o.rows))
				return
			}
		} else {
			if errors.Is(o.err, gorm.ErrRecordNotFound) {
				failf("finder returned ErrRecordNotFound although a row matches", "expected %s", show(want))
				return
			}
			if o.err != nil {
				failf("finder returned an error", "err=%v", o.err)
				return
			}
		}
		if !eqStrings(o.rows, want) {
			failf("finder delivered another record than the lowest/highest matching key", "expected %s\nobserved %s", show(want), show(o.rows))
		}
		if o.ra != int64(len(want)) {
			failf("RowsAffected differs from the rows returned", "RowsAffected=%d rows=%d", o.ra, len(want))
		}
	case kPrim:
		want := project(window, p.Proj)
		if o.err != nil {
			failf("primitive destination returned an error", "err=%v", o.err)
			return
		}
		switch len(want) {
		case 0:
			if o.ra != 0 {
				failf("RowsAffected differs from the rows returned", "RowsAffected=%d rows=0", o.ra)
			}
		case 1:
			if o.prim != want[0] {
				failf("primitive destination holds another value than the single row of the window", "expected %s observed %s", want[0], o.prim)
			}
			if o.ra != 1 {
				failf("RowsAffected differs from the rows returned", "RowsAffected=%d rows=1", o.ra)
			}
		default:
			found := false
			for _, w := range want {
				if w == o.prim {
					found = true
				}
			}
			if !found {
				failf("primitive destination holds a value of no row of the window", "window %s observed %s", show(want), o.prim)
			}
			if o.ra != int64(len(want)) {
				failf("RowsAffected differs from the rows returned", "RowsAffected=%d rows=%d", o.ra, len(want))
			}
		}
	case kCount:
		if o.err != nil {
			failf("Count returned an error", "err=%v", o.err)
			return
		}
		_, hasLimit, off := c.effective()
		if !hasLimit && off == 0 {
			if o.count != int64(len(window)) {
				failf("Count differs from the number of rows Find returns", "Count=%d rows=%d", o.count, len(window))
			}
		}
	case kFIB:
		want := project(window, nil)
		if o.runaway {
			failf("FindInBatches does not terminate / repeats rows", "stopped after %d callbacks on a table of %d rows\nexpected %s\nbatch sizes %v", len(o.batches), c.N, show(want), batchShape(o.batches))
			return
		}
		if o.err != nil {
			failf("FindInBatches returned an error", "err=%v", o.err)
			return
		}
		var concat []string
		for i, b := range o.batches {
			concat = append(concat, b...)
			if len(b) > batch {
				failf("FindInBatches delivered a batch larger than requested", "batch #%d has %d rows, requested %d", i+1, len(b), batch)
			}
			if o.nums[i] != i+1 {
				failf("FindInBatches callback batch numbers are not 1,2,3…", "numbers %v", o.nums)
			}
			if o.cbRA[i] != int64(len(b)) {
				failf("RowsAffected differs from the rows returned", "callback #%d RowsAffected=%d rows=%d", i+1, o.cbRA[i], len(b))
			}
		}
		shape := fmt.Sprint(batchShape(o.batches))
		if !eqStrings(concat, want) {
			failf("FindInBatches did not deliver exactly the rows of the table window once each in key order", "expected %s\nobserved %s\nbatch sizes %s", show(want), show(concat), shape)
		}
		if refOK && !eqStrings(concat, refFind) {
			failf("FindInBatches differs from Find with Order(pk) under the same chain", "Find      %s\nbatches   %s\nbatch sizes %s", show(refFind), show(concat), shape)
		}
		if o.ra != int64(len(concat)) {
			failf("RowsAffected differs from the rows returned", "FindInBatches RowsAffected=%d rows delivered=%d", o.ra, len(concat))
		}
	}
	return
}

func batchShape(b [][]string) []int {
	out := make([]int, len(b))
	for i := range b {
		out[i] = len(b[i])
	}
	return out
}

// describe renders an observation for messages and for the distinct-outcome counter.
func describe(p pathDef, o obs) string {
	switch p.Kind {
	case kCount:
		return fmt.Sprintf("count=%d err=%v", o.count, o.err)
	case kPrim:
		return fmt.Sprintf("value=%s ra=%d err=%v", o.prim, o.ra, o.err)
	case kFIB:
		var all []string
		for _, b := range o.batches {
			all = append(all, b...)
		}
		return fmt.Sprintf("batches=%v nums=%v rows=%s ra=%d err=%v", batchShape(o.batches), o.nums, show(all), o.ra, o.err)
	}
	return fmt.Sprintf("rows=%s ra=%d err=%v", show(o.rows), o.ra, o.err)
}
