package main

import (
	"errors"
	"fmt"
	"sync/atomic"

	"verif/drivers/recsqlite"
	"verif/h"
)

// Cursor-fault dimension (environment deviation, bound 1): one result-set
// iteration of one query of a read path fails at row k — what rows.Err()
// reports when a connection drops or a context is cancelled in the middle of a
// result set. The fault points of a case are exactly the (query, row) pairs the
// fault-free execution consulted (row == rows of the result set is the
// end-of-rows call).
//
// Oracle (deliberately weak): the call reports a non-nil error, or its result
// equals the fault-free result of the same path exactly. A shorter result with
// Error == nil is "truncated result reported as complete".

const mFault = "cursor-fault"

var errCursor = errors.New("verif: injected cursor fault")

type faultPoint struct{ Query, Row int }

// runWithRowHook executes a single-read case with a RowFault hook installed.
// probe: record the consulted points, inject nothing.
func runWithRowHook(e *h.Env, cs Case, probe bool) (out outcome, points []faultPoint, fired bool) {
	p := paths[pathIndex(cs.Path)]
	e.Rec.Reset()
	seqs := map[int]int{}
	e.Rec.RowFault = func(ev *recsqlite.Event, row int) error {
		qi, ok := seqs[ev.Seq]
		if !ok {
			qi = len(seqs)
			seqs[ev.Seq] = qi
		}
		if probe {
			points = append(points, faultPoint{qi, row})
			return nil
		}
		if !fired && qi == cs.FaultQuery && row == cs.FaultRow {
			fired = true
			return errCursor
		}
		return nil
	}
	func() {
		defer func() {
			if r := recover(); r != nil {
				out.panicMsg = fmt.Sprint(r)
			}
		}()
		out.o.root = e.DB
		q := asHandle(cs.Chain.apply(rootOf(e.DB, p.Root), p.Inline), cs.Handle)
		p.Run(q, cs.Chain, cs.Batch, &out.o)
	}()
	e.Rec.RowFault = nil
	for _, ev := range e.Rec.Events() {
		if ev.IsStatement() {
			out.events = append(out.events, ev.String())
		}
	}
	if l := e.Leaks(); l != "" {
		out.panicMsg += "LEAK: " + l
	}
	return
}

// faultVerdict judges one faulted execution against the fault-free one.
// kind: "error" | "identical" | "" (violation, see fails).
func faultVerdict(cs Case, base, out outcome, fired bool) (kind string, truncated bool, fails []string) {
	p := paths[pathIndex(cs.Path)]
	if !fired {
		return "", false, []string{"harness: the fault point was not reached"}
	}
	if out.panicMsg != "" {
		return "", false, []string{"panic or leak in a read path after a cursor fault\n" + out.panicMsg}
	}
	// the data part of the observation, without the error
	ob, oo := base.o, out.o
	ob.err, oo.err = nil, nil
	same := describe(p, ob) == describe(p, oo)
	if out.o.err != nil {
		return "error", !same, nil
	}
	if same {
		return "identical", false, nil
	}
	return "", true, []string{fmt.Sprintf("read paths disagree: truncated result reported as complete\ncursor fault at row %d of query #%d; Error == nil\nfault-free: %s\nwith fault: %s", cs.FaultRow, cs.FaultQuery+1, describe(p, base.o), describe(p, out.o))}
}

type faultStats struct {
	states      int64 // fault-free executions probed
	transitions int64 // fault points injected
	erred       int64 // ... that ended in a reported error
	identical   int64 // ... that ended with the fault-free result and no error
	truncating  int64 // ... where rows really went missing (and the error was reported)
	midResult   int64 // fault points strictly inside a result set (row < rows of that query)
	multiQuery  int64 // fault points in a second or later query of the path (FindInBatches batches)
}

// evalFaults explores every fault point of one (chain, path, batch).
func (ck *checker) evalFaults(w *worker, e *h.Env, c Chain, p pathDef, batch int) {
	fs := &ck.fst
	cs := Case{Chain: c, Mode: mFault, Path: p.Name, Batch: batch}
	base, points, _ := runWithRowHook(e, cs, true)
	atomic.AddInt64(&ck.st.evaluations, 1)
	if base.panicMsg != "" || base.o.err != nil {
		return // the fault-free run is judged elsewhere (e.g. the known Pluck finding)
	}
	atomic.AddInt64(&fs.states, 1)
	// rows per query = highest row consulted
	maxRow := map[int]int{}
	for _, pt := range points {
		if pt.Row > maxRow[pt.Query] {
			maxRow[pt.Query] = pt.Row
		}
	}
	for _, pt := range points {
		cs.FaultQuery, cs.FaultRow = pt.Query, pt.Row
		out, _, fired := runWithRowHook(e, cs, false)
		atomic.AddInt64(&ck.st.evaluations, 1)
		atomic.AddInt64(&fs.transitions, 1)
		kind, trunc, fails := faultVerdict(cs, base, out, fired)
		switch kind {
		case "error":
			atomic.AddInt64(&fs.erred, 1)
			if trunc {
				atomic.AddInt64(&fs.truncating, 1)
			}
		case "identical":
			atomic.AddInt64(&fs.identical, 1)
		}
		if pt.Row < maxRow[pt.Query] {
			atomic.AddInt64(&fs.midResult, 1)
		}
		if pt.Query > 0 {
			atomic.AddInt64(&fs.multiQuery, 1)
		}
		for _, f := range fails {
			if len(f) > 8 && f[:8] == "harness:" {
				ck.run.HarnessError("%s: %s", cs.String(), f)
				continue
			}
			cs.Readable = cs.String()
			ck.run.Violation(tags(cs), fmt.Sprintf("%s\n%s\nstatements:\n  %s", f, cs.String(), joinEvents(out.events)), cs)
		}
		if w != nil {
			w.outcomes["fault:"+kind+":"+describe(p, out.o)] = struct{}{}
		}
	}
}
