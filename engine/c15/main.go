// C15 — all read paths agree; batched reads visit every row exactly once in
// key order.
//
// Bounded-exhaustive enumeration (E3) of read chains
//
//	table size 0..N x condition x ordering x Limit/Offset call sequences
//
// each executed on real SQLite through every read path of gorm (Find into
// structs / pointers / arrays / maps / smaller structs, Rows+ScanRows, Scan,
// Pluck per column, primitive destinations, Count, First/Take/Last,
// FindInBatches x every batch size 1..N+1). The oracle is a reference model:
// the sorted in-memory copy of the table, filtered by the condition and cut by
// the effective limit/offset (later positive values override, negative values
// cancel). FindInBatches is additionally compared with what the real Find
// delivered for the same chain.
package main

import (
	"fmt"
	"os"
	"sort"
	"strings"
	"sync"
	"sync/atomic"
	"time"

	"verif/h"
	"verif/mc"
)

// ---------------------------------------------------------------------------
// enumeration

func seqInts(lo, hi int) []int {
	var out []int
	for i := lo; i <= hi; i++ {
		out = append(out, i)
	}
	return out
}

func singles(vals []int) [][]int {
	out := [][]int{{}}
	for _, v := range vals {
		out = append(out, []int{v})
	}
	return out
}

func pairs(as, bs []int) [][]int {
	var out [][]int
	for _, a := range as {
		for _, b := range bs {
			if a != b {
				out = append(out, []int{a, b})
			}
		}
	}
	return out
}

// layoutOps arranges Limit calls ls and Offset calls os.
// 0: limits then offsets; 1: offsets then limits; 2: alternating starting with
// a limit; 3: alternating starting with an offset.
func layoutOps(ls, os []int, layout int) []Op {
	var out []Op
	L := func(v int) { out = append(out, Op{"limit", v}) }
	O := func(v int) { out = append(out, Op{"offset", v}) }
	switch layout {
	case 0:
		for _, v := range ls {
			L(v)
		}
		for _, v := range os {
			O(v)
		}
	case 1:
		for _, v := range os {
			O(v)
		}
		for _, v := range ls {
			L(v)
		}
	default:
		i, j := 0, 0
		turnL := layout == 2
		for i < len(ls) || j < len(os) {
			if (turnL && i < len(ls)) || j >= len(os) {
				L(ls[i])
				i++
			} else {
				O(os[j])
				j++
			}
			turnL = !turnL
		}
	}
	return out
}

func opsKey(ops []Op) string {
	var sb strings.Builder
	for _, o := range ops {
		fmt.Fprintf(&sb, "%c%d.", o.K[0], o.V)
	}
	return sb.String()
}

type grid struct {
	name    string
	sizes   []int
	conds   []int
	orders  []int
	lo      [][2][]int // (limit calls, offset calls)
	layouts []int
}

func cross(ls, os [][]int) [][2][]int {
	var out [][2][]int
	for _, l := range ls {
		for _, o := range os {
			out = append(out, [2][]int{l, o})
		}
	}
	return out
}

// per-chain flags
const (
	fLite     = 1 << iota // override-pair grids: reduced path set on reusable handles, FindInBatches into []Item only
	fHandles              // also run the read paths on reusable Session / WithContext handles
	fChain                // also run the "read chained on a finisher's return value" cases
	fSeq                  // also run the "two reads on the same reusable handle" pairs
	fCallback             // also run FindInBatches with a read on the same handle inside the callback
	fFault                // also explore every cursor-fault point of every read path
)

func inInts(v int, set []int) bool {
	for _, s := range set {
		if s == v {
			return true
		}
	}
	return false
}

func enumerate(tier string) (chains []Chain, flags []uint8, N int, gridSizes map[string]int) {
	N = 7
	if tier == "thorough" {
		N = 12
	}
	var condsAll, condsOr []int
	for i, cd := range conds {
		if cd.OrGrid {
			condsOr = append(condsOr, i)
			continue
		}
		if !cd.Thorough || tier == "thorough" {
			condsAll = append(condsAll, i)
		}
	}
	limitVals := append(append([]int{0}, seqInts(1, N+1)...), -1) // single Limit values
	offsetVals := append(seqInts(0, N), -1)                       // single Offset values
	limitPairVals := append(seqInts(1, N+1), -1)                  // no 0 inside pairs
	offsetFirst := append(seqInts(0, N), -1)
	offsetSecond := append(seqInts(1, N), -1)
	lp := pairs(limitPairVals, limitPairVals)
	op := pairs(offsetFirst, offsetSecond)
	smallO := [][]int{{}, {0}, {2}, {-1}, {3, -1}, {1, 2}}
	smallL := [][]int{{}, {3}, {-1}, {2, 5}, {5, -1}}

	sizesB := []int{0, 3, 7}
	seqSizes, seqL, seqO := []int{0, 3, N}, []int{2, -1}, []int{1, N}
	// cursor-fault slice of grid A / D (one call order, orderings none / Order(id))
	faultSizes, faultL, faultO := []int{0, 1, 3, 5, N}, []int{1, 2, 5, -1}, []int{1, 3, N}
	if tier == "thorough" {
		faultSizes, faultL, faultO = seqInts(0, N), limitVals, offsetVals
	}
	if tier == "thorough" {
		sizesB = []int{0, 6, 12}
		seqSizes, seqL, seqO = []int{0, 1, 5, N}, []int{0, 1, 3, N + 1, -1}, []int{0, 2, N, -1}
	}
	grids := []grid{
		// A: the complete grid size x condition x ordering x limit x offset
		{name: "A:single", sizes: seqInts(0, N), conds: condsAll, orders: []int{0, 1, 2},
			lo: cross(singles(limitVals), singles(offsetVals)), layouts: []int{0, 1}},
		// B: override / cancel pairs of one kind against a small set of the other kind
		{name: "B:pairs", sizes: sizesB, conds: []int{0, 3}, orders: []int{0, 1},
			lo: append(cross(lp, smallO), cross(smallL, op)...), layouts: []int{0, 1, 2, 3}},
	}
	// D: a chain that carries three orderings on which all rows tie (order-by column
	// slice of length 3, capacity 4): only the key ordering added by First / Last /
	// FindInBatches decides; run fresh, on reusable handles and with reads inside the
	// FindInBatches callback
	gridD := grid{name: "D:three-orderings", sizes: seqInts(0, N), conds: []int{0, 3}, orders: []int{orderTies},
		lo: cross(singles(limitVals), singles(offsetVals)), layouts: []int{0}}
	// E: Or-chains as the condition (top-level OR terms, Or alone, Or followed by Where,
	// Not + Or, and a grouped Or), every read path fresh and on reusable handles
	orL, orO := singles([]int{0, 1, 2, 3, N + 1, -1}), singles([]int{0, 1, 2, N, -1})
	if tier == "thorough" {
		orL, orO = singles(limitVals), singles(offsetVals)
	}
	gridE := grid{name: "E:or-chains", sizes: seqInts(0, N), conds: condsOr, orders: []int{0, 1},
		lo: cross(orL, orO), layouts: []int{0}}
	grids = append([]grid{gridD, gridE}, grids...) // the small grids D and E run first, then A, then the bulky pair grids
	if tier == "thorough" {
		// C: pairs of both kinds against each other
		grids = append(grids, grid{name: "C:pairs-x-pairs", sizes: []int{N}, conds: []int{0}, orders: []int{1},
			lo: cross(lp, op), layouts: []int{2}})
	}
	seen := map[string]bool{}
	gridSizes = map[string]int{}
	only := os.Getenv("VERIF_C15_GRIDS") // debugging aid: comma-separated grid letters, e.g. "E" or "A,D"
	for _, g := range grids {
		if only != "" && !strings.Contains(","+only+",", ","+g.name[:1]+",") {
			continue
		}
		for _, n := range g.sizes {
			for _, cd := range g.conds {
				for _, od := range g.orders {
					for _, lo := range g.lo {
						for _, lay := range g.layouts {
							ops := layoutOps(lo[0], lo[1], lay)
							k := fmt.Sprintf("%d|%d|%d|%s", n, cd, od, opsKey(ops))
							if seen[k] {
								continue
							}
							seen[k] = true
							chains = append(chains, Chain{N: n, Cond: cd, Order: od, Ops: ops})
							var f uint8
							if !strings.HasPrefix(g.name, "A:") {
								f |= fLite
							} else if od != 2 {
								// reusable handles: quick = one call order, thorough = both
								if lay == 0 || tier == "thorough" {
									f |= fHandles
								}
								// total+page / Find->Count chained on return values: every
								// single limit x offset of grid A (one call order, 2 orderings)
								if lay == 0 && cd < 4 && (tier == "thorough" || cd != 2) {
									f |= fChain
								}
								one := func(vs []int, set []int) bool { return len(vs) == 0 || inInts(vs[0], set) }
								if lay == 0 && inInts(n, seqSizes) && inInts(cd, []int{0, 3}) && one(lo[0], seqL) && one(lo[1], seqO) {
									f |= fSeq | fCallback
								}
								if lay == 0 && cd < 4 && inInts(n, faultSizes) && one(lo[0], faultL) && one(lo[1], faultO) {
									f |= fFault
								}
							}
							if strings.HasPrefix(g.name, "E:") {
								f = fHandles
							}
							if strings.HasPrefix(g.name, "D:") {
								f = fHandles | fCallback
								one := func(vs []int, set []int) bool { return len(vs) == 0 || inInts(vs[0], set) }
								if inInts(n, faultSizes) && one(lo[0], faultL) && one(lo[1], faultO) {
									f |= fFault
								}
							}
							flags = append(flags, f)
							gridSizes[g.name]++
						}
					}
				}
			}
		}
	}
	return
}

// ---------------------------------------------------------------------------
// workers

type worker struct {
	envs     map[int]*h.Env
	pristine map[int]string
	// local distinct-outcome sets, merged at the end
	outcomes map[string]struct{}
	shapes   map[string]struct{}
}

func newWorker() *worker {
	return &worker{envs: map[int]*h.Env{}, pristine: map[int]string{}, outcomes: map[string]struct{}{}, shapes: map[string]struct{}{}}
}

func (w *worker) env(n int) *h.Env {
	if e, ok := w.envs[n]; ok {
		return e
	}
	e := h.Open(nil)
	e.MustExec(schemaSQL)
	rows := tableRows(n)
	for _, i := range insertOrder(n) {
		it := rows[i]
		var c interface{}
		if it.C != nil {
			c = *it.C
		}
		var s, k interface{}
		if !sNull(it.ID) {
			s = it.S
		}
		if !kNull(it.ID) {
			k = it.K
		}
		e.MustExec("INSERT INTO items (id,a,b,c,s,k,l,p) VALUES (?,?,?,?,?,?,?,?)", it.ID, it.A, it.B, c, s, k, labelsText(it.L), metaText(it.P))
	}
	w.envs[n] = e
	w.pristine[n] = e.Dump("items")
	return e
}

type stats struct {
	evaluations     int64
	chains          int64
	fibCalls        int64
	fibMultiBatch   int64 // >= 2 batches delivered
	fibPartialLast  int64 // last delivered batch smaller than the requested size
	fibLimitCuts    int64 // effective limit < rows available after offset and not a multiple of the batch size
	fibOffsetBeyond int64 // offset >= matching rows
	fibOffsetInside int64 // 0 < offset < matching rows
	finderFound     int64
	finderNotFound  int64
	countChecked    int64
	overrideChains  int64 // chains with >= 2 calls of one kind
	cancelChains    int64 // chains containing a negative value after a positive one
	multiChecked    int64
	singleChecked   int64
	primChecked     int64
	sessionCases    int64 // single reads on a Session handle
	ctxCases        int64 // single reads on a WithContext handle
	seqCases        int64 // two reads on the same reusable handle
	chainCases      int64 // second read chained on the first finisher's return value
	orChainCases    int64 // single reads (fresh or on a handle) under an Or-chain condition
	orFibCursor     int64 // ... FindInBatches calls that need the key cursor under a top-level Or term
	callbackCases   int64 // FindInBatches with a read on the same handle inside the callback
	callbackMulti   int64 // ... that delivered >= 2 batches (>= 2 inner reads interleaved with the batch queries)
	countThenPage   int64 // Count, then Limit/Offset, then a read, on Count's return value, window non-empty
}

type checker struct {
	run      *mc.Run
	st       stats
	fst      faultStats
	distinct mc.Set // distinct non-trivial chains
	samples  *mc.Samples
	tier     string
	N        int
}

func (ck *checker) activePaths(c Chain) []int {
	var out []int
	for i, p := range paths {
		if p.Thorough && ck.tier != "thorough" {
			continue
		}
		if p.Inline && (c.Cond == 0 || conds[c.Cond].Inline == nil) {
			continue
		}
		if p.NoSchema && c.Order == 2 {
			continue
		}
		if orders[c.Order].Ties {
			// only finishers that add the key ordering themselves, and Count
			if !(p.Kind == kFIB || p.Kind == kCount || (p.Kind == kFinder && !strings.Contains(p.Name, "Take"))) {
				continue
			}
		}
		out = append(out, i)
	}
	return out
}

// repPaths: one or two representatives of every destination kind / finisher,
// used where the full path list would only repeat the same mechanism.
var repPaths = []string{
	"Find(&[]Item)", "Model.Find(&[]map)", "Find(&Item)", "Model.Scan(&[]Item)", "Model.Rows+ScanRows(&Item)",
	`Model.Pluck("id", &[]uint)`, `Model.Pluck("B", &[]string)`, "First(&Item)", "Take(&Item)", "Last(&Item)",
	"Model.First(&map)", `Model.Select("a").Scan(&int)`, "Model.Count", "FindInBatches(&[]Item)",
}

// seqFirsts: the first read of a pair on the same reusable handle.
var seqFirsts = []string{
	"Model.Count", "Find(&[]Item)", "Find(&Item)", "First(&Item)", "Last(&Item)", `Model.Pluck("B", &[]string)`,
	"Model.Scan(&[]Item)", "Model.Rows+ScanRows(&Item)", `Model.Select("a").Scan(&int)`, "FindInBatches(&[]Item)",
}

// findFirsts: Find variants after which Count is chained on the returned handle.
var findFirsts = []string{"Find(&[]Item)", "Find(&[]*Item)", "Model.Find(&[]map)"}

// repSmall: the smaller representative set (pair grids on a Session handle;
// reads chained after Count with the limit/offset made before Count).
var repSmall = []string{
	"Find(&[]Item)", "Model.Find(&[]map)", "First(&Item)", `Model.Pluck("id", &[]uint)`, "Model.Count", "FindInBatches(&[]Item)",
}

func inNames(name string, set []string) bool {
	for _, r := range set {
		if r == name {
			return true
		}
	}
	return false
}

func isRep(name string) bool {
	for _, r := range repPaths {
		if r == name {
			return true
		}
	}
	return false
}

func batchFor(name string) int {
	if paths[pathIndex(name)].Kind == kFIB {
		return 2
	}
	return 0
}

// referenceFind runs the real Find(&[]Item) with an explicit key ordering for
// the differential comparison of FindInBatches.
func referenceFind(e *h.Env, c Chain) ([]string, bool) {
	rc := c
	if rc.Order == 0 || orders[rc.Order].Ties {
		rc.Order = 1
	}
	out := execCase(e, Case{Chain: rc, Path: paths[0].Name}, false)
	if out.panicMsg != "" || out.o.err != nil {
		return nil, false
	}
	return out.o.rows, true
}

// evalCase runs one case and reports violations. It returns the observation of
// the (last) read for statistics.
func (ck *checker) evalCase(w *worker, e *h.Env, cs Case, ex *expect, ref []string, refOK bool) obs {
	// executed without driver recording; a failing case is executed a second
	// time with recording to show the statements (and to confirm determinism)
	out := execCase(e, cs, false)
	atomic.AddInt64(&ck.st.evaluations, 1)
	if cd := conds[cs.Chain.Cond]; cd.OrGrid {
		atomic.AddInt64(&ck.st.orChainCases, 1)
		if cd.TopOr && paths[pathIndex(cs.Path)].Kind == kFIB && fibIssuesSecondQuery(cs.Chain, cs.Batch) {
			atomic.AddInt64(&ck.st.orFibCursor, 1)
		}
	}
	fails := judge(cs, ex, out, ref, refOK)
	desc := describeOutcome(cs, out)
	if len(fails) > 0 {
		out2 := execCase(e, cs, true)
		cs.Readable = cs.String()
		if d2 := describeOutcome(cs, out2); d2 != desc || out2.panicMsg != out.panicMsg {
			ck.run.HarnessError("nondeterministic: %s gave %q then %q", cs.String(), desc+out.panicMsg, d2+out2.panicMsg)
		}
		for _, f := range fails {
			ck.run.Violation(tags(cs), fmt.Sprintf("%s\n%s\nobserved: %s\nstatements:\n  %s", f, cs.String(), desc, joinEvents(out2.events)), cs)
		}
	}
	if w != nil {
		w.outcomes[desc] = struct{}{}
	}
	return out.o
}

func (ck *checker) evalChain(w *worker, c Chain, flags uint8) {
	e := w.env(c.N)
	st := &ck.st
	atomic.AddInt64(&st.chains, 1)
	ex := expectOf(c)
	window := ex.window
	matching := c.matching()
	limit, hasLimit, offset := c.effective()
	lite := flags&fLite != 0

	nl, no, cancel := 0, 0, false
	seenPos := map[string]bool{}
	for _, o := range c.Ops {
		if o.K == "limit" {
			nl++
		} else {
			no++
		}
		if o.V > 0 {
			seenPos[o.K] = true
		}
		if o.V < 0 && seenPos[o.K] {
			cancel = true
		}
	}
	if nl > 1 || no > 1 {
		atomic.AddInt64(&st.overrideChains, 1)
	}
	if cancel {
		atomic.AddInt64(&st.cancelChains, 1)
	}
	if len(window) > 0 && len(window) < c.N {
		if ck.distinct.Add(c.String()) {
			if ck.distinct.Len()%997 == 1 {
				ck.samples.Add(c.String() + " => ids " + ids(window))
			}
		}
	}

	ref, refOK := referenceFind(e, c)
	active := ck.activePaths(c)

	// ---- every read path on a fresh chain ---------------------------------
	for _, pi := range active {
		p := paths[pi]
		if lite && (p.LiteSkip || (ck.tier != "thorough" && !isRep(p.Name))) {
			continue
		}
		switch p.Kind {
		case kFIB:
			for b := 1; b <= ck.N+1; b++ {
				o := ck.evalCase(w, e, Case{Chain: c, Path: p.Name, Batch: b}, ex, ref, refOK)
				atomic.AddInt64(&st.fibCalls, 1)
				if len(o.batches) >= 2 {
					atomic.AddInt64(&st.fibMultiBatch, 1)
				}
				if k := len(o.batches); k > 0 && len(o.batches[k-1]) < b {
					atomic.AddInt64(&st.fibPartialLast, 1)
				}
				if hasLimit && limit > 0 && limit < len(matching)-offset && limit%b != 0 {
					atomic.AddInt64(&st.fibLimitCuts, 1)
				}
				if offset > 0 && offset >= len(matching) {
					atomic.AddInt64(&st.fibOffsetBeyond, 1)
				}
				if offset > 0 && offset < len(matching) {
					atomic.AddInt64(&st.fibOffsetInside, 1)
				}
				w.shapes[fmt.Sprint(batchShape(o.batches))] = struct{}{}
			}
		default:
			ck.evalCase(w, e, Case{Chain: c, Path: p.Name}, ex, ref, refOK)
			switch p.Kind {
			case kFinder:
				if (p.Last && len(ex.last) == 0) || (!p.Last && len(ex.first) == 0) {
					atomic.AddInt64(&st.finderNotFound, 1)
				} else {
					atomic.AddInt64(&st.finderFound, 1)
				}
			case kCount:
				if !hasLimit && offset == 0 {
					atomic.AddInt64(&st.countChecked, 1)
				}
			case kMulti:
				atomic.AddInt64(&st.multiChecked, 1)
			case kSingle:
				atomic.AddInt64(&st.singleChecked, 1)
			case kPrim:
				atomic.AddInt64(&st.primChecked, 1)
			}
		}
	}

	// ---- every read path on a reusable handle that carries the whole chain ---
	// grid A: Session and WithContext handles, all paths; pair grids: Session
	// handle, representative paths.
	var handles []string
	if lite {
		handles = []string{hSession}
	} else if flags&fHandles != 0 {
		handles = []string{hSession, hCtx}
	}
	for _, hk := range handles {
		for _, pi := range active {
			p := paths[pi]
			if lite && !inNames(p.Name, repSmall) {
				continue
			}
			if hk == hCtx && !isRep(p.Name) {
				continue
			}
			var batches []int
			if p.Kind == kFIB {
				batches = []int{2, ck.N + 1}
				if lite {
					batches = []int{2}
				}
			} else {
				batches = []int{0}
			}
			for _, b := range batches {
				ck.evalCase(w, e, Case{Chain: c, Path: p.Name, Batch: b, Handle: hk}, ex, ref, refOK)
				if hk == hSession {
					atomic.AddInt64(&st.sessionCases, 1)
				} else {
					atomic.AddInt64(&st.ctxCases, 1)
				}
			}
		}
	}

	// ---- a read chained on the handle another finisher returned ---------------
	// Count -> read ("total + page": limit/offset before Count, and after it on
	// the returned handle); Find -> Count.
	if flags&fChain != 0 {
		for _, hk := range []string{hFresh, hSession, hCtx} {
			for _, page := range []bool{false, true} {
				if page && len(c.Ops) == 0 {
					continue // identical to the other placement
				}
				if !page && len(c.Ops) > 0 && hk != hSession && ck.tier != "thorough" {
					continue // quick: limit/offset before Count only on the Session handle
				}
				seconds := repSmall
				if page {
					seconds = repPaths
				}
				for _, name := range seconds {
					ck.evalCase(w, e, Case{Chain: c, Mode: mChain, Handle: hk, Page: page, First: "Model.Count", Path: name, Batch: batchFor(name)}, ex, ref, refOK)
					atomic.AddInt64(&st.chainCases, 1)
					if page && len(window) > 0 {
						atomic.AddInt64(&st.countThenPage, 1)
					}
				}
			}
			for _, f := range findFirsts {
				ck.evalCase(w, e, Case{Chain: c, Mode: mChain, Handle: hk, First: f, Path: "Model.Count"}, ex, ref, refOK)
				atomic.AddInt64(&st.chainCases, 1)
			}
		}
	}

	// ---- FindInBatches with a read on the same reusable handle inside the callback --
	if flags&fCallback != 0 {
		inners := []string{"First(&Item)", "Last(&Item)", "Model.Last(&map)", "Model.Count"}
		if !orders[c.Order].Ties {
			inners = append(inners, "Find(&[]Item)", "Take(&Item)", `Model.Pluck("id", &[]uint)`)
		}
		for _, hk := range []string{hSession, hCtx} {
			for _, in := range inners {
				for _, b := range []int{1, 2, 3, ck.N + 1} {
					cs := Case{Chain: c, Mode: mInCB, Handle: hk, Path: "FindInBatches(&[]Item)", Batch: b, Inner: in}
					if hk == hCtx {
						cs.Path = "FindInBatches(&[]*Item)"
					}
					o := ck.evalCase(w, e, cs, ex, ref, refOK)
					atomic.AddInt64(&st.callbackCases, 1)
					if len(o.batches) >= 2 {
						atomic.AddInt64(&st.callbackMulti, 1)
					}
				}
			}
		}
	}

	// ---- cursor faults: every (query, row) point of every read path ------------------
	if flags&fFault != 0 {
		for _, pi := range active {
			p := paths[pi]
			if p.Kind == kFIB {
				for _, b := range []int{1, 2, 3, ck.N + 1} {
					ck.evalFaults(w, e, c, p, b)
				}
			} else {
				ck.evalFaults(w, e, c, p, 0)
			}
		}
	}

	// ---- two reads started from the same reusable handle ------------------------
	if flags&fSeq != 0 {
		for _, hk := range []string{hSession, hCtx} {
			for _, f := range seqFirsts {
				for _, pi := range active {
					p := paths[pi]
					if p.Inline || p.Root == rootTable {
						continue
					}
					ck.evalCase(w, e, Case{Chain: c, Mode: mSeq, Handle: hk, First: f, FirstBatch: batchFor(f), Path: p.Name, Batch: batchFor(p.Name)}, ex, ref, refOK)
					atomic.AddInt64(&st.seqCases, 1)
				}
			}
		}
	}
}

func main() {
	args := mc.ParseArgs()
	run := mc.NewRun("C15", args.Tier, "exploration")
	ck := &checker{run: run, samples: &mc.Samples{N: 8}, tier: args.Tier}

	if args.Replay != "" {
		var c Case
		if err := mc.LoadReplay(args.Replay, &c); err != nil {
			fmt.Fprintln(os.Stderr, err)
			os.Exit(3)
		}
		pi := pathIndex(c.Path)
		if pi < 0 || (c.First != "" && pathIndex(c.First) < 0) || (c.Inner != "" && pathIndex(c.Inner) < 0) {
			fmt.Fprintf(os.Stderr, "unknown path %q / %q\n", c.Path, c.First)
			os.Exit(3)
		}
		ck.N = c.Chain.N
		w := newWorker()
		e := w.env(c.Chain.N)
		p := paths[pi]
		if c.Mode == mFault {
			base, points, _ := runWithRowHook(e, c, true)
			out, _, fired := runWithRowHook(e, c, false)
			kind, _, fails := faultVerdict(c, base, out, fired)
			fmt.Printf("case: %s\nfault points of the fault-free run (query,row): %v\nfault-free: %s\nwith fault: %s\npanic/leak: %q\nverdict: %s\nstatements:\n  %s\n", c.String(), points, describe(p, base.o), describe(p, out.o), out.panicMsg, kind, joinEvents(out.events))
			for _, f := range fails {
				fmt.Printf("VIOLATES: %s\n", strings.ReplaceAll(f, "\n", "\n    "))
			}
			if len(fails) > 0 {
				fmt.Printf("input-side tags: %v\n", tags(c))
				os.Exit(1)
			}
			fmt.Println("no violation")
			return
		}
		out := execCase(e, c, true)
		ref, refOK := referenceFind(e, c.Chain)
		fmt.Printf("case: %s\ntable (key order): %s\nexpected window: %s\n", c.String(), show(rowKeys(tableRows(c.Chain.N))), show(rowKeys(c.Chain.expectFind())))
		if p.Kind == kFinder {
			fmt.Printf("expected record: %s\n", show(rowKeys(c.Chain.expectFinder(p.Last))))
		}
		if p.Kind == kFIB && refOK {
			fmt.Printf("Find with Order(pk): %s\n", show(ref))
		}
		fmt.Printf("observed: %s\npanic/leak: %q\nstatements:\n  %s\n", describeOutcome(c, out), out.panicMsg, joinEvents(out.events))
		// judged directly (not through run.Violation) so that a case listed as a
		// known finding still shows that it violates
		fails := judge(c, expectOf(c.Chain), out, ref, refOK)
		for _, f := range fails {
			fmt.Printf("VIOLATES: %s\n", strings.ReplaceAll(f, "\n", "\n    "))
		}
		if len(fails) > 0 {
			fmt.Printf("input-side tags: %v\n", tags(c))
			os.Exit(1)
		}
		fmt.Println("no violation")
		return
	}

	chains, flags, N, gridSizes := enumerate(args.Tier)
	ck.N = N
	budget := 90 * time.Second
	if args.Tier == "thorough" {
		budget = 9*time.Minute + 40*time.Second
	}
	deadline := run.Start.Add(budget)
	var timedOut int32

	outcomes := &mc.Set{}
	shapes := &mc.Set{}
	var mergeMu sync.Mutex
	nw := 16
	var wg sync.WaitGroup
	var next int64 = -1
	for i := 0; i < nw; i++ {
		wg.Add(1)
		go func() {
			defer wg.Done()
			w := newWorker()
			for {
				n := atomic.AddInt64(&next, 1)
				if int(n) >= len(chains) {
					break
				}
				if n%64 == 0 && time.Now().After(deadline) {
					atomic.StoreInt32(&timedOut, 1)
				}
				if atomic.LoadInt32(&timedOut) != 0 {
					break
				}
				ck.evalChain(w, chains[n], flags[n])
			}
			// the read paths must not have written anything
			var sizes []int
			for n := range w.envs {
				sizes = append(sizes, n)
			}
			sort.Ints(sizes)
			for _, n := range sizes {
				if d := w.envs[n].Dump("items"); d != w.pristine[n] {
					run.Violation([]string{"table-changed"}, fmt.Sprintf("a read path changed the table\nrows=%d\nbefore:\n%s\nafter:\n%s", n, w.pristine[n], d), Case{Chain: Chain{N: n}})
				}
				w.envs[n].Close()
			}
			mergeMu.Lock()
			for k := range w.outcomes {
				outcomes.Add(k)
			}
			for k := range w.shapes {
				shapes.Add(k)
			}
			mergeMu.Unlock()
		}()
	}
	wg.Wait()

	st := &ck.st
	exhaustive := timedOut == 0 && os.Getenv("VERIF_C15_GRIDS") == ""
	if run.NumViolations() == 0 && exhaustive {
		floor := func(name string, got, min int64) {
			if got < min {
				run.HarnessError("vacuous: %s = %d, floor %d", name, got, min)
			}
		}
		floor("fib_multi_batch", st.fibMultiBatch, 1000)
		floor("fib_partial_last_batch", st.fibPartialLast, 1000)
		floor("fib_limit_cuts_mid_batch", st.fibLimitCuts, 500)
		floor("fib_offset_beyond_end", st.fibOffsetBeyond, 100)
		floor("fib_offset_inside", st.fibOffsetInside, 1000)
		floor("finder_found", st.finderFound, 1000)
		floor("finder_not_found", st.finderNotFound, 500)
		floor("count_checked", st.countChecked, 50)
		floor("override_chains", st.overrideChains, 1000)
		floor("cancel_chains", st.cancelChains, 200)
		floor("session_handle_cases", st.sessionCases, 10000)
		floor("context_handle_cases", st.ctxCases, 5000)
		floor("two_reads_same_handle_cases", st.seqCases, 5000)
		floor("read_chained_on_return_value_cases", st.chainCases, 10000)
		floor("count_then_page_cases", st.countThenPage, 5000)
		floor("or_chain_cases", st.orChainCases, 50000)
		floor("or_chain_fib_calls_needing_the_key_cursor", st.orFibCursor, 1000)
		floor("fib_callback_read_cases", st.callbackCases, 5000)
		floor("fib_callback_read_cases_multi_batch", st.callbackMulti, 1000)
		fs := &ck.fst
		floor("cursor_fault_states", fs.states, 1000)
		floor("cursor_fault_transitions", fs.transitions, 5000)
		floor("cursor_fault_ended_in_error", fs.erred, 2000)
		floor("cursor_fault_truncating_and_reported", fs.truncating, 1000)
		floor("cursor_fault_points_inside_result_set", fs.midResult, 1000)
		floor("cursor_fault_points_in_later_queries", fs.multiQuery, 500)
		if fs.erred+fs.identical != fs.transitions {
			run.HarnessError("cursor faults: %d transitions but %d classified", fs.transitions, fs.erred+fs.identical)
		}
		floor("distinct_outcomes", int64(outcomes.Len()), 200)
		floor("distinct_batch_shapes", int64(shapes.Len()), 20)
	}
	if !exhaustive {
		fmt.Printf("C15: internal deadline of %s reached after %d of %d chains; run is not exhaustive\n", budget, st.chains, len(chains))
	}

	run.Assume("SQLite dialect only (the SQLite dialector renders LIMIT/OFFSET itself; clause.Limit.Build is not exercised, clause.Limit.MergeClause is)")
	run.Assume("without ORDER BY SQLite returns the rows of a rowid table in key order (no secondary index exists); chains without ordering are therefore compared exactly, not as sets")
	run.Assume("single-record finders: the finisher's own Limit(1) overrides any earlier Limit of the chain (override rule), the chain's offset stays; Last after an explicit ascending key ordering follows the user's ordering (ORDER BY id, id DESC) — the 'highest key' clause is checked only for chains without ordering")
	run.Assume("primitive destinations (Pluck/Scan/Find into &int, &uint, &string) over several rows: only membership of the value in the window is checked (which row lands is not stated); exact when the window has <= 1 row")
	run.Assume("Count is compared with len(Find) only when the effective limit and offset are absent (incl. cancelled by a negative value); with a limit/offset it is executed but only errors/panics are judged")
	run.Assume("reads chained on a finisher's return value are checked only for the pairs gorm documents: Count -> any read ('total + page') and Find -> Count. Left out as ill-defined: chaining on the handle returned by First/Take/Last (it keeps the finder's own LIMIT 1 and ORDER BY), Pluck/Select-Scan (keeps the SELECT list), Scan/Rows (no reusable handle), FindInBatches (keeps its ORDER BY and the last cursor condition), Find -> Find/First (keeps Dest-derived state); a fresh (non-Session) chain used for two separate statements (documented as not reusable)")
	run.Assume("Or-chains: the reference evaluates u1 op u2 op u3 (op = AND for Where/Not, OR for Or) with SQL precedence, as C02 does; a leading Or counts as the first unit")
	run.Assume("outside the alphabet: user orderings contradicting key order for FindInBatches; Limit(0)/Offset(0) as the later value of an override pair; FindInBatches into maps; Group/Distinct/Joins; callbacks returning errors")
	run.Finish(map[string]interface{}{
		"evaluations":                               st.evaluations,
		"distinct_nontrivial":                       ck.distinct.Len(),
		"rule":                                      fmt.Sprintf("N=%d. chains = table size x condition x ordering x sequence of Limit/Offset calls, grids %v (A: every single Limit in {absent,0,1..N+1,-1} x every single Offset in {absent,0..N,-1} x both call orders x all sizes 0..N x all conditions x 3 orderings; B: every override/cancel pair of one kind x a small set of the other kind x 4 call layouts; C (thorough): limit pairs x offset pairs, alternating call layout). Every chain is executed through every read path (%d path variants) and FindInBatches with every batch size 1..N+1 into []Item and (grid A) []*Item; Besides fresh chains, grid A chains (orderings none / Order(id); quick: one call order) are also run from reusable handles chain.Session(&gorm.Session{}) (all paths) and chain.WithContext(ctx) (14 representative paths), pair grids from a Session handle (6 representative paths; quick runs the pair grids with the representative paths only). Two-read cases: (1) tx := chain[.Session|.WithContext].Count(&n), then a read on tx — with the Limit/Offset calls made before Count (6 reads) and after Count on the returned handle, 'total + page' (14 reads) — and Find(&[]Item|&[]*Item|&[]map) followed by Count on the returned handle, for every single limit x offset of grid A; (2) base := chain.Session|WithContext; base -> first read (10 kinds); base -> second read (every path), on a sub-grid; both reads are judged against the same reference window; (3) base -> FindInBatches (batch sizes 1,2,3,N+1) with a read on base (First/Last/Count, and Find/Take/Pluck where the chain determines the order) issued inside every callback: batches must stay exact and every inner read is judged. (4) cursor faults (bound 1): on a slice of grids A and D (quick: sizes {0,1,3,5,N} x limit {absent,1,2,5,-1} x offset {absent,1,3,N}; thorough: all sizes x every single limit x every single offset, one call order, orderings none / Order(id) / three tie orderings, the four base conditions) every read path (FindInBatches with batch sizes 1,2,3,N+1) is first executed fault-free with a row hook that records every (query,row) point its result sets consult (state), then once per point with the iteration failing there (transition); the call must report an error or deliver exactly the fault-free result. Grid E: Or-chains as the condition (Where.Or, Or alone, Where.Or.Where, Not.Or, grouped Where(db.Where.Or)) x orderings none/Order(id) x single limits x single offsets, every read path fresh and on Session/WithContext handles; every FindInBatches call is stopped by the harness after rows+3 callbacks (violation 'does not terminate / repeats rows'). Grid D: chains carrying three orderings on which all rows tie (only First/Last/FindInBatches/Count are run there), fresh, on reusable handles and with reads inside the callback. evaluations = cases executed (a case = one read, or a pair of reads). A chain is non-trivial when its expected window is non-empty and smaller than the table (condition, limit or offset really cut something); distinct = distinct such chains", N, gridSizes, len(paths)),
		"samples":                                   ck.samples.List(),
		"exhaustive":                                exhaustive,
		"chains":                                    st.chains,
		"chains_enumerated":                         len(chains),
		"table_sizes":                               N + 1,
		"path_variants":                             len(paths),
		"distinct_outcomes":                         outcomes.Len(),
		"distinct_batch_shapes":                     shapes.Len(),
		"fib_calls":                                 st.fibCalls,
		"fib_multi_batch":                           st.fibMultiBatch,
		"fib_partial_last_batch":                    st.fibPartialLast,
		"fib_limit_cuts_mid_batch":                  st.fibLimitCuts,
		"fib_offset_beyond_end":                     st.fibOffsetBeyond,
		"fib_offset_inside":                         st.fibOffsetInside,
		"finder_found":                              st.finderFound,
		"finder_not_found":                          st.finderNotFound,
		"count_checked_against_find":                st.countChecked,
		"override_chains":                           st.overrideChains,
		"cancel_chains":                             st.cancelChains,
		"multi_row_path_checks":                     st.multiChecked,
		"single_record_dest_checks":                 st.singleChecked,
		"primitive_dest_checks":                     st.primChecked,
		"session_handle_cases":                      st.sessionCases,
		"context_handle_cases":                      st.ctxCases,
		"two_reads_same_handle_cases":               st.seqCases,
		"read_chained_on_return_value_cases":        st.chainCases,
		"count_then_page_cases":                     st.countThenPage,
		"fib_callback_read_cases":                   st.callbackCases,
		"or_chain_cases":                            st.orChainCases,
		"or_chain_fib_calls_needing_the_key_cursor": st.orFibCursor,
		"fib_callback_read_cases_multi_batch":       st.callbackMulti,
		"cursor_fault_states":                       ck.fst.states,
		"cursor_fault_transitions":                  ck.fst.transitions,
		"cursor_fault_ended_in_error":               ck.fst.erred,
		"cursor_fault_identical_result":             ck.fst.identical,
		"cursor_fault_truncating_and_reported":      ck.fst.truncating,
		"cursor_fault_points_inside_result_set":     ck.fst.midResult,
		"cursor_fault_points_in_later_queries":      ck.fst.multiQuery,
	})
}
