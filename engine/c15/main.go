// C15 — all read paths agree; batched reads visit every row exactly once in
// key order.
//
// Bounded-exhaustive enumeration (E3) of read chains
//
//	table size 0..N x condition x ordering x Limit/Offset call sequences
//
// each executed on real SQLite through every read path of gorm (Find into
// structs / pointers / arrays / maps / smaller structs, Rows+ScanRows, Scan,
// Pluck per column, primitive destinations, Count, First/Take/Last,
// FindInBatches x every batch size 1..N+1). The oracle is a reference model:
// the sorted in-memory copy of the table, filtered by the condition and cut by
// the effective limit/offset (later positive values override, negative values
// cancel). FindInBatches is additionally compared with what the real Find
// delivered for the same chain.
package main

import (
	"fmt"
	"os"
	"sort"
	"strings"
	"sync"
	"sync/atomic"
	"time"

	"verif/h"
	"verif/mc"
)

// Case is one (chain, path, batch size) execution — also the replay format.
type Case struct {
	Chain    Chain  `json:"chain"`
	Path     string `json:"path"`
	Batch    int    `json:"batch_size,omitempty"`
	Readable string `json:"readable,omitempty"`
}

func (c Case) String() string {
	s := c.Chain.String() + " :: " + c.Path
	if c.Batch > 0 {
		s += fmt.Sprintf(" batchSize=%d", c.Batch)
	}
	return s
}

// tags are computed from the input only.
func tags(c Case) []string {
	var t []string
	pi := pathIndex(c.Path)
	if pi < 0 {
		return nil
	}
	p := paths[pi]
	nl, no := 0, 0
	zeroLimit, negLimit, negOffset := false, false, false
	for _, o := range c.Chain.Ops {
		if o.K == "limit" {
			nl++
			if o.V == 0 {
				zeroLimit = true
			}
			if o.V < 0 {
				negLimit = true
			}
		} else {
			no++
			if o.V < 0 {
				negOffset = true
			}
		}
	}
	kind := []string{"multi", "single", "finder", "primitive", "count", "fib"}[p.Kind]
	if zeroLimit {
		t = append(t, kind+"+limit-zero")
	}
	if negLimit {
		t = append(t, kind+"+limit-negative")
	}
	if negOffset {
		t = append(t, kind+"+offset-negative")
	}
	if nl > 1 {
		t = append(t, kind+"+limit-override")
	}
	if no > 1 {
		t = append(t, kind+"+offset-override")
	}
	if p.Last && c.Chain.Order != 0 {
		t = append(t, "last+explicit-order")
	}
	if p.PadTo > 0 {
		t = append(t, "array-destination")
	}
	if p.PtrPrim {
		// input-side: the window the chain selects (by the reference model) holds a NULL
		for _, it := range c.Chain.expectFind() {
			if it.C == nil {
				t = append(t, "pluck-null-into-pointer-slice")
				break
			}
		}
	}
	return t
}

// ---------------------------------------------------------------------------
// enumeration

func seqInts(lo, hi int) []int {
	var out []int
	for i := lo; i <= hi; i++ {
		out = append(out, i)
	}
	return out
}

func singles(vals []int) [][]int {
	out := [][]int{{}}
	for _, v := range vals {
		out = append(out, []int{v})
	}
	return out
}

func pairs(as, bs []int) [][]int {
	var out [][]int
	for _, a := range as {
		for _, b := range bs {
			if a != b {
				out = append(out, []int{a, b})
			}
		}
	}
	return out
}

// layoutOps arranges Limit calls ls and Offset calls os.
// 0: limits then offsets; 1: offsets then limits; 2: alternating starting with
// a limit; 3: alternating starting with an offset.
func layoutOps(ls, os []int, layout int) []Op {
	var out []Op
	L := func(v int) { out = append(out, Op{"limit", v}) }
	O := func(v int) { out = append(out, Op{"offset", v}) }
	switch layout {
	case 0:
		for _, v := range ls {
			L(v)
		}
		for _, v := range os {
			O(v)
		}
	case 1:
		for _, v := range os {
			O(v)
		}
		for _, v := range ls {
			L(v)
		}
	default:
		i, j := 0, 0
		turnL := layout == 2
		for i < len(ls) || j < len(os) {
			if (turnL && i < len(ls)) || j >= len(os) {
				L(ls[i])
				i++
			} else {
				O(os[j])
				j++
			}
			turnL = !turnL
		}
	}
	return out
}

func opsKey(ops []Op) string {
	var sb strings.Builder
	for _, o := range ops {
		fmt.Fprintf(&sb, "%c%d.", o.K[0], o.V)
	}
	return sb.String()
}

type grid struct {
	name    string
	sizes   []int
	conds   []int
	orders  []int
	lo      [][2][]int // (limit calls, offset calls)
	layouts []int
}

func cross(ls, os [][]int) [][2][]int {
	var out [][2][]int
	for _, l := range ls {
		for _, o := range os {
			out = append(out, [2][]int{l, o})
		}
	}
	return out
}

func enumerate(tier string) (chains []Chain, lite []bool, N int, gridSizes map[string]int) {
	N = 7
	if tier == "thorough" {
		N = 12
	}
	var condsAll []int
	for i, cd := range conds {
		if !cd.Thorough || tier == "thorough" {
			condsAll = append(condsAll, i)
		}
	}
	limitVals := append(append([]int{0}, seqInts(1, N+1)...), -1) // single Limit values
	offsetVals := append(seqInts(0, N), -1)                       // single Offset values
	limitPairVals := append(seqInts(1, N+1), -1)                  // no 0 inside pairs
	offsetFirst := append(seqInts(0, N), -1)
	offsetSecond := append(seqInts(1, N), -1)
	lp := pairs(limitPairVals, limitPairVals)
	op := pairs(offsetFirst, offsetSecond)
	smallO := [][]int{{}, {0}, {2}, {-1}, {3, -1}, {1, 2}}
	smallL := [][]int{{}, {3}, {-1}, {2, 5}, {5, -1}}

	sizesB := []int{0, 3, 7}
	if tier == "thorough" {
		sizesB = []int{0, 2, 6, 12}
	}
	grids := []grid{
		// A: the complete grid size x condition x ordering x limit x offset
		{name: "A:single", sizes: seqInts(0, N), conds: condsAll, orders: []int{0, 1, 2},
			lo: cross(singles(limitVals), singles(offsetVals)), layouts: []int{0, 1}},
		// B: override / cancel pairs of one kind against a small set of the other kind
		{name: "B:pairs", sizes: sizesB, conds: []int{0, 3}, orders: []int{0, 1},
			lo: append(cross(lp, smallO), cross(smallL, op)...), layouts: []int{0, 1, 2, 3}},
	}
	if tier == "thorough" {
		// C: pairs of both kinds against each other
		grids = append(grids, grid{name: "C:pairs-x-pairs", sizes: []int{N}, conds: []int{0}, orders: []int{1},
			lo: cross(lp, op), layouts: []int{2}})
	}
	seen := map[string]bool{}
	gridSizes = map[string]int{}
	for _, g := range grids {
		for _, n := range g.sizes {
			for _, cd := range g.conds {
				for _, od := range g.orders {
					for _, lo := range g.lo {
						for _, lay := range g.layouts {
							ops := layoutOps(lo[0], lo[1], lay)
							k := fmt.Sprintf("%d|%d|%d|%s", n, cd, od, opsKey(ops))
							if seen[k] {
								continue
							}
							seen[k] = true
							chains = append(chains, Chain{N: n, Cond: cd, Order: od, Ops: ops})
							// grids B and C (override pairs) run FindInBatches into []Item only;
							// the []*Item destination is covered by the complete grid A
							lite = append(lite, !strings.HasPrefix(g.name, "A:"))
							gridSizes[g.name]++
						}
					}
				}
			}
		}
	}
	return
}

// ---------------------------------------------------------------------------
// workers

type worker struct {
	envs     map[int]*h.Env
	pristine map[int]string
	// local distinct-outcome sets, merged at the end
	outcomes map[string]struct{}
	shapes   map[string]struct{}
}

func newWorker() *worker {
	return &worker{envs: map[int]*h.Env{}, pristine: map[int]string{}, outcomes: map[string]struct{}{}, shapes: map[string]struct{}{}}
}

func (w *worker) env(n int) *h.Env {
	if e, ok := w.envs[n]; ok {
		return e
	}
	e := h.Open(nil)
	e.MustExec(schemaSQL)
	rows := tableRows(n)
	for _, i := range insertOrder(n) {
		it := rows[i]
		var c interface{}
		if it.C != nil {
			c = *it.C
		}
		e.MustExec("INSERT INTO items (id,a,b,c) VALUES (?,?,?,?)", it.ID, it.A, it.B, c)
	}
	w.envs[n] = e
	w.pristine[n] = e.Dump("items")
	return e
}

type stats struct {
	evaluations     int64
	chains          int64
	fibCalls        int64
	fibMultiBatch   int64 // >= 2 batches delivered
	fibPartialLast  int64 // last delivered batch smaller than the requested size
	fibLimitCuts    int64 // effective limit < rows available after offset and not a multiple of the batch size
	fibOffsetBeyond int64 // offset >= matching rows
	fibOffsetInside int64 // 0 < offset < matching rows
	finderFound     int64
	finderNotFound  int64
	countChecked    int64
	overrideChains  int64 // chains with >= 2 calls of one kind
	cancelChains    int64 // chains containing a negative value after a positive one
	multiChecked    int64
	singleChecked   int64
	primChecked     int64
}

type checker struct {
	run      *mc.Run
	st       stats
	distinct mc.Set // distinct non-trivial chains
	samples  *mc.Samples
	tier     string
	N        int
}

func (ck *checker) activePaths(c Chain) []int {
	var out []int
	for i, p := range paths {
		if p.Thorough && ck.tier != "thorough" {
			continue
		}
		if p.Inline && c.Cond == 0 {
			continue
		}
		if p.NoSchema && c.Order == 2 {
			continue
		}
		out = append(out, i)
	}
	return out
}

// referenceFind runs the real Find(&[]Item) with an explicit key ordering for
// the differential comparison of FindInBatches.
func referenceFind(e *h.Env, c Chain) ([]string, bool) {
	rc := c
	if rc.Order == 0 {
		rc.Order = 1
	}
	o, _, pm := runPath(e, paths[0], rc, 0, false)
	if pm != "" || o.err != nil {
		return nil, false
	}
	return o.rows, true
}

// evalOne runs one (chain, path, batch) and reports violations. It returns the
// observation for statistics.
func (ck *checker) evalOne(w *worker, e *h.Env, c Chain, ex *expect, p pathDef, batch int, ref []string, refOK bool) obs {
	// executed without driver recording; a failing case is executed a second
	// time with recording to show the statements (and to confirm determinism)
	o, _, panicMsg := runPath(e, p, c, batch, false)
	atomic.AddInt64(&ck.st.evaluations, 1)
	fails := verdict(p, c, ex, batch, o, ref, refOK)
	if panicMsg != "" {
		fails = []string{"panic or leak in a read path\n" + panicMsg}
	}
	if len(fails) > 0 {
		o2, events, panic2 := runPath(e, p, c, batch, true)
		cs := Case{Chain: c, Path: p.Name, Batch: batch}
		cs.Readable = cs.String()
		if describe(p, o2) != describe(p, o) || panic2 != panicMsg {
			ck.run.HarnessError("nondeterministic: %s gave %q then %q", cs.String(), describe(p, o)+panicMsg, describe(p, o2)+panic2)
		}
		for _, f := range fails {
			ck.run.Violation(tags(cs), fmt.Sprintf("%s\n%s\nobserved: %s\nstatements:\n  %s", f, cs.String(), describe(p, o), strings.Join(events, "\n  ")), cs)
		}
	}
	if w != nil {
		w.outcomes[describe(p, o)] = struct{}{}
	}
	return o
}

func (ck *checker) evalChain(w *worker, c Chain, lite bool) {
	e := w.env(c.N)
	st := &ck.st
	atomic.AddInt64(&st.chains, 1)
	ex := expectOf(c)
	window := ex.window
	matching := c.matching()
	limit, hasLimit, offset := c.effective()

	nl, no, cancel := 0, 0, false
	seenPos := map[string]bool{}
	for _, o := range c.Ops {
		if o.K == "limit" {
			nl++
		} else {
			no++
		}
		if o.V > 0 {
			seenPos[o.K] = true
		}
		if o.V < 0 && seenPos[o.K] {
			cancel = true
		}
	}
	if nl > 1 || no > 1 {
		atomic.AddInt64(&st.overrideChains, 1)
	}
	if cancel {
		atomic.AddInt64(&st.cancelChains, 1)
	}
	if len(window) > 0 && len(window) < c.N {
		if ck.distinct.Add(c.String()) {
			if ck.distinct.Len()%997 == 1 {
				ck.samples.Add(c.String() + " => ids " + ids(window))
			}
		}
	}

	ref, refOK := referenceFind(e, c)
	for _, pi := range ck.activePaths(c) {
		p := paths[pi]
		if lite && p.LiteSkip {
			continue
		}
		switch p.Kind {
		case kFIB:
			for b := 1; b <= ck.N+1; b++ {
				o := ck.evalOne(w, e, c, ex, p, b, ref, refOK)
				atomic.AddInt64(&st.fibCalls, 1)
				if len(o.batches) >= 2 {
					atomic.AddInt64(&st.fibMultiBatch, 1)
				}
				if k := len(o.batches); k > 0 && len(o.batches[k-1]) < b {
					atomic.AddInt64(&st.fibPartialLast, 1)
				}
				if hasLimit && limit > 0 && limit < len(matching)-offset && limit%b != 0 {
					atomic.AddInt64(&st.fibLimitCuts, 1)
				}
				if offset > 0 && offset >= len(matching) {
					atomic.AddInt64(&st.fibOffsetBeyond, 1)
				}
				if offset > 0 && offset < len(matching) {
					atomic.AddInt64(&st.fibOffsetInside, 1)
				}
				w.shapes[fmt.Sprint(batchShape(o.batches))] = struct{}{}
			}
		default:
			ck.evalOne(w, e, c, ex, p, 0, ref, refOK)
			switch p.Kind {
			case kFinder:
				if (p.Last && len(ex.last) == 0) || (!p.Last && len(ex.first) == 0) {
					atomic.AddInt64(&st.finderNotFound, 1)
				} else {
					atomic.AddInt64(&st.finderFound, 1)
				}
			case kCount:
				if !hasLimit && offset == 0 {
					atomic.AddInt64(&st.countChecked, 1)
				}
			case kMulti:
				atomic.AddInt64(&st.multiChecked, 1)
			case kSingle:
				atomic.AddInt64(&st.singleChecked, 1)
			case kPrim:
				atomic.AddInt64(&st.primChecked, 1)
			}
		}
	}
}

func main() {
	args := mc.ParseArgs()
	run := mc.NewRun("C15", args.Tier, "exploration")
	ck := &checker{run: run, samples: &mc.Samples{N: 8}, tier: args.Tier}

	if args.Replay != "" {
		var c Case
		if err := mc.LoadReplay(args.Replay, &c); err != nil {
			fmt.Fprintln(os.Stderr, err)
			os.Exit(3)
		}
		pi := pathIndex(c.Path)
		if pi < 0 {
			fmt.Fprintf(os.Stderr, "unknown path %q\n", c.Path)
			os.Exit(3)
		}
		ck.N = c.Chain.N
		w := newWorker()
		e := w.env(c.Chain.N)
		p := paths[pi]
		o, events, pm := runPath(e, p, c.Chain, c.Batch, true)
		ref, refOK := referenceFind(e, c.Chain)
		fmt.Printf("case: %s\ntable (key order): %s\nexpected window: %s\n", c.String(), show(rowKeys(tableRows(c.Chain.N))), show(rowKeys(c.Chain.expectFind())))
		if p.Kind == kFinder {
			fmt.Printf("expected record: %s\n", show(rowKeys(c.Chain.expectFinder(p.Last))))
		}
		if p.Kind == kFIB && refOK {
			fmt.Printf("Find with Order(pk): %s\n", show(ref))
		}
		fmt.Printf("observed: %s\npanic/leak: %q\nstatements:\n  %s\n", describe(p, o), pm, strings.Join(events, "\n  "))
		// judged directly (not through run.Violation) so that a case listed as a
		// known finding still shows that it violates
		fails := verdict(p, c.Chain, expectOf(c.Chain), c.Batch, o, ref, refOK)
		if pm != "" {
			fails = append(fails, "panic or leak in a read path\n"+pm)
		}
		for _, f := range fails {
			fmt.Printf("VIOLATES: %s\n", strings.ReplaceAll(f, "\n", "\n    "))
		}
		if len(fails) > 0 {
			fmt.Printf("input-side tags: %v\n", tags(c))
			os.Exit(1)
		}
		fmt.Println("no violation")
		return
	}

	chains, lite, N, gridSizes := enumerate(args.Tier)
	ck.N = N
	budget := 85 * time.Second
	if args.Tier == "thorough" {
		budget = 9 * time.Minute
	}
	deadline := run.Start.Add(budget)
	var timedOut int32

	outcomes := &mc.Set{}
	shapes := &mc.Set{}
	var mergeMu sync.Mutex
	nw := 16
	var wg sync.WaitGroup
	var next int64 = -1
	for i := 0; i < nw; i++ {
		wg.Add(1)
		go func() {
			defer wg.Done()
			w := newWorker()
			for {
				n := atomic.AddInt64(&next, 1)
				if int(n) >= len(chains) {
					break
				}
				if n%64 == 0 && time.Now().After(deadline) {
					atomic.StoreInt32(&timedOut, 1)
				}
				if atomic.LoadInt32(&timedOut) != 0 {
					break
				}
				ck.evalChain(w, chains[n], lite[n])
			}
			// the read paths must not have written anything
			var sizes []int
			for n := range w.envs {
				sizes = append(sizes, n)
			}
			sort.Ints(sizes)
			for _, n := range sizes {
				if d := w.envs[n].Dump("items"); d != w.pristine[n] {
					run.Violation([]string{"table-changed"}, fmt.Sprintf("a read path changed the table\nrows=%d\nbefore:\n%s\nafter:\n%s", n, w.pristine[n], d), Case{Chain: Chain{N: n}})
				}
				w.envs[n].Close()
			}
			mergeMu.Lock()
			for k := range w.outcomes {
				outcomes.Add(k)
			}
			for k := range w.shapes {
				shapes.Add(k)
			}
			mergeMu.Unlock()
		}()
	}
	wg.Wait()

	st := &ck.st
	exhaustive := timedOut == 0
	if run.NumViolations() == 0 && exhaustive {
		floor := func(name string, got, min int64) {
			if got < min {
				run.HarnessError("vacuous: %s = %d, floor %d", name, got, min)
			}
		}
		floor("fib_multi_batch", st.fibMultiBatch, 1000)
		floor("fib_partial_last_batch", st.fibPartialLast, 1000)
		floor("fib_limit_cuts_mid_batch", st.fibLimitCuts, 500)
		floor("fib_offset_beyond_end", st.fibOffsetBeyond, 100)
		floor("fib_offset_inside", st.fibOffsetInside, 1000)
		floor("finder_found", st.finderFound, 1000)
		floor("finder_not_found", st.finderNotFound, 500)
		floor("count_checked", st.countChecked, 50)
		floor("override_chains", st.overrideChains, 1000)
		floor("cancel_chains", st.cancelChains, 200)
		floor("distinct_outcomes", int64(outcomes.Len()), 200)
		floor("distinct_batch_shapes", int64(shapes.Len()), 20)
	}
	if !exhaustive {
		fmt.Printf("C15: internal deadline of %s reached after %d of %d chains; run is not exhaustive\n", budget, st.chains, len(chains))
	}

	run.Assume("SQLite dialect only (the SQLite dialector renders LIMIT/OFFSET itself; clause.Limit.Build is not exercised, clause.Limit.MergeClause is)")
	run.Assume("without ORDER BY SQLite returns the rows of a rowid table in key order (no secondary index exists); chains without ordering are therefore compared exactly, not as sets")
	run.Assume("single-record finders: the finisher's own Limit(1) overrides any earlier Limit of the chain (override rule), the chain's offset stays; Last after an explicit ascending key ordering follows the user's ordering (ORDER BY id, id DESC) — the 'highest key' clause is checked only for chains without ordering")
	run.Assume("primitive destinations (Pluck/Scan/Find into &int, &uint, &string) over several rows: only membership of the value in the window is checked (which row lands is not stated); exact when the window has <= 1 row")
	run.Assume("Count is compared with len(Find) only when the effective limit and offset are absent (incl. cancelled by a negative value); with a limit/offset it is executed but only errors/panics are judged")
	run.Assume("outside the alphabet: user orderings contradicting key order for FindInBatches; Limit(0)/Offset(0) as the later value of an override pair; FindInBatches into maps; Group/Distinct/Joins; callbacks returning errors")
	run.Finish(map[string]interface{}{
		"evaluations":                st.evaluations,
		"distinct_nontrivial":        ck.distinct.Len(),
		"rule":                       fmt.Sprintf("N=%d. chains = table size x condition x ordering x sequence of Limit/Offset calls, grids %v (A: every single Limit in {absent,0,1..N+1,-1} x every single Offset in {absent,0..N,-1} x both call orders x all sizes 0..N x all conditions x 3 orderings; B: every override/cancel pair of one kind x a small set of the other kind x 4 call layouts; C (thorough): limit pairs x offset pairs, alternating call layout). Every chain is executed through every read path (%d path variants) and FindInBatches with every batch size 1..N+1 into []Item and (grid A) []*Item; evaluations = (chain,path,batch) executions. A chain is non-trivial when its expected window is non-empty and smaller than the table (condition, limit or offset really cut something); distinct = distinct such chains", N, gridSizes, len(paths)),
		"samples":                    ck.samples.List(),
		"exhaustive":                 exhaustive,
		"chains":                     st.chains,
		"chains_enumerated":          len(chains),
		"table_sizes":                N + 1,
		"path_variants":              len(paths),
		"distinct_outcomes":          outcomes.Len(),
		"distinct_batch_shapes":      shapes.Len(),
		"fib_calls":                  st.fibCalls,
		"fib_multi_batch":            st.fibMultiBatch,
		"fib_partial_last_batch":     st.fibPartialLast,
		"fib_limit_cuts_mid_batch":   st.fibLimitCuts,
		"fib_offset_beyond_end":      st.fibOffsetBeyond,
		"fib_offset_inside":          st.fibOffsetInside,
		"finder_found":               st.finderFound,
		"finder_not_found":           st.finderNotFound,
		"count_checked_against_find": st.countChecked,
		"override_chains":            st.overrideChains,
		"cancel_chains":              st.cancelChains,
		"multi_row_path_checks":      st.multiChecked,
		"single_record_dest_checks":  st.singleChecked,
		"primitive_dest_checks":      st.primChecked,
	})
}
