// Package sched is the E2 controlled scheduler: managed goroutines run one at
// a time; every synchronisation operation of the instrumented gorm files (and
// every fake-driver call) is a scheduling point at which the E1 explorer
// chooses the next thread among those whose pending operation cannot block.
package sched

import (
	"fmt"
	"os"
	"runtime/debug"
	"strings"
	"time"
	"unsafe"

	"verif/mc"
)

// Operation codes: must match verifshim (see install.go) for 1..17.
const (
	OpLock = iota + 1
	OpUnlock
	OpRLock
	OpRUnlock
	OpMapLoad
	OpMapStore
	OpMapLoadOrStore
	OpMapDelete
	OpMapRange
	OpRecv
	OpSend
	OpClose
	OpWGAdd
	OpWGDone
	OpWGWait
	OpOnce
	OpOnceDone
	OpStart  // thread start
	OpPoint  // generic always-enabled point (driver calls, harness points)
	OpJoin   // wait for threads
	OpPoolGet // sync.Pool.Get (always enabled)
	OpPoolPut // sync.Pool.Put (always enabled)
)

var opNames = map[int]string{
	OpLock: "Lock", OpUnlock: "Unlock", OpRLock: "RLock", OpRUnlock: "RUnlock",
	OpMapLoad: "Map.Load", OpMapStore: "Map.Store", OpMapLoadOrStore: "Map.LoadOrStore", OpMapDelete: "Map.Delete", OpMapRange: "Map.Range",
	OpRecv: "Recv", OpSend: "Send", OpClose: "Close", OpWGAdd: "WG.Add", OpWGDone: "WG.Done", OpWGWait: "WG.Wait",
	OpOnce: "Once.Do", OpOnceDone: "Once.done", OpStart: "start", OpPoint: "point", OpJoin: "join", OpPoolGet: "Pool.Get", OpPoolPut: "Pool.Put",
}

type pendingOp struct {
	kind  int
	obj   unsafe.Pointer
	arg   int
	label string
}

type Thread struct {
	ID      int
	Name    string
	Parent  int
	ho      threadHandoff
	pending pendingOp
	done    bool
	fn      func()
	Panic   interface{}
	Stack   string
	// per-thread scratch for drivers (e.g. "current logical call is on a bad connection")
	Local map[string]interface{}
}

type objEntry struct {
	p unsafe.Pointer
	o *objState
}

type objState struct {
	id      int
	writer  bool
	readers int
	closed  bool
	wg      int
	onceBy  *Thread
	onceDone bool
}

// Step is one entry of the point log.
type Step struct {
	Thread int
	Op     int
	Obj    int
	Label  string
	Arg    int // map operations: id of the key (verifshim.KeyID)
}

func (s Step) String() string {
	n := opNames[s.Op]
	if s.Label != "" {
		n += ":" + s.Label
	}
	if s.Obj > 0 {
		n += fmt.Sprintf("#%d", s.Obj)
	}
	if s.Arg != 0 {
		n += fmt.Sprintf("(k%d)", s.Arg)
	}
	return fmt.Sprintf("T%d %s", s.Thread, n)
}

type Exec struct {
	X        *mc.Exec
	Threads  []*Thread
	cur      *Thread
	ho       execHandoff
	objs     []objEntry
	Log      []Step
	Deadlock bool
	Overrun  bool
	Horizon  int
	aborting bool
	Preemptions int
	BlockedDesc string
	// non-vacuity observations
	SawBlocked     [32]bool // some thread was disabled with this pending op kind
	SpawnedBlocked bool         // a goroutine spawned by the code under test had to wait on a channel
	// ObjLabel lets the harness name objects (by pointer) for readable logs.
	KeepLog bool
}

type abortSentinel struct{}

var active *Exec

// Active returns the running execution (nil outside of Run).
//go:norace
func Active() *Exec { return active }

// Cur returns the thread that holds the turn.
//go:norace
func (e *Exec) Cur() *Thread { return e.cur }

//go:norace
func (e *Exec) obj(p unsafe.Pointer) *objState {
	if p == nil {
		return nil
	}
	for i := range e.objs {
		if e.objs[i].p == p {
			return e.objs[i].o
		}
	}
	o := &objState{id: len(e.objs) + 1}
	e.objs = append(e.objs, objEntry{p, o})
	return o
}

//go:norace
func (e *Exec) enabled(t *Thread) bool {
	if t.done {
		return false
	}
	p := t.pending
	o := e.obj(p.obj)
	switch p.kind {
	case OpLock:
		return !o.writer && o.readers == 0
	case OpRLock:
		return !o.writer
	case OpRecv:
		return o.closed
	case OpSend:
		return false // unbuffered sends are not modelled: nobody in gorm sends
	case OpWGWait:
		return o.wg == 0
	case OpOnce:
		return o.onceBy == nil || o.onceBy == t
	}
	return true
}

//go:norace
func (e *Exec) grant(t *Thread) {
	p := t.pending
	o := e.obj(p.obj)
	switch p.kind {
	case OpLock:
		o.writer = true
	case OpRLock:
		o.readers++
	case OpOnce:
		if !o.onceDone {
			o.onceBy = t
		}
	}
}

// release-type operations update the model without yielding.
//go:norace
func (e *Exec) release(kind int, obj unsafe.Pointer, arg int) bool {
	o := e.obj(obj)
	switch kind {
	case OpUnlock:
		o.writer = false
	case OpRUnlock:
		o.readers--
	case OpClose:
		o.closed = true
	case OpWGAdd:
		o.wg += arg
	case OpWGDone:
		o.wg--
	case OpOnceDone:
		o.onceDone = true
		o.onceBy = nil
	default:
		return false
	}
	if e.KeepLog {
		e.Log = append(e.Log, Step{Thread: e.cur.ID, Op: kind, Obj: o.id})
	}
	return true
}

// hook is installed into verifshim.Hook.
//go:norace
func hook(kind int, obj unsafe.Pointer, arg int) {
	e := active
	if e == nil || e.aborting || e.cur == nil {
		return
	}
	if e.release(kind, obj, arg) {
		// the release already happened for real; yield so that other threads
		// can run before this thread's next (possibly long, uninstrumented) step
		e.yield(pendingOp{kind: OpPoint, label: "after-" + opNames[kind]})
		return
	}
	e.yield(pendingOp{kind: kind, obj: obj, arg: arg})
}

// hookGo is installed into verifshim.HookGo.
//go:norace
func hookGo(f func()) {
	e := active
	if e == nil || e.aborting || e.cur == nil {
		go f()
		return
	}
	e.spawn(f, fmt.Sprintf("%s/go%d", e.cur.Name, len(e.Threads)), e.cur.ID)
}

//go:norace
func (e *Exec) spawn(f func(), name string, parent int) *Thread {
	t := &Thread{ID: len(e.Threads), Name: name, Parent: parent, fn: f, pending: pendingOp{kind: OpStart}, Local: map[string]interface{}{}}
	e.initThread(t)
	e.Threads = append(e.Threads, t)
	go func() {
		e.waitTurn(t)
		defer func() {
			if r := recover(); r != nil {
				if _, ok := r.(abortSentinel); !ok {
					t.Panic = r
					t.Stack = string(debug.Stack())
				}
			}
			t.done = true
			e.arrive(t)
		}()
		if e.aborting {
			return
		}
		t.fn()
	}()
	return t
}

//go:norace
func (e *Exec) yield(p pendingOp) {
	t := e.cur
	t.pending = p
	e.arrive(t)
	e.waitTurn(t)
	if e.aborting {
		panic(abortSentinel{})
	}
}

// Point is a generic, always enabled scheduling point (fake driver, harness).
//go:norace
func Point(label string) {
	e := active
	if e == nil || e.aborting || e.cur == nil {
		return
	}
	e.yield(pendingOp{kind: OpPoint, label: label})
}

// Choose asks the explorer for an environment answer (fault choice); 0 outside of Run.
//go:norace
func Choose(n int, label string, cost int) int {
	e := active
	if e == nil || e.aborting {
		return 0
	}
	return e.X.Choose(n, "env:"+label, cost)
}

// CurThread returns the running managed thread or nil.
//go:norace
func CurThread() *Thread {
	if e := active; e != nil {
		return e.cur
	}
	return nil
}

// LogLen returns the number of steps logged so far in the running execution.
//go:norace
func LogLen() int {
	if e := active; e != nil {
		return len(e.Log)
	}
	return 0
}

const watchdog = 60 * time.Second

func (e *Exec) stuck() {
	fmt.Fprintf(os.Stderr, "HARNESS-ERROR: a managed thread blocked outside the scheduler for %v (uninstrumented blocking operation?)\nlast steps: %v\n", watchdog, e.tail(20))
	os.Exit(3)
}

func (e *Exec) tail(n int) []string {
	var out []string
	s := e.Log
	if len(s) > n {
		s = s[len(s)-n:]
	}
	for _, st := range s {
		out = append(out, st.String())
	}
	return out
}

// Run executes the given thread bodies under the scheduler, driven by x.
func Run(x *mc.Exec, horizon int, keepLog bool, bodies ...func()) *Exec {
	return RunAfter(nil, x, horizon, keepLog, bodies...)
}

// RunAfter is Run for a later phase of the same execution: the model of the
// synchronisation objects (closed channels, held locks) is carried over.
//go:norace
func RunAfter(prev *Exec, x *mc.Exec, horizon int, keepLog bool, bodies ...func()) *Exec {
	if active != nil {
		panic("sched: nested Run")
	}
	e := &Exec{X: x, ho: newExecHandoff(), Horizon: horizon, KeepLog: keepLog}
	if prev != nil {
		e.objs = prev.objs
	}
	for i, b := range bodies {
		e.spawn(b, fmt.Sprintf("T%d", i), -1)
	}
	install()
	active = e
	defer func() { active = nil }()
	steps := 0
	for {
		var en []*Thread
		allDone := true
		curEnabled := false
		if e.cur != nil && e.enabled(e.cur) {
			en = append(en, e.cur)
			curEnabled = true
		}
		for _, t := range e.Threads {
			if !t.done {
				allDone = false
			}
			if t != e.cur && e.enabled(t) {
				en = append(en, t)
			} else if !t.done && !e.enabled(t) {
				e.SawBlocked[t.pending.kind] = true
				if t.Parent >= 0 && t.pending.kind == OpRecv {
					e.SpawnedBlocked = true
				}
			}
		}
		if allDone {
			break
		}
		if len(en) == 0 {
			e.Deadlock = true
			e.BlockedDesc = e.Blocked()
			e.abort()
			break
		}
		steps++
		if horizon > 0 && steps > horizon {
			e.Overrun = true
			e.abort()
			break
		}
		c := 0
		if len(en) > 1 {
			cost := 0
			if curEnabled {
				cost = 1
			}
			c = x.Choose(len(en), "sched", cost)
			if c != 0 && curEnabled {
				e.Preemptions++
			}
		}
		t := en[c]
		e.grant(t)
		if e.KeepLog {
			id := 0
			if o := e.obj(t.pending.obj); o != nil {
				id = o.id
			}
			e.Log = append(e.Log, Step{Thread: t.ID, Op: t.pending.kind, Obj: id, Label: t.pending.label, Arg: t.pending.arg})
		}
		e.cur = t
		e.giveTurn(t)
		e.waitArrived()
	}
	e.cur = nil
	return e
}

// abort unwinds every parked thread (panic with a sentinel recovered at the
// thread root; deferred unlocks of the code under test run with hooks off).
//go:norace
func (e *Exec) abort() {
	e.aborting = true
	for _, t := range e.Threads {
		if !t.done {
			e.cur = t
			e.giveTurn(t)
			e.waitArrived()
		}
	}
	e.cur = nil
}

// Blocked describes the blocked threads of a deadlocked execution.
//go:norace
func (e *Exec) Blocked() string {
	var out []string
	for _, t := range e.Threads {
		if !t.done {
			id := 0
			if o := e.obj(t.pending.obj); o != nil {
				id = o.id
			}
			out = append(out, fmt.Sprintf("%s blocked at %s", t.Name, Step{Thread: t.ID, Op: t.pending.kind, Obj: id, Label: t.pending.label}))
		}
	}
	return strings.Join(out, "; ")
}

// LogStrings renders the point log.
func (e *Exec) LogStrings() []string {
	out := make([]string, len(e.Log))
	for i, s := range e.Log {
		out[i] = s.String()
	}
	return out
}
