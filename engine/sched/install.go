//go:build verifsched

package sched

import "gorm.io/gorm/verifshim"

// install wires the scheduler into the instrumented gorm build.
func install() {
	verifshim.Hook = hook
	verifshim.HookGo = hookGo
}

// Instrumented reports whether this binary was built with the overlay.
const Instrumented = true

// operation codes of shim and scheduler must agree
var _ = [1]int{}[verifshim.OpOnceDone-OpOnceDone]
var _ = [1]int{}[verifshim.OpLock-OpLock]
var _ = [1]int{}[verifshim.OpPoolGet-OpPoolGet]
var _ = [1]int{}[verifshim.OpPoolPut-OpPoolPut]
