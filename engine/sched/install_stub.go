//go:build !verifsched

package sched

func install() {}

const Instrumented = false
