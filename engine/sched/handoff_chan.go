//go:build !race

package sched

import "time"

// Channel hand-off (normal build): fast, but every hand-off is a
// happens-before edge, so this build cannot be used for race detection.

type threadHandoff struct{ wake chan struct{} }
type execHandoff struct{ arrived chan struct{} }

func newExecHandoff() execHandoff { return execHandoff{arrived: make(chan struct{})} }

func (e *Exec) waitTurn(t *Thread) {
	<-t.ho.wakeChan()
}

func (h *threadHandoff) wakeChan() chan struct{} {
	return h.wake
}

func (e *Exec) initThread(t *Thread) { t.ho.wake = make(chan struct{}) }

func (e *Exec) arrive(t *Thread) { e.ho.arrived <- struct{}{} }

func (e *Exec) giveTurn(t *Thread) { t.ho.wake <- struct{}{} }

func (e *Exec) waitArrived() {
	select {
	case <-e.ho.arrived:
	case <-time.After(watchdog):
		e.stuck()
	}
}

// RaceBuild reports whether hand-offs are invisible to the race detector.
const RaceBuild = false
