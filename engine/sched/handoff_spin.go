//go:build race

package sched

import (
	"runtime"
	"time"
)

// Spin hand-off (race build): the turn is a plain word read and written only
// inside //go:norace functions, so ThreadSanitizer sees no synchronisation
// between managed threads except what the code under test performs itself.
// Exactly one goroutine (a managed thread or the scheduler) owns the turn.

type threadHandoff struct{ id int32 }
type execHandoff struct {
	turn    int32 // 0 = scheduler, n = thread with ho.id n
	nextID  int32
}

func newExecHandoff() execHandoff { return execHandoff{} }

//go:norace
func (e *Exec) initThread(t *Thread) {
	e.ho.nextID++
	t.ho.id = e.ho.nextID
}

//go:norace
func (e *Exec) waitTurn(t *Thread) {
	for e.ho.turn != t.ho.id {
		runtime.Gosched()
	}
}

//go:norace
func (e *Exec) arrive(t *Thread) { e.ho.turn = 0 }

//go:norace
func (e *Exec) giveTurn(t *Thread) { e.ho.turn = t.ho.id }

//go:norace
func (e *Exec) waitArrived() {
	start := time.Now()
	n := 0
	for e.ho.turn != 0 {
		runtime.Gosched()
		n++
		if n%100000 == 0 && time.Since(start) > watchdog {
			e.stuck()
		}
	}
}

const RaceBuild = true
