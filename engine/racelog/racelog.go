
package racelog

import (
	"bufio"
	"fmt"
	"os"
	"regexp"
	"runtime"
	"sort"
	"strconv"
	"strings"
)

// raceLog reads the ThreadSanitizer report file of this process incrementally
// (GORACE=log_path=<p> writes to <p>.<pid>) so that each report is attributed to
// the execution during which it was printed.
type Log struct {
	// Transparent lists path fragments of harness files whose frames are callbacks
	// invoked BY gorm (model methods, custom serializers): they are skipped when
	// looking for the gorm statement that performs an access.
	Transparent []string
	path string
	off  int64
	repo string
	src  map[string][]string
}

func New(prefix string) *Log {
	repo := os.Getenv("VERIF_REPO_DIR")
	if repo == "" {
		repo = "/repo"
	}
	return &Log{path: fmt.Sprintf("%s.%d", prefix, os.Getpid()), repo: repo, src: map[string][]string{}}
}

type Report struct {
	Text   string
	stacks [][]frame // the two access stacks
	rl     *Log
}

type frame struct {
	fn   string
	file string
	line int
}

var frameFile = regexp.MustCompile(`^\s+(/\S+):(\d+)`)

func (r *Log) Drain() []Report {
	f, err := os.Open(r.path)
	if err != nil {
		return nil
	}
	defer f.Close()
	st, _ := f.Stat()
	if st.Size() <= r.off {
		return nil
	}
	f.Seek(r.off, 0)
	buf := make([]byte, st.Size()-r.off)
	n, _ := f.Read(buf)
	r.off += int64(n)
	var out []Report
	for _, chunk := range strings.Split(string(buf[:n]), "==================") {
		if !strings.Contains(chunk, "WARNING: DATA RACE") {
			continue
		}
		rep := Report{Text: strings.TrimSpace(chunk), rl: r}
		// sections are separated by blank lines; the first two are the accesses
		secs := strings.Split(strings.TrimSpace(chunk), "\n\n")
		for _, sec := range secs {
			head := strings.TrimSpace(strings.SplitN(sec, "\n", 2)[0])
			if !(strings.Contains(head, " at 0x") && strings.Contains(head, "by ")) {
				if !strings.HasPrefix(head, "WARNING") {
					continue
				}
			}
			var fr []frame
			sc := bufio.NewScanner(strings.NewReader(sec))
			var lastFn string
			for sc.Scan() {
				l := sc.Text()
				if m := frameFile.FindStringSubmatch(l); m != nil {
					ln, _ := strconv.Atoi(m[2])
					fr = append(fr, frame{fn: lastFn, file: m[1], line: ln})
				} else if strings.HasPrefix(l, "  ") && strings.HasSuffix(strings.TrimSpace(l), ")") {
					lastFn = strings.TrimSpace(l)
					if i := strings.LastIndex(lastFn, "("); i > 0 {
						lastFn = lastFn[:i]
					}
				}
			}
			if len(fr) > 0 && len(rep.stacks) < 2 {
				rep.stacks = append(rep.stacks, fr)
			}
		}
		out = append(out, rep)
	}
	return out
}

func (r *Log) sourceLine(file string, line int) string {
	ls, ok := r.src[file]
	if !ok {
		b, err := os.ReadFile(file)
		if err == nil {
			ls = strings.Split(string(b), "\n")
		}
		r.src[file] = ls
	}
	if line >= 1 && line <= len(ls) {
		return strings.Join(strings.Fields(ls[line-1]), " ")
	}
	return fmt.Sprintf("line %d", line)
}

// site returns the first frame of a stack that is neither Go runtime/stdlib nor
// instrumentation shim; ok=false when that frame is not gorm code (harness,
// scheduler, driver): such reports are not about gorm's own synchronisation.
func (rep Report) site(st []frame) (string, bool) {
	goroot := runtime.GOROOT() + "/"
	for _, f := range st {
		if strings.HasPrefix(f.file, goroot) || strings.Contains(f.file, "/go/src/") || strings.Contains(f.file, "/lib/go-") || strings.Contains(f.file, "/verifshim/") || strings.HasSuffix(f.file, "verifshim.go") {
			continue
		}
		transparent := false
		for _, t := range rep.rl.Transparent {
			if strings.Contains(f.file, t) {
				transparent = true
			}
		}
		if transparent {
			continue
		}
		if strings.HasPrefix(f.file, rep.rl.repo+"/") {
			fn := f.fn
			if i := strings.LastIndex(fn, "/"); i >= 0 {
				fn = fn[i+1:]
			}
			return fmt.Sprintf("%s «%s»", fn, rep.rl.sourceLine(f.file, f.line)), true
		}
		return "", false
	}
	return "", false
}

// pair is the normalised, unordered pair of the two racing gorm statements.
func (rep Report) Pair() (string, bool) {
	if len(rep.stacks) < 2 {
		return "", false
	}
	a, ok1 := rep.site(rep.stacks[0])
	b, ok2 := rep.site(rep.stacks[1])
	if !ok1 || !ok2 {
		return "", false
	}
	p := []string{a, b}
	sort.Strings(p)
	return p[0] + " <-> " + p[1], true
}
