package main

import (
	"fmt"
	"sort"

	"gorm.io/gorm"

	cg "verif/condgram"
	"verif/mc"
)

// Conditions added through Scopes on a reusable handle: a Session handle that
// already carries N scopes (added one call at a time), two chains derived from
// it that each add one more condition scope, executed in either order. Each
// chain must select exactly the rows of ITS OWN condition (the N carried
// scopes are always true) - whatever the spare capacity of the handle's scope
// slice is.

type ScopeCase struct {
	N        int    `json:"carried_scopes"`
	Order    string `json:"order"` // "12": first derived chain executed first, "21": second first
	Fin      string `json:"finisher"`
	Derived  int    `json:"derived_chains"` // 2 or 3
	Readable string `json:"readable,omitempty"`
}

func (c ScopeCase) String() string {
	return fmt.Sprintf("h := db.Model(&T{}) + %d x Scopes(id <> 100+i) ; h = h.Session(&Session{}); %d chains h.Scopes(Where(cond_k)) derived in order, executed in order %s with %s", c.N, c.Derived, c.Order, c.Fin)
}

var scopeConds = []struct {
	sql  string
	tree *cg.Node
}{
	{"a = 1", cg.Atom("a", "=", 1)},
	{"b = 2", cg.Atom("b", "=", 2)},
	{"s = 'x'", cg.Atom("s", "=", "x")},
}

func (w *worker) runScopes(c ScopeCase) (got [][]int, err error, panicMsg string) {
	defer func() {
		if r := recover(); r != nil {
			panicMsg = fmt.Sprint(r)
		}
	}()
	h := w.e.DB.Model(&T{})
	for i := 0; i < c.N; i++ {
		i := i
		h = h.Scopes(func(d *gorm.DB) *gorm.DB { return d.Where("id <> ?", 100+i) })
	}
	h = h.Session(&gorm.Session{})
	derived := make([]*gorm.DB, c.Derived)
	for k := 0; k < c.Derived; k++ {
		k := k
		derived[k] = h.Scopes(func(d *gorm.DB) *gorm.DB { return d.Where(scopeConds[k].sql) })
	}
	got = make([][]int, c.Derived)
	order := make([]int, c.Derived)
	for k := range order {
		order[k] = k
	}
	if c.Order == "21" {
		for i, j := 0, len(order)-1; i < j; i, j = i+1, j-1 {
			order[i], order[j] = order[j], order[i]
		}
	}
	for _, k := range order {
		if c.Fin == "Count" {
			var n int64
			if e := derived[k].Count(&n).Error; e != nil {
				return got, e, ""
			}
			got[k] = []int{int(n)}
		} else {
			var rows []T
			if e := derived[k].Find(&rows).Error; e != nil {
				return got, e, ""
			}
			for _, r := range rows {
				got[k] = append(got[k], r.ID)
			}
			sort.Ints(got[k])
		}
	}
	return got, nil, ""
}

func checkScopes(run *mc.Run, w *worker, c ScopeCase) bool {
	got, err, p := w.runScopes(c)
	for k := 0; k < c.Derived; k++ {
		want := cg.Select(scopeConds[k].tree, table)
		if c.Fin == "Count" {
			want = []int{len(want)}
		}
		if p != "" || err != nil || cg.IDs(got[k]) != cg.IDs(want) {
			c.Readable = c.String()
			run.Violation(nil, fmt.Sprintf("Scopes on a reused handle: a derived chain does not select the rows of its own condition\n%s\nchain %d (%s): expected %s, observed %s err=%v panic=%q",
				c.String(), k+1, scopeConds[k].sql, cg.IDs(want), cg.IDs(got[k]), err, p), map[string]interface{}{"scopes": c})
			return false
		}
	}
	return true
}

func exploreScopes(run *mc.Run) (cases int) {
	w := newWorker()
	for n := 0; n <= 9; n++ {
		for _, order := range []string{"12", "21"} {
			for _, fin := range []string{"Find", "Count"} {
				for _, d := range []int{2, 3} {
					checkScopes(run, w, ScopeCase{N: n, Order: order, Fin: fin, Derived: d})
					cases++
				}
			}
		}
	}
	return
}
