// C02 — chained conditions select exactly the rows of their logical combination.
//
// Bounded-exhaustive enumeration (E3) of chains of Where/Or/Not calls over a
// catalogue of condition units in every gorm rendering (verif/condgram), plus
// inline finisher conditions and the primary key of the model value, executed
// with Find / Count / Update / Delete on SQLite. Oracle: reference evaluation
// of the chain's logical meaning under SQL three-valued logic over an
// in-memory copy of the table, compared as id sets. No SQL text is inspected.
package main

import (
	"context"
	"database/sql"
	"fmt"
	"os"
	"sort"
	"strings"
	"sync"
	"sync/atomic"
	"time"

	"gorm.io/gorm"

	cg "verif/condgram"
	"verif/h"
	"verif/mc"
)

// T is the model under test; table ts holds all 27 combinations of
// a,b in {1,2,NULL} x s in {'x','y',NULL}; m is the update marker.
type T struct {
	ID int
	A  *int
	B  *int
	S  *string
	M  int
}

const (
	fFind = iota
	fCount
	fUpdate
	fDelete
)

var finName = []string{"Find", "Count", "Update", "Delete"}

// Case is one enumerated program (also the replay format).
type Case struct {
	Chain  []cg.Call `json:"chain"`
	Inline int       `json:"inline"` // unit index of the inline finisher condition, -1 = none
	PK     int       `json:"pk"`     // 0 none; k>0: model value carries primary key k; -1: Delete(&[]T{{1},{14}})
	Fin    int       `json:"finisher"`
	// for humans and for detecting catalogue drift on replay
	Labels   []string `json:"unit_labels,omitempty"`
	Readable string   `json:"readable,omitempty"`
}

var units []*cg.Unit
var table = cg.Rows27()

func modelStruct(a, b *int, s *string) interface{} { return &T{A: a, B: b, S: s} }

func (c Case) String() string {
	var sb strings.Builder
	sb.WriteString("db")
	if c.Fin == fCount || c.Fin == fUpdate {
		if c.PK > 0 {
			fmt.Fprintf(&sb, ".Model(&T{ID:%d})", c.PK)
		} else {
			sb.WriteString(".Model(&T{})")
		}
	}
	if len(c.Chain) > 0 {
		sb.WriteString("." + cg.ChainString(c.Chain, units))
	}
	in := ""
	if c.Inline >= 0 {
		in = ", " + units[c.Inline].Label
	}
	switch c.Fin {
	case fFind:
		if c.PK > 0 {
			fmt.Fprintf(&sb, `.Order("id").Find(&T{ID:%d}%s)`, c.PK, in)
		} else {
			fmt.Fprintf(&sb, ".Find(&[]T{}%s)", in)
		}
	case fCount:
		sb.WriteString(".Count(&n)")
	case fUpdate:
		sb.WriteString(`.Update("m",7)`)
	case fDelete:
		switch {
		case c.PK > 0:
			fmt.Fprintf(&sb, ".Delete(&T{ID:%d}%s)", c.PK, in)
		case c.PK == -1:
			fmt.Fprintf(&sb, ".Delete(&[]T{{ID:1},{ID:14}}%s)", in)
		default:
			fmt.Fprintf(&sb, ".Delete(&T{}%s)", in)
		}
	}
	return sb.String()
}

func (c Case) key() string {
	return fmt.Sprintf("%v|%d|%d|%d", c.Chain, c.Inline, c.PK, c.Fin)
}

// ---------------------------------------------------------------- reference

type refResult struct {
	defined   bool // inside the property's quantifier
	noCond    bool // the program carries no effective condition
	tree      *cg.Node
	want      []int
	sensitive bool // reference differs from an "other precedence" reading
}

func pkNode(pk int) *cg.Node {
	switch {
	case pk > 0:
		return cg.Atom("id", "=", pk)
	case pk == -1:
		return cg.Atom("id", "in", []int{1, 14})
	}
	return nil
}

func reference(c Case) refResult {
	var extra []*cg.Node
	if c.Inline >= 0 {
		extra = append(extra, units[c.Inline].Tree)
	}
	extra = append(extra, pkNode(c.PK))
	ts, ok := cg.Terms(c.Chain, units, extra...)
	if !ok || cg.LeadingOr(c.Chain, units) {
		return refResult{}
	}
	r := refResult{defined: true}
	r.tree = cg.Combine(ts)
	r.noCond = r.tree == nil
	r.want = cg.Select(r.tree, table)
	w := cg.IDs(r.want)
	if cg.IDs(cg.Select(cg.FoldLeft(ts), table)) != w || cg.IDs(cg.Select(cg.Flattened(c.Chain, units, extra...), table)) != w {
		r.sensitive = true
	}
	return r
}

// ------------------------------------------------------------------ execution

type worker struct {
	e *h.Env
}

func seed(e *h.Env) {
	e.MustExec("DELETE FROM ts")
	for _, r := range table {
		e.MustExec("INSERT INTO ts (id,a,b,s,m) VALUES (?,?,?,?,0)", r.ID, r.A, r.B, r.S)
	}
}

func newWorker() *worker {
	e := h.Open(nil)
	e.Rec.Pause() // this harness never looks at statements
	e.MustExec("CREATE TABLE ts (id integer primary key, a integer, b integer, s text, m integer not null default 0)")
	seed(e)
	return &worker{e: e}
}

type outcome struct {
	got      []int
	rows     int64
	err      error
	panicMsg string
	note     string
}

type queryer interface {
	QueryContext(ctx context.Context, query string, args ...interface{}) (*sql.Rows, error)
}

// readMarks returns (ids present, ids with m<>0) through q, bypassing gorm.
func readMarks(q queryer) (present, marked []int, err error) {
	rows, err := q.QueryContext(context.Background(), "SELECT id, m FROM ts ORDER BY id")
	if err != nil {
		return nil, nil, err
	}
	defer rows.Close()
	for rows.Next() {
		var id, m int
		if err := rows.Scan(&id, &m); err != nil {
			return nil, nil, err
		}
		present = append(present, id)
		if m != 0 {
			marked = append(marked, id)
		}
	}
	return present, marked, rows.Err()
}

func (w *worker) exec(c Case) (o outcome) {
	e := w.e
	var inline []interface{}
	if c.Inline >= 0 {
		inline = units[c.Inline].Args(e.DB)
	}
	apply := func(db *gorm.DB) *gorm.DB {
		for _, call := range c.Chain {
			db = cg.Apply(db, e.DB, call, units)
		}
		return db
	}
	defer func() {
		if r := recover(); r != nil {
			o.panicMsg = fmt.Sprint(r)
		}
	}()
	switch c.Fin {
	case fFind:
		if c.PK > 0 {
			dest := &T{ID: c.PK}
			tx := apply(e.DB).Order("id").Find(dest, inline...)
			o.err, o.rows = tx.Error, tx.RowsAffected
			if tx.RowsAffected > 0 {
				o.got = []int{dest.ID}
			}
		} else {
			var dest []T
			tx := apply(e.DB).Find(&dest, inline...)
			o.err, o.rows = tx.Error, tx.RowsAffected
			for _, r := range dest {
				o.got = append(o.got, r.ID)
			}
			sort.Ints(o.got)
		}
	case fCount:
		var n int64
		tx := apply(e.DB.Model(&T{})).Count(&n)
		o.err, o.rows = tx.Error, n
	case fUpdate, fDelete:
		tx := e.DB.Begin()
		if tx.Error != nil {
			o.err = tx.Error
			return
		}
		func() {
			defer func() {
				if r := recover(); r != nil {
					o.panicMsg = fmt.Sprint(r)
				}
				tx.Rollback()
			}()
			var res *gorm.DB
			if c.Fin == fUpdate {
				res = apply(tx.Model(&T{ID: maxInt(c.PK, 0)})).Update("m", 7)
			} else {
				var val interface{} = &T{ID: maxInt(c.PK, 0)}
				if c.PK == -1 {
					val = &[]T{{ID: 1}, {ID: 14}}
				}
				res = apply(tx).Delete(val, inline...)
			}
			o.err, o.rows = res.Error, res.RowsAffected
			q, ok := tx.Statement.ConnPool.(queryer)
			if !ok {
				o.note = "transaction pool is not queryable"
				return
			}
			present, marked, err := readMarks(q)
			if err != nil {
				o.note = "reading back failed: " + err.Error()
				return
			}
			if c.Fin == fUpdate {
				o.got = marked
				if len(present) != len(table) {
					o.note = fmt.Sprintf("Update removed rows: %d present", len(present))
				}
			} else {
				in := map[int]bool{}
				for _, id := range present {
					in[id] = true
				}
				for _, r := range table {
					if !in[r.ID] {
						o.got = append(o.got, r.ID)
					}
				}
				if len(marked) != 0 {
					o.note = "Delete changed the marker column"
				}
			}
		}()
		// the rollback must have restored the table
		present, marked, err := readMarks(e.SQL)
		if err != nil || len(present) != len(table) || len(marked) != 0 {
			seed(e)
			o.note += fmt.Sprintf(" [table not restored after rollback: present=%d marked=%d err=%v; re-seeded]", len(present), len(marked), err)
		}
	}
	return
}

func maxInt(a, b int) int {
	if a > b {
		return a
	}
	return b
}

// ---------------------------------------------------------------------- check

type stats struct {
	evaluations, skippedUndefined, skippedNoCond int64
	chainsSensitive, chainsTotal                 int64
	byFin                                        [4]int64
	withInline, withPK, threeCalls               int64
	oddCases                                     int64
}

type sinks struct {
	run      *mc.Run
	st       *stats
	nontriv  *mc.Set
	outcomes *mc.Set
	samples  *mc.Samples
	classes  *mc.Set
	verbose  bool
}

func check(s *sinks, w *worker, c Case) {
	ref := reference(c)
	if !ref.defined {
		atomic.AddInt64(&s.st.skippedUndefined, 1)
		return
	}
	if ref.noCond && (c.Fin == fUpdate || c.Fin == fDelete) {
		// no effective condition: ErrMissingWhereClause territory (C09)
		atomic.AddInt64(&s.st.skippedNoCond, 1)
		return
	}
	o := w.exec(c)
	atomic.AddInt64(&s.st.evaluations, 1)
	atomic.AddInt64(&s.st.byFin[c.Fin], 1)
	atomic.AddInt64(&s.st.chainsTotal, 1)
	if c.Inline >= 0 {
		atomic.AddInt64(&s.st.withInline, 1)
	}
	if c.PK != 0 {
		atomic.AddInt64(&s.st.withPK, 1)
	}
	if len(c.Chain) >= 3 {
		atomic.AddInt64(&s.st.threeCalls, 1)
	}
	tags := cg.Tags(c.Chain, c.Inline, units)
	if len(tags) > 0 {
		atomic.AddInt64(&s.st.oddCases, 1)
	}
	if ref.sensitive {
		atomic.AddInt64(&s.st.chainsSensitive, 1)
		if s.nontriv.Add(c.key()) {
			s.samples.Add(c.String() + "  => " + ref.tree.String() + " = " + cg.IDs(ref.want))
		}
	}
	for _, call := range c.Chain {
		s.classes.Add(cg.KindName[call.Kind] + ":" + units[call.Unit].Class())
	}
	fail := func(kind string) {
		c.Readable = c.String()
		c.Labels = nil
		for _, call := range c.Chain {
			c.Labels = append(c.Labels, units[call.Unit].Label)
		}
		if c.Inline >= 0 {
			c.Labels = append(c.Labels, units[c.Inline].Label)
		}
		tr := "<no condition>"
		if ref.tree != nil {
			tr = ref.tree.String()
		}
		if dumpFile != nil {
			dumpMu.Lock()
			fmt.Fprintf(dumpFile, "%v\t%s\t%s\n", tags, kind, c.String())
			dumpMu.Unlock()
		}
		s.run.Violation(tags, fmt.Sprintf("%s\n%s\nreference meaning: %s\nexpected ids: %s\nobserved ids: %s rows=%d err=%v %s",
			kind, c.String(), tr, cg.IDs(ref.want), cg.IDs(o.got), o.rows, o.err, o.note), c)
	}
	if o.panicMsg != "" {
		fail(finName[c.Fin] + ": panic inside gorm: " + o.panicMsg)
		return
	}
	if o.err != nil {
		fail(finName[c.Fin] + ": unexpected error")
		return
	}
	if o.note != "" {
		fail(finName[c.Fin] + ": side effect outside the selected rows")
		return
	}
	switch c.Fin {
	case fCount:
		s.outcomes.Add(fmt.Sprintf("count=%d", o.rows))
		if int(o.rows) != len(ref.want) {
			fail("Count: number of rows differs from the reference")
		}
	case fFind:
		if c.PK > 0 {
			var want []int
			if len(ref.want) > 0 {
				want = ref.want[:1]
			}
			s.outcomes.Add("first=" + cg.IDs(o.got))
			if cg.IDs(want) != cg.IDs(o.got) {
				ref.want = want
				fail("Find(&T{ID:k}): first row differs from the reference")
			}
			return
		}
		s.outcomes.Add(cg.IDs(o.got))
		if cg.IDs(ref.want) != cg.IDs(o.got) {
			fail("Find: selected rows differ from the reference")
		}
	case fUpdate:
		s.outcomes.Add(cg.IDs(o.got))
		if cg.IDs(ref.want) != cg.IDs(o.got) {
			fail("Update: changed rows differ from the reference")
		} else if int(o.rows) != len(ref.want) {
			fail("Update: RowsAffected differs from the reference")
		}
	case fDelete:
		s.outcomes.Add(cg.IDs(o.got))
		if cg.IDs(ref.want) != cg.IDs(o.got) {
			fail("Delete: removed rows differ from the reference")
		} else if int(o.rows) != len(ref.want) {
			fail("Delete: RowsAffected differs from the reference")
		}
	}
}

// ---------------------------------------------------------------- enumeration

func unitSet(pred func(*cg.Unit) bool) []int {
	var out []int
	for _, u := range units {
		if pred(u) && !u.Skip {
			out = append(out, u.Idx)
		}
	}
	return out
}

// chains enumerates all chains of exactly n calls over the unit set; the first
// call is never Or.
func chains(set []int, n int, emit func([]cg.Call)) {
	cur := make([]cg.Call, n)
	var rec func(i int)
	rec = func(i int) {
		if i == n {
			emit(append([]cg.Call{}, cur...))
			return
		}
		for _, k := range []int{cg.KWhere, cg.KOr, cg.KNot} {
			if i == 0 && k == cg.KOr {
				continue
			}
			for _, u := range set {
				cur[i] = cg.Call{Kind: k, Unit: u}
				rec(i + 1)
			}
		}
	}
	rec(0)
}

func enumerate(tier string, deadline time.Time, emit func(Case) bool) (complete bool) {
	full := unitSet(func(*cg.Unit) bool { return true })
	rep1 := unitSet(func(u *cg.Unit) bool { return u.Rep == 1 })
	rep2 := unitSet(func(u *cg.Unit) bool { return u.Rep >= 1 })
	three := rep1
	tail := rep1
	if tier == "thorough" {
		three = rep2
		tail = rep2
	}
	ok := true
	out := func(c Case) {
		if ok && !emit(c) {
			ok = false
		}
	}
	allFin := []int{fFind, fCount, fUpdate, fDelete}
	// E1: every chain of 1..2 calls over the full catalogue x 4 finishers
	for n := 1; n <= 2 && ok; n++ {
		chains(full, n, func(ch []cg.Call) {
			if n == 2 && tier != "thorough" {
				// quick: the single-call-group family is paired with the representative units only
				a, b := units[ch[0].Unit], units[ch[1].Unit]
				if (a.Ext && b.Rep == 0) || (b.Ext && a.Rep == 0) {
					return
				}
			}
			for _, f := range allFin {
				out(Case{Chain: ch, Inline: -1, Fin: f})
			}
		})
	}
	// E3: inline finisher condition: chains of 0..1 calls over the full
	// catalogue x every unit inline; chains of 2 calls over the class
	// representatives x representative inline units; x model key {none,14}
	for n := 0; n <= 2 && ok; n++ {
		set, inl := full, full
		if n == 1 && tier != "thorough" {
			inl = rep2
		}
		if n == 2 {
			set, inl = tail, tail
		}
		chains(set, n, func(ch []cg.Call) {
			for _, in := range inl {
				for _, pk := range []int{0, 14} {
					out(Case{Chain: ch, Inline: in, PK: pk, Fin: fFind})
					out(Case{Chain: ch, Inline: in, PK: pk, Fin: fDelete})
				}
			}
		})
	}
	// E4: primary key of the model value: chains of 0..1 calls over the full
	// catalogue, 2 calls over the representatives
	for n := 0; n <= 2 && ok; n++ {
		set := full
		if n == 2 {
			set = tail
		}
		chains(set, n, func(ch []cg.Call) {
			for _, pk := range []int{1, 14} {
				out(Case{Chain: ch, Inline: -1, PK: pk, Fin: fFind})
				out(Case{Chain: ch, Inline: -1, PK: pk, Fin: fUpdate})
				out(Case{Chain: ch, Inline: -1, PK: pk, Fin: fDelete})
			}
			out(Case{Chain: ch, Inline: -1, PK: -1, Fin: fDelete})
		})
	}
	// E2: every chain of 3 calls over the representative units x 4 finishers
	if ok {
		chains(three, 3, func(ch []cg.Call) {
			for _, f := range allFin {
				out(Case{Chain: ch, Inline: -1, Fin: f})
			}
		})
	}
	return ok
}

// diagnostic dump of every violation (one line each) when C02_DUMP is set
var dumpFile *os.File
var dumpMu sync.Mutex

func main() {
	if p := os.Getenv("C02_DUMP"); p != "" {
		dumpFile, _ = os.Create(p)
		defer dumpFile.Close()
	}
	args := mc.ParseArgs()
	run := mc.NewRun("C02", args.Tier, "exploration")
	units = cg.Catalogue(cg.Options{ModelStruct: modelStruct, ModelName: "T"})
	pendingSkipped := cg.MarkPending(units, "C02", args.Tier)

	s := &sinks{run: run, st: &stats{}, nontriv: &mc.Set{}, outcomes: &mc.Set{}, samples: &mc.Samples{N: 8}, classes: &mc.Set{}}

	if len(args.Extra) > 0 && args.Extra[0] == "units" {
		// print the unit catalogue (index, class, representative level, label)
		for _, u := range units {
			fmt.Printf("%3d  %-14s rep=%d  %s\n", u.Idx, u.Class(), u.Rep, u.Label)
		}
		return
	}
	if args.Replay != "" {
		var sp struct {
			Scopes *ScopeCase `json:"scopes"`
		}
		if err := mc.LoadReplay(args.Replay, &sp); err == nil && sp.Scopes != nil {
			os.Setenv("VERIF_KNOWN_FINDINGS", "/nonexistent")
			r2 := mc.NewRun("C02", args.Tier, "exploration")
			w := newWorker()
			got, err, p := w.runScopes(*sp.Scopes)
			fmt.Printf("case: %s\nobserved per chain: %v err=%v panic=%q\n", sp.Scopes.String(), got, err, p)
			if !checkScopes(r2, w, *sp.Scopes) {
				os.Exit(1)
			}
			fmt.Println("no violation")
			return
		}
		var c Case
		if err := mc.LoadReplay(args.Replay, &c); err != nil {
			fmt.Fprintln(os.Stderr, err)
			os.Exit(3)
		}
		// catalogue drift check
		var labels []string
		for _, call := range c.Chain {
			labels = append(labels, units[call.Unit].Label)
		}
		if c.Inline >= 0 {
			labels = append(labels, units[c.Inline].Label)
		}
		if len(c.Labels) > 0 && strings.Join(labels, "|") != strings.Join(c.Labels, "|") {
			fmt.Fprintf(os.Stderr, "HARNESS-ERROR: unit catalogue changed since the replay was recorded:\n  recorded %q\n  now      %q\n", c.Labels, labels)
			os.Exit(3)
		}
		w := newWorker()
		ref := reference(c)
		o := w.exec(c)
		fmt.Printf("case: %s\n", c.String())
		if ref.defined && ref.tree != nil {
			fmt.Printf("reference meaning: %s\nexpected ids: %s\n", ref.tree.String(), cg.IDs(ref.want))
		}
		fmt.Printf("observed ids: %s rows=%d err=%v panic=%q %s\n", cg.IDs(o.got), o.rows, o.err, o.panicMsg, o.note)
		// show what was sent (diagnostic only, never part of the oracle)
		showSQL(c)
		os.Setenv("VERIF_KNOWN_FINDINGS", "/nonexistent") // replay always judges the case itself
		run = mc.NewRun("C02", args.Tier, "exploration")
		s.run = run
		check(s, w, c)
		if run.NumViolations() > 0 {
			os.Exit(1)
		}
		fmt.Println("no violation")
		return
	}

	deadline := time.Now().Add(12 * time.Minute)
	if args.Tier == "quick" {
		deadline = time.Now().Add(150 * time.Second)
	}
	const nw = 16
	batches := make(chan []Case, 64)
	var wg sync.WaitGroup
	for i := 0; i < nw; i++ {
		wg.Add(1)
		go func() {
			defer wg.Done()
			w := newWorker()
			for b := range batches {
				for _, c := range b {
					check(s, w, c)
				}
			}
		}()
	}
	var batch []Case
	var generated int64
	complete := enumerate(args.Tier, deadline, func(c Case) bool {
		batch = append(batch, c)
		generated++
		if len(batch) == 512 {
			batches <- batch
			batch = nil
			if time.Now().After(deadline) {
				return false
			}
		}
		return true
	})
	if len(batch) > 0 {
		batches <- batch
	}
	close(batches)
	wg.Wait()
	scopeCases := exploreScopes(run)

	st := s.st
	frac := 0.0
	if st.chainsTotal > 0 {
		frac = float64(st.chainsSensitive) / float64(st.chainsTotal)
	}
	if run.NumViolations() == 0 {
		if st.evaluations < 10000 {
			run.HarnessError("vacuous: only %d executions", st.evaluations)
		}
		if frac < 0.25 {
			run.HarnessError("vacuous: only %.1f%% of the executed programs are precedence-sensitive (floor 25%%)", 100*frac)
		}
		if s.outcomes.Len() < 20 {
			run.HarnessError("vacuous: only %d distinct outcomes", s.outcomes.Len())
		}
	}
	nUnits := len(units)
	run.Assume("SQLite dialect only; columns a,b (integer) and s (text), value domain {1,2,NULL} x {1,2,NULL} x {'x','y',NULL}")
	run.Assume("outside the alphabet (DESIGN C02 X): Not of a group mixing AND and OR at its top level, map[interface{}]interface{}, whitespace-only strings; chains whose first condition-adding call is Or; Update/Delete programs without any effective condition (C09); Count with a keyed model value (gorm ignores the key for Count)")
	run.Assume("Not of an AND-group whose members are ALL raw SQL strings (db.Where(\"x\").Where(\"y\"), clause.And(Expr,Expr)) is read as NOT (x AND y): gorm's own tests (tests/query_test.go TestNot, clause/where_test.go) pin that rendering; the every-member-false reading is asserted for maps, structs and groups with at least one clause-expression member")
	run.Assume("Find(&T{ID:k}) scans one row only: observed = first row in id order, expected = smallest id of the reference set")
	run.Finish(map[string]interface{}{
		"evaluations":                        st.evaluations,
		"distinct_nontrivial":                s.nontriv.Len(),
		"rule":                               fmt.Sprintf("unit catalogue of %d units (12 atoms x renderings raw/placeholder/kv/map/struct/clause/named; two-operand AND/OR units with the fixed separator catalogue of 8 spellings, redundant parentheses, map, struct, clause.And/Or/Not/Expr, grouped sub-builders, named args; NOT atoms; depth-3 units; primary-key value forms; empty units). Enumerated: every chain of 1-2 Where/Or/Not calls (first != Or) over all units x Find/Count/Update/Delete (quick: the single-call-group family db.Or(x)/db.Not(x)/db.Where(x) around every raw spelling is paired only with the Rep>=1 units in 2-call chains); every chain of 3 calls over the class representatives (quick: Rep=1, thorough: Rep>=1) x 4 finishers; chains of 0-1 calls over all units x inline condition (every unit; quick with 1 call: the Rep>=1 units) x key{none,14} x Find/Delete (2 calls over representatives); chains of 0-2 calls x model key {1,14,slice} x Find/Update/Delete. Plus conditions added through Scopes on a reused Session handle carrying 0-9 scopes, 2-3 derived chains, both execution orders, Find/Count. Non-trivial = the reference id set differs from at least one other-precedence reading of the same program (strict left-to-right fold, or units spliced in without parentheses); distinct by (chain, inline, key, finisher)", nUnits),
		"samples":                            s.samples.List(),
		"exhaustive":                         complete,
		"pending_units_skipped_until_listed": pendingSkipped,
		"scopes_on_reused_handle_cases":      scopeCases,
		"units":                              nUnits,
		"generated":                          generated,
		"skipped_outside_quantifier":         st.skippedUndefined,
		"skipped_no_effective_condition":     st.skippedNoCond,
		"precedence_sensitive_evaluations":   st.chainsSensitive,
		"precedence_sensitive_fraction_pct":  int(frac * 100),
		"distinct_outcomes":                  s.outcomes.Len(),
		"distinct_call_classes":              s.classes.Len(),
		"find":                               st.byFin[fFind],
		"count":                              st.byFin[fCount],
		"update":                             st.byFin[fUpdate],
		"delete":                             st.byFin[fDelete],
		"with_inline_condition":              st.withInline,
		"with_model_key":                     st.withPK,
		"three_call_chains":                  st.threeCalls,
		"cases_with_input_tag":               st.oddCases,
	})
}

// showSQL prints the statement a DryRun of the case would send (replay
// diagnostics only).
func showSQL(c Case) {
	defer func() { recover() }()
	db := h.OpenDry(false, nil)
	var inline []interface{}
	if c.Inline >= 0 {
		inline = units[c.Inline].Args(db)
	}
	apply := func(d *gorm.DB) *gorm.DB {
		for _, call := range c.Chain {
			d = cg.Apply(d, db, call, units)
		}
		return d
	}
	var tx *gorm.DB
	switch c.Fin {
	case fFind:
		if c.PK > 0 {
			tx = apply(db).Order("id").Find(&T{ID: c.PK}, inline...)
		} else {
			tx = apply(db).Find(&[]T{}, inline...)
		}
	case fCount:
		var n int64
		tx = apply(db.Model(&T{})).Count(&n)
	case fUpdate:
		tx = apply(db.Model(&T{ID: maxInt(c.PK, 0)})).Update("m", 7)
	case fDelete:
		var val interface{} = &T{ID: maxInt(c.PK, 0)}
		if c.PK == -1 {
			val = &[]T{{ID: 1}, {ID: 14}}
		}
		tx = apply(db).Delete(val, inline...)
	}
	fmt.Printf("statement (DryRun, diagnostic): %q %v\n", tx.Statement.SQL.String(), tx.Statement.Vars)
}
