package main

import (
	"database/sql"
	"fmt"
	"reflect"
	"strconv"
	"strings"
	"sync"
	"time"

	"gorm.io/gorm/schema"

	"verif/h"
)

// ---------------------------------------------------------------------------
// Model family: ID + 4 data fields with a permission tag each + a
// create-time/update-time pair. Types are built with reflect.StructOf.

// permission tags of the alphabet (index = tag code)
var tagText = []string{"", "<-:create", "<-:update", "<-:false", "->", "->:false", "-", "-:all", "-:migration"}

const (
	tgNone = iota
	tgCreateOnly
	tgUpdateOnly
	tgNoWrite
	tgReadOnly
	tgReadOnlyFalse
	tgIgnore
	tgIgnoreAll
	tgIgnoreMigration
)

// perm is the reference meaning of a tag, written down from the documentation
// (https://gorm.io/docs/models.html#Field-Level-Permission), NOT read from
// gorm's parsed schema.
type perm struct {
	C   bool // may be written by create paths
	U   bool // may be written by update paths
	Ign bool // gorm does not know a column for the field at all
}

var tagPerm = []perm{
	tgNone:            {C: true, U: true},
	tgCreateOnly:      {C: true, U: false},
	tgUpdateOnly:      {C: false, U: true},
	tgNoWrite:         {C: false, U: false},
	tgReadOnly:        {C: false, U: false},
	tgReadOnlyFalse:   {C: false, U: false},
	tgIgnore:          {Ign: true},
	tgIgnoreAll:       {Ign: true},
	tgIgnoreMigration: {C: true, U: true},
}

type ModelSpec struct {
	Tags     [4]int `json:"tags"`              // tag code per data field F0..F3
	TimeKind int    `json:"time_kind"`         // 0: Made/Touched int64 with autoCreateTime/autoUpdateTime tags; 1: CreatedAt/UpdatedAt time.Time by naming convention
	CTag     bool   `json:"ctime_create_only"` // create-time field additionally tagged <-:create
	// DBDefault: every data field additionally carries a database-side
	// default tag (default:(expr)), i.e. gorm leaves the column to the
	// database when the Go value is zero
	DBDefault bool `json:"db_default,omitempty"`
	// Shape of the model type (see shape* constants)
	Shape int `json:"shape,omitempty"`
	// PatchTags (shapePatch): tags of the fields of the separate "patch"
	// struct type whose values are handed to Updates/UpdateColumns
	PatchTags [4]int `json:"patch_tags,omitempty"`
}

const (
	shapeFlat = iota
	// an untagged Base{F0..F3} is embedded (anonymous) and the model re-declares
	// every tagged field (same Go name, same column) with its tag; the outer
	// (shortest path) field is the effective one. Base comes before the
	// re-declared fields ...
	shapeOverrideBaseFirst
	// ... or after them
	shapeOverrideBaseLast
	// flat model plus `Aud struct{Fi} gorm:"embedded;embeddedPrefix:aud_"`
	// whose only field has the Go name of the (first) tagged outer field
	shapePrefixShadow
	// flat model; update values are given as a different struct type
	// P{F0..F3} carrying PatchTags
	shapePatch
)

var shapeName = []string{"flat", "override(base first)", "override(base last)", "prefix-shadow", "patch-struct"}

// Base is embedded by the override shapes.
type Base struct {
	F0 string
	F1 int64
	F2 string
	F3 int64
}

// Aud0 / Aud1 are embedded with a column prefix by shapePrefixShadow.
type Aud0 struct{ F0 string }
type Aud1 struct{ F1 int64 }

// modelPerm: permission of the model's own (effective) field
func (m ModelSpec) modelPerm(i int) perm { return tagPerm[m.Tags[i]] }

// perm: effective permission of a write to column fi through the programs
// enumerated for the model: for shapePatch both the model's field and the
// patch struct's field must allow it.
func (m ModelSpec) perm(i int) perm {
	p := tagPerm[m.Tags[i]]
	if m.Shape == shapePatch {
		q := tagPerm[m.PatchTags[i]]
		return perm{C: p.C && q.C, U: p.U && q.U, Ign: p.Ign || q.Ign}
	}
	return p
}

// shadow: index of the data field whose Go name is shadowed by Aud.Fi
// (shapePrefixShadow), else -1
func (m ModelSpec) shadow() int {
	if m.Shape != shapePrefixShadow {
		return -1
	}
	for i := 0; i < 2; i++ {
		if m.Tags[i] != tgNone {
			return i
		}
	}
	return 0
}

// logical columns
const (
	lID = iota
	lF0
	lF1
	lF2
	lF3
	lCT
	lUT
	nLogical
)

var dataIsString = [4]bool{true, false, true, false}

func (m ModelSpec) fieldName(l int) string {
	switch l {
	case lID:
		return "ID"
	case lCT:
		if m.TimeKind == 1 {
			return "CreatedAt"
		}
		return "Made"
	case lUT:
		if m.TimeKind == 1 {
			return "UpdatedAt"
		}
		return "Touched"
	}
	return fmt.Sprintf("F%d", l-lF0)
}

func (m ModelSpec) colName(l int) string {
	switch l {
	case lID:
		return "id"
	case lCT:
		if m.TimeKind == 1 {
			return "created_at"
		}
		return "made"
	case lUT:
		if m.TimeKind == 1 {
			return "updated_at"
		}
		return "touched"
	}
	return fmt.Sprintf("f%d", l-lF0)
}

// physical columns of table t (always all of them, hand-written DDL)
var physCols = []string{"rk", "id", "f0", "f1", "f2", "f3", "made", "touched", "created_at", "updated_at", "aud_f0", "aud_f1"}

func physIndex(col string) int {
	for i, c := range physCols {
		if c == col {
			return i
		}
	}
	panic("no column " + col)
}

func (m ModelSpec) phys(l int) int { return physIndex(m.colName(l)) }

const tableDDL = `CREATE TABLE t (
 id integer primary key autoincrement,
 rk integer,
 f0 text, f1 integer, f2 text, f3 integer,
 made integer, touched integer,
 created_at datetime, updated_at datetime,
 aud_f0 text, aud_f1 integer)`

var seedTime = time.Date(2001, 1, 1, 0, 0, 0, 0, time.UTC)

// the three statements that restore the pristine table
func seedStmts() []string {
	var sb strings.Builder
	sb.WriteString("INSERT INTO t (id,rk,f0,f1,f2,f3,made,touched,created_at,updated_at,aud_f0,aud_f1) VALUES ")
	for r := 1; r <= 3; r++ {
		if r > 1 {
			sb.WriteByte(',')
		}
		fmt.Fprintf(&sb, "(%d,%d,'a%d',%d,'b%d',%d,%d,%d,'2001-01-0%d 00:00:00+00:00','2001-02-0%d 00:00:00+00:00','u%d',%d)",
			r, r, r, 10+r, r, 20+r, 100+r, 200+r, r, r, r, 30+r)
	}
	return []string{"DELETE FROM t", "DELETE FROM sqlite_sequence WHERE name='t'", sb.String()}
}

// seed value of a data field of row r (1..3)
func seedData(i, r int) interface{} {
	switch i {
	case 0:
		return fmt.Sprintf("a%d", r)
	case 1:
		return int64(10 + r)
	case 2:
		return fmt.Sprintf("b%d", r)
	}
	return int64(20 + r)
}

var (
	typeMu    sync.Mutex
	typeCache = map[ModelSpec]reflect.Type{}
)

func gormTag(parts ...string) reflect.StructTag {
	var ps []string
	for _, p := range parts {
		if p != "" {
			ps = append(ps, p)
		}
	}
	if len(ps) == 0 {
		return ""
	}
	return reflect.StructTag(`gorm:"` + strings.Join(ps, ";") + `"`)
}

func (m ModelSpec) Type() reflect.Type {
	typeMu.Lock()
	defer typeMu.Unlock()
	if t, ok := typeCache[m]; ok {
		return t
	}
	fields := []reflect.StructField{{Name: "ID", Type: reflect.TypeOf(uint(0))}}
	override := m.Shape == shapeOverrideBaseFirst || m.Shape == shapeOverrideBaseLast
	base := reflect.StructField{Name: "Base", Type: reflect.TypeOf(Base{}), Anonymous: true}
	if m.Shape == shapeOverrideBaseFirst {
		fields = append(fields, base)
	}
	for i := 0; i < 4; i++ {
		if override && m.Tags[i] == tgNone {
			continue // comes from Base
		}
		ft := reflect.TypeOf(int64(0))
		if dataIsString[i] {
			ft = reflect.TypeOf("")
		}
		fields = append(fields, reflect.StructField{Name: fmt.Sprintf("F%d", i), Type: ft, Tag: gormTag(tagText[m.Tags[i]], m.defaultTag(i))})
	}
	if m.Shape == shapeOverrideBaseLast {
		fields = append(fields, base)
	}
	if sh := m.shadow(); sh >= 0 {
		at := reflect.TypeOf(Aud0{})
		if sh == 1 {
			at = reflect.TypeOf(Aud1{})
		}
		fields = append(fields, reflect.StructField{Name: "Aud", Type: at, Tag: gormTag("embedded", "embeddedPrefix:aud_")})
	}
	ctag := ""
	if m.CTag {
		ctag = "<-:create"
	}
	if m.TimeKind == 1 {
		fields = append(fields,
			reflect.StructField{Name: "CreatedAt", Type: reflect.TypeOf(time.Time{}), Tag: gormTag(ctag)},
			reflect.StructField{Name: "UpdatedAt", Type: reflect.TypeOf(time.Time{})})
	} else {
		fields = append(fields,
			reflect.StructField{Name: "Made", Type: reflect.TypeOf(int64(0)), Tag: gormTag("autoCreateTime", ctag)},
			reflect.StructField{Name: "Touched", Type: reflect.TypeOf(int64(0)), Tag: gormTag("autoUpdateTime")})
	}
	t := reflect.StructOf(fields)
	typeCache[m] = t
	return t
}

// defaultTag: a default gorm cannot evaluate itself (the table itself has no
// column default, so "left to the database" means NULL)
func (m ModelSpec) defaultTag(i int) string {
	if !m.DBDefault {
		return ""
	}
	if dataIsString[i] {
		return "default:(lower('DEF'))"
	}
	return "default:(40+2)"
}

// PatchType: the separate value type of shapePatch
func (m ModelSpec) PatchType() reflect.Type {
	var fields []reflect.StructField
	for i := 0; i < 4; i++ {
		ft := reflect.TypeOf(int64(0))
		if dataIsString[i] {
			ft = reflect.TypeOf("")
		}
		fields = append(fields, reflect.StructField{Name: fmt.Sprintf("F%d", i), Type: ft, Tag: gormTag(tagText[m.PatchTags[i]])})
	}
	return reflect.StructOf(fields)
}

func (m ModelSpec) String() string {
	var sb strings.Builder
	sb.WriteString("struct{ID uint")
	override := m.Shape == shapeOverrideBaseFirst || m.Shape == shapeOverrideBaseLast
	if m.Shape == shapeOverrideBaseFirst {
		sb.WriteString("; Base /*embedded struct{F0 string;F1 int64;F2 string;F3 int64}*/")
	}
	for i := 0; i < 4; i++ {
		if override && m.Tags[i] == tgNone {
			continue
		}
		ty := "int64"
		if dataIsString[i] {
			ty = "string"
		}
		fmt.Fprintf(&sb, "; F%d %s", i, ty)
		if m.Tags[i] != tgNone {
			fmt.Fprintf(&sb, " `%s`", tagText[m.Tags[i]])
		}
		if m.DBDefault {
			fmt.Fprintf(&sb, " `%s`", m.defaultTag(i))
		}
	}
	if m.Shape == shapeOverrideBaseLast {
		sb.WriteString("; Base /*embedded struct{F0 string;F1 int64;F2 string;F3 int64}*/")
	}
	if sh := m.shadow(); sh >= 0 {
		fmt.Fprintf(&sb, "; Aud struct{F%d} `embedded;embeddedPrefix:aud_`", sh)
	}
	c := ""
	if m.CTag {
		c = " `<-:create`"
	}
	if m.TimeKind == 1 {
		fmt.Fprintf(&sb, "; CreatedAt time.Time%s; UpdatedAt time.Time}", c)
	} else {
		fmt.Fprintf(&sb, "; Made int64 `autoCreateTime`%s; Touched int64 `autoUpdateTime`}", c)
	}
	if m.Shape == shapePatch {
		sb.WriteString("  P = struct{")
		for i := 0; i < 4; i++ {
			fmt.Fprintf(&sb, "F%d", i)
			if m.PatchTags[i] != tgNone {
				fmt.Fprintf(&sb, " `%s`", tagText[m.PatchTags[i]])
			}
			sb.WriteString("; ")
		}
		sb.WriteString("}")
	}
	return sb.String()
}

// namer: unnamed (StructOf) types map to table "t".
type namer struct{ schema.NamingStrategy }

func (n namer) TableName(s string) string {
	if s == "" {
		return "t"
	}
	return n.NamingStrategy.TableName(s)
}

// ---------------------------------------------------------------------------
// table snapshot

type row []interface{} // one normalised value per physCols entry

func normCell(v interface{}) interface{} {
	switch t := v.(type) {
	case []byte:
		return string(t)
	case int:
		return int64(t)
	case time.Time:
		return t.UTC()
	}
	return v
}

func cellStr(v interface{}) string {
	switch t := v.(type) {
	case nil:
		return "NULL"
	case int64:
		return strconv.FormatInt(t, 10)
	case string:
		return strconv.Quote(t)
	case time.Time:
		return "t" + t.UTC().Format(time.RFC3339Nano)
	case float64:
		return fmt.Sprintf("f%v", t)
	}
	return fmt.Sprintf("%v", v)
}

var snapshotSQL = "SELECT " + strings.Join(physCols, ",") + " FROM t ORDER BY rk IS NULL, rk, id"

// snapshot reads the whole table (through a prepared statement when given).
func snapshot(e *h.Env, st *sql.Stmt) (rows []row, err error) {
	e.Quiet(func() {
		var rs *sql.Rows
		if st != nil {
			rs, err = st.Query()
		} else {
			rs, err = e.SQL.Query(snapshotSQL)
		}
		if err != nil {
			return
		}
		defer rs.Close()
		for rs.Next() {
			vals := make([]interface{}, len(physCols))
			ptrs := make([]interface{}, len(physCols))
			for i := range vals {
				ptrs[i] = &vals[i]
			}
			if serr := rs.Scan(ptrs...); serr != nil {
				err = serr
				return
			}
			for i := range vals {
				vals[i] = normCell(vals[i])
			}
			rows = append(rows, row(vals))
		}
	})
	return
}

func rowsString(rows []row) string {
	var sb strings.Builder
	for _, r := range rows {
		for i, v := range r {
			if i > 0 {
				sb.WriteByte('|')
			}
			sb.WriteString(physCols[i])
			sb.WriteByte('=')
			sb.WriteString(cellStr(v))
		}
		sb.WriteByte('\n')
	}
	return sb.String()
}

func isFresh(v interface{}) bool {
	switch t := v.(type) {
	case int64:
		return t >= h.Epoch.Unix()
	case time.Time:
		return !t.Before(h.Epoch)
	case string:
		// a time written into an integer-affinity column etc.
		return strings.HasPrefix(t, "202")
	}
	return false
}
