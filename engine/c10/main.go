// C10 — a write touches only permitted, selected columns of exactly the
// targeted rows.
//
// Bounded-exhaustive enumeration (E3): a family of model types built with
// reflect.StructOf (4 data fields, each with a field-permission tag, plus a
// create-time/update-time pair) x every write finisher x Select/Omit sets x
// value patterns (zero / non-zero / gorm.Expr / absent key) x targets, each
// executed on the real gorm code against SQLite. Oracle: cell-by-cell diff of
// the table before/after against a write set predicted by a reference model
// written from the documentation (oracle.go), split into a hard core that is
// asserted for every case and documented positive rules.
//
// Development switches (environment): C10_DEBUG=1 prints a histogram of
// violation kinds per input class with one example each; C10_COUNT=1 only
// counts the cases of the tier; C10_PROF=<file> writes a CPU profile;
// C10_SHAPE=<n> restricts the run to the models of one shape (floors will
// then not be reached: use it only to look at violations).
package main

import (
	"database/sql"
	"fmt"
	"os"
	"regexp"
	"runtime/pprof"
	"sort"
	"strings"
	"sync"
	"sync/atomic"
	"time"

	"gorm.io/gorm"

	"verif/h"
	"verif/mc"
)

type worker struct {
	env      *h.Env
	pristine []row
	pristStr string
	seed     []*sql.Stmt
	snap     *sql.Stmt
}

func (w *worker) reseed() (err error) {
	w.env.Quiet(func() {
		for _, st := range w.seed {
			if _, e := st.Exec(); e != nil {
				err = fmt.Errorf("reseed: %v", e)
				return
			}
		}
	})
	return
}

func newWorker() *worker {
	e := h.Open(&gorm.Config{NamingStrategy: namer{}})
	e.MustExec(tableDDL)
	w := &worker{env: e}
	e.Quiet(func() {
		for _, q := range seedStmts() {
			st, err := e.SQL.Prepare(q)
			if err != nil {
				panic(err)
			}
			w.seed = append(w.seed, st)
		}
		var err error
		if w.snap, err = e.SQL.Prepare(snapshotSQL); err != nil {
			panic(err)
		}
	})
	if err := w.reseed(); err != nil {
		panic(err)
	}
	rows, err := snapshot(e, w.snap)
	if err != nil {
		panic(err)
	}
	w.pristine = rows
	w.pristStr = rowsString(rows)
	return w
}

type result struct {
	prog     string
	err      error
	rows     int64
	stmts    []string
	after    []row
	panicMsg string
}

func (w *worker) exec(c Case) (res result) {
	e := w.env
	e.Rec.Reset()
	func() {
		defer func() {
			if r := recover(); r != nil {
				res.panicMsg = fmt.Sprint(r)
			}
		}()
		tx, prog := c.run(e.DB)
		res.prog = prog
		res.err = tx.Error
		res.rows = tx.RowsAffected
	}()
	for _, ev := range e.Rec.Events() {
		if ev.IsStatement() {
			res.stmts = append(res.stmts, ev.String())
		}
	}
	if l := e.Leaks(); l != "" {
		res.panicMsg += " LEAK: " + l
	}
	after, err := snapshot(e, w.snap)
	if err != nil {
		res.panicMsg += " SNAPSHOT: " + err.Error()
	}
	res.after = after
	if rowsString(after) != w.pristStr {
		if rerr := w.reseed(); rerr != nil {
			// the table cannot be restored (e.g. a cursor the call left open
			// keeps it locked): report it for this case and continue on a
			// fresh database
			res.panicMsg += " RESEED: " + rerr.Error()
			*w = *newWorker()
		}
	}
	return
}

type stats struct {
	total              int64
	errored            int64
	acceptedErr        int64
	noChange           int64
	hardTemptKept      int64
	temptKept          int64
	beChecked          int64
	freshChecked       int64
	outsideRows        int64
	subsetWritten      int64 // cases whose target is a strict non-empty subset and that changed a cell
	colUpdSuppliedKept int64 // column-update / SkipHooks cases that wrote something while the value carried a non-zero update-time that had to stay unwritten (omitted / not selected)
	twinChecked        int64 // map programs compared with their other-spelling twin
	colUpdKeptTime     int64 // UpdateColumn(s) cases that wrote something and left both auto-time cells alone
	hookUpdRefreshed   int64 // hook-running update cases with a refreshed update-time
	omitKeptTime       int64 // hook-running update cases with update-time omitted and kept
	newRowsSeen        int64
}

var errNorm = regexp.MustCompile(`[0-9]+`)

func errClass(err error) string {
	if err == nil {
		return ""
	}
	s := err.Error()
	if len(s) > 80 {
		s = s[:80]
	}
	return errNorm.ReplaceAllString(s, "N")
}

type ctx struct {
	run      *mc.Run
	st       *stats
	distinct *mc.Set
	outcomes *mc.Set
	samples  *mc.Samples
	errMu    sync.Mutex
	errKinds map[string]int
	errEx    map[string]string
	dbg      map[string]int
	dbgEx    map[string]string
}

func tags(c Case) []string {
	var t []string
	fin := finName[c.Fin]
	t = append(t, "fin="+fin)
	t = append(t, "fin="+fin+"/target="+targetName[c.Target])
	for i := 0; i < 4; i++ {
		if c.Model.Tags[i] != tgNone {
			t = append(t, "fin="+fin+"/tag="+tagText[c.Model.Tags[i]])
		}
	}
	shape := "none"
	switch {
	case c.Sel.Star && len(c.Sel.Omit) > 0:
		shape = "star+omit"
	case c.Sel.Star:
		shape = "star"
	case len(c.Sel.Sel) > 0 && len(c.Sel.Omit) > 0:
		shape = "select+omit"
	case len(c.Sel.Sel) > 0:
		shape = "select"
	case len(c.Sel.Omit) > 0:
		shape = "omit"
	}
	t = append(t, "fin="+fin+"/sel="+shape)
	if c.Model.Shape != shapeFlat {
		t = append(t, "shape="+shapeName[c.Model.Shape])
		t = append(t, "shape="+shapeName[c.Model.Shape]+"/fin="+fin)
	}
	// narrow tags for specific input classes
	if sh := c.Model.shadow(); sh >= 0 {
		// the restricted outer field Fi shares its Go name with Aud.Fi, and the
		// program takes a path the tag of Fi denies that is guarded only by the
		// permission pass of SelectAndOmitColumns (not a struct-valued update)
		p := c.Model.modelPerm(sh)
		structUpdate := finIsUpdate(c.Fin) && finIsStruct(c.Fin) || c.Fin == fSaveExisting
		createPath := !finIsUpdate(c.Fin) && c.Fin != fSaveExisting
		if !structUpdate && ((createPath && (!p.C || !p.U)) || (!createPath && !p.U)) {
			t = append(t, "restricted-field-go-name-shadowed-by-embedded-prefix-field")
		}
	}
	userSel := c.Sel.Star || len(c.Sel.Sel) > 0
	if c.Fin == fSaveExisting && c.Target == tDisjoint && !userSel {
		t = append(t, "save-existing-key-with-where-excluding-it")
	}
	return t
}

func check(x *ctx, w *worker, c Case, distinct *mc.Set) {
	c = c.canon()
	res := w.exec(c)
	st := x.st
	atomic.AddInt64(&st.total, 1)
	pr := predict(c)
	report := func(kind string, body string) {
		c.Readable = res.prog
		if os.Getenv("C10_DEBUG") != "" {
			x.errMu.Lock()
			k := kind + " | " + strings.Join(tags(c)[3:], " ")
			if x.dbg == nil {
				x.dbg = map[string]int{}
				x.dbgEx = map[string]string{}
			}
			x.dbg[k]++
			if _, ok := x.dbgEx[k]; !ok {
				x.dbgEx[k] = res.prog + "\n" + body + fmt.Sprint(res.err) + "\n" + strings.Join(res.stmts, "\n")
			}
			x.errMu.Unlock()
		}
		msg := fmt.Sprintf("%s\nT = %s\n%s\nerr=%v rows_affected=%d\nstatements:\n  %s\nprediction (col:expectation, ! = hard core):\n%sfindings:\n%s\nbefore:\n%safter:\n%s",
			kind, c.Model.String(), res.prog, res.err, res.rows, strings.Join(res.stmts, "\n  "), pr.String(c.Model), body, w.pristStr, rowsString(res.after))
		x.run.Violation(tags(c), msg, c)
	}
	if res.panicMsg != "" {
		report("panic or leak", res.panicMsg)
		return
	}
	fs, cs := c.compare(pr, w.pristine, res.after, res.err)
	atomic.AddInt64(&st.hardTemptKept, int64(cs.hardTemptKept))
	atomic.AddInt64(&st.temptKept, int64(cs.temptKept))
	atomic.AddInt64(&st.beChecked, int64(cs.beChecked))
	atomic.AddInt64(&st.freshChecked, int64(cs.freshChecked))
	atomic.AddInt64(&st.outsideRows, int64(cs.outsideRows))
	if res.err != nil {
		atomic.AddInt64(&st.errored, 1)
		k := errClass(res.err)
		x.errMu.Lock()
		x.errKinds[k]++
		if _, ok := x.errEx[k]; !ok {
			x.errEx[k] = res.prog
		}
		x.errMu.Unlock()
		if pr.mayErr != "" {
			atomic.AddInt64(&st.acceptedErr, 1)
		} else {
			fs = append(fs, finding{false, "unexpected error", fmt.Sprintf("the call returned %v", res.err)})
		}
	}
	// differential rule: the same program with the map keys / Update column in
	// the other spelling must write the same cells (and fail alike). Not
	// applied when a key names a field gorm ignores (-, -:all): there the
	// column spelling is a raw column name gorm does not connect to the field.
	if !finIsStruct(c.Fin) && c.KeySpell == 0 && res.err == nil && !c.ignoredKeyOffered() && !c.nameAmbiguous() {
		twin := c
		twin.KeySpell = 1
		tres := w.exec(twin)
		atomic.AddInt64(&st.twinChecked, 1)
		if d := diffOutcomes(res, tres); d != "" {
			fs = append(fs, finding{false, "map key spelling changes the written cells", fmt.Sprintf("field-name spelling vs column-name spelling (%s):\n%s", tres.prog, d)})
		}
	}
	if len(fs) > 0 {
		// the first hard finding names the kind, else the first finding
		sort.SliceStable(fs, func(i, j int) bool { return fs[i].hard && !fs[j].hard })
		var body strings.Builder
		for _, f := range fs {
			cls := "(b) documented rule"
			if f.hard {
				cls = "(a) hard core"
			}
			fmt.Fprintf(&body, "  [%s] %s: %s\n", cls, f.kind, f.text)
		}
		prefix := "(b) "
		if fs[0].hard {
			prefix = "(a) "
		}
		report(prefix+fs[0].kind, body.String())
		return
	}
	// non-vacuity bookkeeping
	changed := cs.changedCells > 0
	if !changed {
		atomic.AddInt64(&st.noChange, 1)
	}
	tr := c.targetRows()
	if finIsUpdate(c.Fin) || c.Fin == fSaveExisting {
		if changed && len(tr) > 0 && len(tr) < 3 {
			atomic.AddInt64(&st.subsetWritten, 1)
		}
		if changed && c.noHooks() && len(tr) > 0 && c.TVals[1] != 0 && pr.rows[tr[0]][lUT].kind == xKeep {
			atomic.AddInt64(&st.colUpdSuppliedKept, 1)
		}
		if changed && c.noHooks() {
			atomic.AddInt64(&st.colUpdKeptTime, 1)
		}
		if res.err == nil && len(tr) > 0 && !c.noHooks() {
			if pr.rows[tr[0]][lUT].kind == xFresh {
				atomic.AddInt64(&st.hookUpdRefreshed, 1)
			} else if pr.rows[tr[0]][lUT].kind == xKeep {
				atomic.AddInt64(&st.omitKeptTime, 1)
			}
		}
	}
	for _, r := range res.after {
		if r[0] == nil {
			atomic.AddInt64(&st.newRowsSeen, 1)
		}
	}
	x.outcomes.Add(outcomeSig(c, w.pristine, res.after, res.err))
	if changed && cs.temptKept > 0 {
		if distinct.Add(c.key()) {
			x.samples.Add(map[string]interface{}{"model": c.Model.String(), "program": res.prog, "err": fmt.Sprint(res.err)})
		}
	}
}

func (c Case) ignoredKeyOffered() bool {
	for i := 0; i < 4; i++ {
		if c.Vals[i] != vAbsent && c.Model.perm(i).Ign {
			return true
		}
	}
	return false
}

// diffOutcomes compares two executions cell by cell; two fresh clock values
// count as equal.
func diffOutcomes(a, b result) string {
	var sb strings.Builder
	if errClass(a.err) != errClass(b.err) {
		fmt.Fprintf(&sb, "  err %v vs %v\n", a.err, b.err)
	}
	if len(a.after) != len(b.after) {
		fmt.Fprintf(&sb, "  %d rows vs %d rows\n", len(a.after), len(b.after))
		return sb.String()
	}
	for i := range a.after {
		for pi := range a.after[i] {
			x, y := a.after[i][pi], b.after[i][pi]
			if cellStr(x) != cellStr(y) && !(isFresh(x) && isFresh(y)) {
				fmt.Fprintf(&sb, "  row #%d column %s: %s vs %s\n", i, physCols[pi], cellStr(x), cellStr(y))
			}
		}
	}
	return sb.String()
}

// outcomeSig: which cells changed (by logical column), how many new rows with
// which columns set, error class.
func outcomeSig(c Case, before, after []row, err error) string {
	var sb strings.Builder
	old := map[int64]row{}
	for _, r := range before {
		old[r[0].(int64)] = r
	}
	for _, r := range after {
		if r[0] == nil {
			sb.WriteString("new:")
			for pi := 1; pi < len(r); pi++ {
				if r[pi] != nil {
					sb.WriteString(physCols[pi] + ",")
				}
			}
			sb.WriteByte(';')
			continue
		}
		o := old[r[0].(int64)]
		fmt.Fprintf(&sb, "%d:", r[0])
		for pi := 1; pi < len(r); pi++ {
			if cellStr(r[pi]) != cellStr(o[pi]) {
				sb.WriteString(physCols[pi] + ",")
			}
		}
		sb.WriteByte(';')
	}
	sb.WriteString(errClass(err))
	return sb.String()
}

// ---------------------------------------------------------------------------
// enumeration

type unit struct {
	m   ModelSpec
	fin int
}

func models(tier string) []ModelSpec {
	var out []ModelSpec
	variants := func(tags [4]int, all bool) {
		out = append(out, ModelSpec{Tags: tags})
		if all {
			out = append(out, ModelSpec{Tags: tags, TimeKind: 1}, ModelSpec{Tags: tags, CTag: true})
		}
	}
	variants([4]int{}, true)
	out = append(out, ModelSpec{TimeKind: 1, CTag: true})
	for pos := 0; pos < 4; pos++ {
		for tg := 1; tg < len(tagText); tg++ {
			var t [4]int
			t[pos] = tg
			variants(t, tier == "thorough")
		}
	}
	// models whose data fields have a database-side default
	out = append(out, ModelSpec{DBDefault: true})
	for _, pos := range []int{0, 1} {
		for _, tg := range []int{tgCreateOnly, tgUpdateOnly, tgNoWrite, tgReadOnly, tgIgnoreMigration} {
			var t [4]int
			t[pos] = tg
			out = append(out, ModelSpec{Tags: t, DBDefault: true})
		}
	}
	// shaped models: embedded base with re-declared (stricter) outer field,
	// embedded struct with column prefix shadowing a Go field name, separate
	// patch struct type as update value
	positions := []int{0, 1}
	for _, pos := range positions {
		for _, tg := range []int{tgCreateOnly, tgUpdateOnly, tgNoWrite, tgReadOnly} {
			var t [4]int
			t[pos] = tg
			out = append(out, ModelSpec{Tags: t, Shape: shapeOverrideBaseFirst}, ModelSpec{Tags: t, Shape: shapeOverrideBaseLast}, ModelSpec{Tags: t, Shape: shapePrefixShadow})
		}
		for _, tg := range []int{tgCreateOnly, tgNoWrite, tgReadOnly, tgIgnore} {
			var t [4]int
			t[pos] = tg
			out = append(out, ModelSpec{Tags: t, Shape: shapePatch}, ModelSpec{PatchTags: t, Shape: shapePatch})
		}
	}
	if tier == "thorough" {
		for _, pos := range positions {
			for _, tg := range []int{tgCreateOnly, tgNoWrite, tgReadOnly} {
				var t, q [4]int
				t[pos] = tg
				q[1-pos] = tgCreateOnly
				out = append(out, ModelSpec{Tags: t, PatchTags: q, Shape: shapePatch})
				var t2 [4]int
				t2[pos], t2[2+pos] = tg, tgUpdateOnly
				out = append(out, ModelSpec{Tags: t2, Shape: shapeOverrideBaseFirst}, ModelSpec{Tags: t2, Shape: shapePrefixShadow})
			}
		}
	}
	if tier == "thorough" {
		for p1 := 0; p1 < 4; p1++ {
			for p2 := p1 + 1; p2 < 4; p2++ {
				for t1 := 1; t1 < len(tagText); t1++ {
					for t2 := 1; t2 < len(tagText); t2++ {
						var t [4]int
						t[p1], t[p2] = t1, t2
						variants(t, false)
					}
				}
			}
		}
	}
	return out
}

func focusOf(m ModelSpec) (focus []int, other int) {
	for i := 0; i < 4; i++ {
		if m.Tags[i] != tgNone || m.PatchTags[i] != tgNone {
			focus = append(focus, i)
		}
	}
	if len(focus) == 0 {
		focus = []int{0}
	}
	in := map[int]bool{}
	for _, f := range focus {
		in[f] = true
	}
	for i := 0; i < 4; i++ {
		if !in[i] {
			other = i
			break
		}
	}
	return
}

func selSets(m ModelSpec, tier string) []SelSpec {
	focus, other := focusOf(m)
	var xs []int
	if tier == "thorough" && len(focus) == 1 {
		xs = []int{lF0, lF1, lF2, lF3, lUT, lCT}
	} else {
		for _, f := range focus {
			xs = append(xs, lF0+f)
		}
		xs = append(xs, lF0+other, lUT, lCT)
	}
	out := []SelSpec{{}, {Star: true}}
	for _, x := range xs {
		out = append(out,
			SelSpec{Sel: []NameRef{{x, 0}}},
			SelSpec{Sel: []NameRef{{x, 1}}},
			SelSpec{Omit: []NameRef{{x, 0}}},
			SelSpec{Omit: []NameRef{{x, 1}}},
			SelSpec{Star: true, Omit: []NameRef{{x, 0}}},
		)
		if tier == "thorough" {
			out = append(out,
				SelSpec{Star: true, Omit: []NameRef{{x, 1}}},
				SelSpec{Sel: []NameRef{{x, 2}}},
			)
		}
	}
	f0 := lF0 + focus[0]
	out = append(out, SelSpec{Sel: []NameRef{{f0, 0}, {lF0 + other, 0}}})
	if tier == "thorough" {
		out = append(out,
			SelSpec{Sel: []NameRef{{f0, 1}, {lUT, 0}}},
			SelSpec{Sel: []NameRef{{f0, 0}, {lF0 + other, 1}}, Omit: []NameRef{{lF0 + other, 0}}},
			SelSpec{Omit: []NameRef{{f0, 0}, {lUT, 1}}},
			SelSpec{Sel: []NameRef{{lID, 0}, {f0, 0}}},
		)
		if len(focus) > 1 {
			f1 := lF0 + focus[1]
			out = append(out,
				SelSpec{Sel: []NameRef{{f0, 0}, {f1, 1}}},
				SelSpec{Omit: []NameRef{{f0, 1}, {f1, 0}}},
				SelSpec{Star: true, Omit: []NameRef{{f1, 0}}},
			)
		}
	}
	return out
}

func valPatterns(m ModelSpec, tier string) [][4]int {
	focus, other := focusOf(m)
	isF := map[int]bool{}
	for _, f := range focus {
		isF[f] = true
	}
	fill := func(f func(i int) int) [4]int {
		var v [4]int
		for i := range v {
			v[i] = f(i)
		}
		return v
	}
	var out [][4]int
	if tier == "thorough" && len(focus) == 1 && m.TimeKind == 0 && !m.CTag {
		for a := 0; a < 81; a++ {
			n := a
			var v [4]int
			for i := range v {
				v[i] = n % 3
				n /= 3
			}
			out = append(out, v)
		}
	} else {
		out = append(out,
			fill(func(i int) int { return vNonZero }),
			fill(func(i int) int {
				if isF[i] {
					return vZero
				}
				return vNonZero
			}),
			fill(func(i int) int {
				if isF[i] {
					return vNonZero
				}
				return vAbsent
			}),
			fill(func(i int) int {
				if isF[i] {
					return vAbsent
				}
				return vNonZero
			}),
		)
		if len(focus) > 1 {
			for k := 0; k < 2; k++ {
				a, b := focus[k], focus[1-k]
				out = append(out,
					fill(func(i int) int {
						switch i {
						case a:
							return vZero
						}
						return vNonZero
					}),
					fill(func(i int) int {
						switch i {
						case a:
							return vNonZero
						case b:
							return vZero
						}
						return vAbsent
					}),
					fill(func(i int) int {
						switch i {
						case a:
							return vExpr
						case b:
							return vNonZero
						}
						return vAbsent
					}),
				)
			}
		}
	}
	// Expr patterns
	f0 := focus[0]
	out = append(out,
		fill(func(i int) int {
			switch i {
			case f0:
				return vExpr
			case other:
				return vZero
			}
			return vAbsent
		}),
		fill(func(i int) int {
			if i == f0 {
				return vExpr
			}
			return vNonZero
		}),
		fill(func(i int) int {
			if i == other {
				return vExpr
			}
			return vNonZero
		}),
	)
	return out
}

func singlePatterns(m ModelSpec, tier string) [][4]int {
	focus, other := focusOf(m)
	fields := append(append([]int{}, focus...), other)
	if tier == "thorough" && len(focus) == 1 {
		fields = []int{0, 1, 2, 3}
	}
	var out [][4]int
	for _, f := range fields {
		for _, code := range []int{vZero, vNonZero, vExpr} {
			var v [4]int
			v[f] = code
			out = append(out, v)
		}
	}
	return out
}

func enumerate(u unit, tier string, emit func(Case)) {
	if u.m.DBDefault {
		switch u.fin { // the create paths with struct values
		case fCreate, fCreateBatches, fSaveNew, fSaveAbsent, fSaveSlice, fUpsertAll, fUpsertAllSlice:
		default:
			return
		}
	}
	if u.m.Shape == shapePatch && u.fin != fUpdatesStruct && u.fin != fUpdatesStructPtr && u.fin != fUpdateColumnsStruct {
		return // every other program is identical to the flat model
	}
	seen := map[string]bool{}
	sels := selSets(u.m, tier)
	var vals [][4]int
	if finIsSingle(u.fin) {
		vals = singlePatterns(u.m, tier)
	} else {
		vals = valPatterns(u.m, tier)
	}
	spells := []int{0}
	if !finIsStruct(u.fin) {
		spells = []int{0, 1}
	}
	targets := []int{tKey}
	if finHasTargetModel(u.fin) {
		targets = []int{tKey, tCond, tBoth, tDisjoint}
	} else if finSelfKeyed(u.fin) {
		targets = []int{tKey, tBoth, tDisjoint}
	}
	// value combinations: every data pattern without explicit time values, and
	// a few data patterns with explicit non-zero create-time/update-time values
	type combo struct {
		v  [4]int
		tv [2]int
	}
	var combos []combo
	for _, v := range vals {
		combos = append(combos, combo{v: v})
	}
	focus, _ := focusOf(u.m)
	var allNZ, focusOnly, none [4]int
	for i := range allNZ {
		allNZ[i] = vNonZero
	}
	for _, f := range focus {
		focusOnly[f] = vNonZero
	}
	if (u.m.Shape != shapeFlat || u.m.DBDefault) && tier != "thorough" {
		// shaped models: data patterns only
	} else if finIsSingle(u.fin) {
		combos = append(combos, combo{none, [2]int{0, 1}}, combo{none, [2]int{1, 0}})
	} else if tier == "thorough" && len(focus) > 1 {
		combos = append(combos, combo{allNZ, [2]int{1, 1}}, combo{allNZ, [2]int{0, 1}}, combo{none, [2]int{0, 1}})
	} else {
		for _, tv := range [][2]int{{0, 1}, {1, 1}, {1, 0}} {
			combos = append(combos, combo{allNZ, tv}, combo{focusOnly, tv}, combo{none, tv})
		}
	}
	sessions := []bool{false}
	if finAllowsSkipHooksSession(u.fin) && (u.m.Shape == shapeFlat || tier == "thorough") {
		sessions = []bool{false, true}
	}
	mixes := []bool{false}
	if (u.fin == fCreateBatches || u.fin == fUpsertAllSlice || u.fin == fSaveSlice) && u.m == (ModelSpec{}) {
		// (not for db_default models: SQLite has no DEFAULT keyword inside VALUES,
		// so a slice mixing zero and non-zero values of such a field is rejected
		// by the database - a dialect limit, not part of this property)
		mixes = []bool{false, true} // slice rows with and without values
	}
	for _, s := range sels {
		for _, cb := range combos {
			for _, sp := range spells {
				for _, tg := range targets {
					for _, sk := range sessions {
						if sk && tg != tKey && tg != tCond {
							continue
						}
						for _, mix := range mixes {
							c := Case{Model: u.m, Fin: u.fin, Sel: s, Vals: cb.v, KeySpell: sp, Target: tg, TVals: cb.tv, SkipHooks: sk, RowMix: mix}.canon()
							k := c.key()
							if seen[k] {
								continue
							}
							seen[k] = true
							emit(c)
						}
					}
				}
			}
		}
	}
}

func main() {
	args := mc.ParseArgs()
	run := mc.NewRun("C10", args.Tier, "exploration")
	x := &ctx{run: run, st: &stats{}, distinct: &mc.Set{}, outcomes: &mc.Set{}, samples: &mc.Samples{N: 8}, errKinds: map[string]int{}, errEx: map[string]string{}}
	if args.Replay != "" {
		var probe struct {
			Kind string `json:"kind"`
		}
		mc.LoadReplay(args.Replay, &probe)
		if probe.Kind == "ckey" {
			var c CKCase
			if err := mc.LoadReplay(args.Replay, &c); err != nil {
				fmt.Fprintln(os.Stderr, err)
				os.Exit(3)
			}
			w := newCkWorker()
			res := w.exec(c)
			fmt.Printf("T = %s\n%s\nerr=%v rows_affected=%d panic=%q\nstatements:\n  %s\nbefore:\n%safter:\n%s",
				ckModels[c.Model].name, res.prog, res.err, res.rows, res.panicMsg, strings.Join(res.stmts, "\n  "), ckRowsString(res.before), ckRowsString(res.after))
			ckCheck(run, w, c, &ckStats{}, &mc.Set{}, &mc.Samples{N: 1})
			if run.NumViolations() > 0 {
				os.Exit(1)
			}
			fmt.Println("no violation")
			return
		}
		var c Case
		if err := mc.LoadReplay(args.Replay, &c); err != nil {
			fmt.Fprintln(os.Stderr, err)
			os.Exit(3)
		}
		c = c.canon()
		w := newWorker()
		res := w.exec(c)
		pr := predict(c)
		fmt.Printf("T = %s\n%s\nerr=%v rows_affected=%d panic=%q\nstatements:\n  %s\nprediction:\n%sbefore:\n%safter:\n%s",
			c.Model.String(), res.prog, res.err, res.rows, res.panicMsg, strings.Join(res.stmts, "\n  "), pr.String(c.Model), w.pristStr, rowsString(res.after))
		check(x, w, c, x.distinct)
		if run.NumViolations() > 0 {
			os.Exit(1)
		}
		fmt.Println("no violation")
		return
	}

	var units []unit
	ms := models(args.Tier)
	if sh := os.Getenv("C10_SHAPE"); sh != "" { // development: only models of one shape
		var keep []ModelSpec
		for _, m := range ms {
			if fmt.Sprint(m.Shape) == sh {
				keep = append(keep, m)
			}
		}
		ms = keep
	}
	for _, m := range ms {
		for f := 0; f < nFin; f++ {
			units = append(units, unit{m, f})
		}
	}
	if os.Getenv("C10_COUNT") != "" {
		n := 0
		for _, u := range units {
			enumerate(u, args.Tier, func(Case) { n++ })
		}
		fmt.Println("cases:", n, "units:", len(units), "models:", len(ms))
		return
	}
	if pf := os.Getenv("C10_PROF"); pf != "" {
		f, _ := os.Create(pf)
		pprof.StartCPUProfile(f)
		defer pprof.StopCPUProfile()
	}
	deadline := time.Now().Add(9*time.Minute + 30*time.Second)
	var timedOut int32
	var next int64 = -1
	var distinctTotal int64
	var wg sync.WaitGroup
	for i := 0; i < 16; i++ {
		wg.Add(1)
		go func() {
			defer wg.Done()
			w := newWorker()
			defer w.env.Close()
			for {
				n := atomic.AddInt64(&next, 1)
				if int(n) >= len(units) {
					return
				}
				// visit the units in a fixed strided order, so that a run cut by
				// the deadline has seen a cross-section of all model classes
				n = (n * 7919) % int64(len(units))
				if time.Now().After(deadline) {
					atomic.StoreInt32(&timedOut, 1)
					return
				}
				// units are disjoint in (model, program), so distinctness is
				// decided inside the unit and the counts are summed
				local := &mc.Set{}
				enumerate(units[n], args.Tier, func(c Case) { check(x, w, c, local) })
				atomic.AddInt64(&distinctTotal, int64(local.Len()))
			}
		}()
	}
	wg.Wait()

	if x.dbg != nil {
		var ks []string
		for k := range x.dbg {
			ks = append(ks, k)
		}
		sort.Strings(ks)
		for _, k := range ks {
			fmt.Printf("DBG %6d %s\n   %s\n", x.dbg[k], k, strings.ReplaceAll(x.dbgEx[k], "\n", "\n   "))
		}
	}
	ckSamples := &mc.Samples{N: 4}
	ck := runCkey(run, x.outcomes, ckSamples)
	st := x.st
	floor := func(name string, got, min int64) {
		// floors are meaningful for complete runs only
		if got < min && run.NumViolations() == 0 && atomic.LoadInt32(&timedOut) == 0 {
			run.HarnessError("vacuous: %s = %d, floor %d", name, got, min)
		}
	}
	scale := int64(1)
	floor("denied_cells_offered_and_kept", st.hardTemptKept, 20000*scale)
	floor("rows_outside_target_verified_unchanged", st.outsideRows, 100000*scale)
	floor("strict_subset_targets_written", st.subsetWritten, 10000*scale)
	floor("updatecolumn_cases_written_autotime_kept", st.colUpdKeptTime, 3000*scale)
	floor("column_update_cases_supplied_update_time_kept", st.colUpdSuppliedKept, 1000*scale)
	floor("hook_update_cases_update_time_refreshed", st.hookUpdRefreshed, 10000*scale)
	floor("hook_update_cases_update_time_omitted_kept", st.omitKeptTime, 1000*scale)
	floor("positive_cells_checked", st.beChecked, 50000*scale)
	floor("map_programs_compared_across_key_spelling", st.twinChecked, 20000*scale)
	floor("composite_key_cases", ck.cases, 1000)
	floor("composite_key_sibling_rows_verified_unchanged", ck.siblingsKept, 2000)
	floor("composite_key_targets_written", ck.targetsWritten, 500)
	floor("composite_key_targets_deleted", ck.targetsDeleted, 100)
	floor("distinct_outcomes", int64(x.outcomes.Len()), 100)

	var ek []string
	for k := range x.errKinds {
		ek = append(ek, k)
	}
	sort.Strings(ek)
	errs := map[string]interface{}{}
	for _, k := range ek {
		errs[k] = map[string]interface{}{"count": x.errKinds[k], "example": x.errEx[k]}
	}

	pprof.StopCPUProfile()
	run.Assume("SQLite dialect (RETURNING on) only; models without hooks, associations, default values, embedded structs or soft delete; one single-column primary key")
	run.Assume("the reference meaning of each permission tag and of Select/Omit is written from gorm's documentation in oracle.go/model.go and is trusted")
	run.Assume("cells classified 'free' by the reference model are not asserted: auto-time cells on create under a restricting Select that does not name them, on create-from-map / upsert-from-map without a key for them, the update-time cell on upsert-from-map and under explicit DoUpdates; a DoUpdates column listed by hand for a restricted field; a map key spelled as the raw column name of a field gorm ignores (-, -:all); the primary key cell when Select(\"*\") meets a struct value; a create-time/update-time cell that is selected explicitly while the struct carries the zero value (only 'never a fresh time' is asserted); a map key for the update-time column under a hook-running update when a restricting Select does not name it; in-memory write-back into the model value is not part of this property")
	run.Assume("differential rule: every map program (Create(map), Create(&[]map), upsert-from-map, Updates(map), Update, UpdateColumn, UpdateColumns(map)) is also run with its keys in the other spelling and must write the same cells, including the cells the absolute model leaves free; excluded: maps with a key for a field gorm ignores (-, -:all)")
	run.Assume("model shapes: override = untagged embedded Base{F0..F3} plus an outer re-declaration (same Go name, same column) with <-:create/<-:update/<-:false/-> (outer = shortest path = effective field; ->:false, - and -:all are not enumerated as overriding tags because gorm lets a field without any permission not take over); prefix-shadow = flat model plus Aud{Fi} with embeddedPrefix aud_ (column aud_fi is not asserted on rows the program may write; a field-name spelled Select/Omit entry or map key Fi is ambiguous between fi and aud_fi, so only the hard core is asserted for fi then and the spelling-differential rule is skipped); patch-struct = Updates/UpdateColumns with a value of a different struct type P{F0..F3} with its own tags (a column is writable only if the model's field and P's field both allow it; the update-time cell is free because P has no update-time field)")
	run.Assume("composite-key family (ckey.go): models K2(int,string), K2s(string,int), K3(int,string,int) on tables whose rows share every proper subset of key values; 16 targeting programs x every row / an absent key (slices: every pair, and row+absent) x {no condition, condition matching all rows, condition excluding the first keyed row}; only FULL keys are given (a value with some key columns zero is targeted differently by the update and delete paths and is left out); evaluations/distinct_nontrivial do not include these cases, they are counted in composite_key_*")
	run.Assume("models with db_default: every data field also carries a database-side default tag (default:(expr)); they run the struct-valued create paths (Create, CreateInBatches, Save new/absent/slice, upsert UpdateAll struct/slice) ; slices whose odd rows carry zero values run on the untagged flat model only (SQLite rejects the DEFAULT keyword gorm renders for mixed rows of a db_default field); ->:false is not combined with db_default (gorm panics with a nil dereference in Scan and leaks the transaction when INSERT .. ON CONFLICT DO NOTHING RETURNING returns a column of a non-readable field: outside this property, reported separately); a zero value is left to the database (NULL: the table has no column default), UpdateAll does not rewrite such columns on conflict")
	run.Assume("a Session{SkipHooks:true} chain is treated like the column-update methods (no refresh of update-time, update-time written only when selected or supplied)")
	run.Finish(map[string]interface{}{
		"evaluations":         st.total,
		"distinct_nontrivial": distinctTotal,
		"rule": "every model of the bound (quick: <=1 tagged data field: 9 tags x 4 positions, plus time.Time / <-:create create-time variants of the untagged model, plus 40 shaped models (embedded base with re-declared outer field in both declaration orders, embedded struct with column prefix shadowing a Go field name, separate patch struct type as update value; positions 0/1, restricting tags); thorough: all variants of those plus every pair of tagged fields) x 21 write programs x Select/Omit sets x value patterns (absent/zero/non-zero/Expr per data field; explicit non-zero create-time/update-time values none/update/both/create on a subset of the data patterns) x Session{SkipHooks} on/off for Updates(struct|&self|map) x key spelling x target (model key / condition / both / both-disjoint); " +
			"a case is non-trivial when the write changed at least one cell AND at least one cell for which a value was offered had to stay untouched (denied by tag, omitted, not selected, zero struct field is not counted) and the whole oracle passed; distinct = distinct (model, program, sel, values, spelling, target) tuples",
		"samples":                                       x.samples.List(),
		"exhaustive":                                    timedOut == 0,
		"models":                                        len(ms),
		"programs":                                      nFin,
		"distinct_outcomes":                             x.outcomes.Len(),
		"cases_returning_error":                         st.errored,
		"cases_error_accepted_by_model":                 st.acceptedErr,
		"cases_without_any_cell_change":                 st.noChange,
		"denied_cells_offered_and_kept":                 st.hardTemptKept,
		"restricted_cells_offered_and_kept":             st.temptKept,
		"positive_cells_checked":                        st.beChecked,
		"fresh_time_cells_checked":                      st.freshChecked,
		"rows_outside_target_verified_unchanged":        st.outsideRows,
		"strict_subset_targets_written":                 st.subsetWritten,
		"updatecolumn_cases_written_autotime_kept":      st.colUpdKeptTime,
		"column_update_cases_supplied_update_time_kept": st.colUpdSuppliedKept,
		"hook_update_cases_update_time_refreshed":       st.hookUpdRefreshed,
		"hook_update_cases_update_time_omitted_kept":    st.omitKeptTime,
		"map_programs_compared_across_key_spelling":     st.twinChecked,
		"composite_key_cases":                           ck.cases,
		"composite_key_sibling_rows_verified_unchanged": ck.siblingsKept,
		"composite_key_targets_written":                 ck.targetsWritten,
		"composite_key_targets_deleted":                 ck.targetsDeleted,
		"composite_key_rows_affected_verified":          ck.rowsAffectedOK,
		"composite_key_samples":                         ckSamples.List(),
		"new_rows_seen":                                 st.newRowsSeen,
		"error_classes":                                 errs,
	})
}
