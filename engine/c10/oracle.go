package main

import (
	"fmt"
	"strings"
)

// ---------------------------------------------------------------------------
// reference model: predicted write set per cell

type expKind int

const (
	xKeep      expKind = iota // cell must keep its previous value (new rows: must be NULL)
	xBe                       // cell must have the given value (only asserted when the call returned no error)
	xFresh                    // cell must hold a fresh clock value (only asserted when no error)
	xFree                     // not asserted
	xNotFresh                 // not asserted, except that it must not hold a fresh clock value
	xBeOrFresh                // must hold the given value or a fresh clock value (only asserted when no error)
)

type cellExp struct {
	kind  expKind
	val   interface{}
	expr  bool // xBe: value = dbVal(expr) of the old cell (computed at compare time)
	field int  // data field index for expr
	hard  bool // part of the hard core
	why   string
	tempt bool // a value was offered for a cell that must be kept
}

func keep(hard bool, why string, tempt bool) cellExp {
	return cellExp{kind: xKeep, hard: hard, why: why, tempt: tempt}
}
func be(v interface{}, why string) cellExp { return cellExp{kind: xBe, val: v, why: why} }
func free(why string) cellExp              { return cellExp{kind: xFree, why: why} }

type prediction struct {
	rows    map[int][]cellExp // rk -> per logical column
	newRows [][]cellExp       // expected new rows, in id order
	mayErr  string            // an error is an accepted outcome for this input (reason)
	fewerOK string            // fewer new rows than predicted are accepted (reason)
	note    string
}

type selInfo struct {
	explicit   [nLogical]bool
	omitted    [nLogical]bool
	restricted bool
}

func (m ModelSpec) resolves(n NameRef) bool {
	if n.L >= lF0 && n.L <= lF3 && m.modelPerm(n.L-lF0).Ign {
		return false // gorm knows no column for an ignored field
	}
	return true
}

func analyse(m ModelSpec, s SelSpec) selInfo {
	var si selInfo
	if s.Star {
		for l := 0; l < nLogical; l++ {
			si.explicit[l] = true
		}
	}
	for _, n := range s.Sel {
		if m.resolves(n) {
			si.explicit[n.L] = true
		}
	}
	si.restricted = len(s.Sel) > 0 && !s.Star
	for _, n := range s.Omit {
		if m.resolves(n) {
			si.omitted[n.L] = true
			si.explicit[n.L] = false
		}
	}
	return si
}

func allKeep(why string) []cellExp {
	out := make([]cellExp, nLogical)
	for i := range out {
		out[i] = keep(true, why, false)
	}
	return out
}

// offered: does the value carry something for data field i that would change
// the cell if written
func (c Case) offered(i int) bool {
	if finIsStruct(c.Fin) {
		return true
	}
	return c.Vals[i] != vAbsent
}

func (c Case) beVal(i, r int, create bool, why string) cellExp {
	code := c.Vals[i]
	if finIsStruct(c.Fin) && code == vAbsent {
		code = vZero
	}
	if finIsStruct(c.Fin) && code == vExpr {
		code = vNonZero
	}
	if code == vExpr && !create {
		return cellExp{kind: xBe, expr: true, field: i, why: why}
	}
	return be(dbVal(i, code, r, create, nil), why)
}

// ---- new row produced from a struct by a create path
// utTracked: the program re-tracks the update-time even when the struct
// carries one (Save of a slice, Save falling back to an insert).
func (c Case) newRowFromStruct(si selInfo, r int, id interface{}, utTracked bool) []cellExp {
	m := c.Model
	out := make([]cellExp, nLogical)
	if id != nil {
		out[lID] = be(id, "given key")
	} else {
		out[lID] = free("auto id")
	}
	for i := 0; i < 4; i++ {
		l := lF0 + i
		p := m.perm(i)
		nz := c.structNonZero(i, r)
		switch {
		case p.Ign:
			out[l] = keep(true, "ignored field", nz)
		case !p.C:
			out[l] = keep(true, "field is not creatable", nz)
		case si.omitted[l]:
			out[l] = keep(false, "omitted", nz)
		case si.restricted && !si.explicit[l]:
			out[l] = keep(false, "not selected", nz)
		case nz:
			out[l] = be(dbVal(i, vNonZero, r, true, nil), "create writes every permitted field")
		case m.DBDefault:
			out[l] = be(nil, "a zero value leaves a column with a database-side default to the database")
		default:
			out[l] = be(dbVal(i, vZero, r, true, nil), "create writes every permitted field")
		}
	}
	for k, l := range []int{lCT, lUT} {
		supplied := c.TVals[k] != 0
		switch {
		case si.omitted[l]:
			out[l] = keep(false, "omitted", true)
		case si.restricted && !si.explicit[l]:
			out[l] = free("auto-time field under a restricting Select on create: undocumented")
		case supplied && !(l == lUT && utTracked):
			out[l] = be(m.timeVal(k), "create keeps a non-zero time supplied by the caller")
		default:
			out[l] = cellExp{kind: xFresh, why: "time tracking on create"}
		}
	}
	return out
}

// ---- new row produced from a map by a create path
func (c Case) newRowFromMap(si selInfo, r int, pr *prediction) []cellExp {
	m := c.Model
	out := make([]cellExp, nLogical)
	out[lID] = free("auto id")
	for i := 0; i < 4; i++ {
		l := lF0 + i
		p := m.perm(i)
		off := c.Vals[i] != vAbsent
		switch {
		case p.Ign:
			if off && c.KeySpell == 1 {
				out[l] = free("map key spelled as a raw column name of a field gorm ignores")
			} else {
				out[l] = keep(true, "ignored field", off)
				if off {
					pr.mayErr = "map key names an ignored field (no column)"
				}
			}
		case !off:
			out[l] = keep(false, "no key", false)
		case !p.C:
			out[l] = keep(true, "field is not creatable", true)
		case si.omitted[l]:
			out[l] = keep(false, "omitted", true)
		case si.restricted && !si.explicit[l]:
			out[l] = keep(false, "not selected", true)
		default:
			out[l] = c.beVal(i, r, true, "create from map writes every permitted key")
		}
	}
	for k, l := range []int{lCT, lUT} {
		switch {
		case c.TVals[k] == 0:
			out[l] = free("time tracking on create-from-map: undocumented")
		case si.omitted[l]:
			out[l] = keep(false, "omitted", true)
		case si.restricted && !si.explicit[l]:
			out[l] = keep(false, "not selected", true)
		default:
			out[l] = be(m.timeVal(k), "create from map writes every permitted key")
		}
	}
	return out
}

// does the INSERT carry the given primary key (so that it can conflict)?
func keyInserted(si selInfo) bool {
	return !si.omitted[lID] && !(si.restricted && !si.explicit[lID])
}

func predict(c Case) *prediction {
	m := c.Model
	si := analyse(m, c.Sel)
	pr := &prediction{rows: map[int][]cellExp{}}
	for rk := 1; rk <= 3; rk++ {
		pr.rows[rk] = allKeep("row is outside the target")
	}

	switch c.Fin {
	case fCreate, fSaveNew:
		pr.newRows = append(pr.newRows, c.newRowFromStruct(si, 0, nil, false))
	case fCreateBatches:
		for r := 0; r < 3; r++ {
			pr.newRows = append(pr.newRows, c.newRowFromStruct(si, r, nil, false))
		}
	case fCreateMap:
		pr.newRows = append(pr.newRows, c.newRowFromMap(si, 0, pr))
	case fCreateMaps:
		pr.newRows = append(pr.newRows, c.newRowFromMap(si, 0, pr), c.newRowFromMap(si, 1, pr))
		if !anyDataColumn(pr.newRows[0]) {
			pr.fewerOK = "no column of the maps survives Select/Omit/permissions: gorm renders one INSERT .. DEFAULT VALUES"
		}

	case fUpsertAll, fUpsertAllSlice, fSaveSlice, fUpsertDoUpdates, fUpsertDoNothing:
		if !keyInserted(si) {
			// the key is not part of the INSERT: no conflict, plain creates
			pr.note = "key not inserted"
			pr.newRows = append(pr.newRows, c.newRowFromStruct(si, 0, nil, c.Fin == fSaveSlice))
		} else {
			pr.rows[1] = c.conflictRowStruct(si)
		}
		if c.Fin == fUpsertAllSlice || c.Fin == fSaveSlice {
			pr.newRows = append(pr.newRows, c.newRowFromStruct(si, 1, nil, c.Fin == fSaveSlice))
		}
	case fUpsertAllMap:
		if !keyInserted(si) {
			pr.note = "key not inserted"
			pr.newRows = append(pr.newRows, c.newRowFromMap(si, 0, pr))
			if !anyDataColumn(pr.newRows[0]) {
				pr.mayErr = "no column of the map survives Select/Omit/permissions: INSERT .. DEFAULT VALUES ON CONFLICT is not valid SQL"
			}
		} else {
			nr := c.newRowFromMap(si, 0, pr) // for mayErr side effect and cell classes
			row := allKeep("")
			for i := 0; i < 4; i++ {
				l := lF0 + i
				p := m.perm(i)
				e := nr[l]
				switch {
				case e.kind == xFree:
					row[l] = e
				case e.kind == xBe && p.U:
					row[l] = e
					row[l].why = "upsert UpdateAll from map"
				case e.kind == xBe:
					row[l] = keep(true, "field is not updatable", true)
				default:
					row[l] = keep(e.hard || !p.U, orStr(e.why, "not written"), e.tempt)
				}
			}
			row[lID] = keep(true, "primary key", false)
			row[lCT] = keep(m.CTag, "create-time is not rewritten on conflict", c.TVals[0] != 0)
			row[lUT] = free("update-time on upsert from map: undocumented")
			pr.rows[1] = row
		}

	case fSaveAbsent:
		userSel := c.Sel.Star || len(c.Sel.Sel) > 0
		if !userSel {
			// update matches nothing -> insert (all fields, Omit honoured)
			si2 := si
			for l := 0; l < nLogical; l++ {
				if !si2.omitted[l] {
					si2.explicit[l] = true
				}
			}
			si2.restricted = false
			pr.newRows = append(pr.newRows, c.newRowFromStruct(si2, 0, int64(9), true))
		}

	case fSaveExisting, fUpdatesSelf, fUpdatesStruct, fUpdatesStructPtr, fUpdatesMap, fUpdate, fUpdateColumn, fUpdateColumnsMap, fUpdateColumnsStruct:
		for _, rk := range c.targetRows() {
			pr.rows[rk] = c.updateRow(si)
		}
		if finIsStruct(c.Fin) && !finSelfKeyed(c.Fin) && si.explicit[lID] && len(c.targetRows()) > 1 {
			pr.mayErr = "Select(\"*\") with a struct value writes the struct's (zero) primary key into several rows"
		}
	}
	c.shapeAdjust(pr)
	if c.Model.Shape != shapeFlat && len(pr.newRows) > 0 && !anyDataColumn(pr.newRows[0]) {
		switch c.Fin {
		case fCreateMaps:
			pr.fewerOK = "possibly no column of the maps survives: one INSERT .. DEFAULT VALUES"
		case fUpsertAllMap:
			pr.mayErr = orStr(pr.mayErr, "possibly no column of the map survives: INSERT .. DEFAULT VALUES ON CONFLICT is not valid SQL")
		}
	}
	return pr
}

// nameAmbiguous: shapePrefixShadow has two fields with the Go name of the
// shadowed field (Fi -> column fi, Aud.Fi -> column aud_fi); which column a
// field-name spelled Select/Omit entry or map key denotes is not documented.
func (c Case) nameAmbiguous() bool {
	sh := c.Model.shadow()
	if sh < 0 {
		return false
	}
	for _, n := range append(append([]NameRef{}, c.Sel.Sel...), c.Sel.Omit...) {
		if n.L == lF0+sh && n.Spell == 0 {
			return true
		}
	}
	return !finIsStruct(c.Fin) && c.KeySpell == 0 && c.Vals[sh] != vAbsent
}

// touchableRows: existing rows the program may legitimately write
func (c Case) touchableRows() map[int]bool {
	tr := map[int]bool{}
	for _, rk := range c.targetRows() {
		tr[rk] = true
	}
	if !finIsUpdate(c.Fin) && c.Fin != fSaveExisting {
		tr[1] = true // upsert conflict row
	}
	return tr
}

// shapeAdjust relaxes the positive rules where a model shape makes them
// ambiguous; the hard core (a column whose effective field denies the write,
// rows outside the target) stays.
func (c Case) shapeAdjust(pr *prediction) {
	relax := func(exp []cellExp, l int, why string) {
		if exp[l].kind == xKeep && exp[l].hard {
			return
		}
		exp[l] = free(why)
	}
	each := func(f func(exp []cellExp, target bool)) {
		tr := c.touchableRows()
		for rk, exp := range pr.rows {
			f(exp, tr[rk])
		}
		for _, exp := range pr.newRows {
			f(exp, true)
		}
	}
	switch c.Model.Shape {
	case shapePrefixShadow:
		if c.nameAmbiguous() {
			sh := c.Model.shadow()
			each(func(exp []cellExp, target bool) {
				if target {
					relax(exp, lF0+sh, "field-name spelling is ambiguous between Fi and Aud.Fi")
				}
			})
		}
	case shapePatch:
		each(func(exp []cellExp, target bool) {
			if target {
				relax(exp, lUT, "time tracking for a value of a foreign struct type without the update-time field: undocumented")
			}
		})
	}
}

func anyDataColumn(exp []cellExp) bool {
	for l := lF0; l <= lF3; l++ {
		if exp[l].kind == xBe { // a free cell may or may not carry a column
			return true
		}
	}
	return false
}

func orStr(a, b string) string {
	if a != "" {
		return a
	}
	return b
}

// row 1 under INSERT .. ON CONFLICT with a struct value carrying ID 1
func (c Case) conflictRowStruct(si selInfo) []cellExp {
	m := c.Model
	row := allKeep("")
	row[lID] = keep(true, "primary key", false)
	switch c.Fin {
	case fUpsertDoNothing:
		for l := range row {
			row[l] = keep(false, "OnConflict DoNothing", true)
		}
		row[lID] = keep(true, "primary key", false)
	case fUpsertDoUpdates:
		for i := 0; i < 4; i++ {
			l := lF0 + i
			p := m.perm(i)
			listed := i < 2
			switch {
			case listed && m.DBDefault && !p.Ign && p.C && p.U:
				row[l] = free("DoUpdates column with a database-side default")
			case listed && !p.Ign && p.C && p.U && !si.omitted[l] && !(si.restricted && !si.explicit[l]):
				row[l] = c.beVal(i, 0, true, "listed in DoUpdates")
			case listed:
				row[l] = free("column listed by hand in DoUpdates although the field is restricted: outside the documented rules")
			default:
				row[l] = keep(p.Ign || !p.U || !p.C, "not listed in DoUpdates", true)
			}
		}
		row[lCT] = keep(m.CTag, "not listed in DoUpdates", c.TVals[0] != 0)
		row[lUT] = free("update-time under explicit DoUpdates: undocumented")
	default: // UpdateAll
		for i := 0; i < 4; i++ {
			l := lF0 + i
			p := m.perm(i)
			nz := true
			switch {
			case p.Ign:
				row[l] = keep(true, "ignored field", nz)
			case !p.C:
				row[l] = keep(true, "field is not creatable", nz)
			case !p.U:
				row[l] = keep(true, "field is not updatable", nz)
			case si.omitted[l]:
				row[l] = keep(false, "omitted", nz)
			case si.restricted && !si.explicit[l]:
				row[l] = keep(false, "not selected", nz)
			case m.DBDefault:
				row[l] = keep(false, "UpdateAll does not rewrite columns that have a database-side default", nz)
			default:
				row[l] = c.beVal(i, 0, true, "upsert UpdateAll writes every permitted column")
			}
		}
		row[lCT] = keep(m.CTag, "create-time is not rewritten on conflict", c.TVals[0] != 0)
		switch {
		case si.omitted[lUT]:
			row[lUT] = keep(false, "omitted", true)
		case si.restricted && !si.explicit[lUT]:
			row[lUT] = free("update-time under restricting Select on upsert: undocumented")
		default:
			row[lUT] = cellExp{kind: xFresh, why: "upsert UpdateAll refreshes update-time"}
		}
	}
	return row
}

// a target row of an update finisher
func (c Case) updateRow(si selInfo) []cellExp {
	m := c.Model
	isStruct := finIsStruct(c.Fin)
	hooks := !c.noHooks()
	destIsModel := finSelfKeyed(c.Fin)
	if c.Fin == fSaveExisting && !c.Sel.Star && len(c.Sel.Sel) == 0 {
		// Save = all fields
		for l := 0; l < nLogical; l++ {
			if !si.omitted[l] {
				si.explicit[l] = true
			}
		}
	}
	row := make([]cellExp, nLogical)
	for i := 0; i < 4; i++ {
		l := lF0 + i
		p := m.perm(i)
		code := c.Vals[i]
		off := c.offered(i)
		nz := code == vNonZero || code == vExpr || (off && si.explicit[l])
		switch {
		case p.Ign:
			if !isStruct && off && c.KeySpell == 1 {
				row[l] = free("map key spelled as a raw column name of a field gorm ignores")
			} else {
				row[l] = keep(true, "ignored field", nz)
			}
		case !off:
			row[l] = keep(false, "no key for the column", false)
		case si.omitted[l]:
			row[l] = keep(false, "omitted", nz)
		case !p.U:
			row[l] = keep(true, "field is not updatable", nz)
		case si.explicit[l]:
			row[l] = c.beVal(i, 0, false, "explicitly selected")
		case si.restricted:
			row[l] = keep(false, "not selected", nz)
		case isStruct && (code == vZero || code == vAbsent):
			row[l] = keep(false, "zero struct field", false)
		default:
			why := "map/Update writes every key"
			if isStruct {
				why = "struct writes non-zero fields"
			}
			row[l] = c.beVal(i, 0, false, why)
		}
	}
	// update-time
	utSupplied := c.TVals[1] != 0
	utVal := m.timeVal(1)
	switch {
	case si.omitted[lUT]:
		row[lUT] = keep(true, "update-time omitted", true)
	case hooks && isStruct:
		row[lUT] = cellExp{kind: xFresh, hard: true, why: "hook-running update refreshes update-time"}
	case hooks && !utSupplied:
		row[lUT] = cellExp{kind: xFresh, hard: true, why: "hook-running update refreshes update-time"}
	case hooks && (si.explicit[lUT] || !si.restricted):
		// "Updates with a map and Update write every given key": the caller's
		// value is stored, under either spelling of the key
		row[lUT] = cellExp{kind: xBe, val: utVal, why: "hook-running map update that supplies the update-time stores the supplied value"}
	case hooks:
		row[lUT] = free("map key for the update-time column that a restricting Select does not name, hook-running update: undocumented")
	// --- column-update methods / SkipHooks sessions from here on
	case si.explicit[lUT] && utSupplied:
		row[lUT] = cellExp{kind: xBe, val: utVal, hard: false, why: "update-time selected and supplied by the caller"}
	case si.explicit[lUT] && isStruct:
		row[lUT] = cellExp{kind: xNotFresh, hard: true, why: "UpdateColumn(s) never refresh update-time (selected explicitly: the struct's zero value may be written)"}
	case si.explicit[lUT]:
		row[lUT] = keep(true, "UpdateColumn(s) never touch auto-time fields (no key)", true)
	case si.restricted:
		row[lUT] = keep(true, "UpdateColumn(s): update-time is not selected", utSupplied)
	case utSupplied:
		row[lUT] = cellExp{kind: xBe, val: utVal, why: "update-time supplied by the caller to a column-update method"}
	default:
		row[lUT] = keep(true, "UpdateColumn(s) never touch auto-time fields", true)
	}
	// create-time: an ordinary column for updates, never refreshed
	ctSupplied := c.TVals[0] != 0
	ctVal := m.timeVal(0)
	switch {
	case m.CTag:
		row[lCT] = keep(true, "create-time field is <-:create", si.explicit[lCT] || ctSupplied)
	case si.omitted[lCT]:
		row[lCT] = keep(false, "omitted", ctSupplied)
	case si.explicit[lCT] && ctSupplied:
		row[lCT] = be(ctVal, "create-time selected and supplied")
	case si.explicit[lCT] && isStruct:
		row[lCT] = cellExp{kind: xNotFresh, hard: !hooks, why: "create-time selected explicitly: the struct's zero value is written; never a fresh time"}
	case si.explicit[lCT]:
		row[lCT] = keep(!hooks, "no key for the create-time column", false)
	case si.restricted:
		row[lCT] = keep(!hooks, "create-time not selected", ctSupplied)
	case ctSupplied:
		row[lCT] = be(ctVal, "create-time supplied by the caller (ordinary updatable column)")
	default:
		row[lCT] = keep(!hooks, "create-time is not part of the update", false)
	}
	// primary key
	if isStruct && !destIsModel && si.explicit[lID] {
		row[lID] = free("Select(\"*\") with a struct value also writes the struct's primary key")
	} else {
		row[lID] = keep(true, "primary key", false)
	}
	return row
}

// ---------------------------------------------------------------------------
// comparison

type finding struct {
	hard bool
	kind string
	text string
}

type cmpStats struct {
	temptKept     int // cells kept although a value was offered (denied / omitted / unselected)
	hardTemptKept int
	beChecked     int
	freshChecked  int
	outsideRows   int // rows outside the target verified unchanged
	changedCells  int
}

func (c Case) compare(pr *prediction, before, after []row, err error) (fs []finding, st cmpStats) {
	m := c.Model
	add := func(hard bool, kind, format string, a ...interface{}) {
		fs = append(fs, finding{hard, kind, fmt.Sprintf(format, a...)})
	}
	old := map[int64]row{}
	for _, r := range before {
		old[r[0].(int64)] = r
	}
	seen := map[int64]bool{}
	var fresh []row
	for _, r := range after {
		if r[0] == nil {
			fresh = append(fresh, r)
			continue
		}
		seen[r[0].(int64)] = true
	}
	freePhys := map[int]bool{} // physical columns not asserted on target / new rows
	if sh := m.shadow(); sh >= 0 {
		freePhys[physIndex(fmt.Sprintf("aud_f%d", sh))] = true
	}
	touchable := c.touchableRows()
	usedPhys := map[int]bool{0: true}
	for l := 0; l < nLogical; l++ {
		usedPhys[m.phys(l)] = true
	}
	target := map[int]bool{}
	for _, rk := range c.targetRows() {
		target[rk] = true
	}
	for _, r := range after {
		if r[0] == nil {
			continue
		}
		rk := r[0].(int64)
		o := old[rk]
		exp := pr.rows[int(rk)]
		rowChanged := false
		for l := 0; l < nLogical; l++ {
			pi := m.phys(l)
			e := exp[l]
			got, was := r[pi], o[pi]
			changed := cellStr(got) != cellStr(was)
			if changed {
				st.changedCells++
				rowChanged = true
			}
			col := m.colName(l)
			switch e.kind {
			case xKeep:
				if changed {
					kind := "unselected/omitted column written"
					if e.hard {
						kind = "forbidden cell written"
					}
					add(e.hard, kind, "row rk=%d column %s: %s -> %s, must not be written (%s)", rk, col, cellStr(was), cellStr(got), e.why)
				} else if e.tempt {
					st.temptKept++
					if e.hard {
						st.hardTemptKept++
					}
				}
			case xBe:
				if err != nil {
					break
				}
				want := e.val
				if e.expr {
					want = dbVal(e.field, vExpr, 0, false, was)
				}
				st.beChecked++
				if cellStr(got) != cellStr(want) {
					add(false, "expected write missing or wrong", "row rk=%d column %s: got %s, expected %s (%s)", rk, col, cellStr(got), cellStr(want), e.why)
				}
			case xFresh:
				if err != nil {
					break
				}
				st.freshChecked++
				if !isFresh(got) {
					add(e.hard, "update-time not refreshed", "row rk=%d column %s: got %s (was %s), expected a fresh time (%s)", rk, col, cellStr(got), cellStr(was), e.why)
				}
			case xBeOrFresh:
				if err != nil {
					break
				}
				st.beChecked++
				if cellStr(got) != cellStr(e.val) && !isFresh(got) {
					add(e.hard, "expected write missing or wrong", "row rk=%d column %s: got %s (was %s), expected %s or a fresh time (%s)", rk, col, cellStr(got), cellStr(was), cellStr(e.val), e.why)
				}
			case xNotFresh:
				if changed && isFresh(got) {
					add(e.hard, "auto-time refreshed where it must not be", "row rk=%d column %s: %s -> %s (%s)", rk, col, cellStr(was), cellStr(got), e.why)
				}
			}
		}
		// columns the model does not map must never change
		for pi := range r {
			if freePhys[pi] && touchable[int(rk)] {
				continue
			}
			if !usedPhys[pi] && cellStr(r[pi]) != cellStr(o[pi]) {
				add(true, "forbidden cell written", "row rk=%d column %s is not mapped by the model but changed: %s -> %s", rk, physCols[pi], cellStr(o[pi]), cellStr(r[pi]))
			}
		}
		if !target[int(rk)] && !rowChanged {
			st.outsideRows++
		}
	}
	for rk := range old {
		if !seen[rk] {
			add(true, "row disappeared", "row rk=%d no longer exists", rk)
		}
	}
	// new rows
	if len(fresh) > len(pr.newRows) {
		add(true, "unexpected new row", "%d new rows, expected %d:\n%s", len(fresh), len(pr.newRows), rowsString(fresh))
	} else if err == nil && len(fresh) < len(pr.newRows) && pr.fewerOK == "" {
		add(false, "expected new row missing", "%d new rows, expected %d", len(fresh), len(pr.newRows))
	}
	for i, r := range fresh {
		if i >= len(pr.newRows) {
			break
		}
		exp := pr.newRows[i]
		for l := 0; l < nLogical; l++ {
			pi := m.phys(l)
			e := exp[l]
			got := r[pi]
			col := m.colName(l)
			if got != nil {
				st.changedCells++
			}
			switch e.kind {
			case xKeep:
				if got != nil {
					kind := "unselected/omitted column written"
					if e.hard {
						kind = "forbidden cell written"
					}
					add(e.hard, kind, "new row #%d column %s = %s, must not be written (%s)", i, col, cellStr(got), e.why)
				} else if e.tempt {
					st.temptKept++
					if e.hard {
						st.hardTemptKept++
					}
				}
			case xBe:
				if err != nil {
					break
				}
				st.beChecked++
				if cellStr(got) != cellStr(e.val) {
					add(false, "expected write missing or wrong", "new row #%d column %s: got %s, expected %s (%s)", i, col, cellStr(got), cellStr(e.val), e.why)
				}
			case xFresh:
				if err != nil {
					break
				}
				st.freshChecked++
				if !isFresh(got) {
					add(false, "create-time/update-time not set on create", "new row #%d column %s: got %s (%s)", i, col, cellStr(got), e.why)
				}
			}
		}
		for pi := range r {
			if !usedPhys[pi] && !freePhys[pi] && r[pi] != nil {
				add(true, "forbidden cell written", "new row #%d column %s is not mapped by the model but was written: %s", i, physCols[pi], cellStr(r[pi]))
			}
		}
	}
	return
}

func (pr *prediction) String(m ModelSpec) string {
	var sb strings.Builder
	one := func(name string, exp []cellExp) {
		sb.WriteString("  " + name + ":")
		for l, e := range exp {
			k := []string{"keep", "be", "fresh", "free", "notfresh", "be-or-fresh"}[e.kind]
			if e.kind == xBe && !e.expr {
				k = "=" + cellStr(e.val)
			} else if e.kind == xBe {
				k = "=expr(old)"
			}
			h := ""
			if e.hard {
				h = "!"
			}
			fmt.Fprintf(&sb, " %s:%s%s", m.colName(l), k, h)
		}
		sb.WriteByte('\n')
	}
	for rk := 1; rk <= 3; rk++ {
		one(fmt.Sprintf("rk=%d", rk), pr.rows[rk])
	}
	for i, nr := range pr.newRows {
		one(fmt.Sprintf("new#%d", i), nr)
	}
	if pr.mayErr != "" {
		sb.WriteString("  error accepted: " + pr.mayErr + "\n")
	}
	return sb.String()
}
