package main

// Composite-primary-key family: models whose key has 2 or 3 columns
// (integer + string), tables whose rows share every proper subset of key
// values, and every targeting form (Model(&v).Update/Updates/UpdateColumn(s),
// Save(&v), Updates(&v), Delete(&v), Model(&v).Delete(&T{}), slice models,
// upsert). Oracle: only the rows whose WHOLE key equals a given key (and that
// match the chain's extra condition) change / disappear; RowsAffected equals
// their number.

import (
	"fmt"
	"reflect"
	"sort"
	"strings"
	"sync"
	"sync/atomic"

	"gorm.io/gorm"
	"gorm.io/gorm/clause"

	"verif/h"
	"verif/mc"
)

type K2 struct {
	A       int64  `gorm:"primaryKey;autoIncrement:false"`
	B       string `gorm:"primaryKey"`
	V       string
	N       int64
	Touched int64 `gorm:"autoUpdateTime"`
}

func (K2) TableName() string { return "k2" }

type K2s struct {
	B       string `gorm:"primaryKey"`
	A       int64  `gorm:"primaryKey;autoIncrement:false"`
	V       string
	N       int64
	Touched int64 `gorm:"autoUpdateTime"`
}

func (K2s) TableName() string { return "k2s" }

type K3 struct {
	A       int64  `gorm:"primaryKey;autoIncrement:false"`
	B       string `gorm:"primaryKey"`
	C       int64  `gorm:"primaryKey;autoIncrement:false"`
	V       string
	N       int64
	Touched int64 `gorm:"autoUpdateTime"`
}

func (K3) TableName() string { return "k3" }

type ckModel struct {
	name   string
	table  string
	typ    reflect.Type
	keyFld []string // Go field names of the key, in declaration order
	keyCol []string
	ddl    string
	rows   [][]interface{} // key tuples of the seeded rows (rk = index+1)
	absent []interface{}   // a key no row has (shares every component with some row except one)
}

func cross(parts ...[]interface{}) [][]interface{} {
	out := [][]interface{}{{}}
	for _, p := range parts {
		var next [][]interface{}
		for _, o := range out {
			for _, v := range p {
				next = append(next, append(append([]interface{}{}, o...), v))
			}
		}
		out = next
	}
	return out
}

var ckModels = []ckModel{
	{name: "K2{A int64 pk; B string pk}", table: "k2", typ: reflect.TypeOf(K2{}), keyFld: []string{"A", "B"}, keyCol: []string{"a", "b"},
		ddl:    "CREATE TABLE k2 (rk integer, a integer, b text, v text, n integer, touched integer, primary key (a,b))",
		rows:   cross([]interface{}{int64(1), int64(2)}, []interface{}{"x", "y"}),
		absent: []interface{}{int64(3), "x"}},
	{name: "K2s{B string pk; A int64 pk}", table: "k2s", typ: reflect.TypeOf(K2s{}), keyFld: []string{"B", "A"}, keyCol: []string{"b", "a"},
		ddl:    "CREATE TABLE k2s (rk integer, b text, a integer, v text, n integer, touched integer, primary key (b,a))",
		rows:   cross([]interface{}{"x", "y"}, []interface{}{int64(1), int64(2)}),
		absent: []interface{}{"x", int64(3)}},
	{name: "K3{A int64 pk; B string pk; C int64 pk}", table: "k3", typ: reflect.TypeOf(K3{}), keyFld: []string{"A", "B", "C"}, keyCol: []string{"a", "b", "c"},
		ddl:    "CREATE TABLE k3 (rk integer, a integer, b text, c integer, v text, n integer, touched integer, primary key (a,b,c))",
		rows:   cross([]interface{}{int64(1), int64(2)}, []interface{}{"x", "y"}, []interface{}{int64(7), int64(8)}),
		absent: []interface{}{int64(1), "z", int64(7)}},
}

func (m ckModel) seedStmts() []string {
	var sb strings.Builder
	fmt.Fprintf(&sb, "INSERT INTO %s (rk,%s,v,n,touched) VALUES ", m.table, strings.Join(m.keyCol, ","))
	for i, k := range m.rows {
		if i > 0 {
			sb.WriteByte(',')
		}
		fmt.Fprintf(&sb, "(%d", i+1)
		for _, kv := range k {
			switch t := kv.(type) {
			case string:
				fmt.Fprintf(&sb, ",'%s'", t)
			default:
				fmt.Fprintf(&sb, ",%v", t)
			}
		}
		fmt.Fprintf(&sb, ",'v%d',%d,%d)", i+1, 10*(i+1), 200+i)
	}
	return []string{"DELETE FROM " + m.table, sb.String()}
}

// programs
const (
	ckUpdate = iota
	ckUpdatesMap
	ckUpdatesStruct
	ckUpdateColumn
	ckUpdateColumnsMap
	ckUpdateColumnsStruct
	ckSave
	ckUpdatesSelf
	ckDelete
	ckModelDelete
	ckUpsertAll
	ckSliceUpdate
	ckSliceUpdatesMap
	ckSliceUpdateColumn
	ckSliceDelete
	ckSaveSlice
	nCkProg
)

var ckProgName = []string{
	"Model(&v).Update", "Model(&v).Updates(map)", "Model(&v).Updates(T{V})", "Model(&v).UpdateColumn", "Model(&v).UpdateColumns(map)", "Model(&v).UpdateColumns(T{V})",
	"Save(&v)", "Updates(&v)", "Delete(&v)", "Model(&v).Delete(&T{})", "Clauses(OnConflict{UpdateAll}).Create(&v)",
	"Model(&[]T{v1,v2}).Update", "Model(&[]T{v1,v2}).Updates(map)", "Model(&[]T{v1,v2}).UpdateColumn", "Delete(&[]T{v1,v2})", "Save(&[]T{v1,v2})",
}

func ckIsSlice(p int) bool  { return p >= ckSliceUpdate }
func ckIsDelete(p int) bool { return p == ckDelete || p == ckModelDelete || p == ckSliceDelete }
func ckNoHooks(p int) bool {
	return p == ckUpdateColumn || p == ckUpdateColumnsMap || p == ckUpdateColumnsStruct || p == ckSliceUpdateColumn
}
func ckWritesAll(p int) bool {
	return p == ckSave || p == ckUpdatesSelf || p == ckUpsertAll || p == ckSaveSlice
}
func ckTakesWhere(p int) bool {
	return !(p == ckSave || p == ckUpsertAll || p == ckSaveSlice)
}

type CKCase struct {
	Kind     string `json:"kind"` // always "ckey"
	Model    int    `json:"model"`
	Prog     int    `json:"prog"`
	Keys     []int  `json:"keys"`  // row indexes whose key is used; -1 = the absent key
	Where    int    `json:"where"` // 0 none, 1 condition matching every row, 2 condition excluding the first keyed row
	Readable string `json:"readable,omitempty"`
}

func (c CKCase) key(m ckModel, i int) []interface{} {
	if c.Keys[i] < 0 {
		return m.absent
	}
	return m.rows[c.Keys[i]]
}

func (m ckModel) newVal(key []interface{}, full bool) reflect.Value {
	p := reflect.New(m.typ)
	for i, f := range m.keyFld {
		p.Elem().FieldByName(f).Set(reflect.ValueOf(key[i]))
	}
	if full {
		p.Elem().FieldByName("V").SetString("NEW")
		p.Elem().FieldByName("N").SetInt(77)
	}
	return p
}

func (m ckModel) valString(key []interface{}, full bool) string {
	var ps []string
	for i, f := range m.keyFld {
		ps = append(ps, fmt.Sprintf("%s:%#v", f, key[i]))
	}
	if full {
		ps = append(ps, `V:"NEW"`, "N:77")
	}
	return "T{" + strings.Join(ps, ",") + "}"
}

type ckWorker struct {
	env *h.Env
}

func newCkWorker() *ckWorker {
	e := h.Open(&gorm.Config{})
	for _, m := range ckModels {
		e.MustExec(m.ddl)
	}
	return &ckWorker{env: e}
}

type ckRow struct {
	rk      interface{}
	key     []interface{}
	v       interface{}
	n       interface{}
	touched interface{}
}

func (w *ckWorker) snapshot(m ckModel) (rows []ckRow) {
	w.env.Quiet(func() {
		rs, err := w.env.SQL.Query("SELECT rk," + strings.Join(m.keyCol, ",") + ",v,n,touched FROM " + m.table + " ORDER BY rk IS NULL, rk, " + strings.Join(m.keyCol, ","))
		if err != nil {
			panic(err)
		}
		defer rs.Close()
		for rs.Next() {
			vals := make([]interface{}, 4+len(m.keyCol))
			ptrs := make([]interface{}, len(vals))
			for i := range vals {
				ptrs[i] = &vals[i]
			}
			if err := rs.Scan(ptrs...); err != nil {
				panic(err)
			}
			for i := range vals {
				vals[i] = normCell(vals[i])
			}
			nk := len(m.keyCol)
			rows = append(rows, ckRow{rk: vals[0], key: vals[1 : 1+nk], v: vals[1+nk], n: vals[2+nk], touched: vals[3+nk]})
		}
	})
	return
}

func ckRowsString(rows []ckRow) string {
	var sb strings.Builder
	for _, r := range rows {
		fmt.Fprintf(&sb, "rk=%s key=%v v=%s n=%s touched=%s\n", cellStr(r.rk), r.key, cellStr(r.v), cellStr(r.n), cellStr(r.touched))
	}
	return sb.String()
}

type ckResult struct {
	prog     string
	err      error
	rows     int64
	stmts    []string
	before   []ckRow
	after    []ckRow
	panicMsg string
}

func (w *ckWorker) exec(c CKCase) (res ckResult) {
	m := ckModels[c.Model]
	e := w.env
	for _, s := range m.seedStmts() {
		e.MustExec(s)
	}
	res.before = w.snapshot(m)
	e.Rec.Reset()
	func() {
		defer func() {
			if r := recover(); r != nil {
				res.panicMsg = fmt.Sprint(r)
			}
		}()
		db := e.DB
		var sb strings.Builder
		sb.WriteString("db")
		switch c.Where {
		case 1:
			db = db.Where("n > ?", 0)
			sb.WriteString(`.Where("n > ?",0)`)
		case 2:
			n := int64(-1)
			if c.Keys[0] >= 0 {
				n = int64(10 * (c.Keys[0] + 1))
			}
			db = db.Where("n <> ?", n)
			fmt.Fprintf(&sb, `.Where("n <> ?",%d)`, n)
		}
		k0 := c.key(m, 0)
		zero := reflect.New(m.typ).Interface()
		slice := func(full bool) (interface{}, string) {
			s := reflect.MakeSlice(reflect.SliceOf(m.typ), 0, len(c.Keys))
			var ps []string
			for i := range c.Keys {
				s = reflect.Append(s, m.newVal(c.key(m, i), full).Elem())
				ps = append(ps, m.valString(c.key(m, i), full))
			}
			p := reflect.New(s.Type())
			p.Elem().Set(s)
			return p.Interface(), "&[]T{" + strings.Join(ps, ",") + "}"
		}
		patch := func() interface{} {
			p := reflect.New(m.typ)
			p.Elem().FieldByName("V").SetString("NEW")
			return p.Elem().Interface()
		}
		var tx *gorm.DB
		mv, ms := m.newVal(k0, false).Interface(), "&"+m.valString(k0, false)
		switch c.Prog {
		case ckUpdate:
			fmt.Fprintf(&sb, `.Model(%s).Update("v","NEW")`, ms)
			tx = db.Model(mv).Update("v", "NEW")
		case ckUpdatesMap:
			fmt.Fprintf(&sb, `.Model(%s).Updates(map{"v":"NEW"})`, ms)
			tx = db.Model(mv).Updates(map[string]interface{}{"v": "NEW"})
		case ckUpdatesStruct:
			fmt.Fprintf(&sb, `.Model(%s).Updates(T{V:"NEW"})`, ms)
			tx = db.Model(mv).Updates(patch())
		case ckUpdateColumn:
			fmt.Fprintf(&sb, `.Model(%s).UpdateColumn("v","NEW")`, ms)
			tx = db.Model(mv).UpdateColumn("v", "NEW")
		case ckUpdateColumnsMap:
			fmt.Fprintf(&sb, `.Model(%s).UpdateColumns(map{"v":"NEW"})`, ms)
			tx = db.Model(mv).UpdateColumns(map[string]interface{}{"v": "NEW"})
		case ckUpdateColumnsStruct:
			fmt.Fprintf(&sb, `.Model(%s).UpdateColumns(T{V:"NEW"})`, ms)
			tx = db.Model(mv).UpdateColumns(patch())
		case ckSave:
			fmt.Fprintf(&sb, `.Save(&%s)`, m.valString(k0, true))
			tx = db.Save(m.newVal(k0, true).Interface())
		case ckUpdatesSelf:
			fmt.Fprintf(&sb, `.Updates(&%s)`, m.valString(k0, true))
			tx = db.Updates(m.newVal(k0, true).Interface())
		case ckDelete:
			fmt.Fprintf(&sb, `.Delete(%s)`, ms)
			tx = db.Delete(mv)
		case ckModelDelete:
			fmt.Fprintf(&sb, `.Model(%s).Delete(&T{})`, ms)
			tx = db.Model(mv).Delete(zero)
		case ckUpsertAll:
			fmt.Fprintf(&sb, `.Clauses(OnConflict{UpdateAll:true}).Create(&%s)`, m.valString(k0, true))
			tx = db.Clauses(clause.OnConflict{UpdateAll: true}).Create(m.newVal(k0, true).Interface())
		case ckSliceUpdate:
			sv, ss := slice(false)
			fmt.Fprintf(&sb, `.Model(%s).Update("v","NEW")`, ss)
			tx = db.Model(sv).Update("v", "NEW")
		case ckSliceUpdatesMap:
			sv, ss := slice(false)
			fmt.Fprintf(&sb, `.Model(%s).Updates(map{"v":"NEW"})`, ss)
			tx = db.Model(sv).Updates(map[string]interface{}{"v": "NEW"})
		case ckSliceUpdateColumn:
			sv, ss := slice(false)
			fmt.Fprintf(&sb, `.Model(%s).UpdateColumn("v","NEW")`, ss)
			tx = db.Model(sv).UpdateColumn("v", "NEW")
		case ckSliceDelete:
			sv, ss := slice(false)
			fmt.Fprintf(&sb, `.Delete(%s)`, ss)
			tx = db.Delete(sv)
		case ckSaveSlice:
			sv, ss := slice(true)
			fmt.Fprintf(&sb, `.Save(%s)`, ss)
			tx = db.Save(sv)
		}
		res.prog = sb.String()
		res.err = tx.Error
		res.rows = tx.RowsAffected
	}()
	for _, ev := range e.Rec.Events() {
		if ev.IsStatement() {
			res.stmts = append(res.stmts, ev.String())
		}
	}
	if l := e.Leaks(); l != "" {
		res.panicMsg += " LEAK: " + l
	}
	res.after = w.snapshot(m)
	return
}

type ckStats struct {
	cases          int64
	siblingsKept   int64 // rows sharing >= 1 key component with a targeted key, outside the target, verified unchanged
	targetsWritten int64
	targetsDeleted int64
	rowsAffectedOK int64
	inserted       int64
}

func sameKey(a, b []interface{}) bool {
	for i := range a {
		if cellStr(a[i]) != cellStr(b[i]) {
			return false
		}
	}
	return true
}

func sharesPart(a, b []interface{}) bool {
	for i := range a {
		if cellStr(a[i]) == cellStr(b[i]) {
			return true
		}
	}
	return false
}

func ckCheck(run *mc.Run, w *ckWorker, c CKCase, st *ckStats, outcomes *mc.Set, samples *mc.Samples) {
	c.Kind = "ckey"
	m := ckModels[c.Model]
	res := w.exec(c)
	atomic.AddInt64(&st.cases, 1)
	var fs []finding
	add := func(hard bool, kind, format string, a ...interface{}) {
		fs = append(fs, finding{hard, kind, fmt.Sprintf(format, a...)})
	}
	if res.panicMsg != "" {
		add(true, "panic or leak", "%s", res.panicMsg)
	}
	// target rows: whole key equal to one of the given keys, and matching the extra condition
	var keys [][]interface{}
	for i := range c.Keys {
		keys = append(keys, c.key(m, i))
	}
	if !ckIsSlice(c.Prog) {
		keys = keys[:1]
	}
	isTarget := func(r ckRow) bool {
		hit := false
		for _, k := range keys {
			if sameKey(r.key, k) {
				hit = true
			}
		}
		if !hit {
			return false
		}
		if c.Where == 2 && c.Keys[0] >= 0 && cellStr(r.n) == fmt.Sprint(10*(c.Keys[0]+1)) {
			return false
		}
		return true
	}
	afterByRk := map[string]ckRow{}
	var newRows []ckRow
	for _, r := range res.after {
		if r.rk == nil {
			newRows = append(newRows, r)
		} else {
			afterByRk[cellStr(r.rk)] = r
		}
	}
	nTarget := 0
	for _, o := range res.before {
		a, present := afterByRk[cellStr(o.rk)]
		tgt := isTarget(o)
		if tgt {
			nTarget++
		}
		if !tgt {
			switch {
			case !present:
				add(true, "row outside the key target deleted", "row rk=%s key=%v disappeared", cellStr(o.rk), o.key)
			case !sameKey(a.key, o.key) || cellStr(a.v) != cellStr(o.v) || cellStr(a.n) != cellStr(o.n) || cellStr(a.touched) != cellStr(o.touched):
				add(true, "row outside the key target written", "row rk=%s key=%v: v %s -> %s, n %s -> %s, touched %s -> %s", cellStr(o.rk), o.key, cellStr(o.v), cellStr(a.v), cellStr(o.n), cellStr(a.n), cellStr(o.touched), cellStr(a.touched))
			default:
				for _, k := range keys {
					if sharesPart(o.key, k) {
						atomic.AddInt64(&st.siblingsKept, 1)
						break
					}
				}
			}
			continue
		}
		if res.err != nil {
			continue
		}
		if ckIsDelete(c.Prog) {
			if present {
				add(false, "targeted row not deleted", "row rk=%s key=%v still exists", cellStr(o.rk), o.key)
			} else {
				atomic.AddInt64(&st.targetsDeleted, 1)
			}
			continue
		}
		if !present {
			add(true, "targeted row disappeared", "row rk=%s key=%v", cellStr(o.rk), o.key)
			continue
		}
		if !sameKey(a.key, o.key) {
			add(true, "key column rewritten", "row rk=%s key %v -> %v", cellStr(o.rk), o.key, a.key)
		}
		if cellStr(a.v) != `"NEW"` {
			add(false, "expected write missing or wrong", "row rk=%s key=%v: v = %s, expected \"NEW\"", cellStr(o.rk), o.key, cellStr(a.v))
		} else {
			atomic.AddInt64(&st.targetsWritten, 1)
		}
		wantN := cellStr(o.n)
		if ckWritesAll(c.Prog) {
			wantN = "77"
		}
		if cellStr(a.n) != wantN {
			add(false, "expected write missing or wrong", "row rk=%s key=%v: n = %s, expected %s", cellStr(o.rk), o.key, cellStr(a.n), wantN)
		}
		if ckNoHooks(c.Prog) {
			if cellStr(a.touched) != cellStr(o.touched) {
				add(true, "forbidden cell written", "row rk=%s: UpdateColumn(s) touched the update-time %s -> %s", cellStr(o.rk), cellStr(o.touched), cellStr(a.touched))
			}
		} else if !isFresh(a.touched) {
			add(true, "update-time not refreshed", "row rk=%s key=%v: touched = %s", cellStr(o.rk), o.key, cellStr(a.touched))
		}
	}
	// new rows: only Save / upsert of an absent key may insert, exactly the given key
	wantNew := 0
	if res.err == nil && (c.Prog == ckSave || c.Prog == ckUpsertAll || c.Prog == ckSaveSlice) {
		for i, k := range keys {
			if c.Keys[i] < 0 {
				wantNew++
				found := false
				for _, r := range newRows {
					if sameKey(r.key, k) && cellStr(r.v) == `"NEW"` {
						found = true
					}
				}
				if !found {
					add(false, "expected new row missing", "no new row with key %v", k)
				}
			}
		}
	}
	if len(newRows) > wantNew {
		add(true, "unexpected new row", "%d new rows, expected %d:\n%s", len(newRows), wantNew, ckRowsString(newRows))
	}
	atomic.AddInt64(&st.inserted, int64(len(newRows)))
	// RowsAffected of the update / delete forms
	if res.err == nil && ckTakesWhere(c.Prog) {
		if res.rows != int64(nTarget) {
			add(false, "RowsAffected wrong", "RowsAffected = %d, %d rows are targeted", res.rows, nTarget)
		} else {
			atomic.AddInt64(&st.rowsAffectedOK, 1)
		}
	}
	if res.err != nil {
		add(false, "unexpected error", "the call returned %v", res.err)
	}
	sig := fmt.Sprintf("%d|%d|%d|%s", c.Model, c.Prog, nTarget, errClass(res.err))
	outcomes.Add("ckey:" + sig)
	if len(fs) == 0 {
		samples.Add(map[string]interface{}{"model": m.name, "program": res.prog})
		return
	}
	sort.SliceStable(fs, func(i, j int) bool { return fs[i].hard && !fs[j].hard })
	var body strings.Builder
	for _, f := range fs {
		cls := "(b) documented rule"
		if f.hard {
			cls = "(a) hard core"
		}
		fmt.Fprintf(&body, "  [%s] %s: %s\n", cls, f.kind, f.text)
	}
	prefix := "(b) "
	if fs[0].hard {
		prefix = "(a) "
	}
	c.Readable = res.prog
	msg := fmt.Sprintf("%s\nT = %s (table rows share every proper subset of key values)\n%s\nerr=%v rows_affected=%d\nstatements:\n  %s\nfindings:\n%sbefore:\n%safter:\n%s",
		prefix+fs[0].kind, m.name, res.prog, res.err, res.rows, strings.Join(res.stmts, "\n  "), body.String(), ckRowsString(res.before), ckRowsString(res.after))
	tags := []string{"ckey", "ckey/prog=" + ckProgName[c.Prog], "ckey/model=" + m.table, "ckey/model=" + m.table + "/prog=" + ckProgName[c.Prog]}
	if c.Where != 0 {
		tags = append(tags, "ckey/prog="+ckProgName[c.Prog]+"/with-where")
	}
	for _, k := range c.Keys {
		if k < 0 {
			tags = append(tags, "ckey/prog="+ckProgName[c.Prog]+"/absent-key")
			break
		}
	}
	run.Violation(tags, msg, c)
}

func ckEnumerate() []CKCase {
	var out []CKCase
	for mi, m := range ckModels {
		for p := 0; p < nCkProg; p++ {
			wheres := []int{0}
			if ckTakesWhere(p) {
				wheres = []int{0, 1, 2}
			}
			var keysets [][]int
			if ckIsSlice(p) {
				for i := range m.rows {
					for j := i + 1; j < len(m.rows); j++ {
						keysets = append(keysets, []int{i, j})
					}
					keysets = append(keysets, []int{i, -1})
				}
			} else {
				for i := range m.rows {
					keysets = append(keysets, []int{i})
				}
				keysets = append(keysets, []int{-1})
			}
			for _, ks := range keysets {
				for _, wh := range wheres {
					out = append(out, CKCase{Kind: "ckey", Model: mi, Prog: p, Keys: ks, Where: wh})
				}
			}
		}
	}
	return out
}

// runCkey executes the whole composite-key family (same for both tiers).
func runCkey(run *mc.Run, outcomes *mc.Set, samples *mc.Samples) *ckStats {
	st := &ckStats{}
	cases := ckEnumerate()
	var next int64 = -1
	var wg sync.WaitGroup
	for i := 0; i < 8; i++ {
		wg.Add(1)
		go func() {
			defer wg.Done()
			w := newCkWorker()
			defer w.env.Close()
			for {
				n := atomic.AddInt64(&next, 1)
				if int(n) >= len(cases) {
					return
				}
				ckCheck(run, w, cases[n], st, outcomes, samples)
			}
		}()
	}
	wg.Wait()
	return st
}
