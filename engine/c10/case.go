package main

import (
	"fmt"
	"reflect"
	"sort"
	"strings"
	"time"

	"gorm.io/gorm"
	"gorm.io/gorm/clause"
)

// ---------------------------------------------------------------------------
// programs

const (
	fCreate = iota
	fCreateMap
	fCreateBatches
	fCreateMaps
	fUpsertAll
	fUpsertAllSlice
	fUpsertAllMap
	fUpsertDoUpdates
	fUpsertDoNothing
	fSaveExisting
	fSaveAbsent
	fSaveNew
	fSaveSlice
	fUpdatesStruct
	fUpdatesStructPtr
	fUpdatesSelf
	fUpdatesMap
	fUpdate
	fUpdateColumn
	fUpdateColumnsMap
	fUpdateColumnsStruct
	nFin
)

var finName = []string{
	fCreate:              "Create(&T)",
	fCreateMap:           "Model(&T{}).Create(map)",
	fCreateBatches:       "CreateInBatches(&[]T{3},2)",
	fCreateMaps:          "Model(&T{}).Create(&[]map{2})",
	fUpsertAll:           "Clauses(OnConflict{UpdateAll}).Create(&T{ID:1})",
	fUpsertAllSlice:      "Clauses(OnConflict{UpdateAll}).Create(&[]T{{ID:1},{}})",
	fUpsertAllMap:        "Model(&T{}).Clauses(OnConflict{UpdateAll}).Create(map{id:1})",
	fUpsertDoUpdates:     "Clauses(OnConflict{Columns:id,DoUpdates:AssignmentColumns(f0,f1)}).Create(&T{ID:1})",
	fUpsertDoNothing:     "Clauses(OnConflict{DoNothing}).Create(&T{ID:1})",
	fSaveExisting:        "Save(&T{ID:1})",
	fSaveAbsent:          "Save(&T{ID:9})",
	fSaveNew:             "Save(&T{})",
	fSaveSlice:           "Save(&[]T{{ID:1},{}})",
	fUpdatesStruct:       "Model(target).Updates(T{})",
	fUpdatesStructPtr:    "Model(target).Updates(&T{})",
	fUpdatesSelf:         "Updates(&T{ID:1})",
	fUpdatesMap:          "Model(target).Updates(map)",
	fUpdate:              "Model(target).Update(col,v)",
	fUpdateColumn:        "Model(target).UpdateColumn(col,v)",
	fUpdateColumnsMap:    "Model(target).UpdateColumns(map)",
	fUpdateColumnsStruct: "Model(target).UpdateColumns(T{})",
}

func finIsStruct(f int) bool {
	switch f {
	case fCreateMap, fCreateMaps, fUpsertAllMap, fUpdatesMap, fUpdate, fUpdateColumn, fUpdateColumnsMap:
		return false
	}
	return true
}
func finIsSingle(f int) bool { return f == fUpdate || f == fUpdateColumn }
func finIsUpdate(f int) bool { return f >= fUpdatesStruct }
func finHasTargetModel(f int) bool {
	return f >= fUpdatesStruct && f != fUpdatesSelf
}
func finSelfKeyed(f int) bool { return f == fSaveExisting || f == fUpdatesSelf }
func finSkipsHooks(f int) bool {
	return f == fUpdateColumn || f == fUpdateColumnsMap || f == fUpdateColumnsStruct
}

// finAllowsSkipHooksSession: programs that are also enumerated behind
// Session(&Session{SkipHooks: true})
func finAllowsSkipHooksSession(f int) bool {
	return f == fUpdatesStruct || f == fUpdatesSelf || f == fUpdatesMap
}

// noHooks: the statement runs with Statement.SkipHooks (column-update method
// or SkipHooks session)
func (c Case) noHooks() bool { return finSkipsHooks(c.Fin) || c.SkipHooks }

// explicit values for the create-time (k=0) / update-time (k=1) field
var explicitTimes = [2]time.Time{
	time.Date(2010, 5, 5, 5, 5, 5, 0, time.UTC),
	time.Date(2011, 6, 6, 6, 6, 6, 0, time.UTC),
}

func (m ModelSpec) timeVal(k int) interface{} {
	if m.TimeKind == 1 {
		return explicitTimes[k]
	}
	return int64(777 + 111*k)
}

// value codes per data field
const (
	vAbsent  = 0 // map: key absent; struct: zero
	vZero    = 1
	vNonZero = 2
	vExpr    = 3 // map: gorm.Expr; struct: non-zero
)

var valName = []string{"absent", "zero", "nonzero", "expr"}

const (
	tKey = iota
	tCond
	tBoth
	tDisjoint
	nTarget
)

var targetName = []string{"key", "cond", "key+cond", "key+disjoint-cond"}

type NameRef struct {
	L     int `json:"col"`   // logical column
	Spell int `json:"spell"` // 0 field name, 1 column name, 2 table-qualified column name
}

type SelSpec struct {
	Star bool      `json:"star,omitempty"`
	Sel  []NameRef `json:"select,omitempty"`
	Omit []NameRef `json:"omit,omitempty"`
}

type Case struct {
	Model    ModelSpec `json:"model"`
	Fin      int       `json:"finisher"`
	Sel      SelSpec   `json:"sel"`
	Vals     [4]int    `json:"vals"`
	KeySpell int       `json:"key_spelling"` // map keys / Update column: 0 field name, 1 column name
	Target   int       `json:"target"`
	// TVals: does the value carry an explicit non-zero value for the
	// create-time [0] / update-time [1] field (different from the stored one
	// and from "now")
	TVals [2]int `json:"time_vals"`
	// RowMix: in slice values the odd rows carry zero values in every data field
	RowMix bool `json:"row_mix,omitempty"`
	// SkipHooks: the chain starts with Session(&Session{SkipHooks: true})
	SkipHooks bool   `json:"skip_hooks,omitempty"`
	Readable  string `json:"readable,omitempty"`
}

// canonical form of the value codes for the finisher (so that equivalent
// cases are not enumerated twice)
func canonVals(f int, v [4]int) [4]int {
	if finIsStruct(f) {
		for i := range v {
			if v[i] == vAbsent {
				v[i] = vZero
			} else if v[i] == vExpr {
				v[i] = vNonZero
			}
		}
	}
	return v
}

// canon returns the canonical form of the case: value codes the finisher
// cannot distinguish are merged, and explicit time values are dropped where
// the value handed to gorm cannot carry them (the patch struct type of
// shapePatch has no create-time / update-time field).
func (c Case) canon() Case {
	c.Vals = canonVals(c.Fin, c.Vals)
	if c.Model.Shape == shapePatch {
		c.TVals = [2]int{}
	}
	return c
}

func (m ModelSpec) spelled(n NameRef) string {
	switch n.Spell {
	case 0:
		return m.fieldName(n.L)
	case 1:
		return m.colName(n.L)
	}
	return "t." + m.colName(n.L)
}

func (c Case) key() string {
	return fmt.Sprintf("%v%v|%d%v|%v|%d|%v|%d|%v|%v|%v|%v|%d|%d|%v|%v", c.Model.DBDefault, c.RowMix, c.Model.Shape, c.Model.PatchTags, c.Model.Tags, c.Model.TimeKind, c.Model.CTag, c.Fin, c.Sel.Star, c.Sel.Sel, c.Sel.Omit, c.Vals, c.KeySpell, c.Target, c.TVals, c.SkipHooks)
}

// ---------------------------------------------------------------------------
// values

func nonZeroVal(i, r int) interface{} {
	if dataIsString[i] {
		return fmt.Sprintf("X%d_%d", i, r)
	}
	return int64(1000 + 10*i + r)
}

func zeroVal(i int) interface{} {
	if dataIsString[i] {
		return ""
	}
	return int64(0)
}

// go value put into a map for data field i
func mapVal(m ModelSpec, i, code, r int, create bool) interface{} {
	switch code {
	case vZero:
		return zeroVal(i)
	case vNonZero:
		return nonZeroVal(i, r)
	case vExpr:
		col := m.colName(lF0 + i)
		if create {
			if dataIsString[i] {
				return gorm.Expr("upper(?)", fmt.Sprintf("e%d_%d", i, r))
			}
			return gorm.Expr("? + 1", 500+10*i+r)
		}
		if dataIsString[i] {
			return gorm.Expr(col+" || ?", "+")
		}
		return gorm.Expr(col+" + ?", 100)
	}
	return nil
}

// value expected in the database for (field i, code), old = previous cell
func dbVal(i, code, r int, create bool, old interface{}) interface{} {
	switch code {
	case vZero:
		return zeroVal(i)
	case vNonZero:
		return nonZeroVal(i, r)
	case vExpr:
		if create {
			if dataIsString[i] {
				return fmt.Sprintf("E%d_%d", i, r)
			}
			return int64(501 + 10*i + r)
		}
		if dataIsString[i] {
			s, _ := old.(string)
			return s + "+"
		}
		n, _ := old.(int64)
		return n + 100
	}
	return nil
}

// structNonZero: does row r of a struct / slice value carry a non-zero value
// in data field i
func (c Case) structNonZero(i, r int) bool {
	if c.RowMix && r%2 == 1 {
		return false
	}
	return c.Vals[i] == vNonZero || c.Vals[i] == vExpr
}

func (c Case) newStruct(id uint, r int) reflect.Value {
	p := reflect.New(c.Model.Type())
	v := p.Elem()
	v.FieldByName("ID").SetUint(uint64(id))
	for i := 0; i < 4; i++ {
		if c.structNonZero(i, r) {
			f := v.FieldByName(fmt.Sprintf("F%d", i))
			if dataIsString[i] {
				f.SetString(nonZeroVal(i, r).(string))
			} else {
				f.SetInt(nonZeroVal(i, r).(int64))
			}
		}
	}
	for k := 0; k < 2; k++ {
		if c.TVals[k] != 0 {
			f := v.FieldByName(c.Model.fieldName(lCT + k))
			if c.Model.TimeKind == 1 {
				f.Set(reflect.ValueOf(explicitTimes[k]))
			} else {
				f.SetInt(c.Model.timeVal(k).(int64))
			}
		}
	}
	// decoys: values in fields that are NOT the effective field of any of the
	// asserted columns
	switch c.Model.Shape {
	case shapeOverrideBaseFirst, shapeOverrideBaseLast:
		b := v.FieldByName("Base")
		for i := 0; i < 4; i++ {
			if c.Model.Tags[i] != tgNone { // shadowed by the outer field
				if dataIsString[i] {
					b.Field(i).SetString("DECOY")
				} else {
					b.Field(i).SetInt(424242)
				}
			}
		}
	case shapePrefixShadow:
		f := v.FieldByName("Aud").Field(0)
		if f.Kind() == reflect.String {
			f.SetString(fmt.Sprintf("AUD_%d", r))
		} else {
			f.SetInt(int64(515100 + r))
		}
	}
	return p
}

// newPatch: value of the separate patch struct type (shapePatch)
func (c Case) newPatch() reflect.Value {
	p := reflect.New(c.Model.PatchType())
	v := p.Elem()
	for i := 0; i < 4; i++ {
		if c.Vals[i] == vNonZero || c.Vals[i] == vExpr {
			if dataIsString[i] {
				v.Field(i).SetString(nonZeroVal(i, 0).(string))
			} else {
				v.Field(i).SetInt(nonZeroVal(i, 0).(int64))
			}
		}
	}
	return p
}

// updValue: the struct value handed to Updates / UpdateColumns
func (c Case) updValue() (reflect.Value, string) {
	if c.Model.Shape == shapePatch {
		return c.newPatch(), "P" + strings.TrimPrefix(c.structString(0, 0), "T")
	}
	return c.newStruct(0, 0), c.structString(0, 0)
}

func (c Case) newSlice(ids ...uint) reflect.Value {
	t := c.Model.Type()
	s := reflect.MakeSlice(reflect.SliceOf(t), 0, len(ids))
	for r, id := range ids {
		s = reflect.Append(s, c.newStruct(id, r).Elem())
	}
	p := reflect.New(s.Type())
	p.Elem().Set(s)
	return p
}

func (c Case) newMap(r int, create bool) map[string]interface{} {
	mp := map[string]interface{}{}
	for i := 0; i < 4; i++ {
		if c.Vals[i] == vAbsent {
			continue
		}
		mp[c.Model.spelled(NameRef{lF0 + i, c.KeySpell})] = mapVal(c.Model, i, c.Vals[i], r, create)
	}
	for k := 0; k < 2; k++ {
		if c.TVals[k] != 0 {
			mp[c.Model.spelled(NameRef{lCT + k, c.KeySpell})] = c.Model.timeVal(k)
		}
	}
	return mp
}

// the single (column, value) of Update / UpdateColumn
func (c Case) single() (string, interface{}, int) {
	for i := 0; i < 4; i++ {
		if c.Vals[i] != vAbsent {
			return c.Model.spelled(NameRef{lF0 + i, c.KeySpell}), mapVal(c.Model, i, c.Vals[i], 0, false), i
		}
	}
	for k := 0; k < 2; k++ {
		if c.TVals[k] != 0 {
			return c.Model.spelled(NameRef{lCT + k, c.KeySpell}), c.Model.timeVal(k), -1
		}
	}
	panic("single: no value")
}

func mapString(mp map[string]interface{}) string {
	var ks []string
	for k := range mp {
		ks = append(ks, k)
	}
	sort.Strings(ks)
	var ps []string
	for _, k := range ks {
		ps = append(ps, fmt.Sprintf("%q:%s", k, valString(mp[k])))
	}
	return "map{" + strings.Join(ps, ",") + "}"
}

func valString(v interface{}) string {
	switch t := v.(type) {
	case clause.Expr:
		return fmt.Sprintf("gorm.Expr(%q,%v)", t.SQL, t.Vars)
	case string:
		return fmt.Sprintf("%q", t)
	case time.Time:
		return "time(" + t.Format("2006-01-02T15:04:05Z") + ")"
	}
	return fmt.Sprint(v)
}

func (c Case) structString(id uint, r int) string {
	var ps []string
	if id != 0 {
		ps = append(ps, fmt.Sprintf("ID:%d", id))
	}
	for i := 0; i < 4; i++ {
		if c.structNonZero(i, r) {
			ps = append(ps, fmt.Sprintf("F%d:%s", i, valString(nonZeroVal(i, r))))
		}
	}
	for k := 0; k < 2; k++ {
		if c.TVals[k] != 0 {
			ps = append(ps, fmt.Sprintf("%s:%s", c.Model.fieldName(lCT+k), valString(c.Model.timeVal(k))))
		}
	}
	return "T{" + strings.Join(ps, ",") + "}"
}

// ---------------------------------------------------------------------------
// building and running the chain

func (c Case) applySel(db *gorm.DB, sb *strings.Builder) *gorm.DB {
	s := c.Sel
	if s.Star || len(s.Sel) > 0 {
		var names []string
		if s.Star {
			names = append(names, "*")
		}
		for _, n := range s.Sel {
			names = append(names, c.Model.spelled(n))
		}
		rest := make([]interface{}, 0, len(names))
		for _, n := range names[1:] {
			rest = append(rest, n)
		}
		db = db.Select(names[0], rest...)
		fmt.Fprintf(sb, ".Select(%q)", names)
	}
	if len(s.Omit) > 0 {
		var names []string
		for _, n := range s.Omit {
			names = append(names, c.Model.spelled(n))
		}
		db = db.Omit(names...)
		fmt.Fprintf(sb, ".Omit(%q)", names)
	}
	return db
}

// target rows (rk) of an update finisher
func (c Case) targetRows() []int {
	if finHasTargetModel(c.Fin) {
		switch c.Target {
		case tKey:
			return []int{1}
		case tCond:
			return []int{2, 3}
		case tBoth:
			return []int{2}
		}
		return nil
	}
	if finSelfKeyed(c.Fin) {
		if c.Target == tDisjoint {
			return nil
		}
		return []int{1}
	}
	return nil
}

func (c Case) applyTarget(db *gorm.DB, sb *strings.Builder) *gorm.DB {
	mk := func(id uint) interface{} {
		p := reflect.New(c.Model.Type())
		p.Elem().FieldByName("ID").SetUint(uint64(id))
		return p.Interface()
	}
	if finHasTargetModel(c.Fin) {
		switch c.Target {
		case tKey:
			fmt.Fprintf(sb, ".Model(&T{ID:1})")
			return db.Model(mk(1))
		case tCond:
			fmt.Fprintf(sb, `.Model(&T{}).Where("id IN ?",[2 3])`)
			return db.Model(mk(0)).Where("id IN ?", []int{2, 3})
		case tBoth:
			fmt.Fprintf(sb, `.Model(&T{ID:2}).Where("id IN ?",[1 2])`)
			return db.Model(mk(2)).Where("id IN ?", []int{1, 2})
		default:
			fmt.Fprintf(sb, `.Model(&T{ID:2}).Where("id = ?",3)`)
			return db.Model(mk(2)).Where("id = ?", 3)
		}
	}
	if finSelfKeyed(c.Fin) {
		switch c.Target {
		case tBoth:
			fmt.Fprintf(sb, `.Where("id IN ?",[1 2])`)
			return db.Where("id IN ?", []int{1, 2})
		case tDisjoint:
			fmt.Fprintf(sb, `.Where("id = ?",3)`)
			return db.Where("id = ?", 3)
		}
	}
	return db
}

// run executes the program on db and returns the finished *gorm.DB and a
// readable rendering of the program.
func (c Case) run(db *gorm.DB) (*gorm.DB, string) {
	var sb strings.Builder
	sb.WriteString("db")
	if c.SkipHooks {
		db = db.Session(&gorm.Session{SkipHooks: true})
		sb.WriteString(".Session(&Session{SkipHooks:true})")
	}
	zero := func() interface{} { return reflect.New(c.Model.Type()).Interface() }
	idKey := c.Model.spelled(NameRef{lID, c.KeySpell})
	var tx *gorm.DB
	switch c.Fin {
	case fCreate:
		db = c.applySel(db, &sb)
		fmt.Fprintf(&sb, ".Create(&%s)", c.structString(0, 0))
		tx = db.Create(c.newStruct(0, 0).Interface())
	case fCreateMap:
		db = c.applySel(db.Model(zero()), &sb)
		mp := c.newMap(0, true)
		fmt.Fprintf(&sb, ".Model(&T{}).Create(%s)", mapString(mp))
		tx = db.Create(mp)
	case fCreateBatches:
		db = c.applySel(db, &sb)
		fmt.Fprintf(&sb, ".CreateInBatches(&[]T{%s,%s,%s},2)", c.structString(0, 0), c.structString(0, 1), c.structString(0, 2))
		tx = db.CreateInBatches(c.newSlice(0, 0, 0).Interface(), 2)
	case fCreateMaps:
		db = c.applySel(db.Model(zero()), &sb)
		mps := []map[string]interface{}{c.newMap(0, true), c.newMap(1, true)}
		fmt.Fprintf(&sb, ".Model(&T{}).Create(&[]map{%s,%s})", mapString(mps[0]), mapString(mps[1]))
		tx = db.Create(&mps)
	case fUpsertAll:
		db = c.applySel(db, &sb)
		fmt.Fprintf(&sb, ".Clauses(OnConflict{UpdateAll:true}).Create(&%s)", c.structString(1, 0))
		tx = db.Clauses(clause.OnConflict{UpdateAll: true}).Create(c.newStruct(1, 0).Interface())
	case fUpsertAllSlice:
		db = c.applySel(db, &sb)
		fmt.Fprintf(&sb, ".Clauses(OnConflict{UpdateAll:true}).Create(&[]T{%s,%s})", c.structString(1, 0), c.structString(0, 1))
		tx = db.Clauses(clause.OnConflict{UpdateAll: true}).Create(c.newSlice(1, 0).Interface())
	case fUpsertAllMap:
		db = c.applySel(db.Model(zero()), &sb)
		mp := c.newMap(0, true)
		mp[idKey] = 1
		fmt.Fprintf(&sb, ".Model(&T{}).Clauses(OnConflict{UpdateAll:true}).Create(%s)", mapString(mp))
		tx = db.Clauses(clause.OnConflict{UpdateAll: true}).Create(mp)
	case fUpsertDoUpdates:
		db = c.applySel(db, &sb)
		fmt.Fprintf(&sb, `.Clauses(OnConflict{Columns:[id],DoUpdates:AssignmentColumns([f0 f1])}).Create(&%s)`, c.structString(1, 0))
		tx = db.Clauses(clause.OnConflict{Columns: []clause.Column{{Name: "id"}}, DoUpdates: clause.AssignmentColumns([]string{"f0", "f1"})}).Create(c.newStruct(1, 0).Interface())
	case fUpsertDoNothing:
		db = c.applySel(db, &sb)
		fmt.Fprintf(&sb, `.Clauses(OnConflict{DoNothing:true}).Create(&%s)`, c.structString(1, 0))
		tx = db.Clauses(clause.OnConflict{DoNothing: true}).Create(c.newStruct(1, 0).Interface())
	case fSaveExisting:
		db = c.applyTarget(db, &sb)
		db = c.applySel(db, &sb)
		fmt.Fprintf(&sb, ".Save(&%s)", c.structString(1, 0))
		tx = db.Save(c.newStruct(1, 0).Interface())
	case fSaveAbsent:
		db = c.applySel(db, &sb)
		fmt.Fprintf(&sb, ".Save(&%s)", c.structString(9, 0))
		tx = db.Save(c.newStruct(9, 0).Interface())
	case fSaveNew:
		db = c.applySel(db, &sb)
		fmt.Fprintf(&sb, ".Save(&%s)", c.structString(0, 0))
		tx = db.Save(c.newStruct(0, 0).Interface())
	case fSaveSlice:
		db = c.applySel(db, &sb)
		fmt.Fprintf(&sb, ".Save(&[]T{%s,%s})", c.structString(1, 0), c.structString(0, 1))
		tx = db.Save(c.newSlice(1, 0).Interface())
	case fUpdatesStruct:
		db = c.applySel(c.applyTarget(db, &sb), &sb)
		uv, us := c.updValue()
		fmt.Fprintf(&sb, ".Updates(%s)", us)
		tx = db.Updates(uv.Elem().Interface())
	case fUpdatesStructPtr:
		db = c.applySel(c.applyTarget(db, &sb), &sb)
		uv, us := c.updValue()
		fmt.Fprintf(&sb, ".Updates(&%s)", us)
		tx = db.Updates(uv.Interface())
	case fUpdatesSelf:
		db = c.applySel(c.applyTarget(db, &sb), &sb)
		fmt.Fprintf(&sb, ".Updates(&%s)", c.structString(1, 0))
		tx = db.Updates(c.newStruct(1, 0).Interface())
	case fUpdatesMap:
		db = c.applySel(c.applyTarget(db, &sb), &sb)
		mp := c.newMap(0, false)
		fmt.Fprintf(&sb, ".Updates(%s)", mapString(mp))
		tx = db.Updates(mp)
	case fUpdate:
		db = c.applySel(c.applyTarget(db, &sb), &sb)
		col, v, _ := c.single()
		fmt.Fprintf(&sb, ".Update(%q,%s)", col, valString(v))
		tx = db.Update(col, v)
	case fUpdateColumn:
		db = c.applySel(c.applyTarget(db, &sb), &sb)
		col, v, _ := c.single()
		fmt.Fprintf(&sb, ".UpdateColumn(%q,%s)", col, valString(v))
		tx = db.UpdateColumn(col, v)
	case fUpdateColumnsMap:
		db = c.applySel(c.applyTarget(db, &sb), &sb)
		mp := c.newMap(0, false)
		fmt.Fprintf(&sb, ".UpdateColumns(%s)", mapString(mp))
		tx = db.UpdateColumns(mp)
	case fUpdateColumnsStruct:
		db = c.applySel(c.applyTarget(db, &sb), &sb)
		uv, us := c.updValue()
		fmt.Fprintf(&sb, ".UpdateColumns(%s)", us)
		tx = db.UpdateColumns(uv.Elem().Interface())
	default:
		panic("unknown finisher")
	}
	return tx, sb.String()
}
