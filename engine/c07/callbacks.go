//go:build verifsched

package main

import (
	"context"
	"fmt"
	"reflect"
	"strings"

	"gorm.io/gorm"
	"gorm.io/gorm/schema"

	"verif/sched"
)

// Code in this file is called BY gorm (model methods). For race attribution its
// frames are transparent: an access made here is charged to the gorm statement
// that invoked it.

// Sealed is its own serializer (gorm's EncryptedString pattern): the scan path
// takes a *serializer object from the field's sync.Pool and the setter gives it a
// private copy of the field's serializer.
type Sealed string

func (e *Sealed) Scan(ctx context.Context, field *schema.Field, dst reflect.Value, dbValue interface{}) error {
	switch v := dbValue.(type) {
	case []byte:
		*e = Sealed(strings.TrimPrefix(string(v), "enc:"))
	case string:
		*e = Sealed(strings.TrimPrefix(v, "enc:"))
	case nil:
		*e = ""
	default:
		return fmt.Errorf("Sealed: unsupported %T", dbValue)
	}
	return nil
}

func (e Sealed) Value(ctx context.Context, field *schema.Field, dst reflect.Value, fieldValue interface{}) (interface{}, error) {
	return "enc:" + string(e), nil
}


// Probe (only in the replay that computes known-finding tags): immediately
// before gorm:query builds its SQL - the same atomic step under the cooperative
// scheduler - record how many query clauses the Owner schema reachable from
// Doc's relation has. 0 means the join is built from a schema whose publisher
// has not finished its field loop.
type probeRec struct {
	thread            int
	ownerQueryClauses int
	at                int // length of the scheduler's step log when the probe ran
}

var (
	probing  bool
	probeLog []probeRec
)

func installProbe(db *gorm.DB) {
	if !probing {
		return
	}
	db.Callback().Query().Before("gorm:query").Register("verif:probe", func(db *gorm.DB) {
		s := db.Statement.Schema
		if s == nil || s.ModelType != reflect.TypeOf(Doc{}) || len(db.Statement.Joins) == 0 {
			return
		}
		t := sched.CurThread()
		if rel := s.Relationships.Relations["Owner"]; rel != nil && t != nil {
			probeLog = append(probeLog, probeRec{thread: t.ID, ownerQueryClauses: len(rel.FieldSchema.QueryClauses), at: sched.LogLen()})
		}
	})
}
