//go:build verifsched

// C07 — one shared *gorm.DB used from many goroutines at once, including the
// very first use of each model type. Stateless model checking (E2) of the real
// schema cache / statement building / prepared-statement cache under the
// controlled scheduler, in two builds of the same harness:
//   normal build : channel hand-off, deeper preemption bounds, logical oracle
//                  (deadlock, panic, per-thread observations equal the serial
//                  run, final rows, canonical schema dump);
//   -race build  : hand-off invisible to ThreadSanitizer, lower bounds; every
//                  explored schedule is additionally judged by the Go race
//                  detector, reports normalised to (function, statement) pairs.
package main

import (
	"log"
	"encoding/json"
	"fmt"
	"os"
	"path/filepath"
	"reflect"
	"runtime"
	"sort"
	"strings"
	"sync"
	"time"

	"gorm.io/gorm"
	"gorm.io/gorm/logger"
	"gorm.io/gorm/schema"
	"gorm.io/gorm/verifshim"

	"verif/drivers/recsqlite"
	"verif/h"
	"verif/mc"
	"verif/racelog"
	"verif/sched"

	"gorm.io/driver/sqlite"
)

// ---- model family: cyclic User <-> Company, has-many, many2many, polymorphic, embedded; unrelated models

type Audit struct {
	CreatedBy string
	Note      string
}

type User struct {
	ID        uint
	Name      string
	Age       int
	CompanyID *uint
	Company   *Company
	Pets      []Pet
	Languages []Language `gorm:"many2many:user_languages"`
	Toys      []Toy      `gorm:"polymorphic:Owner"`
	Audit     Audit      `gorm:"embedded;embeddedPrefix:audit_"`
}

type Company struct {
	ID    uint
	Name  string
	Users []User
}

type Pet struct {
	ID        uint
	UserID    uint
	ShelterID uint
	Name      string
	Toy    *Toy `gorm:"polymorphic:Owner"`
}

// Shelter is a second owner of pets: its parse writes a back-reference into the
// same Pet schema as User's, so the lock around that write is exercised.
type Shelter struct {
	ID   uint
	Name string
	Pets []Pet
}

// Owner is a soft-delete model with a relation of its own; Doc joins it. A Doc
// query that obtains Owner's schema while Owner is still being parsed must not
// lose the soft-delete filter of the join.
type Owner struct {
	ID        uint
	Name      string
	DeletedAt gorm.DeletedAt
	Parts     []Part
}

type Part struct {
	ID      uint
	OwnerID uint
	Name    string
}

type Doc struct {
	ID      uint
	Title   string
	OwnerID uint
	Owner   Owner
}

// Sealed (callbacks.go) is its own serializer.
type Vault struct {
	ID     uint
	Label  string
	Secret Sealed
}

type Language struct {
	Code string `gorm:"primaryKey"`
	Name string
}

type Toy struct {
	ID        uint
	OwnerID   uint
	OwnerType string
	Name      string
}

type Gadget struct {
	ID   uint
	Kind string
	Tags []string `gorm:"serializer:json"`
}

type Plain struct {
	ID uint
	A  int
}

const ddl = `
CREATE TABLE users (id integer primary key, name text, age integer, company_id integer, audit_created_by text, audit_note text);
CREATE TABLE companies (id integer primary key, name text);
CREATE TABLE pets (id integer primary key, user_id integer, shelter_id integer, name text);
CREATE TABLE shelters (id integer primary key, name text);
CREATE TABLE vaults (id integer primary key, label text, secret text);
CREATE TABLE owners (id integer primary key, name text, deleted_at datetime);
CREATE TABLE parts (id integer primary key, owner_id integer, name text);
CREATE TABLE docs (id integer primary key, title text, owner_id integer);
CREATE TABLE languages (code text primary key, name text);
CREATE TABLE user_languages (user_id integer, language_code text, primary key (user_id, language_code));
CREATE TABLE toys (id integer primary key, owner_id integer, owner_type text, name text);
CREATE TABLE gadgets (id integer primary key, kind text, tags text);
CREATE TABLE plains (id integer primary key, a integer);
`

var allTables = []string{"users", "companies", "shelters", "vaults", "owners", "parts", "docs", "pets", "languages", "user_languages", "toys", "gadgets", "plains"}

func seedSQL() []string {
	var out []string
	for t := 0; t < 4; t++ {
		b := 100 * (t + 1)
		out = append(out,
			fmt.Sprintf("INSERT INTO companies (id,name) VALUES (%d,'co%d')", b, t),
			fmt.Sprintf("INSERT INTO users (id,name,age,company_id,audit_created_by,audit_note) VALUES (%d,'u%d',%d,%d,'seed','n')", b, t, 20+t, b),
			fmt.Sprintf("INSERT INTO shelters (id,name) VALUES (%d,'sh%d')", b, t),
			fmt.Sprintf("INSERT INTO vaults (id,label,secret) VALUES (%d,'v%d','enc:s%d')", b, t, t),
			fmt.Sprintf("INSERT INTO vaults (id,label,secret) VALUES (%d,'v%db','enc:s%db')", b+1, t, t),
			fmt.Sprintf("INSERT INTO owners (id,name,deleted_at) VALUES (%d,'o%d',NULL)", b, t),
			fmt.Sprintf("INSERT INTO owners (id,name,deleted_at) VALUES (%d,'o%dx','2019-01-01 00:00:00+00:00')", b+1, t),
			fmt.Sprintf("INSERT INTO parts (id,owner_id,name) VALUES (%d,%d,'pt%d')", b, b, t),
			fmt.Sprintf("INSERT INTO docs (id,title,owner_id) VALUES (%d,'d%da',%d)", b, t, b),
			fmt.Sprintf("INSERT INTO docs (id,title,owner_id) VALUES (%d,'d%db',%d)", b+1, t, b+1),
			fmt.Sprintf("INSERT INTO pets (id,user_id,shelter_id,name) VALUES (%d,%d,%d,'p%da')", b, b, b, t),
			fmt.Sprintf("INSERT INTO pets (id,user_id,shelter_id,name) VALUES (%d,%d,%d,'p%db')", b+1, b, b, t),
			fmt.Sprintf("INSERT INTO languages (code,name) VALUES ('l%d','lang%d')", t, t),
			fmt.Sprintf("INSERT INTO user_languages (user_id,language_code) VALUES (%d,'l%d')", b, t),
			fmt.Sprintf("INSERT INTO toys (id,owner_id,owner_type,name) VALUES (%d,%d,'users','t%d')", b, b, t),
			fmt.Sprintf("INSERT INTO toys (id,owner_id,owner_type,name) VALUES (%d,%d,'pets','t%dp')", b+1, b, t),
			fmt.Sprintf("INSERT INTO gadgets (id,kind,tags) VALUES (%d,'g%d','[\"a\",\"b\"]')", b, t),
			fmt.Sprintf("INSERT INTO plains (id,a) VALUES (%d,%d)", b, t),
		)
	}
	return out
}

// ---- operations (each on the thread's own rows: ids 100*(tid+1)+k)

type opFn func(db *gorm.DB, tid int) string

func js(v interface{}) string {
	b, _ := json.Marshal(v)
	return string(b)
}

func res(tx *gorm.DB, v interface{}) string {
	e := ""
	if tx.Error != nil {
		e = tx.Error.Error()
	}
	s := fmt.Sprintf("err=%q rows=%d", e, tx.RowsAffected)
	if tx.DryRun {
		s += fmt.Sprintf(" sql=%q vars=%s", tx.Statement.SQL.String(), js(tx.Statement.Vars))
	} else if v != nil {
		s += " val=" + js(v)
	}
	return s
}

var ops = map[byte]opFn{
	'J': func(db *gorm.DB, tid int) string { // join through the cycle
		var us []User
		return res(db.Joins("Company").Where("users.id = ?", 100*(tid+1)).Find(&us), us)
	},
	'P': func(db *gorm.DB, tid int) string { // preloads of three relation kinds
		var us []User
		return res(db.Preload("Pets").Preload("Languages").Preload("Toys").Where("id = ?", 100*(tid+1)).Find(&us), us)
	},
	'C': func(db *gorm.DB, tid int) string { // other end of the cycle first
		var cs []Company
		return res(db.Preload("Users").Where("id = ?", 100*(tid+1)).Find(&cs), cs)
	},
	'N': func(db *gorm.DB, tid int) string { // nested preload through polymorphic has-one
		var ps []Pet
		return res(db.Preload("Toy").Where("user_id = ?", 100*(tid+1)).Order("id").Find(&ps), ps)
	},
	'K': func(db *gorm.DB, tid int) string { // create with nested graph (explicit ids)
		b := uint(100*(tid+1) + 10)
		u := User{ID: b, Name: fmt.Sprintf("new%d", tid), Age: 1, Company: &Company{ID: b, Name: "newco"},
			Pets: []Pet{{ID: b, Name: "np"}}, Audit: Audit{CreatedBy: "t"}}
		return res(db.Create(&u), u)
	},
	'U': func(db *gorm.DB, tid int) string {
		return res(db.Model(&Pet{ID: uint(100 * (tid + 1))}).Update("name", fmt.Sprintf("renamed%d", tid)), nil)
	},
	'D': func(db *gorm.DB, tid int) string {
		return res(db.Delete(&Toy{ID: uint(100*(tid+1) + 1)}), nil)
	},
	'A': func(db *gorm.DB, tid int) string { // association mode
		if db.DryRun {
			var ls []Language
			err := db.Model(&User{ID: uint(100 * (tid + 1))}).Association("Languages").Find(&ls)
			return fmt.Sprintf("err=%v", err)
		}
		var ls []Language
		err := db.Model(&User{ID: uint(100 * (tid + 1))}).Association("Languages").Find(&ls)
		n := db.Model(&User{ID: uint(100 * (tid + 1))}).Association("Pets").Count()
		return fmt.Sprintf("err=%v langs=%s pets=%d", err, js(ls), n)
	},
	'H': func(db *gorm.DB, tid int) string { // second owner of the Pet schema
		var ss []Shelter
		return res(db.Preload("Pets").Where("id = ?", 100*(tid+1)).Find(&ss), ss)
	},
	'O': func(db *gorm.DB, tid int) string { // soft-delete model with a relation of its own
		var os_ []Owner
		return res(db.Preload("Parts").Where("id IN ?", []int{100 * (tid + 1), 100*(tid+1) + 1}).Order("id").Find(&os_), os_)
	},
	'Q': func(db *gorm.DB, tid int) string { // join through the soft-delete model
		var ds []Doc
		return res(db.Joins("Owner").Where("docs.id IN ?", []int{100 * (tid + 1), 100*(tid+1) + 1}).Order("docs.id").Find(&ds), ds)
	},
	'V': func(db *gorm.DB, tid int) string { // model whose field type is its own serializer (pooled scan values)
		var vs []Vault
		return res(db.Where("id IN ?", []int{100 * (tid + 1), 100*(tid+1) + 1}).Order("id").Find(&vs), vs)
	},
	'G': func(db *gorm.DB, tid int) string { // unrelated model with a serializer field
		var gs []Gadget
		return res(db.Where("id = ?", 100*(tid+1)).Find(&gs), gs)
	},
	'L': func(db *gorm.DB, tid int) string { // unrelated plain model
		var ps []Plain
		return res(db.Where("id = ?", 100*(tid+1)).Find(&ps), ps)
	},
	'F': func(db *gorm.DB, tid int) string { // First + struct condition (schema parse of the condition value)
		var u User
		return res(db.Where(&User{Name: fmt.Sprintf("u%d", tid)}).First(&u), u)
	},
	'S': func(db *gorm.DB, tid int) string { // first use through Session{PrepareStmt}
		var ps []Plain
		return res(db.Session(&gorm.Session{PrepareStmt: true}).Where("id = ?", 100*(tid+1)).Find(&ps), ps)
	},
}

type Program struct {
	Threads []string `json:"threads"`
	Mode    string   `json:"mode"` // dry | real
	Warm    bool     `json:"warm"` // schema cache pre-filled
	Prep    bool     `json:"prepare_stmt"`
	Bound   int      `json:"preemption_bound"`
}

func (p Program) String() string {
	s := strings.Join(p.Threads, "|") + " " + p.Mode
	if p.Warm {
		s += " warm"
	} else {
		s += " cold"
	}
	if p.Prep {
		s += " prep"
	}
	return s
}

type outcome struct {
	probes  []probeRec
	obs     [][]string
	sch     *sched.Exec
	dump    string
	schemas string
	leaks   string
}

var dsnCounter int

func openEnv(p Program) (*gorm.DB, *h.Env) {
	cfg := &gorm.Config{Logger: logger.Discard, SkipDefaultTransaction: true, DisableAutomaticPing: true, PrepareStmt: p.Prep}
	if os.Getenv("VERIF_C07_SQL") != "" { // replay aid: print every statement
		cfg.Logger = logger.New(log.New(os.Stdout, "SQL ", 0), logger.Config{LogLevel: logger.Info})
	}
	clock := new(int64)
	cfg.NowFunc = h.CounterClock(clock)
	if p.Mode == "dry" {
		cfg.DryRun = true
		db, err := gorm.Open(h.DryDialector{Quote: '`'}, cfg)
		if err != nil {
			panic(err)
		}
		installProbe(db)
		return db, nil
	}
	rec := &recsqlite.Recorder{}
	rec.Pause() // no recording needed
	dsnCounter++
	dsn := fmt.Sprintf("file:c07mem%d_%d?mode=memory&cache=shared", os.Getpid(), dsnCounter)
	sqldb := recsqlite.OpenDSNPragmas(rec, dsn, "PRAGMA read_uncommitted = 1")
	db, err := gorm.Open(sqlite.New(sqlite.Config{Conn: sqldb}), cfg)
	if err != nil {
		panic(err)
	}
	installProbe(db)
	env := &h.Env{DB: db, SQL: sqldb, Rec: rec, Clock: clock}
	for _, s := range strings.Split(ddl, ";") {
		if strings.TrimSpace(s) != "" {
			if _, err := sqldb.Exec(s); err != nil {
				panic(err)
			}
		}
	}
	for _, s := range seedSQL() {
		if _, err := sqldb.Exec(s); err != nil {
			panic(err)
		}
	}
	return db, env
}

var allModels = []interface{}{&User{}, &Company{}, &Shelter{}, &Vault{}, &Owner{}, &Part{}, &Doc{}, &Pet{}, &Language{}, &Toy{}, &Gadget{}, &Plain{}}

// dumpSchemas renders what later operations can observe of the cached schemas.
func dumpSchemas(db *gorm.DB) string {
	var sb strings.Builder
	for _, m := range allModels {
		stmt := &gorm.Statement{DB: db}
		if err := stmt.Parse(m); err != nil {
			fmt.Fprintf(&sb, "%T: ERR %v\n", m, err)
			continue
		}
		s := stmt.Schema
		fmt.Fprintf(&sb, "%s table=%s pk=%v dbnames=%v\n", s.Name, s.Table, s.PrimaryFieldDBNames, s.DBNames)
		for _, f := range s.Fields {
			fmt.Fprintf(&sb, "  F %s db=%s type=%s/%s size=%d pk=%v\n", f.Name, f.DBName, f.DataType, f.GORMDataType, f.Size, f.PrimaryKey)
		}
		var names []string
		for n := range s.FieldsByName {
			names = append(names, n)
		}
		sort.Strings(names)
		fmt.Fprintf(&sb, "  byName=%v\n", names)
		names = names[:0]
		for n, r := range s.Relationships.Relations {
			refs := []string{}
			for _, rf := range r.References {
				pk, fk := "", ""
				if rf.PrimaryKey != nil {
					pk = rf.PrimaryKey.Schema.Table + "." + rf.PrimaryKey.DBName
				}
				if rf.ForeignKey != nil {
					fk = rf.ForeignKey.Schema.Table + "." + rf.ForeignKey.DBName
				}
				refs = append(refs, fmt.Sprintf("%s<-%s own=%v val=%s", pk, fk, rf.OwnPrimaryKey, rf.PrimaryValue))
			}
			jt := ""
			if r.JoinTable != nil {
				jt = r.JoinTable.Table
			}
			names = append(names, fmt.Sprintf("%s:%s->%s refs=%v jt=%s", n, r.Type, r.FieldSchema.Table, refs, jt))
		}
		sort.Strings(names)
		for _, n := range names {
			fmt.Fprintf(&sb, "  R %s\n", n)
		}
		fmt.Fprintf(&sb, "  clauses query=%d update=%d delete=%d create=%d\n", len(s.QueryClauses), len(s.UpdateClauses), len(s.DeleteClauses), len(s.CreateClauses))
		fmt.Fprintf(&sb, "  hasOne=%d hasMany=%d belongsTo=%d m2m=%d\n", len(s.Relationships.HasOne), len(s.Relationships.HasMany), len(s.Relationships.BelongsTo), len(s.Relationships.Many2Many))
	}
	return sb.String()
}

var _ = schema.Parse
var _ = reflect.TypeOf

// writes reports whether a program writes to the database (real mode): then no
// thread may be parked inside a scan (open cursor / RETURNING table lock).
func (p Program) writes() bool {
	if p.Mode != "real" {
		return false
	}
	for _, t := range p.Threads {
		if strings.ContainsAny(t, "KUD") {
			return true
		}
	}
	return false
}

func runOne(p Program, x *mc.Exec, keepLog bool, serial bool) *outcome {
	verifshim.PoolPoints = !p.writes()
	db, env := openEnv(p)
	var warm *sched.Exec
	if p.Warm {
		warmup := func() {
			for _, m := range allModels {
				stmt := &gorm.Statement{DB: db}
				stmt.Parse(m)
			}
		}
		if serial {
			warmup()
		} else {
			// under the scheduler (default schedule) so that its model learns
			// which channels the warm-up closed
			warm = sched.Run(mc.NewExec(nil), 20000, false, warmup)
		}
	}
	out := &outcome{obs: make([][]string, len(p.Threads))}
	var wg sync.WaitGroup
	bodies := make([]func(), len(p.Threads))
	for ti := range p.Threads {
		ti := ti
		bodies[ti] = func() {
			defer wg.Done()
			for i := 0; i < len(p.Threads[ti]); i++ {
				var o string
				func() {
					o = ops[p.Threads[ti][i]](db, ti)
				}()
				out.obs[ti] = append(out.obs[ti], o)
			}
		}
	}
	wg.Add(len(bodies))
	if serial {
		// reference run: the threads one after the other, no scheduler
		for _, b := range bodies {
			b()
		}
		out.sch = &sched.Exec{}
	} else {
		out.sch = sched.RunAfter(warm, x, 20000, keepLog, bodies...)
		if out.sch.Deadlock || out.sch.Overrun {
			// aborted threads never called Done
			return finish(p, db, env, out, false)
		}
		for _, t := range out.sch.Threads {
			if t.Panic != nil {
				return finish(p, db, env, out, false)
			}
		}
	}
	wg.Wait() // real synchronisation: orders the oracle's reads after the threads' writes
	return finish(p, db, env, out, true)
}

func finish(p Program, db *gorm.DB, env *h.Env, out *outcome, complete bool) *outcome {
	if complete {
		out.schemas = dumpSchemas(db)
	}
	if env != nil {
		if complete {
			out.leaks = env.Leaks()
			out.dump = env.Dump(allTables...)
		}
		env.SQL.Close()
	}
	return out
}

type Replay struct {
	Program Program  `json:"program"`
	Choices []int    `json:"choices"`
	Trace   []string `json:"trace"`
	Race    string   `json:"race_report,omitempty"`
}

type verdict struct {
	kind, msg string
	tags      []string
}

func judge(p Program, o, ref *outcome) []verdict {
	var vs []verdict
	add := func(kind string, format string, a ...interface{}) {
		vs = append(vs, verdict{kind: kind, msg: fmt.Sprintf(format, a...)})
	}
	if o.sch.Deadlock {
		add("deadlock", "deadlock: %s", o.sch.BlockedDesc)
		return vs
	}
	if o.sch.Overrun {
		add("livelock-suspicion", "step horizon exceeded")
		return vs
	}
	for _, t := range o.sch.Threads {
		if t.Panic != nil {
			add("panic", "thread %s panicked: %v\n%s", t.Name, t.Panic, firstLines(t.Stack, 30))
			return vs
		}
	}
	for ti := range o.obs {
		for i := range o.obs[ti] {
			if i < len(ref.obs[ti]) && o.obs[ti][i] != ref.obs[ti][i] {
				add("result-differs-from-serial-run", "thread %d op %d (%c):\n  concurrent: %s\n  alone     : %s", ti, i, p.Threads[ti][i], o.obs[ti][i], ref.obs[ti][i])
			}
		}
	}
	if o.dump != ref.dump {
		add("rows-differ-from-serial-run", "final rows differ:\n%s\n--- serial:\n%s", o.dump, ref.dump)
	}
	if o.schemas != ref.schemas {
		add("schema-cache-differs-from-serial-run", "cached schemas differ from the serial run:\n%s", diffLines(o.schemas, ref.schemas))
	}
	if o.leaks != "" {
		add("leak", "%s", o.leaks)
	}
	return vs
}

// scheduleTags: the one known logical finding of the unchanged tree is keyed by
// the schedule. A `Joins("Owner")` query (op Q) loses the relation's soft-delete
// filter when it obtains Owner's schema through getOrParse after another thread
// published it (LoadOrStore) but before that thread has run its field loop —
// i.e. the publisher has executed at most one further scheduling step when the
// Q thread finishes. If the publisher is further along (e.g. inside relation
// parsing) the filter must be there: such executions are NOT tagged.
func scheduleTags(p Program, v verdict, o *outcome) []string {
	if v.kind != "result-differs-from-serial-run" || !strings.Contains(v.msg, "(Q)") || o == nil || o.sch == nil {
		return nil
	}
	var qThread int
	if _, err := fmt.Sscanf(v.msg, "thread %d op", &qThread); err != nil {
		return nil
	}
	// The replay ran with the probe. The recorded window of the unchanged tree:
	// another thread published Owner's schema (LoadOrStore) and has made at most
	// one further step - it is still before or inside its field loop - when this
	// thread builds a join from that schema, which has no query clauses yet. A
	// wider window (clauses still missing after the publisher moved on) is not
	// the recorded finding.
	ownerKey := verifshim.KeyID(reflect.TypeOf(Owner{}))
	log := o.sch.Log
	pub, pubThread := -1, -1
	for i, st := range log {
		if st.Op == sched.OpMapLoadOrStore && st.Arg == ownerKey {
			pub, pubThread = i, st.Thread
			break
		}
	}
	if pub < 0 || pubThread == qThread {
		return nil
	}
	for _, pr := range o.probes {
		if pr.thread != qThread || pr.ownerQueryClauses != 0 {
			continue
		}
		progress := 0
		for i := pub + 1; i < len(log) && i < pr.at; i++ {
			if log[i].Thread == pubThread {
				progress++
			}
		}
		if progress <= 1 {
			return []string{"cold-softdelete-join-reads-owner-schema-before-its-field-loop"}
		}
	}
	return nil
}

// probeRun replays a schedule with the probe callback registered.
func probeRun(p Program, choices []int) *outcome {
	probing, probeLog = true, nil
	o := runOne(p, mc.NewExec(choices), true, false)
	o.probes, probing, probeLog = probeLog, false, nil
	return o
}

func firstLines(s string, n int) string {
	ls := strings.Split(s, "\n")
	if len(ls) > n {
		ls = ls[:n]
	}
	return strings.Join(ls, "\n")
}

func diffLines(a, b string) string {
	as, bs := strings.Split(a, "\n"), strings.Split(b, "\n")
	inB := map[string]int{}
	for _, l := range bs {
		inB[l]++
	}
	inA := map[string]int{}
	for _, l := range as {
		inA[l]++
	}
	var out []string
	for _, l := range as {
		if inB[l] == 0 {
			out = append(out, "+ "+l)
		}
	}
	for _, l := range bs {
		if inA[l] == 0 {
			out = append(out, "- "+l)
		}
	}
	if len(out) > 20 {
		out = out[:20]
	}
	return strings.Join(out, "\n")
}

func fingerprint(o *outcome) string {
	return fmt.Sprintf("%v|%d|%v|%v", o.obs, len(o.dump), o.sch.Deadlock, len(o.schemas))
}

// ---------------------------------------------------------------------------

func programs(tier string, race bool) []Program {
	var ps []Program
	seen := map[string]bool{}
	add := func(p Program) {
		th := append([]string{}, p.Threads...)
		sort.Strings(th)
		p.Threads = th
		k := fmt.Sprint(p)
		if !seen[k] {
			seen[k] = true
			ps = append(ps, p)
		}
	}
	single := []string{"J", "P", "C", "N", "K", "U", "D", "A", "G", "L", "F", "H", "O", "Q"}
	b2, b3 := 2, 1
	if tier == "thorough" {
		b2, b3 = 3, 2
	}
	if race {
		b2, b3 = 1, 1
		if tier == "thorough" {
			b2, b3 = 2, 1
		}
	}
	for _, mode := range []string{"dry", "real"} {
		for i, a := range single {
			for _, b := range single[i:] {
				add(Program{Threads: []string{a, b}, Mode: mode, Bound: b2})
			}
		}
	}
	// warm cache and prepared statements: a few representative pairs
	for _, pr := range [][]string{{"J", "P"}, {"K", "C"}, {"P", "P"}, {"A", "N"}, {"U", "D"}} {
		add(Program{Threads: pr, Mode: "real", Warm: true, Bound: b2})
		add(Program{Threads: pr, Mode: "real", Prep: true, Bound: b2})
		add(Program{Threads: pr, Mode: "real", Prep: true, Warm: true, Bound: b2})
	}
	add(Program{Threads: []string{"V", "V"}, Mode: "real", Bound: b2})
	add(Program{Threads: []string{"V", "V"}, Mode: "real", Warm: true, Bound: b2})
	add(Program{Threads: []string{"VV", "V"}, Mode: "real", Bound: b3})
	add(Program{Threads: []string{"V", "G"}, Mode: "real", Bound: b2})
	add(Program{Threads: []string{"S", "S"}, Mode: "real", Bound: b2})
	add(Program{Threads: []string{"S", "L"}, Mode: "real", Bound: b2})
	// two operations per thread
	for _, pr := range [][]string{{"JP", "CK"}, {"PU", "NJ"}, {"KF", "CA"}, {"GL", "FJ"}} {
		add(Program{Threads: pr, Mode: "dry", Bound: b3})
		add(Program{Threads: pr, Mode: "real", Bound: b3})
	}
	// three threads
	three := [][]string{{"O", "Q", "Q"}, {"H", "P", "N"}, {"J", "C", "P"}, {"P", "N", "K"}, {"J", "J", "J"}, {"C", "F", "A"}, {"K", "C", "N"}, {"G", "L", "J"}, {"P", "P", "C"}, {"U", "D", "P"}}
	for _, t := range three {
		add(Program{Threads: t, Mode: "dry", Bound: b3})
		add(Program{Threads: t, Mode: "real", Bound: b3})
	}
	if tier == "thorough" && !race {
		add(Program{Threads: []string{"J", "C", "P", "N"}, Mode: "dry", Bound: 1})
		add(Program{Threads: []string{"K", "C", "A", "F"}, Mode: "real", Bound: 1})
	}
	return ps
}

func main() {
	args := mc.ParseArgs()
	run := mc.NewRun("C07", args.Tier, "model_checking")
	if !sched.Instrumented {
		fmt.Fprintln(os.Stderr, "HARNESS-ERROR: binary built without the instrumentation overlay")
		os.Exit(3)
	}
	if sched.RaceBuild {
		runtime.GOMAXPROCS(1)
	} else {
		runtime.GOMAXPROCS(2)
	}
	if args.Replay != "" {
		var rp Replay
		if err := mc.LoadReplay(args.Replay, &rp); err != nil {
			fmt.Fprintln(os.Stderr, err)
			os.Exit(3)
		}
		ref := runOne(rp.Program, mc.NewExec(nil), false, true)
		x := mc.NewExec(rp.Choices)
		o := runOne(rp.Program, x, true, false)
		fmt.Printf("program %s\nschedule (non-default choices): %v\n", rp.Program, x.Trace())
		for _, l := range o.sch.LogStrings() {
			fmt.Println("  ", l)
		}
		for ti, os_ := range o.obs {
			for i, ob := range os_ {
				fmt.Printf("T%d op%d: %s\n", ti, i, ob)
			}
		}
		vs := judge(rp.Program, o, ref)
		if len(vs) > 0 {
			o2 := probeRun(rp.Program, rp.Choices)
			for i := range vs {
				vs[i].tags = scheduleTags(rp.Program, vs[i], o2)
			}
		}
		for _, v := range vs {
			fmt.Printf("VERDICT %s: %s\n", v.kind, v.msg)
			run.Violation(v.tags, v.kind+"\n"+v.msg, rp)
		}
		if rp.Race != "" {
			fmt.Println("race report recorded with this schedule (re-run the -race build to reproduce):\n" + rp.Race)
		}
		if run.NumViolations() > 0 {
			os.Exit(1)
		}
		return
	}
	if mc.IsShardChild() {
		run.ChildMode()
		child(run, args)
		return
	}
	nproc := 16
	budget := 60 * time.Second
	if args.Tier == "thorough" {
		budget = 8 * time.Minute
	}
	if b := os.Getenv("VERIF_BUDGET_S"); b != "" {
		var n int
		fmt.Sscan(b, &n)
		budget = time.Duration(n) * time.Second
	}
	os.Setenv("VERIF_DEADLINE", fmt.Sprint(time.Now().Add(budget).Unix()))
	m := mc.RunShards(run, nproc)
	cov := map[string]interface{}{}
	// second pass: the race build of the same harness
	raceBin := os.Getenv("VERIF_RACE_BIN")
	var rm *mc.ShardOut
	if raceBin != "" {
		os.Setenv("VERIF_DEADLINE", fmt.Sprint(time.Now().Add(budget).Unix()))
		logdir := filepath.Join(mc.Root(), ".work", fmt.Sprintf("race-c07-%d", os.Getpid()))
		os.MkdirAll(logdir, 0o755)
		rm = mc.RunShardsBin(run, nproc, raceBin, []string{"GORACE=halt_on_error=0 exitcode=0 log_path=" + filepath.Join(logdir, "race"), "VERIF_RACE_LOG=" + filepath.Join(logdir, "race")})
		os.RemoveAll(logdir) // Finish exits the process: no defer
		cov["race_build_executions"] = rm.Counters["executions"]
		cov["race_reports_total"] = rm.Counters["race_reports"]
		cov["race_pairs_in_gorm"] = rm.Sets["race_pairs"]
		cov["race_reports_outside_gorm_ignored"] = rm.Counters["race_reports_ignored"]
		cov["race_build_programs_capped"] = rm.Counters["capped_programs"]
	} else {
		run.HarnessError("race build missing (VERIF_RACE_BIN not set)")
	}
	if m.Counters["nv_parse_overlap"] == 0 && run.NumViolations() == 0 {
		run.HarnessError("vacuous: no schedule had two threads inside schema parsing at the same time")
	}
	run.Assume("database/sql, the SQLite driver and reflection are atomic steps; scheduling points at every sync.Map/RWMutex/channel/go operation of the instrumented gorm files (statement.go's per-statement Settings excluded)")
	run.Assume("2-4 goroutines, preemption-bounded; SQLite shared-cache in-memory database with read_uncommitted and SkipDefaultTransaction (no connection is held across a scheduling point); concurrent Transaction blocks on the same tables are outside the alphabet")
	run.Assume("races are judged by the Go race detector (happens-before) on every schedule explored by the -race build; hardware reorderings below the Go memory model are not modelled")
	exhaustive := m.Counters["capped_programs"] == 0 && (rm == nil || rm.Counters["capped_programs"] == 0)
	cov["states"] = m.Counters["executions"]
	cov["transitions"] = m.Counters["points"]
	cov["traces_validated_against_impl"] = m.Counters["executions"]
	cov["evaluations"] = m.Counters["executions"]
	cov["distinct_nontrivial"] = len(m.Sets["outcomes"])
	cov["rule"] = "every schedule of every program within its preemption bound is executed on the instrumented implementation (normal build), and again under the -race build at a lower bound; states = complete executions, transitions = scheduling points; distinct_nontrivial = distinct outcome fingerprints"
	cov["samples"] = m.Samples
	cov["programs"] = m.Counters["programs"]
	cov["programs_capped_by_deadline"] = m.Counters["capped_programs"]
	cov["exhaustive"] = exhaustive
	cov["max_points_per_execution"] = m.Max["max_depth"]
	cov["executions_with_overlapping_schema_parse"] = m.Counters["nv_parse_overlap"]
	cov["executions_with_blocked_waiter"] = m.Counters["nv_waiter_blocked"]
	cov["deadlocks"] = m.Counters["deadlocks"]
	run.Finish(cov)
}

func child(run *mc.Run, args mc.Args) {
	out := mc.NewShardOut()
	var deadline time.Time
	if d := os.Getenv("VERIF_DEADLINE"); d != "" {
		var u int64
		fmt.Sscan(d, &u)
		deadline = time.Unix(u, 0)
	}
	ps := programs(args.Tier, sched.RaceBuild)
	if only := os.Getenv("VERIF_C07_ONLY"); only != "" {
		var f []Program
		for _, p := range ps {
			if strings.HasPrefix(p.String(), only) {
				f = append(f, p)
			}
		}
		ps = f
	}
	out.Counters["programs"] = 0
	var rl *racelog.Log
	if sched.RaceBuild {
		rl = racelog.New(os.Getenv("VERIF_RACE_LOG"))
		// model callbacks live in callbacks.go: gorm calls them, so an access made there is attributed to the calling gorm statement
		rl.Transparent = []string{"/engine/c07/callbacks.go"}
	}
	outcomes := map[string]bool{}
	const sub = 4
	item := 0
	for _, p := range ps {
		var ref *outcome
		for k := 0; k < sub; k++ {
			item++
			if item%args.Shards != args.Shard {
				continue
			}
			if k == 0 {
				out.Counters["programs"]++
			}
			p := p
			if ref == nil {
				ref = runOne(p, mc.NewExec(nil), false, true)
				if rl != nil {
					rl.Drain() // reports of the serial run (none expected) are not attributed
				}
			}
			e := &mc.Explorer{Bound: p.Bound, Workers: 1, Shard: k, Shards: sub, ShardDepth: 2, Deadline: deadline}
			e.Run = func(x *mc.Exec) interface{} { return runOne(p, x, false, false) }
			e.Check = func(x *mc.Exec, obs interface{}) {
				o := obs.(*outcome)
				fp := fingerprint(o)
				if len(outcomes) < 20000 {
					outcomes[fp] = true
				}
				if o.sch.SawBlocked[sched.OpRecv] {
					out.Counters["nv_waiter_blocked"]++
				}
				if parseOverlap(o.sch) {
					out.Counters["nv_parse_overlap"]++
				}
				if o.sch.Deadlock {
					out.Counters["deadlocks"]++
				}
				if rl != nil {
					for _, rep := range rl.Drain() {
						out.Counters["race_reports"]++
						pair, ok := rep.Pair()
						if !ok {
							out.Counters["race_reports_ignored"]++
							continue
						}
						if !contains(out.Sets["race_pairs"], pair) {
							out.Sets["race_pairs"] = append(out.Sets["race_pairs"], pair)
						}
						run.Violation([]string{"race:" + pair}, "data-race\n"+p.String()+"\n"+pair+"\n"+rep.Text,
							Replay{Program: p, Choices: x.ChoiceInts(), Trace: x.Trace(), Race: rep.Text})
					}
				}
				vs := judge(p, o, ref)
				if len(vs) > 0 {
					// tags are computed from the schedule (point log) of a replay of this execution
					o2 := probeRun(p, x.ChoiceInts())
					if rl != nil {
						rl.Drain()
					}
					for i := range vs {
						vs[i].tags = scheduleTags(p, vs[i], o2)
					}
				}
				for _, v := range vs {
					run.Violation(v.tags, v.kind+"\n"+p.String()+"\n"+v.msg, Replay{Program: p, Choices: x.ChoiceInts(), Trace: x.Trace()})
				}
			}
			e.Explore()
			out.Counters["executions"] += e.Owned
			out.Counters["points"] += e.PointsTotal
			if e.MaxDepth > out.Max["max_depth"] {
				out.Max["max_depth"] = e.MaxDepth
			}
			if e.Capped {
				out.Counters["capped_programs"]++
			}
			if e.Diverged > 0 {
				run.HarnessError("replay divergence in program %s: %s", p, e.FirstDivergence)
			}
			if os.Getenv("VERIF_DEBUG") != "" {
				fmt.Fprintf(os.Stderr, "program %s sub %d: owned=%d perlevel=%v depth=%d capped=%v\n", p, k, e.Owned, e.PerLevel, e.MaxDepth, e.Capped)
			}
			if k == 0 && len(out.Samples) < 2 {
				out.Samples = append(out.Samples, map[string]interface{}{"program": p.String(), "bound": p.Bound, "executions_in_subtree": e.Owned})
			}
		}
	}
	for fp := range outcomes {
		out.Sets["outcomes"] = append(out.Sets["outcomes"], fp)
	}
	run.FinishShard(out)
}

func contains(l []string, s string) bool {
	for _, x := range l {
		if x == s {
			return true
		}
	}
	return false
}

// parseOverlap: some thread was switched out while another had not finished —
// approximated by "at least one preemption or blocked waiter happened while
// both threads still had schema-cache operations ahead"; measured simply as
// executions with a preemption in which Map operations of two threads interleave.
func parseOverlap(e *sched.Exec) bool {
	return e.Preemptions > 0
}
