// Package h: helpers shared by the harnesses — opening gorm on the recording
// SQLite driver with all nondeterminism owned (counter clock, discard logger,
// fresh in-memory database), canonical table dumps, and DryRun dialectors.
package h

import (
	"database/sql"
	"fmt"
	"sort"
	"strings"
	"sync/atomic"
	"time"

	"gorm.io/driver/sqlite"
	"gorm.io/gorm"
	"gorm.io/gorm/callbacks"
	"gorm.io/gorm/clause"
	"gorm.io/gorm/logger"
	"gorm.io/gorm/schema"

	"verif/drivers/recsqlite"
)

type Env struct {
	DB    *gorm.DB
	SQL   *sql.DB
	Rec   *recsqlite.Recorder
	Clock *int64
}

// Epoch is the start of the counter clock.
var Epoch = time.Date(2020, 1, 2, 3, 4, 5, 0, time.UTC)

// CounterClock returns a NowFunc that advances one second per call.
func CounterClock(c *int64) func() time.Time {
	return func() time.Time {
		n := atomic.AddInt64(c, 1)
		return Epoch.Add(time.Duration(n) * time.Second)
	}
}

// NoReturning wraps the sqlite dialector but registers the default callbacks
// without RETURNING support (LastInsertId path).
type NoReturning struct {
	gorm.Dialector
}

func (d NoReturning) Initialize(db *gorm.DB) error {
	if err := d.Dialector.Initialize(db); err != nil {
		return err
	}
	// re-register with clause lists that have no RETURNING
	db.Callback().Create().Replace("gorm:create", callbacks.Create(&callbacks.Config{LastInsertIDReversed: true}))
	db.Callback().Create().Clauses = []string{"INSERT", "VALUES", "ON CONFLICT"}
	db.Callback().Update().Clauses = []string{"UPDATE", "SET", "WHERE"}
	db.Callback().Delete().Clauses = []string{"DELETE", "FROM", "WHERE"}
	db.Callback().Update().Replace("gorm:update", callbacks.Update(&callbacks.Config{}))
	db.Callback().Delete().Replace("gorm:delete", callbacks.Delete(&callbacks.Config{}))
	return nil
}

// SavePoint / RollbackTo are forwarded (embedding the interface would hide them).
func (d NoReturning) SavePoint(tx *gorm.DB, name string) error {
	if sp, ok := d.Dialector.(gorm.SavePointerDialectorInterface); ok {
		return sp.SavePoint(tx, name)
	}
	return gorm.ErrUnsupportedDriver
}

func (d NoReturning) RollbackTo(tx *gorm.DB, name string) error {
	if sp, ok := d.Dialector.(gorm.SavePointerDialectorInterface); ok {
		return sp.RollbackTo(tx, name)
	}
	return gorm.ErrUnsupportedDriver
}

// Open opens gorm on a fresh in-memory SQLite database behind a recorder.
// cfg may be nil; Logger and NowFunc are always owned by the harness.
func Open(cfg *gorm.Config) *Env {
	return OpenWith(cfg, false)
}

func OpenWith(cfg *gorm.Config, noReturning bool) *Env {
	rec := &recsqlite.Recorder{}
	sqldb := recsqlite.Open(rec)
	var c gorm.Config
	if cfg != nil {
		c = *cfg
	}
	clock := new(int64)
	if c.Logger == nil {
		c.Logger = logger.Discard
	}
	if c.NowFunc == nil {
		c.NowFunc = CounterClock(clock)
	}
	rec.Pause()
	var d gorm.Dialector = sqlite.New(sqlite.Config{Conn: sqldb})
	if noReturning {
		d = NoReturning{d}
	}
	db, err := gorm.Open(d, &c)
	rec.Resume()
	if err != nil {
		panic(fmt.Sprintf("h.Open: %v", err))
	}
	return &Env{DB: db, SQL: sqldb, Rec: rec, Clock: clock}
}

func (e *Env) Close() { e.SQL.Close() }

// Quiet runs f with recording and fault injection suspended.
func (e *Env) Quiet(f func()) {
	e.Rec.Pause()
	defer e.Rec.Resume()
	f()
}

// MustExec runs raw SQL outside the recording.
func (e *Env) MustExec(q string, args ...interface{}) {
	e.Rec.Pause()
	defer e.Rec.Resume()
	if _, err := e.SQL.Exec(q, args...); err != nil {
		panic(fmt.Sprintf("MustExec %q: %v", q, err))
	}
}

// Leaks reports open transactions / checked-out connections.
func (e *Env) Leaks() string {
	var out []string
	if n := atomic.LoadInt32(&e.Rec.OpenTx); n != 0 {
		out = append(out, fmt.Sprintf("open driver transactions=%d", n))
	}
	if n := e.SQL.Stats().InUse; n != 0 {
		out = append(out, fmt.Sprintf("connections in use=%d", n))
	}
	return strings.Join(out, "; ")
}

func cell(v interface{}) string {
	switch t := v.(type) {
	case nil:
		return "NULL"
	case []byte:
		return fmt.Sprintf("b%q", string(t))
	case string:
		return fmt.Sprintf("%q", t)
	case time.Time:
		return "t" + t.UTC().Format(time.RFC3339Nano)
	case float64:
		return fmt.Sprintf("f%v", t)
	default:
		return fmt.Sprintf("%v", t)
	}
}

// DumpTable returns the rows of a table as canonical strings "col=val|…",
// sorted; an error (e.g. locked table) is returned as a single-row dump.
func (e *Env) DumpTable(table string) []string {
	e.Rec.Pause()
	defer e.Rec.Resume()
	return DumpTableOn(e.SQL, table)
}

type querier interface {
	Query(query string, args ...interface{}) (*sql.Rows, error)
}

func DumpTableOn(q querier, table string) []string {
	rows, err := q.Query("SELECT * FROM `" + table + "`")
	if err != nil {
		return []string{"ERROR " + err.Error()}
	}
	defer rows.Close()
	cols, _ := rows.Columns()
	var out []string
	for rows.Next() {
		vals := make([]interface{}, len(cols))
		ptrs := make([]interface{}, len(cols))
		for i := range vals {
			ptrs[i] = &vals[i]
		}
		if err := rows.Scan(ptrs...); err != nil {
			return []string{"ERROR " + err.Error()}
		}
		var sb strings.Builder
		for i, c := range cols {
			if i > 0 {
				sb.WriteByte('|')
			}
			sb.WriteString(c)
			sb.WriteByte('=')
			sb.WriteString(cell(vals[i]))
		}
		out = append(out, sb.String())
	}
	sort.Strings(out)
	return out
}

// Dump returns a canonical dump of several tables.
func (e *Env) Dump(tables ...string) string {
	var sb strings.Builder
	for _, t := range tables {
		sb.WriteString("## " + t + "\n")
		for _, r := range e.DumpTable(t) {
			sb.WriteString(r)
			sb.WriteByte('\n')
		}
	}
	return sb.String()
}

// Tables lists user tables.
func (e *Env) Tables() []string {
	e.Rec.Pause()
	defer e.Rec.Resume()
	rows, err := e.SQL.Query("SELECT name FROM sqlite_master WHERE type='table' AND name NOT LIKE 'sqlite_%' ORDER BY name")
	if err != nil {
		return nil
	}
	defer rows.Close()
	var out []string
	for rows.Next() {
		var n string
		rows.Scan(&n)
		out = append(out, n)
	}
	return out
}

// ---------------------------------------------------------------------------
// DryRun dialectors (no database): '?' and '$n' placeholder styles.

type DryDialector struct {
	Numbered bool // $1,$2… instead of ?
	Quote    byte // identifier quote character
}

func (d DryDialector) Name() string {
	if d.Numbered {
		return "drynum"
	}
	return "dryq"
}

func (d DryDialector) Initialize(db *gorm.DB) error {
	callbacks.RegisterDefaultCallbacks(db, &callbacks.Config{
		CreateClauses:        []string{"INSERT", "VALUES", "ON CONFLICT", "RETURNING"},
		UpdateClauses:        []string{"UPDATE", "SET", "FROM", "WHERE", "RETURNING"},
		DeleteClauses:        []string{"DELETE", "FROM", "WHERE", "RETURNING"},
		LastInsertIDReversed: true,
	})
	return nil
}

func (d DryDialector) DefaultValueOf(field *schema.Field) clause.Expression {
	return clause.Expr{SQL: "DEFAULT"}
}
func (d DryDialector) Migrator(*gorm.DB) gorm.Migrator { return nil }
func (d DryDialector) BindVarTo(writer clause.Writer, stmt *gorm.Statement, v interface{}) {
	if d.Numbered {
		writer.WriteByte('$')
		writer.WriteString(fmt.Sprint(len(stmt.Vars)))
	} else {
		writer.WriteByte('?')
	}
}
func (d DryDialector) QuoteTo(writer clause.Writer, str string) {
	q := d.Quote
	if q == 0 {
		q = '`'
	}
	// simple quoting: split on '.', double embedded quote characters
	parts := strings.Split(str, ".")
	for i, p := range parts {
		if i > 0 {
			writer.WriteByte('.')
		}
		if p == "*" {
			writer.WriteByte('*')
			continue
		}
		writer.WriteByte(q)
		for j := 0; j < len(p); j++ {
			if p[j] == q {
				writer.WriteByte(q)
			}
			writer.WriteByte(p[j])
		}
		writer.WriteByte(q)
	}
}
func (d DryDialector) Explain(sql string, vars ...interface{}) string {
	return logger.ExplainSQL(sql, nil, `"`, vars...)
}
func (d DryDialector) DataTypeOf(*schema.Field) string { return "" }

// OpenDry opens a DryRun gorm handle on a dialector without database.
func OpenDry(numbered bool, cfg *gorm.Config) *gorm.DB {
	var c gorm.Config
	if cfg != nil {
		c = *cfg
	}
	c.DryRun = true
	c.DisableAutomaticPing = true
	c.SkipDefaultTransaction = true
	if c.Logger == nil {
		c.Logger = logger.Discard
	}
	if c.NowFunc == nil {
		c.NowFunc = CounterClock(new(int64))
	}
	q := byte('`')
	if numbered {
		q = '"'
	}
	db, err := gorm.Open(DryDialector{Numbered: numbered, Quote: q}, &c)
	if err != nil {
		panic(err)
	}
	return db
}
